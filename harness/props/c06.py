"""C06 — all executable backends compute the same linkage.

Lean: there is ONE dialect-independent model per pipeline (Model/Blocking, Score, EM, Estimators, CC, MultiThreshold,
BlockingAnalysis — proved in C01..C05, C11, C14 and compared with each backend's real output by those checks).  What is
dialect-specific in Splink's SQL is recorded in the GENERATED table Generated/Dialects.lean (harness/translate/tdialect.py: the
dialect classes of /repo + every emitted function evaluated on the real backends); Properties/C06.lean proves over that table
that every emitted similarity/distance function has the same orientation on every executable dialect, the one the comparison
levels assume, and is NULL on NULL; that what DuckDB/SQLite emit really runs; that the infinity spellings denote +inf (with the
proved SQLite exception K6); and an elaboration-time walk shows no model/driver definition mentions a dialect type.
Tie: the SAME scenario (generators and run_impl of c01, c02, c03, c04, c05, c11, c14 + own full pipelines + every library
comparison creator both engines accept) is run on duckdb and sqlite (and spark in thorough) and the REAL outputs are compared
with one another; the underlying checks' oracles say which engine deviates.
Family "custom" (audit C06): custom SQL levels / blocking rules written in a DECLARED dialect (base_dialect_str / sql_dialect) equal to or
different from the backend; a naive per-dialect evaluator (the _sem_* functions) decides every level and rule on every record pair under the
declared dialect's meaning, each engine's real predict() / count_comparisons output is compared with that and the engines with one another.
"""
from __future__ import annotations

import json
import math
import random
import re

from harness import core, graphs
from harness.props import c01, c02, c03, c04, c05, c11, c14

PROP = "C06"
ENGINES = ["duckdb", "sqlite"]
W_REL, W_ABS = 1e-9, 1e-9      # Bayes factors, match weights
P_REL, P_ABS = 1e-9, 1e-12     # probabilities, directly estimated parameters
EM_REL, EM_ABS = 1e-7, 1e-12   # parameters after several EM iterations
UNSUPPORTED = re.compile(r"no such function|Function with name \S+ does not exist|UNRESOLVED_ROUTINE|NotImplementedError|is not supported|No function matches the given name", re.I)


def jr(x):
    """JSON round trip: what runs is exactly what a replay file would hold."""
    return json.loads(json.dumps(x))


# =========================================================================== own families: full pipeline, creators
FIRST = ["ann", "anne", "anna", "bob", "bobb", "rob", "cy", "dee", "dea"]
SUR = ["smith", "smyth", "jones", "jonas", "lee", "li", "brown"]
CITY = ["york", "bath", "hull"]


def gen_pipeline(rng: random.Random, spark_ok=False):
    k = rng.choice([1, 1, 2])
    link_type = "dedupe_only" if k == 1 else rng.choice(["link_only", "link_and_dedupe"])
    n_ent = rng.randint(4, 8)
    ents = [{"first_name": rng.choice(FIRST), "surname": rng.choice(SUR), "city": rng.choice(CITY), "age": rng.randint(20, 60)} for _ in range(n_ent)]
    tables, uid = [], 0
    for _ in range(k):
        rows = []
        for _ in range(rng.randint(10, 16)):
            uid += 1
            e = dict(rng.choice(ents))
            if rng.random() < 0.3:
                e["first_name"] = rng.choice(FIRST)
            if rng.random() < 0.2:
                e["surname"] = rng.choice(SUR)
            if rng.random() < 0.2:
                e["age"] += rng.choice([-2, -1, 1, 2, 7])
            if rng.random() < 0.15:
                e["city"] = rng.choice(CITY)
            for col in ("first_name", "surname", "city", "age"):
                if rng.random() < 0.08:
                    e[col] = None
                elif col != "age" and rng.random() < 0.04:
                    e[col] = ""  # a value, not a NULL, on every engine
            rows.append(dict(unique_id=uid, **e))
        tables.append(rows)
    return {
        "link_type": link_type, "tables": tables, "tf": rng.random() < 0.8,
        # Jaro-Winkler needs the Scala UDF jar on Spark: levenshtein-only variant there
        "surname_cmp": "lev" if spark_ok else rng.choice(["lev", "jw", "dl"]),
        "recall": rng.choice([0.6, 0.8, 1.0]), "em_sessions": rng.choice([1, 2]), "thr": rng.choice([0.5, 0.9, 0.2]),
        # few iterations: on tables this small a long EM run drives some m to exactly 0 and BOTH engines then raise on log2(0)
        "max_iter": rng.choice([2, 4, 6]), "shuffle": rng.randrange(1 << 30), "tag": "pipeline",
        # how every blocking rule of the scenario (prediction, prior, EM, analysis) is handed over; "declared": CustomRule(sql, sql_dialect=<this>)
        "rule_form": rng.choice(["str", "str", "block_on", "dict", "salted:2", "salted:3", "declared:duckdb", "declared:sqlite", "declared:spark"]),
        "prerender": rng.random() < 0.25,
    }


def pipeline_frames(case):
    from harness import impl

    rng = random.Random(case.get("shuffle", 0))
    out = []
    for rows in case["tables"]:
        rows = list(rows)
        rng.shuffle(rows)
        out.append(impl.typed_frame(rows, {"unique_id": "int", "first_name": "str", "surname": "str", "city": "str", "age": "int"}))
    return out


PIPE_RULES = ["l.first_name = r.first_name", "l.surname = r.surname", "l.city = r.city and l.age = r.age"]


def pipe_rule(case, sql):
    """The same plain equality rule in the form the scenario asks for (every form means the same on every engine)."""
    import splink.blocking_rule_library as brl

    form = case.get("rule_form", "str")
    if form == "str":
        return sql
    if form == "dict":
        return {"blocking_rule": sql}
    if form == "block_on":
        return brl.block_on(*re.findall(r"l\.(\w+) = r\.\1", sql))
    if form.startswith("salted:"):
        return {"blocking_rule": sql, "salting_partitions": int(form.split(":")[1])}  # salting only partitions the work: the same pairs
    return brl.CustomRule(sql, sql_dialect=form.split(":")[1])


def pipeline_settings(case):
    import splink.comparison_level_library as cll
    import splink.comparison_library as cl
    from splink import SettingsCreator

    sur = {"lev": lambda: cl.LevenshteinAtThresholds("surname", [1]), "jw": lambda: cl.JaroWinklerAtThresholds("surname", [0.9]),
           "dl": lambda: cl.DamerauLevenshteinAtThresholds("surname", [1])}[case["surname_cmp"]]()
    comps = [
        cl.LevenshteinAtThresholds("first_name", [1, 2]).configure(term_frequency_adjustments=case["tf"]),
        sur,
        cl.ExactMatch("city").configure(term_frequency_adjustments=case["tf"]),
        cl.CustomComparison(output_column_name="age", comparison_levels=[cll.NullLevel("age"), cll.ExactMatchLevel("age"), cll.AbsoluteDifferenceLevel("age", 2), cll.ElseLevel()]),
    ]
    return SettingsCreator(link_type=case["link_type"], comparisons=comps, blocking_rules_to_generate_predictions=[pipe_rule(case, r) for r in PIPE_RULES],
                           retain_matching_columns=True, retain_intermediate_calculation_columns=True, max_iterations=case["max_iter"], em_convergence=0.001)


def run_pipeline(case: dict) -> dict:
    from splink import Linker
    from splink.internals.blocking_analysis import count_comparisons_from_blocking_rule, cumulative_comparisons_to_be_scored_from_blocking_rules_data

    from harness import impl

    api = impl.make_api(case["engine"], threads=2)
    frames = pipeline_frames(case)
    k = len(frames)
    settings = pipeline_settings(case)
    if case.get("prerender"):  # the same settings object rendered for the other dialects first
        for d in ("spark", "sqlite", "duckdb"):
            if d != case["engine"]:
                settings.get_settings(d)
    linker = Linker(frames[0] if k == 1 else frames, settings, api, input_table_aliases=None if k == 1 else c01.ALIASES[:k])
    out = {}
    linker.training.estimate_probability_two_random_records_match([pipe_rule(case, "l.first_name = r.first_name and l.surname = r.surname")], recall=case["recall"])
    out["prior"] = linker._settings_obj._probability_two_random_records_match
    linker.training.estimate_u_using_random_sampling(max_pairs=1e7)
    out["u"] = c03.dump_cms(linker._settings_obj.core_model_settings)
    out["em"] = []
    for rule in ["l.surname = r.surname", "l.first_name = r.first_name"][: case["em_sessions"]]:
        try:
            sess = linker.training.estimate_parameters_using_expectation_maximisation(pipe_rule(case, rule), fix_u_probabilities=True)
        except Exception as e:  # noqa: BLE001
            from splink.internals.exceptions import EMTrainingException

            if isinstance(e, EMTrainingException):
                out["em"].append({"no_pairs": True})
                break
            raise
        out["em"].append({"history": [c03.dump_cms(h) for h in sess._core_model_settings_history],
                          "after": c03.dump_cms(linker._settings_obj.core_model_settings)})
    df_predict = linker.inference.predict()
    multi = k > 1
    pred = {}
    for r in df_predict.as_record_dict():
        key = f"{r.get('source_dataset_l', '')}|{r['unique_id_l']}|{r.get('source_dataset_r', '')}|{r['unique_id_r']}"
        pred[key] = {c: v for c, v in r.items() if c.startswith(("gamma_", "bf_", "tf_", "match_"))}
    out["predict"] = pred
    cl_rows = linker.clustering.cluster_pairwise_predictions_at_threshold(df_predict, threshold_match_probability=case["thr"]).as_record_dict()
    out["clusters"] = {f"{r.get('source_dataset', '')}|{r['unique_id']}": str(r["cluster_id"]) for r in cl_rows}
    kw = {"unique_id_column_name": "unique_id"}
    api2 = impl.make_api(case["engine"], threads=2)
    df = cumulative_comparisons_to_be_scored_from_blocking_rules_data(table_or_tables=pipeline_frames(case), blocking_rules=[pipe_rule(case, r) for r in PIPE_RULES], link_type=case["link_type"], db_api=api2, **kw)
    out["cumulative"] = [[int(r["match_key"]), int(r["row_count"]), int(r["cumulative_rows"]), float(r["cartesian"])] for r in df.to_dict(orient="records")]
    api3 = impl.make_api(case["engine"], threads=2)
    res = count_comparisons_from_blocking_rule(table_or_tables=pipeline_frames(case), blocking_rule=pipe_rule(case, PIPE_RULES[2]), link_type=case["link_type"], db_api=api3, **kw)
    out["count"] = [int(res["number_of_comparisons_generated_pre_filter_conditions"]), int(res["number_of_comparisons_to_be_scored_post_filter_conditions"])]
    out["multi"] = multi
    return out


# --------------------------------------------------------------------------- library comparison creators on a value grid
GRID = [
    {"unique_id": 1, "s": "martha", "s2": "jones", "d": "1990-01-15", "lat": 51.50, "lon": -0.12, "n": 100, "email": "martha@x.org", "pc": "AB1 2CD"},
    {"unique_id": 2, "s": "marhta", "s2": "jonas", "d": "1990-01-25", "lat": 51.51, "lon": -0.13, "n": 101, "email": "marhta@x.org", "pc": "AB1 2CE"},
    {"unique_id": 3, "s": "martha", "s2": "martha", "d": "1990-03-15", "lat": 52.20, "lon": 0.12, "n": 100, "email": "martha@y.org", "pc": "AB1 3XY"},
    {"unique_id": 4, "s": "jones", "s2": "martha", "d": "1991-01-15", "lat": 53.48, "lon": -2.24, "n": 120, "email": "jones@x.org", "pc": "AB2 9ZZ"},
    {"unique_id": 5, "s": "dwayne", "s2": "duane", "d": "2001-07-04", "lat": 40.71, "lon": -74.0, "n": 7, "email": "dw@z.com", "pc": "ZZ9 9ZZ"},
    {"unique_id": 6, "s": "duane", "s2": "dwayne", "d": "2001-07-05", "lat": -33.87, "lon": 151.2, "n": 0, "email": "dw@z.com", "pc": "ZZ9 9ZZ"},
    {"unique_id": 7, "s": "dixon", "s2": "dicksonx", "d": "not a date", "lat": 51.50, "lon": -0.12, "n": -3, "email": "none", "pc": "bad"},
    {"unique_id": 8, "s": "dicksonx", "s2": "dixon", "d": None, "lat": None, "lon": -0.12, "n": None, "email": None, "pc": None},
    {"unique_id": 9, "s": None, "s2": "jones", "d": "1990-01-15", "lat": 51.50, "lon": None, "n": 100, "email": "martha@x.org", "pc": "AB1 2CD"},
    {"unique_id": 10, "s": "", "s2": "", "d": "1989-12-31", "lat": 0.0, "lon": 0.0, "n": 1, "email": "", "pc": ""},
    # short values next to the empty string: edit distance('', 'al') = 2 and ('', 'b') = 1 are WITHIN the thresholds used below, so an engine
    # that treats '' as NULL in its similarity functions puts these pairs in another level than one that treats it as a value
    {"unique_id": 11, "s": "al", "s2": "b", "d": "1989-12-30", "lat": 0.0, "lon": 0.1, "n": 2, "email": "a@b.c", "pc": "A"},
    {"unique_id": 12, "s": "b", "s2": "al", "d": "1990-01-01", "lat": 0.1, "lon": 0.0, "n": 3, "email": "b@b.c", "pc": "B"},
    # a transposition with a further edit BETWEEN the transposed letters: the unrestricted Damerau-Levenshtein distance is 2, the restricted
    # one (optimal string alignment) 3 - backends must implement the same one
    {"unique_id": 13, "s": "ca", "s2": "johnson", "d": "1990-01-02", "lat": 0.2, "lon": 0.0, "n": 4, "email": "c@b.c", "pc": "C"},
    {"unique_id": 14, "s": "abc", "s2": "jonahson", "d": "1990-01-03", "lat": 0.0, "lon": 0.2, "n": 5, "email": "d@b.c", "pc": "D"},
]
for _r in GRID:
    _r["f"] = None if _r["n"] is None else _r["n"] + 0.5
ARRAY_CREATORS = {"PairwiseStringDistanceFunctionAtThresholds", "ArrayIntersectAtSizes"}  # get an `arr` column (never reaches SQLite: its dialect rejects them first)
CORPUS_ONLY_CREATORS: set = set()  # specimens that hit an unrepaired defect: kept as corpus cases only
GRID_TYPES = {"f": "float", "unique_id": "int", "s": "str", "s2": "str", "d": "str", "lat": "float", "lon": "float", "n": "int", "email": "str", "pc": "str"}


def creator_specs():
    import splink.comparison_level_library as cll
    import splink.comparison_library as cl
    from splink import ColumnExpression

    return {
        "ExactMatch": lambda: cl.ExactMatch("s"),
        "ExactMatch(lower)": lambda: cl.ExactMatch(ColumnExpression("s").lower()),
        "ExactMatch(substr)": lambda: cl.ExactMatch(ColumnExpression("s").substr(1, 3)),
        # the remaining ColumnExpression operations every dialect has, alone and chained
        "ExactMatch(nullif)": lambda: cl.ExactMatch(ColumnExpression("s").nullif("")),
        "ExactMatch(lower,substr,nullif)": lambda: cl.ExactMatch(ColumnExpression("s").lower().substr(1, 2).nullif("ma")),
        "ExactMatch(cast_to_string)": lambda: cl.ExactMatch(ColumnExpression("n").cast_to_string()),
        "LevenshteinAtThresholds(cast_to_string)": lambda: cl.LevenshteinAtThresholds(ColumnExpression("n").cast_to_string(), [1, 2]),
        "LevenshteinAtThresholds": lambda: cl.LevenshteinAtThresholds("s", [1, 2]),
        "DamerauLevenshteinAtThresholds": lambda: cl.DamerauLevenshteinAtThresholds("s", [1, 2]),
        "JaccardAtThresholds": lambda: cl.JaccardAtThresholds("s", [0.9, 0.5]),
        "JaroAtThresholds": lambda: cl.JaroAtThresholds("s", [0.9, 0.7]),
        "JaroWinklerAtThresholds": lambda: cl.JaroWinklerAtThresholds("s", [0.9, 0.7]),
        "DistanceFunctionAtThresholds": lambda: cl.DistanceFunctionAtThresholds("s", "levenshtein", [1, 2], higher_is_more_similar=False),
        "PairwiseStringDistanceFunctionAtThresholds": lambda: cl.PairwiseStringDistanceFunctionAtThresholds("arr", "levenshtein", [1, 2]),
        "AbsoluteTimeDifferenceAtThresholds": lambda: cl.AbsoluteTimeDifferenceAtThresholds("d", input_is_string=True, metrics=["day", "month"], thresholds=[15, 3]),
        "AbsoluteDateDifferenceAtThresholds": lambda: cl.AbsoluteDateDifferenceAtThresholds("d", input_is_string=True, metrics=["day", "year"], thresholds=[15, 1]),
        "ArrayIntersectAtSizes": lambda: cl.ArrayIntersectAtSizes("arr", [1]),
        "DistanceInKMAtThresholds": lambda: cl.DistanceInKMAtThresholds("lat", "lon", [2, 200]),
        "CustomComparison": lambda: cl.CustomComparison(output_column_name="custom", comparison_levels=[
            cll.NullLevel("n"), cll.ExactMatchLevel("n"), cll.AbsoluteDifferenceLevel("n", 2), cll.ElseLevel()]),
        "CustomComparison(percentage,float)": lambda: cl.CustomComparison(output_column_name="pct", comparison_levels=[
            cll.NullLevel("f"), cll.ExactMatchLevel("f"), cll.PercentageDifferenceLevel("f", 0.25), cll.ElseLevel()]),
        # regression for /repo c25435e3: on an INTEGER column SQLite's `/` truncated, so the level held for every pair (also corpus/C06/D2_*)
        "CustomComparison(percentage,int)": lambda: cl.CustomComparison(output_column_name="pct", comparison_levels=[
            cll.NullLevel("n"), cll.ExactMatchLevel("n"), cll.PercentageDifferenceLevel("n", 0.25), cll.ElseLevel()]),
        "CustomComparison(reversed,literal)": lambda: cl.CustomComparison(output_column_name="custom2", comparison_levels=[
            cll.And(cll.NullLevel("s"), cll.NullLevel("s2")), cll.ExactMatchLevel("s"), cll.ColumnsReversedLevel("s", "s2"),
            cll.LiteralMatchLevel("s2", "jones", "string", "both"), cll.Or(cll.LevenshteinLevel("s2", 1), cll.Not(cll.NullLevel("n"))), cll.ElseLevel()]),
        "DateOfBirthComparison": lambda: cl.DateOfBirthComparison("d", input_is_string=True),
        "PostcodeComparison": lambda: cl.PostcodeComparison("pc"),
        "EmailComparison": lambda: cl.EmailComparison("email"),
        "NameComparison": lambda: cl.NameComparison("s"),
        "ForenameSurnameComparison": lambda: cl.ForenameSurnameComparison("s", "s2"),
        "CosineSimilarityAtThresholds": lambda: cl.CosineSimilarityAtThresholds("s", [0.9]),
    }


def library_creator_names():
    import inspect

    import splink.comparison_library as cl
    from splink.internals.comparison_creator import ComparisonCreator

    return sorted(n for n, o in vars(cl).items() if inspect.isclass(o) and issubclass(o, ComparisonCreator) and o is not ComparisonCreator and not n.startswith("_"))


def run_creator(case: dict) -> dict:
    from splink import Linker, SettingsCreator

    from harness import impl

    creator = creator_specs()[case["creator"]]()
    eng = case["engine"]
    if case.get("prerender"):
        # the SAME creator object is first rendered for every other dialect (as a user inspecting its SQL would do): what it
        # then produces for this engine must not remember any of them
        for d in ("spark", "postgres", "athena", "duckdb", "sqlite"):
            if d != eng:
                try:
                    creator.get_comparison(d)
                except Exception:  # noqa: BLE001  a dialect may refuse the creator
                    pass
    try:
        comparison = creator.get_comparison(eng)
        levels = [l.sql_condition for l in comparison.comparison_levels]
    except Exception as e:  # noqa: BLE001  the dialect refuses the creator: a loud "not supported", recorded as such
        if case.get("prerender"):
            try:
                creator_specs()[case["creator"]]().get_comparison(eng)
            except Exception:  # noqa: BLE001  a fresh object is refused as well: the dialect's own refusal
                pass
            else:
                # refused only after having been rendered for other dialects: the real code's failure, not a "not supported"
                raise
        return {"rejected": f"{type(e).__name__}: {str(e)[:200]}"}
    api = impl.make_api(eng, threads=2)
    rows = list(GRID)
    random.Random(case.get("shuffle", 0)).shuffle(rows)
    df = impl.typed_frame(rows, GRID_TYPES)
    if case["creator"] in ARRAY_CREATORS:
        df["arr"] = [[v for v in (r["s"], r["s2"]) if v is not None] for r in rows]
    settings = SettingsCreator(link_type="dedupe_only", comparisons=[creator], blocking_rules_to_generate_predictions=[], retain_matching_columns=True,
                               retain_intermediate_calculation_columns=True, probability_two_random_records_match=0.1)
    linker = Linker(df, settings, api)
    pred = {}
    for r in linker.inference.predict().as_record_dict():
        pred[f"{r['unique_id_l']}-{r['unique_id_r']}"] = {c: v for c, v in r.items() if c.startswith(("gamma_", "bf_", "match_"))}
    return {"rows": pred, "levels": levels}


# =========================================================================== own family: custom SQL with a DECLARED dialect
# CustomLevel(sql, base_dialect_str=D) / a level dict with "base_dialect_str" / CustomRule(sql, sql_dialect=D) / a rule dict with
# "sql_dialect" say: "this text is D's SQL".  Its meaning is then D's meaning of the text, on EVERY backend (Splink translates it from D
# to the backend's dialect; on backend D it is used verbatim).  Without a declared dialect the text is used verbatim everywhere, so the
# generator then only picks spellings that mean the same thing on every engine.
# The oracle is a naive Python evaluator of a handful of SQL idioms *per dialect* (`/` on two integers, concat() vs ||, NULL handling of
# greatest/least vs max/min, LIKE case sensitivity, position functions with differing names and argument order, ...): it decides each
# level / rule on each record pair under the DECLARED dialect's semantics and derives the expected scored pairs, match_keys, gammas and
# match weights; every engine's real output is compared with that, and the engines with one another.
CUSTOM_DIALECTS = ("duckdb", "sqlite", "spark")
CUSTOM_TYPES = {"unique_id": "int", "s": "str", "s2": "str", "n": "int", "f": "float"}


def _t_and(a, b):
    if a is False or b is False:
        return False
    return None if a is None or b is None else True


def _t_or(a, b):
    if a is True or b is True:
        return True
    return None if a is None or b is None else False


def _t_not(a):
    return None if a is None else (not a)


def _cmp(op, a, b):
    if a is None or b is None:
        return None
    return {"=": a == b, "<>": a != b, "<": a < b, "<=": a <= b, ">": a > b}[op]


def _sem_div(d, a, b):
    """a / b.  SQLite: integer division (towards zero) when both are integers, NULL on a zero divisor.  DuckDB: always floating point
    (x/0 = +-inf, 0/0 = NaN).  Spark: floating point; a zero divisor is NULL (try_divide / non-ANSI; under ANSI it is an error)."""
    if a is None or b is None:
        return None
    if b == 0:
        if d == "duckdb":
            return math.nan if a == 0 else math.copysign(math.inf, a)
        return None
    if d == "sqlite" and isinstance(a, int) and isinstance(b, int):
        q = abs(a) // abs(b)
        return q if (a >= 0) == (b >= 0) else -q
    return a / b


def _sem_mod(a, b):
    if a is None or b is None or b == 0:
        return None
    return int(math.fmod(a, b))  # sign of the dividend, on every engine


def _sem_concat_fn(d, *xs):
    """concat(...): DuckDB skips NULL arguments, Spark returns NULL if any argument is NULL (SQLite 3.40 has no concat())."""
    if d == "duckdb":
        return "".join(x for x in xs if x is not None)
    return None if any(x is None for x in xs) else "".join(xs)


def _sem_pipe(*xs):
    return None if any(x is None for x in xs) else "".join(xs)


def _sem_extreme(d, pick, a, b):
    """greatest/least (DuckDB, Spark) skip NULLs; SQLite's scalar max/min are NULL as soon as one argument is."""
    if d == "sqlite":
        return None if a is None or b is None else pick(a, b)
    vals = [x for x in (a, b) if x is not None]
    return pick(vals) if vals else None


def _sem_round(x):
    return None if x is None else math.copysign(math.floor(abs(x) + 0.5), x)  # half away from zero on every engine


def _sem_like_prefix(d, x, prefix):
    """x LIKE 'prefix%': case-insensitive (ASCII) on SQLite, case-sensitive on DuckDB and Spark."""
    if x is None:
        return None
    return x.lower().startswith(prefix.lower()) if d == "sqlite" else x.startswith(prefix)


def _q(d):
    return "`" if d == "spark" else '"'


# name -> spellings: the declared dialects D in which the idiom has a spelling (None = a spelling that means the same on every engine,
#         usable without a declared dialect); sql(d, l, r, p) with l/r: (column, quote="") -> reference text; ev(d, L, R, p) -> True/False/None
CUSTOM_TEMPLATES = {
    # every idiom isolates ONE way in which dialects differ, so that a failure names its cause
    "ratio_div": {  # the classic "within p of the left value": integer division on SQLite, float division elsewhere (zero divisor guarded: see zero_div)
        "spellings": CUSTOM_DIALECTS,
        "sql": lambda d, l, r, p: f"{l('n')} <> 0 and abs({l('n')} - {r('n')}) / {l('n')} < {p}",
        "ev": lambda d, L, R, p: _t_and(_cmp("<>", L["n"], 0), _cmp("<", _sem_div(d, None if L["n"] is None or R["n"] is None else abs(L["n"] - R["n"]), L["n"]), p)),
        "param": lambda rng: rng.choice([0.1, 0.25, 0.5]),
    },
    "zero_div": {  # a float divided by an integer that may be 0: +-inf on DuckDB, NULL on SQLite and Spark (non-ANSI)
        "spellings": CUSTOM_DIALECTS,
        "sql": lambda d, l, r, p: f"{l('f')} / {r('n')} > {p}",
        "ev": lambda d, L, R, p: _cmp(">", _sem_div(d, L["f"], R["n"]), p),
        "param": lambda rng: rng.choice([0.1, 0.5, 1]),
    },
    "bucket_div": {  # same bucket of width p (SQLite idiom); on DuckDB / Spark the same text is an equality of floats
        "spellings": CUSTOM_DIALECTS,
        "sql": lambda d, l, r, p: f"{l('n')} / {p} = {r('n')} / {p}",
        "ev": lambda d, L, R, p: _cmp("=", _sem_div(d, L["n"], p), _sem_div(d, R["n"], p)),
        "param": lambda rng: rng.choice([2, 5, 10]),
    },
    "floor_div": {  # DuckDB's integer-division operator (truncates towards zero)
        "spellings": ("duckdb",),
        "sql": lambda d, l, r, p: f"{l('n')} // {p} = {r('n')} // {p}",
        "ev": lambda d, L, R, p: _cmp("=", _sem_div("sqlite", L["n"], p), _sem_div("sqlite", R["n"], p)),
        "param": lambda rng: rng.choice([2, 5, 10]),
    },
    "concat_fn": {
        "spellings": ("duckdb", "spark"),
        "sql": lambda d, l, r, p: f"concat({l('s')}, {l('s2')}) = concat({r('s')}, {r('s2')})",
        "ev": lambda d, L, R, p: _cmp("=", _sem_concat_fn(d, L["s"], L["s2"]), _sem_concat_fn(d, R["s"], R["s2"])),
        "param": lambda rng: None,
    },
    "concat_pipe": {
        "spellings": CUSTOM_DIALECTS + (None,),
        "sql": lambda d, l, r, p: f"{l('s')} || {l('s2')} = {r('s')} || {r('s2')}",
        "ev": lambda d, L, R, p: _cmp("=", _sem_pipe(L["s"], L["s2"]), _sem_pipe(R["s"], R["s2"])),
        "param": lambda rng: None,
    },
    "position": {  # three names, two argument orders
        "spellings": CUSTOM_DIALECTS + (None,),
        "sql": lambda d, l, r, p: (f"strpos({l('s')}, {r('s2')}) > 0" if d == "duckdb" else f"locate({r('s2')}, {l('s')}) > 0" if d == "spark"
                                   else f"instr({l('s')}, {r('s2')}) > 0"),
        "ev": lambda d, L, R, p: None if L["s"] is None or R["s2"] is None else (R["s2"] in L["s"]),
        "param": lambda rng: None,
    },
    "length_eq": {
        "spellings": CUSTOM_DIALECTS + (None,),
        "sql": lambda d, l, r, p: f"len({l('s')}) = len({r('s')}) + {p}" if d == "duckdb" else f"length({l('s')}) = length({r('s')}) + {p}",
        "ev": lambda d, L, R, p: None if L["s"] is None or R["s"] is None else len(L["s"]) == len(R["s"]) + p,
        "param": lambda rng: rng.choice([0, 0, 1]),
    },
    "extremes": {  # greatest/least skip NULLs, SQLite's two-argument max/min do not
        "spellings": CUSTOM_DIALECTS,
        "sql": lambda d, l, r, p: (f"max({l('n')}, {r('n')}) - min({l('n')}, {r('n')}) <= {p}" if d == "sqlite"
                                   else f"greatest({l('n')}, {r('n')}) - least({l('n')}, {r('n')}) <= {p}"),
        "ev": lambda d, L, R, p: (lambda hi, lo: _cmp("<=", None if hi is None or lo is None else hi - lo, p))(
            _sem_extreme(d, max, L["n"], R["n"]), _sem_extreme(d, min, L["n"], R["n"])),
        "param": lambda rng: rng.choice([0, 1, 3, 10]),
    },
    "substr_eq": {
        "spellings": CUSTOM_DIALECTS + (None,),
        "sql": lambda d, l, r, p: f"substr({l('s')}, 1, {p}) = substr({r('s')}, 1, {p})",
        "ev": lambda d, L, R, p: _cmp("=", None if L["s"] is None else L["s"][:p], None if R["s"] is None else R["s"][:p]),
        "param": lambda rng: rng.choice([1, 2, 3]),
    },
    "like_prefix": {  # LIKE ignores (ASCII) case on SQLite only
        "spellings": CUSTOM_DIALECTS,
        "sql": lambda d, l, r, p: f"{l('s')} like '{p}%' and {r('s')} like '{p}%'",
        "ev": lambda d, L, R, p: _t_and(_sem_like_prefix(d, L["s"], p), _sem_like_prefix(d, R["s"], p)),
        "param": lambda rng: rng.choice(["ma", "Ma", "jo", "m", "AL"]),
    },
    "mod_eq": {
        "spellings": CUSTOM_DIALECTS + (None,),
        "sql": lambda d, l, r, p: f"{l('n')} % {p} = {r('n')} % {p}",
        "ev": lambda d, L, R, p: _cmp("=", _sem_mod(L["n"], p), _sem_mod(R["n"], p)),
        "param": lambda rng: rng.choice([2, 3, 10]),
    },
    "round_eq": {
        "spellings": CUSTOM_DIALECTS + (None,),
        "sql": lambda d, l, r, p: f"round({l('f')}) = round({r('f')})",
        "ev": lambda d, L, R, p: _cmp("=", _sem_round(L["f"]), _sem_round(R["f"])),
        "param": lambda rng: None,
    },
    "quoted_eq": {  # identifier quoting: " in DuckDB / SQLite, ` in Spark (where "x" is a string literal)
        "spellings": CUSTOM_DIALECTS,
        "sql": lambda d, l, r, p: f"{l('s', _q(d))} = {r('s', _q(d))}",
        "ev": lambda d, L, R, p: _cmp("=", L["s"], R["s"]),
        "param": lambda rng: None,
    },
    "ifnull_eq": {
        "spellings": CUSTOM_DIALECTS + (None,),
        "sql": lambda d, l, r, p: f"ifnull({l('s')}, '') = ifnull({r('s2')}, '')",
        "ev": lambda d, L, R, p: (L["s"] or "") == (R["s2"] or ""),
        "param": lambda rng: None,
    },
    "not_distinct": {
        "spellings": CUSTOM_DIALECTS + (None,),
        "sql": lambda d, l, r, p: f"{l('s2')} is not distinct from {r('s2')}",
        "ev": lambda d, L, R, p: L["s2"] == R["s2"],
        "param": lambda rng: None,
    },
    "case_absdiff": {
        "spellings": CUSTOM_DIALECTS + (None,),
        "sql": lambda d, l, r, p: f"case when {l('n')} > {r('n')} then {l('n')} - {r('n')} else {r('n')} - {l('n')} end <= {p}",
        "ev": lambda d, L, R, p: None if L["n"] is None or R["n"] is None else abs(L["n"] - R["n"]) <= p,
        "param": lambda rng: rng.choice([0, 1, 3, 10]),
    },
}
def _level_ref(side):
    return lambda col, quote="": f"{quote}{col}_{side}{quote}"


def _rule_ref(side):
    return lambda col, quote="": f"{side}.{quote}{col}{quote}"


def custom_sql(leaf, kind):
    t = CUSTOM_TEMPLATES[leaf["tpl"]]
    mk = _level_ref if kind == "level" else _rule_ref
    return t["sql"](leaf["declared"], mk("l"), mk("r"), leaf["p"])


def custom_eval(node, engine, L, R):
    """Three-valued truth of a level / rule tree on the ordered record pair (L, R): each leaf under the semantics of ITS declared dialect
    (the engine's own when none is declared: the text is then run verbatim)."""
    if "op" in node:
        vals = [custom_eval(a, engine, L, R) for a in node["args"]]
        if node["op"] == "not":
            return _t_not(vals[0])
        out = vals[0]
        for v in vals[1:]:
            out = _t_and(out, v) if node["op"] == "and" else _t_or(out, v)
        return out
    return CUSTOM_TEMPLATES[node["tpl"]]["ev"](node["declared"] or engine, L, R, node["p"])


def custom_leaves(node):
    if "op" in node:
        return [x for a in node["args"] for x in custom_leaves(a)]
    return [node]


CUSTOM_STRINGS = ["martha", "jones", "albert", "mamba"]
CUSTOM_INTS = [-7, -3, 0, 1, 2, 3, 7, 9, 10, 11, 20, 27, 30, 33, 40, 45, 60, 66, 100, 101, 110]


def gen_custom_rows(rng, zero_ok=True):
    """6-10 records: strings split into (s, s2) at a random place with a NULL or '' on either side (so concat() and || differ and
    differently split records concatenate to the same text), mixed case (LIKE), integers around ratios of exactly 0.1 / 0.25 / 0.5 of
    each other incl. negatives and 0 (integer vs float division), floats on .5 (rounding), NULLs in every column."""
    rows = []
    ints = [x for x in CUSTOM_INTS if zero_ok or x != 0]
    for uid in range(1, rng.randint(6, 10) + 1):
        w = rng.choice(CUSTOM_STRINGS)
        k = rng.randint(0, len(w))
        s, s2 = w[:k], w[k:]
        x = rng.random()
        if x < 0.2:
            s, s2 = (None, w) if rng.random() < 0.5 else (w, None)
        elif x < 0.3:
            s, s2 = ("", w) if rng.random() < 0.5 else (w, "")
        elif x < 0.36:
            s, s2 = None, None
        if s and rng.random() < 0.3:
            s = rng.choice([s.capitalize(), s.upper()])
        n = rng.choice(ints) if rng.random() < 0.88 else None
        bases = [r["n"] for r in rows if r["n"] is not None]
        if n is not None and bases and rng.random() < 0.35:  # a partner at an exact ratio of an earlier value
            base = rng.choice(bases)
            n = rng.choice([base, base + base // 10, base + base // 4, base + 1, base * 2])
        if n == 0 and not zero_ok:
            n = 1
        if rng.random() < 0.1:
            f = None
        elif rng.random() < 0.7:
            f = rng.choice([0.5, 1.5, 2.5, -0.5, -1.5, 2.4999, 3.0, 2.5000001])
        else:
            f = (n or 0) + 0.5
        rows.append({"unique_id": uid, "s": s, "s2": s2, "n": n, "f": f})
    return rows


def _gen_leaf(rng, need_neutral=False):
    while True:
        name = rng.choice(list(CUSTOM_TEMPLATES))
        t = CUSTOM_TEMPLATES[name]
        declared = rng.choice([d for d in t["spellings"] if d is not None] * 2 + ([None] if None in t["spellings"] else []))
        if need_neutral and declared is not None:
            continue
        return {"tpl": name, "p": t["param"](rng), "declared": declared}


def _gen_tree(rng, **kw):
    x = rng.random()
    if x < 0.7:
        return _gen_leaf(rng, **kw)
    if x < 0.8:
        return {"op": "not", "args": [_gen_leaf(rng, **kw)]}
    return {"op": rng.choice(["and", "or"]), "args": [_gen_leaf(rng, **kw), _gen_leaf(rng, **kw)]}


def gen_custom(rng, spark_ok=False):
    """Levels and blocking rules given as custom SQL with / without a declared dialect, in every form the public API accepts."""
    rows = gen_custom_rows(rng, zero_ok=not spark_ok)  # Spark 4 runs ANSI: a zero divisor is an error there, not a value
    comparisons = []
    for ci in range(rng.choice([1, 1, 2])):
        form = rng.choice(["creator", "creator", "dict_levels", "dict_comparison", "mixed"])
        levels = []
        for _ in range(rng.choice([1, 2, 2, 3])):
            node = _gen_tree(rng) if form in ("creator", "mixed") else _gen_leaf(rng)
            m, u = round(rng.uniform(0.05, 0.9), 2), round(rng.uniform(0.05, 0.9), 2)
            levels.append({"cond": node, "m": m, "u": u})
        comparisons.append({"name": f"c{ci}", "form": form, "null_col": rng.choice([None, None, "n", "s", "s2"]), "levels": levels,
                            "else_m": round(rng.uniform(0.05, 0.9), 2), "else_u": round(rng.uniform(0.05, 0.9), 2)})
    rules = []
    for _ in range(rng.choice([0, 1, 1, 2, 3])):
        form = rng.choice(["creator", "creator", "dict", "tree"])
        cond = _gen_tree(rng) if form == "tree" else _gen_leaf(rng)
        if form == "tree" and "op" not in cond:
            form = "creator"
        rules.append({"cond": cond, "form": form})
    if rng.random() < 0.25:  # a rule given as a bare string: no way to declare a dialect
        rules.insert(rng.randint(0, len(rules)), {"cond": _gen_leaf(rng, need_neutral=True), "form": "str"})
    return {"rows": rows, "comparisons": comparisons, "rules": rules, "prior": rng.choice([0.1, 0.3, 0.01]), "prerender": rng.random() < 0.3,
            "same_object_twice": rng.random() < 0.2, "count_rule": rng.random() < 0.5, "shuffle": rng.randrange(1 << 30), "tag": "custom"}


def _custom_level_creator(node):
    import splink.comparison_level_library as cll

    if "op" in node:
        args = [_custom_level_creator(a) for a in node["args"]]
        return cll.Not(args[0]) if node["op"] == "not" else (cll.And if node["op"] == "and" else cll.Or)(*args)
    kw = {} if node["declared"] is None else {"base_dialect_str": node["declared"]}
    return cll.CustomLevel(custom_sql(node, "level"), **kw)


def _custom_level_dict(node, m, u):
    d = {"sql_condition": custom_sql(node, "level"), "label_for_charts": node["tpl"], "m_probability": m, "u_probability": u}
    if node["declared"] is not None:
        d["base_dialect_str"] = node["declared"]
    return d


def _custom_rule_creator(node):
    import splink.internals.blocking_rule_library as brl  # Or is not re-exported by splink.blocking_rule_library

    if "op" in node:
        args = [_custom_rule_creator(a) for a in node["args"]]
        return brl.Not(args[0]) if node["op"] == "not" else (brl.And if node["op"] == "and" else brl.Or)(*args)
    return brl.CustomRule(custom_sql(node, "rule"), sql_dialect=node["declared"])


def custom_rule_input(rule):
    """The rule in the form the case asks for: creator object, dict, creator tree, or bare string."""
    node = rule["cond"]
    if rule["form"] == "str":
        return custom_sql(node, "rule")
    if rule["form"] == "dict":
        d = {"blocking_rule": custom_sql(node, "rule")}
        if node["declared"] is not None:
            d["sql_dialect"] = node["declared"]
        return d
    return _custom_rule_creator(node)


def custom_settings(case):
    import splink.comparison_level_library as cll
    import splink.comparison_library as cl
    from splink import SettingsCreator

    comps = []
    for c in case["comparisons"]:
        form = c["form"]
        if form in ("creator", "mixed"):
            levels = [cll.NullLevel(c["null_col"])] if c["null_col"] else []
            for i, lv in enumerate(c["levels"]):
                if form == "mixed" and i % 2 == 1 and "op" not in lv["cond"]:
                    levels.append(_custom_level_dict(lv["cond"], lv["m"], lv["u"]))
                else:
                    levels.append(_custom_level_creator(lv["cond"]).configure(m_probability=lv["m"], u_probability=lv["u"]))
            levels.append(cll.ElseLevel().configure(m_probability=c["else_m"], u_probability=c["else_u"]))
            comps.append(cl.CustomComparison(output_column_name=c["name"], comparison_levels=levels))
        else:
            levels = [{"sql_condition": f"{c['null_col']}_l IS NULL OR {c['null_col']}_r IS NULL", "label_for_charts": "null", "is_null_level": True}] if c["null_col"] else []
            levels += [_custom_level_dict(lv["cond"], lv["m"], lv["u"]) for lv in c["levels"]]
            levels.append({"sql_condition": "ELSE", "label_for_charts": "else", "m_probability": c["else_m"], "u_probability": c["else_u"]})
            if form == "dict_levels":
                comps.append(cl.CustomComparison(output_column_name=c["name"], comparison_levels=levels))
            else:  # the whole comparison as a dict
                comps.append({"output_column_name": c["name"], "comparison_levels": levels})
    return SettingsCreator(link_type="dedupe_only", comparisons=comps, blocking_rules_to_generate_predictions=[custom_rule_input(r) for r in case["rules"]],
                           retain_matching_columns=True, retain_intermediate_calculation_columns=True, probability_two_random_records_match=case["prior"])


def custom_frame(case):
    from harness import impl

    rows = list(case["rows"])
    random.Random(case.get("shuffle", 0)).shuffle(rows)
    return impl.typed_frame(rows, CUSTOM_TYPES)


def run_custom(case: dict) -> dict:
    from splink import Linker
    from splink.internals.blocking_analysis import count_comparisons_from_blocking_rule

    from harness import impl

    eng = case["engine"]
    settings = custom_settings(case)
    if case.get("prerender"):
        # the same settings object is first rendered for the other dialects (what a user comparing backends does)
        for d in ("spark", "sqlite", "duckdb", "postgres"):
            if d != eng:
                try:
                    settings.get_settings(d)
                except Exception:  # noqa: BLE001  a dialect may refuse
                    pass
    out = {}
    if case.get("same_object_twice"):
        Linker(custom_frame(case), settings, impl.make_api(eng, threads=2))  # a first linker from the same settings object
    linker = Linker(custom_frame(case), settings, impl.make_api(eng, threads=2))
    so = linker._settings_obj
    out["levels"] = {c.output_column_name: [l.sql_condition for l in c.comparison_levels] for c in so.comparisons}
    out["rules_sql"] = [br.blocking_rule_sql for br in so._blocking_rules_to_generate_predictions]
    pred = {}
    for r in linker.inference.predict().as_record_dict():
        key = f"{r['unique_id_l']}-{r['unique_id_r']}"
        if key in pred:
            pred[key]["dup"] = pred[key].get("dup", 1) + 1
            continue
        pred[key] = {c: v for c, v in r.items() if c.startswith(("gamma_", "bf_", "match_"))}
    out["rows"] = pred
    if case.get("count_rule") and case["rules"]:
        res = count_comparisons_from_blocking_rule(table_or_tables=custom_frame(case), blocking_rule=custom_rule_input(case["rules"][0]), link_type="dedupe_only",
                                                   db_api=impl.make_api(eng, threads=2), unique_id_column_name="unique_id")
        out["count"] = int(res["number_of_comparisons_to_be_scored_post_filter_conditions"])
    return out


def custom_expected(case, engine):
    """What the declared meanings imply: {pair key: {match_key, gamma_<c>.., match_weight}} and the count of the first rule."""
    rows = sorted(case["rows"], key=lambda r: r["unique_id"])
    exp = {}
    first_rule_count = 0
    for i, L in enumerate(rows):
        for R in rows[i + 1:]:  # dedupe_only: the record with the smaller unique_id is the left one
            truths = [custom_eval(r["cond"], engine, L, R) is True for r in case["rules"]]
            first_rule_count += bool(truths and truths[0])
            if case["rules"] and not any(truths):
                continue
            row = {"match_key": str(truths.index(True)) if case["rules"] else "0"}
            logbf = math.log2(case["prior"] / (1 - case["prior"]))
            for c in case["comparisons"]:
                n = len(c["levels"])
                if c["null_col"] and (L[c["null_col"]] is None or R[c["null_col"]] is None):
                    g = -1
                else:
                    g = 0
                    for k, lv in enumerate(c["levels"]):
                        if custom_eval(lv["cond"], engine, L, R) is True:
                            g = n - k
                            break
                    m, u = (c["else_m"], c["else_u"]) if g == 0 else (c["levels"][n - g]["m"], c["levels"][n - g]["u"])
                    logbf += math.log2(m / u)
                row[f"gamma_{c['name']}"] = g
            row["match_weight"] = logbf
            exp[f"{L['unique_id']}-{R['unique_id']}"] = row
    return exp, first_rule_count


def _leaf_tag(leaf):
    return f"{leaf['tpl']} declared={leaf['declared']}"


def custom_verdict(case, engine, r):
    """Independent decision on ONE engine's real output.  Returns [(kind, node, text)]: kind in level / rule / other, node = the condition
    tree the engine and the declared meaning disagree on (None where no single condition is at fault)."""
    exp, cnt = custom_expected(case, engine)
    out = []
    dup = [k for k, v in r["rows"].items() if "dup" in v]
    if dup:
        out.append(("other", None, f"pair {dup[0]} is scored {r['rows'][dup[0]]['dup']} times"))
    for key in sorted(set(exp) ^ set(r["rows"])):
        a, b = (int(x) for x in key.split("-"))
        if a > b:
            out.append(("other", None, f"pair {key} has the larger unique_id on the left"))
            continue
        if key in r["rows"]:  # scored, but no rule holds: the rule the engine says it used (the only one when there is no match_key)
            k = int(r["rows"][key].get("match_key") or 0)
            what = "is scored but no blocking rule holds under the declared meaning"
        else:
            k = int(exp[key]["match_key"])
            what = f"is not scored although blocking rule {k} holds under the declared meaning"
        node = case["rules"][k]["cond"] if k < len(case["rules"]) else None
        out.append(("rule", node, f"pair {key} {what}; rules run: {r.get('rules_sql')}"))
    for key in sorted(set(exp) & set(r["rows"])):
        e, x = exp[key], r["rows"][key]
        # predict() only emits match_key when there are several rules
        if (len(case["rules"]) > 1 or "match_key" in x) and str(x.get("match_key")) != e["match_key"]:
            k = min(int(e["match_key"]), int(x.get("match_key") or 0))  # the earlier rule is the one taken as true by one side only
            out.append(("rule", case["rules"][k]["cond"] if k < len(case["rules"]) else None,
                        f"pair {key}: match_key {x.get('match_key')}, expected {e['match_key']}; rules run: {r.get('rules_sql')}"))
            continue
        bad_gamma = False
        for c in case["comparisons"]:
            col = f"gamma_{c['name']}"
            if col not in x:
                out.append(("other", None, f"pair {key}: no column {col}"))
                bad_gamma = True
                continue
            if int(x[col]) != e[col]:
                bad_gamma = True
                n = len(c["levels"])
                hi = max(int(x[col]), e[col])  # the higher of the two levels is the one taken as true by one side only
                out.append(("level", c["levels"][n - hi]["cond"] if 1 <= hi <= n else None,
                            f"pair {key}: {col} = {x[col]}, expected {e[col]} under the declared meaning; level SQL run: {r['levels'].get(c['name'])}"))
        if not bad_gamma and not fclose(x["match_weight"], e["match_weight"], W_REL, W_ABS):
            out.append(("other", None, f"pair {key}: match_weight {x['match_weight']}, expected {e['match_weight']} from the gammas and the given m/u"))
    if "count" in r and r["count"] != cnt:
        out.append(("rule", case["rules"][0]["cond"], f"count_comparisons_from_blocking_rule: {r['count']} comparisons post filter, expected {cnt} under the declared meaning"))
    return out


def custom_leaf_audit(case, engine, kind, leaf):
    """LABELLING aid, not part of the verdict: the leaf alone is rendered by the real creator for `engine` and evaluated by that engine on
    every record pair; returns None when that equals the leaf's declared meaning on every pair, else a short text."""
    if engine not in ("duckdb", "sqlite"):
        return None
    try:
        if kind == "level":
            sql = _custom_level_creator(leaf).get_comparison_level(engine).sql_condition
            cols = ", ".join(f"l.{c} as {c}_l, r.{c} as {c}_r" for c in ("s", "s2", "n", "f"))
            q = f"select ul, ur, case when {sql} then 1 else 0 end from (select l.unique_id as ul, r.unique_id as ur, {cols} from t as l, t as r where l.unique_id < r.unique_id)"
        else:
            sql = _custom_rule_creator(leaf).get_blocking_rule(engine).blocking_rule_sql
            q = f"select l.unique_id, r.unique_id, case when {sql} then 1 else 0 end from t as l, t as r where l.unique_id < r.unique_id"
    except Exception as e:  # noqa: BLE001
        return f"rendering it for {engine} raises {type(e).__name__}"
    df = custom_frame(case)  # noqa: F841  (DuckDB reads the local name)
    try:
        if engine == "duckdb":
            import duckdb

            con = duckdb.connect()
            con.execute("create table t as select * from df")
        else:
            import sqlite3

            con = sqlite3.connect(":memory:")
            df.to_sql("t", con, index=False)
        got = {(a, b): bool(v) for a, b, v in con.execute(q).fetchall()}
    except Exception as e:  # noqa: BLE001
        return f"{engine} raises on `{sql}`: {str(e)[:120]}"
    by_id = {x["unique_id"]: x for x in case["rows"]}
    for (a, b), v in sorted(got.items()):
        if v != (custom_eval(leaf, engine, by_id[a], by_id[b]) is True):
            return f"`{sql}` is {v} on pair {a}-{b}, its declared meaning is {not v}"
    return None


def custom_label(case, engine, kind, node):
    """(stage, idiom, declared) naming the single idiom at fault where the leaf audit can tell."""
    if node is None:
        return "no single condition", None, None
    leaves = custom_leaves(node)
    bad = [lf for lf in leaves if custom_leaf_audit(case, engine, kind, lf)] if len(leaves) > 1 else leaves
    if not bad:
        return "unattributed: " + " & ".join(sorted({_leaf_tag(lf) for lf in leaves})), None, None
    lf = sorted(bad, key=_leaf_tag)[0]
    return _leaf_tag(lf), lf["tpl"], lf["declared"]


def custom_all_leaves(case):
    return ([("level", lf) for c in case["comparisons"] for lv in c["levels"] for lf in custom_leaves(lv["cond"])]
            + [("rule", lf) for rl in case["rules"] for lf in custom_leaves(rl["cond"])])


def custom_translation_visible(case, engine):
    """Does the data distinguish the declared meaning of some translated leaf from what the same text means on `engine`?"""
    rows = sorted(case["rows"], key=lambda r: r["unique_id"])
    for _, lf in custom_all_leaves(case):
        if lf["declared"] in (None, engine):
            continue
        if engine not in CUSTOM_TEMPLATES[lf["tpl"]]["spellings"] or custom_sql(dict(lf, declared=engine), "level") != custom_sql(lf, "level"):
            return True  # the text itself is not valid / differently spelled on the engine
        ev = CUSTOM_TEMPLATES[lf["tpl"]]["ev"]
        for i, L in enumerate(rows):
            for R in rows[i + 1:]:
                if ev(lf["declared"], L, R, lf["p"]) != ev(engine, L, R, lf["p"]):
                    return True
    return False


# =========================================================================== generators per family (engine-free base cases)
def gen_blocking(rng):
    return c01.gen_case(rng, engine="sqlite")  # "sqlite": plain rules only, no arrays, no salting — the features every backend has


def gen_score(rng):
    c = c02.gen_case(rng, engine="sqlite")  # engine-free base case (u = 0 levels included since the repair of K6)
    if rng.random() < 0.3:
        ws = [w for x, y in c02.pairs_of(c) for _, w in [c02.oracle_weight(c, x, y)] if w is not None and w != math.inf]
        if ws:
            w = rng.choice(ws)
            c["thr"] = {"kind": "weight", "value": rng.choice([w + 0.5, w - 0.5, round(w, 1)])}
    return c


def gen_em(rng):
    return c03.gen_case(rng, engine="sqlite")


def gen_estim(rng):
    c = c04.gen_case(rng, kind=rng.choice(["u_full", "u_full", "m_label_col", "m_pairwise", "prior", "prior"]), engine="sqlite")
    if c["kind"] == "u_full":
        c["seed"] = None  # full sample, no seed: deterministic on every backend
    return c


def gen_cluster(rng):
    fam = rng.choice(["path", "cycle", "star", "cliques", "caterpillar", "gnp", "gnp", "forest", "grid"])
    n = rng.randint(2, 30)
    return c05.decorate(rng, n, graphs.family(rng, fam, n), engine="sqlite", entry=rng.choice(["fn", "fn", "linker"]),
                        order=rng.choice(["identity", "reversed", "bitrev", "zigzag", "random"]), tag=fam)


def gen_multi(rng):
    fam = rng.choice(["path", "cycle", "star", "cliques", "gnp", "gnp", "forest"])
    n = rng.randint(2, 24)
    base = c05.decorate(rng, n, graphs.family(rng, fam, n), engine="sqlite", entry="fn", probs=rng.choice(["grid", "rand"]), thr=None, tag=fam)
    weights = rng.random() < 0.25
    if weights:
        ts = sorted({round(rng.uniform(-6, 6), 2) for _ in range(rng.randint(1, 5))})
        rng.shuffle(ts)
    else:
        ts = c11.gen_thresholds(rng, base["edges"])
    base.update(ts=ts, weights=weights, stats=rng.random() < 0.3)
    return base


def gen_analysis(rng):
    return c14.gen_case(rng, engine="sqlite")  # "sqlite": no array column / exploding rules - the features every backend has


def prep(family, case):
    """Undo the JSON round trip where the underlying check needs tuples."""
    if family == "blocking":
        return c01.normalise(case)
    if family == "analysis":
        return c14.normalise(case)
    return case


RUNNERS = {"blocking": c01.run_impl, "score": c02.run_impl, "em": c03.run_impl, "estim": c04.run_impl, "cluster": c05.run_impl,
           "multi": c11.run_impl, "analysis": c14.run_impl, "pipeline": run_pipeline, "creator": run_creator, "custom": run_custom}
GENS = {"blocking": gen_blocking, "score": gen_score, "em": gen_em, "estim": gen_estim, "cluster": gen_cluster, "multi": gen_multi,
        "analysis": gen_analysis, "pipeline": gen_pipeline, "custom": gen_custom}


def run_job(job):
    family, case = job
    return RUNNERS[family](prep(family, case))


run_job_safe = core.safe(run_job)

SPARK_CHUNK = 4
SPARK_BUDGET_S = 1800  # wall-clock bound of the Spark part of one evaluate() call


def _spark_child(inp, outp):
    """Child process: one JVM for a handful of Spark jobs (persisted tables accumulate in the 2 GB driver otherwise)."""
    import pickle
    import traceback

    from harness import impl

    jobs = pickle.load(open(inp, "rb"))
    # the hand-written level / rule SQL of c02, c03, c04 quotes identifiers with double quotes — a string literal in Spark SQL: same text with backticks
    lv, ru = c02.level_sql, c03.rule_sql
    c02.level_sql = lambda *a, **k: lv(*a, **k).replace('"', "`")
    c03.rule_sql = lambda *a, **k: ru(*a, **k).replace('"', "`")
    out = []
    for job in jobs:
        try:
            out.append(run_job(job))
        except Exception as e:  # noqa: BLE001
            tb = traceback.format_exc()
            # Java stack traces are long: keep the head (where the /repo frames are) and the tail
            out.append({"__error__": type(e).__name__, "text": str(e)[:2000], "tb": tb if len(tb) < 9000 else tb[:4500] + "\n...\n" + tb[-4500:]})
        try:  # session hygiene between scenarios: cached tables and the input views registered under fixed aliases (ta, tb, ...)
            if impl._SPARK is not None:
                impl._SPARK.catalog.clearCache()
                for t in impl._SPARK.catalog.listTables():
                    if t.isTemporary:
                        impl._SPARK.catalog.dropTempView(t.name)
        except Exception:  # noqa: BLE001
            pass
    pickle.dump(out, open(outp, "wb"))


def run_spark_jobs(jobs):
    import os
    import pickle
    import subprocess
    import sys

    import time

    d = core.scratch_dir()
    res = []
    t0 = time.time()
    for k in range(0, len(jobs), SPARK_CHUNK):
        if time.time() - t0 > SPARK_BUDGET_S:
            # the local Spark of this sandbox needs minutes per job under load: the Spark part of a run is bounded, what does not fit is
            # excluded and counted (like a driver that ran out of memory), never reported
            res += [{"__error__": "SparkTimeout", "text": "Spark time budget of the run used up (treated like java.lang.OutOfMemoryError of the sandbox's Spark driver)", "tb": ""}
                    for _ in jobs[k:]]
            break
        inp, outp = d / f"spark_in_{k}.pkl", d / f"spark_out_{k}.pkl"
        pickle.dump(jobs[k:k + SPARK_CHUNK], open(inp, "wb"))
        env = dict(os.environ)
        env["PYTHONPATH"] = f"{core.VERIF}:/repo"
        try:
            p = subprocess.run([sys.executable, "-m", "harness.props.c06", "--spark-child", str(inp), str(outp)], cwd=core.VERIF, env=env, capture_output=True, text=True,
                               timeout=200 * len(jobs[k:k + SPARK_CHUNK]))
        except subprocess.TimeoutExpired:
            # the local Spark of this sandbox can exhaust its heap in the planner and then spins in garbage collection (observed for over
            # an hour on one small job): infrastructure; the jobs of this chunk are excluded and counted like an OutOfMemoryError
            res += [{"__error__": "SparkTimeout", "text": "no answer within the time limit (treated like java.lang.OutOfMemoryError of the sandbox's Spark driver)", "tb": ""}
                    for _ in jobs[k:k + SPARK_CHUNK]]
            core._kill_jvms_of_dead_workers()
            continue
        if p.returncode != 0 or not outp.exists():
            raise core.HarnessError(f"Spark child process failed (rc={p.returncode}): {(p.stderr or p.stdout)[-1500:]}")
        res += pickle.load(open(outp, "rb"))
    return res


# =========================================================================== comparison of two real outputs
def fclose(a, b, rel, abs_):
    # Spark hands results over through pandas, where a NULL double arrives as NaN: NULL and NaN are not distinguished
    a = None if isinstance(a, float) and a != a else a
    b = None if isinstance(b, float) and b != b else b
    if isinstance(a, bool) or isinstance(b, bool) or isinstance(a, str) or isinstance(b, str):
        return a == b
    if a is None or b is None:
        return a is None and b is None
    return core.close(float(a), float(b), rel, abs_)


def diff_rowdict(ra, rb, what="row"):
    """Rows keyed by pair id, each a dict of gamma_/bf_/tf_/match_ columns."""
    for key in ra:
        x, y = ra[key], rb[key]
        if sorted(x) != sorted(y):
            return f"{what} {key}: columns {sorted(set(x) ^ set(y))} present on one engine only"
        for col in sorted(x, key=lambda c: (not c.startswith("gamma_"), c)):
            if col.startswith("gamma_") or col == "match_key":
                if str(x[col]) != str(y[col]):
                    return f"{what} {key}: {col} {x[col]} vs {y[col]}"
            elif col == "match_probability":
                if not fclose(x[col], y[col], P_REL, P_ABS):
                    return f"{what} {key}: {col} {x[col]} vs {y[col]}"
            elif not fclose(x[col], y[col], W_REL, W_ABS):
                return f"{what} {key}: {col} {x[col]} vs {y[col]}"
    return None


def theta_changes(a, b):
    out = [abs(a["prior"] - b["prior"])]
    for name in a["comparisons"]:
        for x, y in zip(a["comparisons"][name], b["comparisons"][name]):
            if x is not None and y is not None:
                out += [abs(x["m"] - y["m"]), abs(x["u"] - y["u"])]
    return out


def diff_sessions(sa, sb, conv, max_iter):
    """EM sessions: (difference | None, excluded-reason | None)."""
    if len(sa) != len(sb):
        return f"{len(sa)} vs {len(sb)} training sessions ran", None
    for k, (x, y) in enumerate(zip(sa, sb)):
        if bool(x.get("no_pairs")) != bool(y.get("no_pairs")):
            return f"session {k}: 'no pairs to train on' on one engine only", None
        if x.get("no_pairs"):
            continue
        if "before" in x:
            d = c03.theta_close(x["before"], y["before"], EM_REL)
            if d:
                return f"session {k} starting parameters: {d}", None
        if x.get("deactivated") != y.get("deactivated"):
            return f"session {k}: deactivated comparisons {x.get('deactivated')} vs {y.get('deactivated')}", None
        hx, hy = x["history"], y["history"]
        for i in range(min(len(hx), len(hy))):
            d = c03.theta_close(hx[i], hy[i], EM_REL)
            if d:
                return f"session {k} iteration {i}: {d}", None
        if len(hx) != len(hy):
            short = hx if len(hx) < len(hy) else hy
            ch = theta_changes(short[-1], short[-2]) if len(short) >= 2 else []
            if any(abs(c - conv) <= 1e-9 for c in ch):
                return None, "EM convergence test within 1e-9 of em_convergence: iteration counts may differ by rounding"
            return f"session {k}: {len(hx) - 1} vs {len(hy) - 1} EM iterations", None
        d = c03.theta_close(x["after"], y["after"], EM_REL)
        if d:
            return f"session {k} trained parameters: {d}", None
    return None, None


_MISPARSE: dict = {}


def sqlite_misparses(t) -> bool:
    """SQLite (3.40 here) converts some decimal literals to a double one ulp away from the correctly rounded value (0.499889 is one;
    7 of 20000 six-digit literals).  Splink inlines thresholds as decimal text, so on SQLite `match_probability >= 0.499889` is FALSE for a
    stored 0.499889.  Such a threshold is 'within rounding' of the value it excludes: the property excepts it."""
    if t is None:
        return False
    if t not in _MISPARSE:
        import sqlite3

        con = sqlite3.connect(":memory:")
        _MISPARSE[t] = not con.execute(f"select {float(t)!r} = ?", (float(t),)).fetchone()[0]
        con.close()
    return _MISPARSE[t]


def thresholds_of(family, case):
    if family == "cluster":
        return [c05.oracle_threshold(case), case.get("thr")]
    if family == "multi":
        return list(c11.probs_of(case)) + list(case["ts"])
    if family == "pipeline":
        return [case["thr"]]
    return []


def thr_weight(case):
    thr = case.get("thr")
    if not thr:
        return None
    return thr["value"] if thr["kind"] == "weight" else (None if thr["value"] == 0 else math.log2(thr["value"] / (1 - thr["value"])))


def diff(family, case, ra, rb):
    """(difference | None, excluded-reason | None) between two engines' real outputs of the same scenario."""
    if family == "blocking":
        a, b = sorted(map(json.dumps, ra["rows"])), sorted(map(json.dumps, rb["rows"]))
        if a != b:
            ua = sorted(json.dumps([mk, sorted([l, r], key=json.dumps)]) for mk, l, r in ra["rows"])
            ub = sorted(json.dumps([mk, sorted([l, r], key=json.dumps)]) for mk, l, r in rb["rows"])
            only_a, only_b = [x for x in ua if x not in ub], [x for x in ub if x not in ua]
            if ua == ub:
                return "same pairs and match_keys but some pair has its left and right records swapped", None
            return f"blocked pair sets differ: only on first {only_a[:3]}, only on second {only_b[:3]}", None
        return None, None
    if family == "score":
        tw = thr_weight(case)
        ka, kb = set(ra["rows"]), set(rb["rows"])
        for key in ka ^ kb:
            row = (ra["rows"].get(key) or rb["rows"].get(key))
            if tw is not None and abs(row["match_weight"] - tw) <= 1e-9 * max(1, abs(tw)):
                continue  # within rounding of the threshold: excepted by the property
            return f"pair {key} scored on one engine only (weight {row['match_weight']}, threshold {tw})", None
        common = ka & kb
        return diff_rowdict({k: ra["rows"][k] for k in common}, {k: rb["rows"][k] for k in common}, "pair"), None
    if family == "em":
        return diff_sessions(ra["sessions"], rb["sessions"], case["conv"], case["max_iter"])
    if family == "estim":
        if sorted(ra) != sorted(rb):
            return f"result shape {sorted(ra)} vs {sorted(rb)}", None
        if "levels" in ra:
            if sorted(ra["levels"]) != sorted(rb["levels"]):
                return "comparisons differ", None
            for name in ra["levels"]:
                for x, y in zip(ra["levels"][name], rb["levels"][name]):
                    if x["cvv"] != y["cvv"] or not fclose(x["value"], y["value"], P_REL, P_ABS) or len(x["trained"]) != len(y["trained"]) or any(
                            not fclose(p, q, P_REL, P_ABS) for p, q in zip(x["trained"], y["trained"])):
                        return f"{name} level {x['cvv']}: estimate {x['value']} {x['trained']} vs {y['value']} {y['trained']}", None
            return None, None
        if ra["rejected"] != rb["rejected"]:
            near = abs(c04.matched_pairs(case) - c04.cartesian(case) * ra["recall"]) <= 1e-9 * max(1.0, c04.matched_pairs(case))
            if near:
                return None, "recall guard within rounding of equality"
            return f"recall guard: rejected={ra['rejected']} vs {rb['rejected']}", None
        key = "prior_after" if ra["rejected"] else "prior"
        if not fclose(ra[key], rb[key], P_REL, P_ABS):
            return f"prior {ra[key]} vs {rb[key]}", None
        return None, None
    if family == "cluster":
        if c05.is_threshold_fragile(case):
            return None, "weight threshold within 1e-12 of an edge probability"
        a, b = [list(x) for x in ra["rows"]], [list(x) for x in rb["rows"]]
        if a != b:
            pa, pb = dict(map(tuple, a)), dict(map(tuple, b))
            if sorted(pa) == sorted(pb) and all((pa[i] == pa[j]) == (pb[i] == pb[j]) for i in pa for j in pa):
                return "same partition but different cluster ids", None
            return "cluster partitions differ", None
        return None, None
    if family == "multi":
        if c11.fragile(case):
            return None, "weight threshold within 1e-12 of an edge probability"
        if case["stats"]:
            if len(ra["stats"]) != len(rb["stats"]):
                return f"{len(ra['stats'])} vs {len(rb['stats'])} summary rows", None
            for x, y in zip(ra["stats"], rb["stats"]):
                # x[0] is the threshold LABEL of the summary row: clustering.py emits it as cast(t as float), single precision on DuckDB/Spark
                if not fclose(x[0], y[0], 1e-6, 1e-9) or x[1] != y[1] or x[2] != y[2] or not fclose(x[3], y[3], 1e-9, 1e-12):
                    return f"summary row {x} vs {y}", None
            return None, None
        if len(ra["cols"]) != len(rb["cols"]) or ra["n_rows"] != rb["n_rows"]:
            return f"{len(ra['cols'])} columns x {ra['n_rows']} rows vs {len(rb['cols'])} x {rb['n_rows']}", None
        if [[i, list(v)] for i, v in ra["table"]] != [[i, list(v)] for i, v in rb["table"]]:
            return "cluster columns differ", None
        return None, None
    if family == "analysis":
        for k in ("pre", "post", "cumulative", "match_keys", "equi", "filter"):
            if ra[k] != rb[k]:
                return f"{k}: {ra[k]} vs {rb[k]}", None
        if not fclose(ra["cartesian"], rb["cartesian"], 1e-12, 0):
            return f"cartesian {ra['cartesian']} vs {rb['cartesian']}", None
        if ("nlargest" in ra) != ("nlargest" in rb):
            return "n_largest_blocks ran on one engine only", None
        if "nlargest" in ra:
            # ties between equally large blocks may be broken differently: compare the multiset of block sizes and each reported block's own counts
            if sorted(x[1:] for x in ra["nlargest"]) != sorted(x[1:] for x in rb["nlargest"]) and [x[3] for x in ra["nlargest"]] != [x[3] for x in rb["nlargest"]]:
                return f"n_largest_blocks {ra['nlargest']} vs {rb['nlargest']}", None
        return None, None
    if family == "pipeline":
        if not fclose(ra["prior"], rb["prior"], P_REL, P_ABS):
            return f"stage prior: {ra['prior']} vs {rb['prior']}", None
        d = c03.theta_close(ra["u"], rb["u"], P_REL)
        if d:
            return f"stage estimate_u: {d}", None
        d, ex = diff_sessions(ra["em"], rb["em"], 0.001, case["max_iter"])
        if d or ex:
            return (f"stage EM: {d}" if d else None), ex
        if set(ra["predict"]) != set(rb["predict"]):
            return f"stage predict: scored pair sets differ ({sorted(set(ra['predict']) ^ set(rb['predict']))[:3]})", None
        # weights after EM inherit the EM tolerance
        for key in ra["predict"]:
            x, y = ra["predict"][key], rb["predict"][key]
            if sorted(x) != sorted(y):
                return f"stage predict: pair {key} columns differ", None
            for col in x:
                if col.startswith("gamma_") or col == "match_key":
                    if str(x[col]) != str(y[col]):
                        return f"stage predict: pair {key} {col} {x[col]} vs {y[col]}", None
                elif not fclose(x[col], y[col], EM_REL, 1e-7):
                    return f"stage predict: pair {key} {col} {x[col]} vs {y[col]}", None
        fragile = any(abs(v["match_probability"] - case["thr"]) <= 1e-7 for v in ra["predict"].values())
        if fragile:
            return None, "pipeline: a match probability within 1e-7 of the clustering threshold"
        if ra["clusters"] != rb["clusters"]:
            return "stage cluster: cluster tables differ", None
        if ra["cumulative"] != rb["cumulative"] or ra["count"] != rb["count"]:
            return f"stage blocking analysis: {ra['cumulative']} {ra['count']} vs {rb['cumulative']} {rb['count']}", None
        # internal consistency across stages (same on every engine): predict rows per match_key = cumulative counts
        return None, None
    if family == "creator":
        if set(ra["rows"]) != set(rb["rows"]):
            return "scored pair sets differ", None
        return diff_rowdict(ra["rows"], rb["rows"], "pair"), None
    if family == "custom":
        if set(ra["rows"]) != set(rb["rows"]):
            return f"scored pair sets differ: {sorted(set(ra['rows']) ^ set(rb['rows']))[:4]}; rules run: {ra.get('rules_sql')} vs {rb.get('rules_sql')}", None
        d = diff_rowdict(ra["rows"], rb["rows"], "pair")
        if d:
            return f"{d}; level SQL run: {ra.get('levels')} vs {rb.get('levels')}", None
        if ra.get("count") != rb.get("count"):
            return f"count_comparisons_from_blocking_rule: {ra.get('count')} vs {rb.get('count')}", None
        return None, None
    raise ValueError(family)


def attribute(family, case, results):
    """Which engine deviates from the independent oracle of the underlying check (where it has one)."""
    out = {}
    c = prep(family, case)
    for eng, r in results.items():
        if not isinstance(r, dict) or "__error__" in r:
            out[eng] = "raised"
            continue
        cc = dict(c, engine=eng)
        v = "n/a"
        if family == "blocking":
            v = c01.verdict(cc, [(mk, tuple(l), tuple(rr)) for mk, l, rr in r["rows"]])
        elif family == "score":
            v = c02.verdict(cc, r)
        elif family == "em":
            v = c03.verdict(cc, r)
        elif family == "estim":
            v = c04.verdict(cc, r)
        elif family == "cluster":
            v = c05.oracle_verdict(cc, [tuple(x) for x in r["rows"]])
        elif family == "multi":
            v = c11.verdict(cc, r)
        elif family == "analysis":
            v = c14.verdict(cc, r)
        out[eng] = "agrees with the oracle of the underlying check" if v is None else (v if v == "n/a" else "DEVIATES: " + str(v))
    return out


def model_request_engine_free(family, case):
    """The request the underlying check sends to the Lean model does not depend on the engine (the model has no dialect input)."""
    c = prep(family, case)
    fn = {"blocking": c01.model_request, "score": c02.model_request, "estim": c04.model_request, "cluster": lambda x: c05.model_request(x)[0],
          "multi": lambda x: c11.model_request(x)[0], "analysis": lambda x: c14.model_request(x)[0]}.get(family)
    if fn is None:
        return None
    reqs = [json.dumps(fn(dict(c, engine=e)), sort_keys=True, default=str) for e in ("duckdb", "sqlite", "spark")]
    return reqs[0] == reqs[1] == reqs[2]


# =========================================================================== evaluation of a batch of scenarios
def has_u_zero(family, case, ok_results=None):
    """The scenario has a level with u = 0 (an infinite Bayes factor): given in the settings (score), or — em / pipeline — reached
    by training: some parameter set in the history of an engine that got through has u exactly 0 (K6: SQLite cannot score it)."""
    if family == "score":
        return any(l.get("u") == 0 for cc in case["comparisons"] for l in cc["levels"])
    thetas = []
    for r in (ok_results or {}).values():
        sessions = r.get("sessions") if family == "em" else r.get("em") if family == "pipeline" else None
        for s_ in sessions or []:
            thetas += s_.get("history", [])
        if family == "pipeline" and "u" in r:
            thetas.append(r["u"])
    return any(l is not None and l["uObs"] and l["u"] == 0 for t in thetas for lv in t["comparisons"].values() for l in lv)


def has_m_zero(family, ok_results):
    """Training reached m exactly 0 (a zero Bayes factor) on an engine that got through."""
    thetas = []
    for r in (ok_results or {}).values():
        sessions = r.get("sessions") if family == "em" else r.get("em") if family == "pipeline" else None
        for s_ in sessions or []:
            thetas += s_.get("history", [])
    return any(l is not None and l["mObs"] and l["m"] == 0 for t in thetas for lv in t["comparisons"].values() for l in lv)


def count_custom(ctx, case, engines):
    leaves = [("level", c["form"], lf) for c in case["comparisons"] for lv in c["levels"] for lf in custom_leaves(lv["cond"])]
    leaves += [("rule", rl["form"], lf) for rl in case["rules"] for lf in custom_leaves(rl["cond"])]
    for kind, form, lf in leaves:
        ctx.count("custom_idiom", f"{kind}: {lf['tpl']}")
        ctx.count("custom_form", f"{kind} given as {form}")
        for e in engines:
            how = "no dialect declared (verbatim)" if lf["declared"] is None else "declared = backend (verbatim)" if lf["declared"] == e else f"declared {lf['declared']} -> translated to {e}"
            ctx.count("custom_declared_vs_backend", f"{kind}: {how}")
    ctx.count("custom_composition", sorted({n["op"] for c in case["comparisons"] for lv in c["levels"] for n in [lv["cond"]] if "op" in n} | {"rule-" + rl["cond"]["op"] for rl in case["rules"] if "op" in rl["cond"]}) or "leaves only")
    ctx.count("custom_rules", len(case["rules"]))
    ctx.count("custom_null_level", bool([c for c in case["comparisons"] if c["null_col"]]))
    for flag in ("prerender", "same_object_twice", "count_rule"):
        ctx.count("custom_" + flag, bool(case.get(flag)))
    for e in engines:
        ctx.count("custom_translation_visible_in_data", f"{e}: {custom_translation_visible(case, e)}")
    exp, _ = custom_expected(case, "duckdb")
    ctx.count("custom_pairs_in_a_custom_level", sum(1 for row in exp.values() for k, v in row.items() if k.startswith("gamma_") and v > 0))
    ctx.count("custom_expected_pairs", "none" if not exp else "some")


def evaluate(ctx, scenarios, engines, parallel=True, record=True):
    """scenarios: [(family, base case)].  Returns [(family, case, what, detail dict, match_info)] for disagreements."""
    jobs = [(f, dict(c, engine=e)) for f, c in scenarios for e in engines]
    par = [i for i, (_, c) in enumerate(jobs) if c["engine"] != "spark"]
    res = [None] * len(jobs)
    if parallel:
        for i, r in zip(par, core.pmap(run_job_safe, [jobs[i] for i in par], chunksize=2)):
            res[i] = r
    else:
        for i in par:
            res[i] = run_job_safe(jobs[i])
    sp = [i for i, (_, c) in enumerate(jobs) if c["engine"] == "spark"]
    for i, r in zip(sp, run_spark_jobs([jobs[i] for i in sp]) if sp else []):
        res[i] = r
    problems = []
    for si, (family, case) in enumerate(scenarios):
        results = {e: res[si * len(engines) + k] for k, e in enumerate(engines)}
        oom = [e for e, r in results.items() if isinstance(r, dict) and "__error__" in r and "OutOfMemoryError" in r["text"] + r.get("tb", "")]
        if oom:  # the 2 GB Spark driver of this sandbox ran out of heap: infrastructure, says nothing about the scenario
            if record:
                ctx.count("excluded", f"{family}: {'+'.join(oom)} driver out of memory in this sandbox")
            results = {e: r for e, r in results.items() if e not in oom}
        errs = {e: r for e, r in results.items() if core.impl_error(r)}
        ok = {e: r for e, r in results.items() if e not in errs}
        if record:
            canon = {k: v for k, v in case.items() if k not in ("shuffle", "tag")}
            ctx.case({"family": family, "case": canon}, True,
                     sample={"family": family, "case": case, "outputs": {e: (r if e in ok else r["__error__"]) for e, r in results.items()}}
                     if family in ("estim", "analysis") and len(json.dumps(case)) < 1500 else None)
            ctx.count("family", family)
            ctx.count("engines", "+".join(engines))
            if "link_type" in case:
                ctx.count("link_type", case["link_type"])
            if family == "creator":
                ctx.count("creator", case["creator"])
            if family == "estim":
                ctx.count("estimator", case["kind"])
            if family == "score":
                ctx.count("score_has_tf", any("tf" in l for cc in case["comparisons"] for l in cc["levels"]))
                ctx.count("score_threshold", bool(case.get("thr")))
            if family == "pipeline":
                ctx.count("pipeline_surname_cmp", case["surname_cmp"]); ctx.count("pipeline_em_sessions", case["em_sessions"]); ctx.count("pipeline_tf", case["tf"])
                ctx.count("pipeline_rule_form", case.get("rule_form", "str")); ctx.count("pipeline_prerender", bool(case.get("prerender")))
                ctx.count("pipeline_has_empty_string", any(v == "" for t in case["tables"] for r in t for v in r.values()))
            if family == "custom":
                count_custom(ctx, case, engines)
            mr = model_request_engine_free(family, case)
            if mr is not None:
                ctx.count("model_request_engine_free", mr)
                if not mr:
                    raise core.HarnessError(f"the model request of family {family} depends on the engine field")
        if family == "creator":
            rej = {e: r["rejected"] for e, r in ok.items() if "rejected" in r}
            unsup = {e: r for e, r in errs.items() if UNSUPPORTED.search(r["text"] + r.get("tb", "")[-3000:])}
            if rej or unsup:
                if record:
                    for e in rej:
                        ctx.count("excluded", f"creator {case['creator']}: {e} rejects it at get_comparison()")
                    for e in unsup:
                        ctx.count("excluded", f"creator {case['creator']}: accepted by the {e} dialect but the backend raised 'unsupported' at run time")
                        ctx.extra_cov.setdefault("creators_failing_at_run_time", {})[f"{case['creator']}@{e}"] = unsup[e]["text"][:300]
                ok = {e: r for e, r in ok.items() if e not in rej}
                errs = {e: r for e, r in errs.items() if e not in unsup}
                if len(ok) + len(errs) < 2:
                    if record:
                        ctx.count("excluded", "creator: fewer than two engines support the scenario")
                    continue
        if errs and not ok and len({r["__error__"] for r in errs.values()}) == 1:
            if record:
                ctx.count("agree", "every engine raised the same exception type")
                ctx.count("both_raise", f"{family}: {next(iter(errs.values()))['__error__']}")
            continue
        if errs:
            e = sorted(errs)[0]
            r = errs[e]
            info = {"failure": "real code raised", "engine": e, "has_u_zero": has_u_zero(family, case, ok), "has_m_zero": has_m_zero(family, ok), "family": family, "error_type": r["__error__"]}
            if family == "custom":  # no "unsupported" exemption here: every idiom of this family exists on every engine, so what Splink renders must run
                raising = [(k, lf) for k, lf in custom_all_leaves(case) if (custom_leaf_audit(case, e, k, lf) or "").find("raises") >= 0]
                lf = sorted((lf for _, lf in raising), key=_leaf_tag)[0] if raising else None
                info.update(stage=_leaf_tag(lf) if lf else "no single condition raises", idiom=lf and lf["tpl"], declared=lf and lf["declared"])
            problems.append((family, case, f"{family}: {e} raised {r['__error__']} while {sorted(ok) or 'the other engines raised something else'} returned a result" + (f" ({info['stage']})" if family == "custom" else ""),
                             {"error": {x: {"type": y["__error__"], "text": y["text"][:600]} for x, y in errs.items()}, "outputs": ok}, info, results, list(engines)))
            continue
        if family == "custom":
            found = {}
            for e in sorted(ok, key=list(engines).index):
                for kind, node, text in custom_verdict(case, e, ok[e]):
                    stage, idiom, declared = custom_label(case, e, kind, node)
                    found.setdefault((e, stage), (text, idiom, declared))
            for (e, stage), (text, idiom, declared) in found.items():
                info = {"failure": "real output differs from the declared meaning", "engine": e, "family": family, "stage": stage, "idiom": idiom, "declared": declared}
                problems.append((family, case, f"{family}: {e} does not compute what the custom SQL means in its declared dialect ({stage})",
                                 {"difference": text, "expected": custom_expected(case, e)[0], "outputs": {e: ok[e]}}, info, results, list(engines)))
            if found:
                continue
            if record:
                ctx.count("custom_oracle", "every engine's output equals the declared meaning")
        names = sorted(ok, key=list(engines).index)
        if len(names) < 2:
            if record:
                ctx.count("excluded", f"{family}: fewer than two engines support the scenario")
            continue
        ref = names[0]
        bad = None
        skipped = False
        for e in names[1:]:
            d, ex = diff(family, case, ok[ref], ok[e])
            if ex:
                skipped = True
                if record:
                    ctx.count("excluded", ex)
            if d and "sqlite" in (ref, e) and any(sqlite_misparses(t) for t in thresholds_of(family, case)):
                skipped = True
                if record:
                    ctx.count("excluded", "a threshold literal that SQLite parses one ulp off (pairs exactly on the threshold are within rounding of it)")
                continue
            if d:
                bad = (e, d)
                break
        if bad:
            e, d = bad
            info = {"failure": "engines disagree", "engine": e, "family": family, "stage": d.split(":")[0][:40]}
            problems.append((family, case, f"{family}: {ref} and {e} disagree", {"difference": d, "outputs": {ref: ok[ref], e: ok[e]}}, info, results, list(engines)))
            continue
        if record and not skipped:
            ctx.traces_validated += 1
            ctx.count("agree", "+".join(names))
    return problems


# =========================================================================== shrinking
def shrink(family, case, engines, still):
    cur = jr(case)
    budget = 16 if family == "custom" else 24

    def attempt(cand):
        nonlocal budget, cur
        if budget <= 0:
            return False
        budget -= 1
        if still(cand):
            cur = cand
            return True
        return False

    changed = True
    while changed and budget > 0:
        changed = False
        if "tables" in cur:
            for ti in range(len(cur["tables"])):
                for ri in range(len(cur["tables"][ti]) - 1, -1, -1):
                    if len(cur["tables"][ti]) <= 1:
                        break
                    cand = jr(cur)
                    del cand["tables"][ti][ri]
                    changed |= attempt(cand)
        if "rows" in cur and not (family == "custom" and budget < 8):
            for ri in range(len(cur["rows"]) - 1, -1, -1):
                if len(cur["rows"]) <= 2:
                    break
                cand = jr(cur)
                del cand["rows"][ri]
                changed |= attempt(cand)
        if family == "custom":
            for ci in range(len(cur["comparisons"])):
                for k in range(len(cur["comparisons"][ci]["levels"]) - 1, -1, -1):
                    if len(cur["comparisons"][ci]["levels"]) <= 1:
                        break
                    cand = jr(cur)
                    del cand["comparisons"][ci]["levels"][k]
                    changed |= attempt(cand)
            for flag in ("prerender", "same_object_twice", "count_rule"):
                if cur.get(flag):
                    changed |= attempt(dict(jr(cur), **{flag: False}))
        for key in ("comparisons", "rules", "sessions", "edges"):
            if key in cur and family != "estim" and not (family == "custom" and key == "rules" and len(cur[key]) == 1):
                for k in range(len(cur[key]) - 1, -1, -1):
                    if len(cur[key]) <= 1:
                        break
                    cand = jr(cur)
                    del cand[key][k]
                    changed |= attempt(cand)
    return cur


# =========================================================================== run
def scenarios_for(ctx, rng, thorough_scale):
    q = {"blocking": 120, "score": 150, "em": 60, "estim": 120, "cluster": 100, "multi": 80, "analysis": 80, "pipeline": 30, "custom": 150}
    out = []
    for fam, n in q.items():
        for _ in range(ctx.budget(n, n * thorough_scale)):
            out.append((fam, jr(GENS[fam](rng))))
    return out


def run(ctx: core.Ctx):
    from harness.translate import tdialect

    engines = list(ENGINES)
    ctx.rule = (
        "scenario = one engine-free case run on every engine and the REAL outputs compared pairwise with the first engine (duckdb = reference). Families: "
        "blocking (c01.gen_case: 1-3 tables x <=8 rows, 0-4 plain rules, all link types, predict/deterministic_link: (match_key, left, right) sets), "
        "score (c02.gen_case: 2-9 rows, 1-4 comparisons exact/levenshtein/abs-diff with NULL level, TF adjustments, registered TF lookups, dict and creator construction, 30% with a weight threshold; no u=0: every predict column), "
        "em (c03.gen_case: 1-3 sessions, fix flags, TF on/off: every iteration's m/u/lambda), estim (c04.gen_case: full-sample u, m from label column, m from pairwise labels, prior from deterministic rules + recall), "
        "cluster (c05.decorate on 9 graph families, n<=30, standalone function and linker method, prob/weight thresholds), multi (c11 thresholds lists, cluster columns or summary stats), "
        "analysis (c14.gen_case: pre/post counts, cumulative counts, cartesian, n_largest_blocks), pipeline (own: 1-2 tables of 10-16 noisy duplicates; prior from a deterministic rule, full-sample u, 1-2 EM sessions, "
        "predict with TF adjustments, clustering at a threshold, cumulative + single-rule blocking counts; library creators Levenshtein/JaroWinkler/DamerauLevenshtein/ExactMatch/CustomComparison), "
        "creator (every class of splink.comparison_library with a specimen on a 10-row value grid incl. NULL and empty strings), "
        "custom (own: 6-10 records, 1-2 comparisons of 1-3 custom-SQL levels and 0-4 custom-SQL blocking rules, each a SQL idiom whose spelling or meaning depends on the dialect "
        "(integer '/', '//', concat() vs ||, greatest/least vs max/min, LIKE, strpos/instr/locate, len/length, quoted identifiers, %, round, ifnull, IS NOT DISTINCT FROM, CASE) "
        "written in a DECLARED dialect duckdb/sqlite/spark (base_dialect_str / sql_dialect) equal to or different from the backend, or with none declared; given as CustomLevel / level dict / "
        "comparison dict / And-Or-Not of CustomLevels, CustomRule / rule dict / And-Or-Not of CustomRules / bare string; same settings object pre-rendered for other dialects or used for two linkers; "
        "fixed m/u; predict + count_comparisons_from_blocking_rule; a naive per-dialect evaluator decides every level and rule on every pair under the declared dialect's meaning). "
        "Spark (thorough): a few scenarios per family, levenshtein only. "
        "non-trivial = every scenario (all compare at least two real executions); distinct = hash of (family, case)."
    )
    ctx.assumptions = [
        "Bayes factors and match weights: relative 1e-9 / absolute 1e-9 (engines evaluate log2/pow with different libm-level routines: SQLite's log2 and pow are Python's math functions registered as UDFs, DuckDB's are its own; the formulas and operand order are the same SQL)",
        "probabilities and directly estimated m/u/prior: relative 1e-9 (counts are exact integers on every engine; one division)",
        "parameters after EM iterations and the scores computed from them: relative 1e-7 (rounding differences of one ulp per operation can be amplified over up to 25 iterations; 1e-7 is far below any modelling significance and far above accumulated rounding); a session whose convergence test lands within 1e-9 of em_convergence may stop one iteration apart and is excluded",
        "pairs whose weight is within 1e-9 of a predict threshold, graphs with an edge probability within 1e-12 of a weight threshold, pipelines with a match probability within 1e-7 of the clustering threshold: excluded (the property says 'within floating-point tolerance')",
        "multi-threshold summary statistics: the threshold_match_probability label is emitted as cast(t as float) — 32-bit on DuckDB and Spark, 64-bit on SQLite — and is compared at 1e-6 (it is a label, not one of the quantities the property names); counts and sizes exactly",
        "SQLite 3.40 parses some decimal literals one ulp away from the correctly rounded double (0.499889; 7 of 20000 six-digit values); Splink inlines thresholds as decimal text; a clustering scenario whose threshold is such a literal AND whose engines disagree is excluded and counted (the disagreeing pair sits exactly on the threshold: within rounding)",
        "Spark results arrive through pandas: a NULL double and NaN are not distinguished when comparing with Spark",
        "n_largest_blocks: which of several equally large blocks is reported is not compared",
        "a creator the dialect rejects at get_comparison(), or whose SQL makes one backend raise an 'unsupported function' error, is outside the quantifier ('features each backend supports'): excluded and counted, listed under creators_failing_at_run_time",
        "behavioural entries of Generated/Dialects.lean come from evaluating fn('martha','martha'), fn('martha','zzzzzz'), fn(NULL,'a') IS NULL, fn('a',NULL) IS NULL on the real backend: two points and NULL, not the whole function (C16 compares the SQLite UDFs with rapidfuzz pointwise)",
        "Spark's jaro_sim / jaro_winkler / damerau_levenshtein / jaccard are Scala UDFs whose jar does not load on the installed Spark 4: the table records them as notRunnable and no theorem speaks about them",
        "Spark: the hand-written level/rule SQL of the c02/c03/c04 generators is given with backtick-quoted identifiers instead of double-quoted ones (a double-quoted token is a string literal in Spark SQL); Spark scenarios run in child processes, 8 per JVM",
        "SQL semantics of each engine for the atoms (=, <=, abs, substr, GROUP BY, joins) are trusted; DuckDB is the reference as the property says",
        "custom family: the meaning of custom SQL with a declared dialect is that dialect's meaning of the text (c06._sem_*: DuckDB '/' is floating point and concat() skips NULLs, SQLite '/' on two integers truncates, "
        "its LIKE ignores ASCII case and its scalar max/min are NULL on a NULL argument, Spark concat() is NULL on NULL; a zero divisor is NULL on SQLite/Spark(non-ANSI) and +-inf/NaN on DuckDB); "
        "these per-dialect semantics are validated by the verbatim cases (declared dialect = backend), where the same oracle must reproduce the engine's own result",
    ]
    errs, table = tdialect.write(("duckdb", "sqlite", "spark") if ctx.thorough else ("duckdb", "sqlite"))
    ctx.lean = core.lean_check(PROP, ctx.thorough)
    if errs:
        ctx.lean.ok = False
        ctx.lean.problems += ["T-dialect: " + e for e in errs]
    if table:
        ctx.extra_cov["dialect_table"] = {
            d: {"functions": {k: {"name": n, "observed": (table["probes"].get(d) or {"fns": {}})["fns"].get(k, {}).get("behaviour"),
                                  "nullOnNull": (table["probes"].get(d) or {"fns": {}})["fns"].get(k, {}).get("nullOnNull")} for k, n in info["fns"].items()},
                "infinity_expression": info["infinityExpression"], "infinity_observed": (table["probes"].get(d) or {}).get("infinity"),
                "array_first_index": info["arrayFirstIndex"]} for d, info in table["static"].items()}
    core.Driver()  # the model driver must build: the models it serves are the one meaning every backend is compared with (C01..C05, C11, C14)

    # creators: discover the library, specimen for each
    lib = library_creator_names()
    specs = creator_specs()
    missing = [n for n in lib if not any(s == n or s.startswith(n + "(") for s in specs)]
    ctx.extra_cov["library_creators"] = {"found": lib, "without_specimen": missing}
    if missing:
        ctx.notes.append(f"comparison creators without a specimen in c06.creator_specs (not exercised): {missing}")
        for n in missing:
            ctx.count("excluded", f"creator {n}: no specimen arguments in the harness")

    if ctx.replay:
        rp = json.loads(open(ctx.replay).read())["replay"]
        scenarios = [(rp["family"], rp["case"])]
        engines = rp.get("engines", engines)
        corpus = []
    else:
        corpus = [(c["family"], c["case"]) for c in graphs.load_corpus(PROP)]
        scenarios = scenarios_for(ctx, ctx.rng, 10)
        scenarios += [("creator", {"creator": name, "shuffle": ctx.rng.randrange(1 << 30)}) for name in specs if name not in CORPUS_ONLY_CREATORS]
        scenarios += [("creator", {"creator": name, "shuffle": ctx.rng.randrange(1 << 30), "prerender": True}) for name in specs if name not in CORPUS_ONLY_CREATORS]
    problems = evaluate(ctx, corpus + scenarios, engines)
    if (not ctx.lean.ok) and not ctx.replay:
        ctx.notes.append("a proof or the dialect translation broke: ran the widened failing-input search")
        rng2 = random.Random(ctx.seed + 7919)
        problems += evaluate(ctx, scenarios_for(ctx, rng2, 10), engines)

    if ctx.thorough and not ctx.replay:
        rng_s = random.Random(ctx.seed + 31)
        spark_scn = []
        for fam, n in {"blocking": 6, "score": 8, "em": 2, "estim": 6, "cluster": 4, "multi": 3, "analysis": 4}.items():
            spark_scn += [(fam, jr(GENS[fam](rng_s))) for _ in range(n)]
        for fam, c in spark_scn:
            if fam == "em":
                c["max_iter"] = 3  # every EM iteration is several Spark jobs
        spark_scn += [("pipeline", dict(jr(gen_pipeline(rng_s, spark_ok=True)), max_iter=2)) for _ in range(2)]
        spark_scn += [("custom", jr(gen_custom(rng_s, spark_ok=True))) for _ in range(8)]
        spark_scn += [("creator", {"creator": name, "shuffle": 1}) for name in specs if name not in CORPUS_ONLY_CREATORS]
        problems += evaluate(ctx, spark_scn, ["duckdb", "sqlite", "spark"])
    reported = set()
    for family, case, what, detail, info, results, engs in problems:
        cls = (family, info["failure"], info.get("stage"), info["engine"])
        if family == "custom":  # every class seen, uncapped: (failure, engine, idiom + declared dialect) -> scenarios
            ctx.extra_cov.setdefault("custom_failure_classes", {}).setdefault(f"{info['failure']} | {info['engine']} | {info.get('stage')}", 0)
            ctx.extra_cov["custom_failure_classes"][f"{info['failure']} | {info['engine']} | {info.get('stage')}"] += 1
        known = any(core._finding_matches(f, dict(info)) for f in ctx.findings)  # a recorded finding has its minimised witness in the corpus already
        # at most 4 new classes are minimised and reported per run; the custom family (one class per idiom x declared dialect x engine) has its own allowance
        mine = [c for c in reported if c[-1] != "known" and (c[0] == "custom") == (family == "custom")]
        if cls in reported or (not known and len(mine) >= (6 if family == "custom" else 4)):
            continue
        reported.add(cls if not known else cls + ("known",))

        def still(cand, family=family, info=info, engs=engs):
            ps = evaluate(ctx, [(family, cand)], engs, parallel=False, record=False)
            return any(p[4]["failure"] == info["failure"] and p[4]["engine"] == info["engine"] and (family != "custom" or p[4].get("stage") == info.get("stage")) for p in ps)

        small = case
        if family != "creator" and "spark" not in engs and not ctx.replay and not known:
            small = shrink(family, case, engs, still)
            ps = evaluate(ctx, [(family, small)], engs, parallel=False, record=False)
            ps = [p for p in ps if p[4].get("stage") == info.get("stage")] or ps
            if ps:
                family, small, what, detail, info, results, engs = ps[0]
            else:
                small = case
        ctx.violation("real outputs of two backends differ (C06): " + what,
                      {"family": family, "case": small, "engines": engs, **detail, "which_engine_deviates": attribute(family, small, results)},
                      kind="concrete", match_info=info)
    if not ctx.violations and not ctx.lean.ok:  # no NEW concrete violation: a known finding does not excuse a broken obligation
        ctx.violation("Lean obligations for C06 (generated dialect table) no longer check",
                      {"theorems": ctx.lean.as_dict()["undischarged"], "problems": ctx.lean.problems, "build_log_tail": ctx.lean.build_log[-2500:],
                       "dialect_table": ctx.extra_cov.get("dialect_table"), "searched_cases": ctx.evaluations}, kind="unproved")


if __name__ == "__main__":
    import sys

    if len(sys.argv) == 4 and sys.argv[1] == "--spark-child":
        import logging
        import warnings

        warnings.filterwarnings("ignore")
        logging.disable(logging.WARNING)
        _spark_child(sys.argv[2], sys.argv[3])
