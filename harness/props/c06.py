"""C06 — all executable backends compute the same linkage.

Lean: there is ONE dialect-independent model per pipeline (Model/Blocking, Score, EM, Estimators, CC, MultiThreshold,
BlockingAnalysis — proved in C01..C05, C11, C14 and compared with each backend's real output by those checks).  What is
dialect-specific in Splink's SQL is recorded in the GENERATED table Generated/Dialects.lean (harness/translate/tdialect.py: the
dialect classes of /repo + every emitted function evaluated on the real backends); Properties/C06.lean proves over that table
that every emitted similarity/distance function has the same orientation on every executable dialect, the one the comparison
levels assume, and is NULL on NULL; that what DuckDB/SQLite emit really runs; that the infinity spellings denote +inf (with the
proved SQLite exception K6); and an elaboration-time walk shows no model/driver definition mentions a dialect type.
Tie: the SAME scenario (generators and run_impl of c01, c02, c03, c04, c05, c11, c14 + own full pipelines + every library
comparison creator both engines accept) is run on duckdb and sqlite (and spark in thorough) and the REAL outputs are compared
with one another; the underlying checks' oracles say which engine deviates.
"""
from __future__ import annotations

import json
import math
import random
import re

from harness import core, graphs
from harness.props import c01, c02, c03, c04, c05, c11, c14

PROP = "C06"
ENGINES = ["duckdb", "sqlite"]
W_REL, W_ABS = 1e-9, 1e-9      # Bayes factors, match weights
P_REL, P_ABS = 1e-9, 1e-12     # probabilities, directly estimated parameters
EM_REL, EM_ABS = 1e-7, 1e-12   # parameters after several EM iterations
UNSUPPORTED = re.compile(r"no such function|Function with name \S+ does not exist|UNRESOLVED_ROUTINE|NotImplementedError|is not supported|No function matches the given name", re.I)


def jr(x):
    """JSON round trip: what runs is exactly what a replay file would hold."""
    return json.loads(json.dumps(x))


# =========================================================================== own families: full pipeline, creators
FIRST = ["ann", "anne", "anna", "bob", "bobb", "rob", "cy", "dee", "dea"]
SUR = ["smith", "smyth", "jones", "jonas", "lee", "li", "brown"]
CITY = ["york", "bath", "hull"]


def gen_pipeline(rng: random.Random, spark_ok=False):
    k = rng.choice([1, 1, 2])
    link_type = "dedupe_only" if k == 1 else rng.choice(["link_only", "link_and_dedupe"])
    n_ent = rng.randint(4, 8)
    ents = [{"first_name": rng.choice(FIRST), "surname": rng.choice(SUR), "city": rng.choice(CITY), "age": rng.randint(20, 60)} for _ in range(n_ent)]
    tables, uid = [], 0
    for _ in range(k):
        rows = []
        for _ in range(rng.randint(10, 16)):
            uid += 1
            e = dict(rng.choice(ents))
            if rng.random() < 0.3:
                e["first_name"] = rng.choice(FIRST)
            if rng.random() < 0.2:
                e["surname"] = rng.choice(SUR)
            if rng.random() < 0.2:
                e["age"] += rng.choice([-2, -1, 1, 2, 7])
            if rng.random() < 0.15:
                e["city"] = rng.choice(CITY)
            for col in ("first_name", "surname", "city", "age"):
                if rng.random() < 0.08:
                    e[col] = None
            rows.append(dict(unique_id=uid, **e))
        tables.append(rows)
    return {
        "link_type": link_type, "tables": tables, "tf": rng.random() < 0.8,
        # Jaro-Winkler needs the Scala UDF jar on Spark: levenshtein-only variant there
        "surname_cmp": "lev" if spark_ok else rng.choice(["lev", "jw", "dl"]),
        "recall": rng.choice([0.6, 0.8, 1.0]), "em_sessions": rng.choice([1, 2]), "thr": rng.choice([0.5, 0.9, 0.2]),
        # few iterations: on tables this small a long EM run drives some m to exactly 0 and BOTH engines then raise on log2(0)
        "max_iter": rng.choice([2, 4, 6]), "shuffle": rng.randrange(1 << 30), "tag": "pipeline",
    }


def pipeline_frames(case):
    from harness import impl

    rng = random.Random(case.get("shuffle", 0))
    out = []
    for rows in case["tables"]:
        rows = list(rows)
        rng.shuffle(rows)
        out.append(impl.typed_frame(rows, {"unique_id": "int", "first_name": "str", "surname": "str", "city": "str", "age": "int"}))
    return out


PIPE_RULES = ["l.first_name = r.first_name", "l.surname = r.surname", "l.city = r.city and l.age = r.age"]


def pipeline_settings(case):
    import splink.comparison_level_library as cll
    import splink.comparison_library as cl
    from splink import SettingsCreator

    sur = {"lev": lambda: cl.LevenshteinAtThresholds("surname", [1]), "jw": lambda: cl.JaroWinklerAtThresholds("surname", [0.9]),
           "dl": lambda: cl.DamerauLevenshteinAtThresholds("surname", [1])}[case["surname_cmp"]]()
    comps = [
        cl.LevenshteinAtThresholds("first_name", [1, 2]).configure(term_frequency_adjustments=case["tf"]),
        sur,
        cl.ExactMatch("city").configure(term_frequency_adjustments=case["tf"]),
        cl.CustomComparison(output_column_name="age", comparison_levels=[cll.NullLevel("age"), cll.ExactMatchLevel("age"), cll.AbsoluteDifferenceLevel("age", 2), cll.ElseLevel()]),
    ]
    return SettingsCreator(link_type=case["link_type"], comparisons=comps, blocking_rules_to_generate_predictions=list(PIPE_RULES),
                           retain_matching_columns=True, retain_intermediate_calculation_columns=True, max_iterations=case["max_iter"], em_convergence=0.001)


def run_pipeline(case: dict) -> dict:
    from splink import Linker
    from splink.internals.blocking_analysis import count_comparisons_from_blocking_rule, cumulative_comparisons_to_be_scored_from_blocking_rules_data

    from harness import impl

    api = impl.make_api(case["engine"], threads=2)
    frames = pipeline_frames(case)
    k = len(frames)
    linker = Linker(frames[0] if k == 1 else frames, pipeline_settings(case), api, input_table_aliases=None if k == 1 else c01.ALIASES[:k])
    out = {}
    linker.training.estimate_probability_two_random_records_match(["l.first_name = r.first_name and l.surname = r.surname"], recall=case["recall"])
    out["prior"] = linker._settings_obj._probability_two_random_records_match
    linker.training.estimate_u_using_random_sampling(max_pairs=1e7)
    out["u"] = c03.dump_cms(linker._settings_obj.core_model_settings)
    out["em"] = []
    for rule in ["l.surname = r.surname", "l.first_name = r.first_name"][: case["em_sessions"]]:
        try:
            sess = linker.training.estimate_parameters_using_expectation_maximisation(rule, fix_u_probabilities=True)
        except Exception as e:  # noqa: BLE001
            from splink.internals.exceptions import EMTrainingException

            if isinstance(e, EMTrainingException):
                out["em"].append({"no_pairs": True})
                break
            raise
        out["em"].append({"history": [c03.dump_cms(h) for h in sess._core_model_settings_history],
                          "after": c03.dump_cms(linker._settings_obj.core_model_settings)})
    df_predict = linker.inference.predict()
    multi = k > 1
    pred = {}
    for r in df_predict.as_record_dict():
        key = f"{r.get('source_dataset_l', '')}|{r['unique_id_l']}|{r.get('source_dataset_r', '')}|{r['unique_id_r']}"
        pred[key] = {c: v for c, v in r.items() if c.startswith(("gamma_", "bf_", "tf_", "match_"))}
    out["predict"] = pred
    cl_rows = linker.clustering.cluster_pairwise_predictions_at_threshold(df_predict, threshold_match_probability=case["thr"]).as_record_dict()
    out["clusters"] = {f"{r.get('source_dataset', '')}|{r['unique_id']}": str(r["cluster_id"]) for r in cl_rows}
    kw = {"unique_id_column_name": "unique_id"}
    api2 = impl.make_api(case["engine"], threads=2)
    df = cumulative_comparisons_to_be_scored_from_blocking_rules_data(table_or_tables=pipeline_frames(case), blocking_rules=list(PIPE_RULES), link_type=case["link_type"], db_api=api2, **kw)
    out["cumulative"] = [[int(r["match_key"]), int(r["row_count"]), int(r["cumulative_rows"]), float(r["cartesian"])] for r in df.to_dict(orient="records")]
    api3 = impl.make_api(case["engine"], threads=2)
    res = count_comparisons_from_blocking_rule(table_or_tables=pipeline_frames(case), blocking_rule=PIPE_RULES[2], link_type=case["link_type"], db_api=api3, **kw)
    out["count"] = [int(res["number_of_comparisons_generated_pre_filter_conditions"]), int(res["number_of_comparisons_to_be_scored_post_filter_conditions"])]
    out["multi"] = multi
    return out


# --------------------------------------------------------------------------- library comparison creators on a value grid
GRID = [
    {"unique_id": 1, "s": "martha", "s2": "jones", "d": "1990-01-15", "lat": 51.50, "lon": -0.12, "n": 100, "email": "martha@x.org", "pc": "AB1 2CD"},
    {"unique_id": 2, "s": "marhta", "s2": "jonas", "d": "1990-01-25", "lat": 51.51, "lon": -0.13, "n": 101, "email": "marhta@x.org", "pc": "AB1 2CE"},
    {"unique_id": 3, "s": "martha", "s2": "martha", "d": "1990-03-15", "lat": 52.20, "lon": 0.12, "n": 100, "email": "martha@y.org", "pc": "AB1 3XY"},
    {"unique_id": 4, "s": "jones", "s2": "martha", "d": "1991-01-15", "lat": 53.48, "lon": -2.24, "n": 120, "email": "jones@x.org", "pc": "AB2 9ZZ"},
    {"unique_id": 5, "s": "dwayne", "s2": "duane", "d": "2001-07-04", "lat": 40.71, "lon": -74.0, "n": 7, "email": "dw@z.com", "pc": "ZZ9 9ZZ"},
    {"unique_id": 6, "s": "duane", "s2": "dwayne", "d": "2001-07-05", "lat": -33.87, "lon": 151.2, "n": 0, "email": "dw@z.com", "pc": "ZZ9 9ZZ"},
    {"unique_id": 7, "s": "dixon", "s2": "dicksonx", "d": "not a date", "lat": 51.50, "lon": -0.12, "n": -3, "email": "none", "pc": "bad"},
    {"unique_id": 8, "s": "dicksonx", "s2": "dixon", "d": None, "lat": None, "lon": -0.12, "n": None, "email": None, "pc": None},
    {"unique_id": 9, "s": None, "s2": "jones", "d": "1990-01-15", "lat": 51.50, "lon": None, "n": 100, "email": "martha@x.org", "pc": "AB1 2CD"},
    {"unique_id": 10, "s": "", "s2": "", "d": "1989-12-31", "lat": 0.0, "lon": 0.0, "n": 1, "email": "", "pc": ""},
    # short values next to the empty string: edit distance('', 'al') = 2 and ('', 'b') = 1 are WITHIN the thresholds used below, so an engine
    # that treats '' as NULL in its similarity functions puts these pairs in another level than one that treats it as a value
    {"unique_id": 11, "s": "al", "s2": "b", "d": "1989-12-30", "lat": 0.0, "lon": 0.1, "n": 2, "email": "a@b.c", "pc": "A"},
    {"unique_id": 12, "s": "b", "s2": "al", "d": "1990-01-01", "lat": 0.1, "lon": 0.0, "n": 3, "email": "b@b.c", "pc": "B"},
]
for _r in GRID:
    _r["f"] = None if _r["n"] is None else _r["n"] + 0.5
ARRAY_CREATORS = {"PairwiseStringDistanceFunctionAtThresholds", "ArrayIntersectAtSizes"}  # get an `arr` column (never reaches SQLite: its dialect rejects them first)
CORPUS_ONLY_CREATORS: set = set()  # specimens that hit an unrepaired defect: kept as corpus cases only
GRID_TYPES = {"f": "float", "unique_id": "int", "s": "str", "s2": "str", "d": "str", "lat": "float", "lon": "float", "n": "int", "email": "str", "pc": "str"}


def creator_specs():
    import splink.comparison_level_library as cll
    import splink.comparison_library as cl
    from splink import ColumnExpression

    return {
        "ExactMatch": lambda: cl.ExactMatch("s"),
        "ExactMatch(lower)": lambda: cl.ExactMatch(ColumnExpression("s").lower()),
        "ExactMatch(substr)": lambda: cl.ExactMatch(ColumnExpression("s").substr(1, 3)),
        "LevenshteinAtThresholds": lambda: cl.LevenshteinAtThresholds("s", [1, 2]),
        "DamerauLevenshteinAtThresholds": lambda: cl.DamerauLevenshteinAtThresholds("s", [1, 2]),
        "JaccardAtThresholds": lambda: cl.JaccardAtThresholds("s", [0.9, 0.5]),
        "JaroAtThresholds": lambda: cl.JaroAtThresholds("s", [0.9, 0.7]),
        "JaroWinklerAtThresholds": lambda: cl.JaroWinklerAtThresholds("s", [0.9, 0.7]),
        "DistanceFunctionAtThresholds": lambda: cl.DistanceFunctionAtThresholds("s", "levenshtein", [1, 2], higher_is_more_similar=False),
        "PairwiseStringDistanceFunctionAtThresholds": lambda: cl.PairwiseStringDistanceFunctionAtThresholds("arr", "levenshtein", [1, 2]),
        "AbsoluteTimeDifferenceAtThresholds": lambda: cl.AbsoluteTimeDifferenceAtThresholds("d", input_is_string=True, metrics=["day", "month"], thresholds=[15, 3]),
        "AbsoluteDateDifferenceAtThresholds": lambda: cl.AbsoluteDateDifferenceAtThresholds("d", input_is_string=True, metrics=["day", "year"], thresholds=[15, 1]),
        "ArrayIntersectAtSizes": lambda: cl.ArrayIntersectAtSizes("arr", [1]),
        "DistanceInKMAtThresholds": lambda: cl.DistanceInKMAtThresholds("lat", "lon", [2, 200]),
        "CustomComparison": lambda: cl.CustomComparison(output_column_name="custom", comparison_levels=[
            cll.NullLevel("n"), cll.ExactMatchLevel("n"), cll.AbsoluteDifferenceLevel("n", 2), cll.ElseLevel()]),
        "CustomComparison(percentage,float)": lambda: cl.CustomComparison(output_column_name="pct", comparison_levels=[
            cll.NullLevel("f"), cll.ExactMatchLevel("f"), cll.PercentageDifferenceLevel("f", 0.25), cll.ElseLevel()]),
        # regression for /repo c25435e3: on an INTEGER column SQLite's `/` truncated, so the level held for every pair (also corpus/C06/D2_*)
        "CustomComparison(percentage,int)": lambda: cl.CustomComparison(output_column_name="pct", comparison_levels=[
            cll.NullLevel("n"), cll.ExactMatchLevel("n"), cll.PercentageDifferenceLevel("n", 0.25), cll.ElseLevel()]),
        "CustomComparison(reversed,literal)": lambda: cl.CustomComparison(output_column_name="custom2", comparison_levels=[
            cll.And(cll.NullLevel("s"), cll.NullLevel("s2")), cll.ExactMatchLevel("s"), cll.ColumnsReversedLevel("s", "s2"),
            cll.LiteralMatchLevel("s2", "jones", "string", "both"), cll.Or(cll.LevenshteinLevel("s2", 1), cll.Not(cll.NullLevel("n"))), cll.ElseLevel()]),
        "DateOfBirthComparison": lambda: cl.DateOfBirthComparison("d", input_is_string=True),
        "PostcodeComparison": lambda: cl.PostcodeComparison("pc"),
        "EmailComparison": lambda: cl.EmailComparison("email"),
        "NameComparison": lambda: cl.NameComparison("s"),
        "ForenameSurnameComparison": lambda: cl.ForenameSurnameComparison("s", "s2"),
        "CosineSimilarityAtThresholds": lambda: cl.CosineSimilarityAtThresholds("s", [0.9]),
    }


def library_creator_names():
    import inspect

    import splink.comparison_library as cl
    from splink.internals.comparison_creator import ComparisonCreator

    return sorted(n for n, o in vars(cl).items() if inspect.isclass(o) and issubclass(o, ComparisonCreator) and o is not ComparisonCreator and not n.startswith("_"))


def run_creator(case: dict) -> dict:
    from splink import Linker, SettingsCreator

    from harness import impl

    creator = creator_specs()[case["creator"]]()
    eng = case["engine"]
    if case.get("prerender"):
        # the SAME creator object is first rendered for every other dialect (as a user inspecting its SQL would do): what it
        # then produces for this engine must not remember any of them
        for d in ("spark", "postgres", "athena", "duckdb", "sqlite"):
            if d != eng:
                try:
                    creator.get_comparison(d)
                except Exception:  # noqa: BLE001  a dialect may refuse the creator
                    pass
    try:
        comparison = creator.get_comparison(eng)
        levels = [l.sql_condition for l in comparison.comparison_levels]
    except Exception as e:  # noqa: BLE001  the dialect refuses the creator: a loud "not supported", recorded as such
        if case.get("prerender"):
            try:
                creator_specs()[case["creator"]]().get_comparison(eng)
            except Exception:  # noqa: BLE001  a fresh object is refused as well: the dialect's own refusal
                pass
            else:
                # refused only after having been rendered for other dialects: the real code's failure, not a "not supported"
                raise
        return {"rejected": f"{type(e).__name__}: {str(e)[:200]}"}
    api = impl.make_api(eng, threads=2)
    rows = list(GRID)
    random.Random(case.get("shuffle", 0)).shuffle(rows)
    df = impl.typed_frame(rows, GRID_TYPES)
    if case["creator"] in ARRAY_CREATORS:
        df["arr"] = [[v for v in (r["s"], r["s2"]) if v is not None] for r in rows]
    settings = SettingsCreator(link_type="dedupe_only", comparisons=[creator], blocking_rules_to_generate_predictions=[], retain_matching_columns=True,
                               retain_intermediate_calculation_columns=True, probability_two_random_records_match=0.1)
    linker = Linker(df, settings, api)
    pred = {}
    for r in linker.inference.predict().as_record_dict():
        pred[f"{r['unique_id_l']}-{r['unique_id_r']}"] = {c: v for c, v in r.items() if c.startswith(("gamma_", "bf_", "match_"))}
    return {"rows": pred, "levels": levels}


# =========================================================================== generators per family (engine-free base cases)
def gen_blocking(rng):
    return c01.gen_case(rng, engine="sqlite")  # "sqlite": plain rules only, no arrays, no salting — the features every backend has


def gen_score(rng):
    c = c02.gen_case(rng, engine="sqlite")  # engine-free base case (u = 0 levels included since the repair of K6)
    if rng.random() < 0.3:
        ws = [w for x, y in c02.pairs_of(c) for _, w in [c02.oracle_weight(c, x, y)] if w is not None and w != math.inf]
        if ws:
            w = rng.choice(ws)
            c["thr"] = {"kind": "weight", "value": rng.choice([w + 0.5, w - 0.5, round(w, 1)])}
    return c


def gen_em(rng):
    return c03.gen_case(rng, engine="sqlite")


def gen_estim(rng):
    c = c04.gen_case(rng, kind=rng.choice(["u_full", "u_full", "m_label_col", "m_pairwise", "prior", "prior"]), engine="sqlite")
    if c["kind"] == "u_full":
        c["seed"] = None  # full sample, no seed: deterministic on every backend
    return c


def gen_cluster(rng):
    fam = rng.choice(["path", "cycle", "star", "cliques", "caterpillar", "gnp", "gnp", "forest", "grid"])
    n = rng.randint(2, 30)
    return c05.decorate(rng, n, graphs.family(rng, fam, n), engine="sqlite", entry=rng.choice(["fn", "fn", "linker"]),
                        order=rng.choice(["identity", "reversed", "bitrev", "zigzag", "random"]), tag=fam)


def gen_multi(rng):
    fam = rng.choice(["path", "cycle", "star", "cliques", "gnp", "gnp", "forest"])
    n = rng.randint(2, 24)
    base = c05.decorate(rng, n, graphs.family(rng, fam, n), engine="sqlite", entry="fn", probs=rng.choice(["grid", "rand"]), thr=None, tag=fam)
    weights = rng.random() < 0.25
    if weights:
        ts = sorted({round(rng.uniform(-6, 6), 2) for _ in range(rng.randint(1, 5))})
        rng.shuffle(ts)
    else:
        ts = c11.gen_thresholds(rng, base["edges"])
    base.update(ts=ts, weights=weights, stats=rng.random() < 0.3)
    return base


def gen_analysis(rng):
    return c14.gen_case(rng, engine="sqlite")  # "sqlite": no array column / exploding rules - the features every backend has


def prep(family, case):
    """Undo the JSON round trip where the underlying check needs tuples."""
    if family == "blocking":
        return c01.normalise(case)
    if family == "analysis":
        return c14.normalise(case)
    return case


RUNNERS = {"blocking": c01.run_impl, "score": c02.run_impl, "em": c03.run_impl, "estim": c04.run_impl, "cluster": c05.run_impl,
           "multi": c11.run_impl, "analysis": c14.run_impl, "pipeline": run_pipeline, "creator": run_creator}
GENS = {"blocking": gen_blocking, "score": gen_score, "em": gen_em, "estim": gen_estim, "cluster": gen_cluster, "multi": gen_multi,
        "analysis": gen_analysis, "pipeline": gen_pipeline}


def run_job(job):
    family, case = job
    return RUNNERS[family](prep(family, case))


run_job_safe = core.safe(run_job)

SPARK_CHUNK = 8


def _spark_child(inp, outp):
    """Child process: one JVM for a handful of Spark jobs (persisted tables accumulate in the 2 GB driver otherwise)."""
    import pickle
    import traceback

    from harness import impl

    jobs = pickle.load(open(inp, "rb"))
    # the hand-written level / rule SQL of c02, c03, c04 quotes identifiers with double quotes — a string literal in Spark SQL: same text with backticks
    lv, ru = c02.level_sql, c03.rule_sql
    c02.level_sql = lambda col, l: lv(col, l).replace('"', "`")
    c03.rule_sql = lambda case, cols: ru(case, cols).replace('"', "`")
    out = []
    for job in jobs:
        try:
            out.append(run_job(job))
        except Exception as e:  # noqa: BLE001
            tb = traceback.format_exc()
            # Java stack traces are long: keep the head (where the /repo frames are) and the tail
            out.append({"__error__": type(e).__name__, "text": str(e)[:2000], "tb": tb if len(tb) < 9000 else tb[:4500] + "\n...\n" + tb[-4500:]})
        try:  # session hygiene between scenarios: cached tables and the input views registered under fixed aliases (ta, tb, ...)
            if impl._SPARK is not None:
                impl._SPARK.catalog.clearCache()
                for t in impl._SPARK.catalog.listTables():
                    if t.isTemporary:
                        impl._SPARK.catalog.dropTempView(t.name)
        except Exception:  # noqa: BLE001
            pass
    pickle.dump(out, open(outp, "wb"))


def run_spark_jobs(jobs):
    import os
    import pickle
    import subprocess
    import sys

    d = core.scratch_dir()
    res = []
    for k in range(0, len(jobs), SPARK_CHUNK):
        inp, outp = d / f"spark_in_{k}.pkl", d / f"spark_out_{k}.pkl"
        pickle.dump(jobs[k:k + SPARK_CHUNK], open(inp, "wb"))
        env = dict(os.environ)
        env["PYTHONPATH"] = f"{core.VERIF}:/repo"
        p = subprocess.run([sys.executable, "-m", "harness.props.c06", "--spark-child", str(inp), str(outp)], cwd=core.VERIF, env=env, capture_output=True, text=True, timeout=3000)
        if p.returncode != 0 or not outp.exists():
            raise core.HarnessError(f"Spark child process failed (rc={p.returncode}): {(p.stderr or p.stdout)[-1500:]}")
        res += pickle.load(open(outp, "rb"))
    return res


# =========================================================================== comparison of two real outputs
def fclose(a, b, rel, abs_):
    # Spark hands results over through pandas, where a NULL double arrives as NaN: NULL and NaN are not distinguished
    a = None if isinstance(a, float) and a != a else a
    b = None if isinstance(b, float) and b != b else b
    if isinstance(a, bool) or isinstance(b, bool) or isinstance(a, str) or isinstance(b, str):
        return a == b
    if a is None or b is None:
        return a is None and b is None
    return core.close(float(a), float(b), rel, abs_)


def diff_rowdict(ra, rb, what="row"):
    """Rows keyed by pair id, each a dict of gamma_/bf_/tf_/match_ columns."""
    for key in ra:
        x, y = ra[key], rb[key]
        if sorted(x) != sorted(y):
            return f"{what} {key}: columns {sorted(set(x) ^ set(y))} present on one engine only"
        for col in sorted(x, key=lambda c: (not c.startswith("gamma_"), c)):
            if col.startswith("gamma_") or col == "match_key":
                if str(x[col]) != str(y[col]):
                    return f"{what} {key}: {col} {x[col]} vs {y[col]}"
            elif col == "match_probability":
                if not fclose(x[col], y[col], P_REL, P_ABS):
                    return f"{what} {key}: {col} {x[col]} vs {y[col]}"
            elif not fclose(x[col], y[col], W_REL, W_ABS):
                return f"{what} {key}: {col} {x[col]} vs {y[col]}"
    return None


def theta_changes(a, b):
    out = [abs(a["prior"] - b["prior"])]
    for name in a["comparisons"]:
        for x, y in zip(a["comparisons"][name], b["comparisons"][name]):
            if x is not None and y is not None:
                out += [abs(x["m"] - y["m"]), abs(x["u"] - y["u"])]
    return out


def diff_sessions(sa, sb, conv, max_iter):
    """EM sessions: (difference | None, excluded-reason | None)."""
    if len(sa) != len(sb):
        return f"{len(sa)} vs {len(sb)} training sessions ran", None
    for k, (x, y) in enumerate(zip(sa, sb)):
        if bool(x.get("no_pairs")) != bool(y.get("no_pairs")):
            return f"session {k}: 'no pairs to train on' on one engine only", None
        if x.get("no_pairs"):
            continue
        if "before" in x:
            d = c03.theta_close(x["before"], y["before"], EM_REL)
            if d:
                return f"session {k} starting parameters: {d}", None
        if x.get("deactivated") != y.get("deactivated"):
            return f"session {k}: deactivated comparisons {x.get('deactivated')} vs {y.get('deactivated')}", None
        hx, hy = x["history"], y["history"]
        for i in range(min(len(hx), len(hy))):
            d = c03.theta_close(hx[i], hy[i], EM_REL)
            if d:
                return f"session {k} iteration {i}: {d}", None
        if len(hx) != len(hy):
            short = hx if len(hx) < len(hy) else hy
            ch = theta_changes(short[-1], short[-2]) if len(short) >= 2 else []
            if any(abs(c - conv) <= 1e-9 for c in ch):
                return None, "EM convergence test within 1e-9 of em_convergence: iteration counts may differ by rounding"
            return f"session {k}: {len(hx) - 1} vs {len(hy) - 1} EM iterations", None
        d = c03.theta_close(x["after"], y["after"], EM_REL)
        if d:
            return f"session {k} trained parameters: {d}", None
    return None, None


_MISPARSE: dict = {}


def sqlite_misparses(t) -> bool:
    """SQLite (3.40 here) converts some decimal literals to a double one ulp away from the correctly rounded value (0.499889 is one;
    7 of 20000 six-digit literals).  Splink inlines thresholds as decimal text, so on SQLite `match_probability >= 0.499889` is FALSE for a
    stored 0.499889.  Such a threshold is 'within rounding' of the value it excludes: the property excepts it."""
    if t is None:
        return False
    if t not in _MISPARSE:
        import sqlite3

        con = sqlite3.connect(":memory:")
        _MISPARSE[t] = not con.execute(f"select {float(t)!r} = ?", (float(t),)).fetchone()[0]
        con.close()
    return _MISPARSE[t]


def thresholds_of(family, case):
    if family == "cluster":
        return [c05.oracle_threshold(case), case.get("thr")]
    if family == "multi":
        return list(c11.probs_of(case)) + list(case["ts"])
    if family == "pipeline":
        return [case["thr"]]
    return []


def thr_weight(case):
    thr = case.get("thr")
    if not thr:
        return None
    return thr["value"] if thr["kind"] == "weight" else (None if thr["value"] == 0 else math.log2(thr["value"] / (1 - thr["value"])))


def diff(family, case, ra, rb):
    """(difference | None, excluded-reason | None) between two engines' real outputs of the same scenario."""
    if family == "blocking":
        a, b = sorted(map(json.dumps, ra["rows"])), sorted(map(json.dumps, rb["rows"]))
        if a != b:
            ua = sorted(json.dumps([mk, sorted([l, r], key=json.dumps)]) for mk, l, r in ra["rows"])
            ub = sorted(json.dumps([mk, sorted([l, r], key=json.dumps)]) for mk, l, r in rb["rows"])
            only_a, only_b = [x for x in ua if x not in ub], [x for x in ub if x not in ua]
            if ua == ub:
                return "same pairs and match_keys but some pair has its left and right records swapped", None
            return f"blocked pair sets differ: only on first {only_a[:3]}, only on second {only_b[:3]}", None
        return None, None
    if family == "score":
        tw = thr_weight(case)
        ka, kb = set(ra["rows"]), set(rb["rows"])
        for key in ka ^ kb:
            row = (ra["rows"].get(key) or rb["rows"].get(key))
            if tw is not None and abs(row["match_weight"] - tw) <= 1e-9 * max(1, abs(tw)):
                continue  # within rounding of the threshold: excepted by the property
            return f"pair {key} scored on one engine only (weight {row['match_weight']}, threshold {tw})", None
        common = ka & kb
        return diff_rowdict({k: ra["rows"][k] for k in common}, {k: rb["rows"][k] for k in common}, "pair"), None
    if family == "em":
        return diff_sessions(ra["sessions"], rb["sessions"], case["conv"], case["max_iter"])
    if family == "estim":
        if sorted(ra) != sorted(rb):
            return f"result shape {sorted(ra)} vs {sorted(rb)}", None
        if "levels" in ra:
            if sorted(ra["levels"]) != sorted(rb["levels"]):
                return "comparisons differ", None
            for name in ra["levels"]:
                for x, y in zip(ra["levels"][name], rb["levels"][name]):
                    if x["cvv"] != y["cvv"] or not fclose(x["value"], y["value"], P_REL, P_ABS) or len(x["trained"]) != len(y["trained"]) or any(
                            not fclose(p, q, P_REL, P_ABS) for p, q in zip(x["trained"], y["trained"])):
                        return f"{name} level {x['cvv']}: estimate {x['value']} {x['trained']} vs {y['value']} {y['trained']}", None
            return None, None
        if ra["rejected"] != rb["rejected"]:
            near = abs(c04.matched_pairs(case) - c04.cartesian(case) * ra["recall"]) <= 1e-9 * max(1.0, c04.matched_pairs(case))
            if near:
                return None, "recall guard within rounding of equality"
            return f"recall guard: rejected={ra['rejected']} vs {rb['rejected']}", None
        key = "prior_after" if ra["rejected"] else "prior"
        if not fclose(ra[key], rb[key], P_REL, P_ABS):
            return f"prior {ra[key]} vs {rb[key]}", None
        return None, None
    if family == "cluster":
        if c05.is_threshold_fragile(case):
            return None, "weight threshold within 1e-12 of an edge probability"
        a, b = [list(x) for x in ra["rows"]], [list(x) for x in rb["rows"]]
        if a != b:
            pa, pb = dict(map(tuple, a)), dict(map(tuple, b))
            if sorted(pa) == sorted(pb) and all((pa[i] == pa[j]) == (pb[i] == pb[j]) for i in pa for j in pa):
                return "same partition but different cluster ids", None
            return "cluster partitions differ", None
        return None, None
    if family == "multi":
        if c11.fragile(case):
            return None, "weight threshold within 1e-12 of an edge probability"
        if case["stats"]:
            if len(ra["stats"]) != len(rb["stats"]):
                return f"{len(ra['stats'])} vs {len(rb['stats'])} summary rows", None
            for x, y in zip(ra["stats"], rb["stats"]):
                # x[0] is the threshold LABEL of the summary row: clustering.py emits it as cast(t as float), single precision on DuckDB/Spark
                if not fclose(x[0], y[0], 1e-6, 1e-9) or x[1] != y[1] or x[2] != y[2] or not fclose(x[3], y[3], 1e-9, 1e-12):
                    return f"summary row {x} vs {y}", None
            return None, None
        if len(ra["cols"]) != len(rb["cols"]) or ra["n_rows"] != rb["n_rows"]:
            return f"{len(ra['cols'])} columns x {ra['n_rows']} rows vs {len(rb['cols'])} x {rb['n_rows']}", None
        if [[i, list(v)] for i, v in ra["table"]] != [[i, list(v)] for i, v in rb["table"]]:
            return "cluster columns differ", None
        return None, None
    if family == "analysis":
        for k in ("pre", "post", "cumulative", "match_keys", "equi", "filter"):
            if ra[k] != rb[k]:
                return f"{k}: {ra[k]} vs {rb[k]}", None
        if not fclose(ra["cartesian"], rb["cartesian"], 1e-12, 0):
            return f"cartesian {ra['cartesian']} vs {rb['cartesian']}", None
        if ("nlargest" in ra) != ("nlargest" in rb):
            return "n_largest_blocks ran on one engine only", None
        if "nlargest" in ra:
            # ties between equally large blocks may be broken differently: compare the multiset of block sizes and each reported block's own counts
            if sorted(x[1:] for x in ra["nlargest"]) != sorted(x[1:] for x in rb["nlargest"]) and [x[3] for x in ra["nlargest"]] != [x[3] for x in rb["nlargest"]]:
                return f"n_largest_blocks {ra['nlargest']} vs {rb['nlargest']}", None
        return None, None
    if family == "pipeline":
        if not fclose(ra["prior"], rb["prior"], P_REL, P_ABS):
            return f"stage prior: {ra['prior']} vs {rb['prior']}", None
        d = c03.theta_close(ra["u"], rb["u"], P_REL)
        if d:
            return f"stage estimate_u: {d}", None
        d, ex = diff_sessions(ra["em"], rb["em"], 0.001, case["max_iter"])
        if d or ex:
            return (f"stage EM: {d}" if d else None), ex
        if set(ra["predict"]) != set(rb["predict"]):
            return f"stage predict: scored pair sets differ ({sorted(set(ra['predict']) ^ set(rb['predict']))[:3]})", None
        # weights after EM inherit the EM tolerance
        for key in ra["predict"]:
            x, y = ra["predict"][key], rb["predict"][key]
            if sorted(x) != sorted(y):
                return f"stage predict: pair {key} columns differ", None
            for col in x:
                if col.startswith("gamma_") or col == "match_key":
                    if str(x[col]) != str(y[col]):
                        return f"stage predict: pair {key} {col} {x[col]} vs {y[col]}", None
                elif not fclose(x[col], y[col], EM_REL, 1e-7):
                    return f"stage predict: pair {key} {col} {x[col]} vs {y[col]}", None
        fragile = any(abs(v["match_probability"] - case["thr"]) <= 1e-7 for v in ra["predict"].values())
        if fragile:
            return None, "pipeline: a match probability within 1e-7 of the clustering threshold"
        if ra["clusters"] != rb["clusters"]:
            return "stage cluster: cluster tables differ", None
        if ra["cumulative"] != rb["cumulative"] or ra["count"] != rb["count"]:
            return f"stage blocking analysis: {ra['cumulative']} {ra['count']} vs {rb['cumulative']} {rb['count']}", None
        # internal consistency across stages (same on every engine): predict rows per match_key = cumulative counts
        return None, None
    if family == "creator":
        if set(ra["rows"]) != set(rb["rows"]):
            return "scored pair sets differ", None
        return diff_rowdict(ra["rows"], rb["rows"], "pair"), None
    raise ValueError(family)


def attribute(family, case, results):
    """Which engine deviates from the independent oracle of the underlying check (where it has one)."""
    out = {}
    c = prep(family, case)
    for eng, r in results.items():
        if not isinstance(r, dict) or "__error__" in r:
            out[eng] = "raised"
            continue
        cc = dict(c, engine=eng)
        v = "n/a"
        if family == "blocking":
            v = c01.verdict(cc, [(mk, tuple(l), tuple(rr)) for mk, l, rr in r["rows"]])
        elif family == "score":
            v = c02.verdict(cc, r)
        elif family == "em":
            v = c03.verdict(cc, r)
        elif family == "estim":
            v = c04.verdict(cc, r)
        elif family == "cluster":
            v = c05.oracle_verdict(cc, [tuple(x) for x in r["rows"]])
        elif family == "multi":
            v = c11.verdict(cc, r)
        elif family == "analysis":
            v = c14.verdict(cc, r)
        out[eng] = "agrees with the oracle of the underlying check" if v is None else (v if v == "n/a" else "DEVIATES: " + str(v))
    return out


def model_request_engine_free(family, case):
    """The request the underlying check sends to the Lean model does not depend on the engine (the model has no dialect input)."""
    c = prep(family, case)
    fn = {"blocking": c01.model_request, "score": c02.model_request, "estim": c04.model_request, "cluster": lambda x: c05.model_request(x)[0],
          "multi": lambda x: c11.model_request(x)[0], "analysis": lambda x: c14.model_request(x)[0]}.get(family)
    if fn is None:
        return None
    reqs = [json.dumps(fn(dict(c, engine=e)), sort_keys=True, default=str) for e in ("duckdb", "sqlite", "spark")]
    return reqs[0] == reqs[1] == reqs[2]


# =========================================================================== evaluation of a batch of scenarios
def has_u_zero(family, case, ok_results=None):
    """The scenario has a level with u = 0 (an infinite Bayes factor): given in the settings (score), or — em / pipeline — reached
    by training: some parameter set in the history of an engine that got through has u exactly 0 (K6: SQLite cannot score it)."""
    if family == "score":
        return any(l.get("u") == 0 for cc in case["comparisons"] for l in cc["levels"])
    thetas = []
    for r in (ok_results or {}).values():
        sessions = r.get("sessions") if family == "em" else r.get("em") if family == "pipeline" else None
        for s_ in sessions or []:
            thetas += s_.get("history", [])
        if family == "pipeline" and "u" in r:
            thetas.append(r["u"])
    return any(l is not None and l["uObs"] and l["u"] == 0 for t in thetas for lv in t["comparisons"].values() for l in lv)


def has_m_zero(family, ok_results):
    """Training reached m exactly 0 (a zero Bayes factor) on an engine that got through."""
    thetas = []
    for r in (ok_results or {}).values():
        sessions = r.get("sessions") if family == "em" else r.get("em") if family == "pipeline" else None
        for s_ in sessions or []:
            thetas += s_.get("history", [])
    return any(l is not None and l["mObs"] and l["m"] == 0 for t in thetas for lv in t["comparisons"].values() for l in lv)


def evaluate(ctx, scenarios, engines, parallel=True, record=True):
    """scenarios: [(family, base case)].  Returns [(family, case, what, detail dict, match_info)] for disagreements."""
    jobs = [(f, dict(c, engine=e)) for f, c in scenarios for e in engines]
    par = [i for i, (_, c) in enumerate(jobs) if c["engine"] != "spark"]
    res = [None] * len(jobs)
    if parallel:
        for i, r in zip(par, core.pmap(run_job_safe, [jobs[i] for i in par], chunksize=2)):
            res[i] = r
    else:
        for i in par:
            res[i] = run_job_safe(jobs[i])
    sp = [i for i, (_, c) in enumerate(jobs) if c["engine"] == "spark"]
    for i, r in zip(sp, run_spark_jobs([jobs[i] for i in sp]) if sp else []):
        res[i] = r
    problems = []
    for si, (family, case) in enumerate(scenarios):
        results = {e: res[si * len(engines) + k] for k, e in enumerate(engines)}
        oom = [e for e, r in results.items() if isinstance(r, dict) and "__error__" in r and "OutOfMemoryError" in r["text"] + r.get("tb", "")]
        if oom:  # the 2 GB Spark driver of this sandbox ran out of heap: infrastructure, says nothing about the scenario
            if record:
                ctx.count("excluded", f"{family}: {'+'.join(oom)} driver out of memory in this sandbox")
            results = {e: r for e, r in results.items() if e not in oom}
        errs = {e: r for e, r in results.items() if core.impl_error(r)}
        ok = {e: r for e, r in results.items() if e not in errs}
        if record:
            canon = {k: v for k, v in case.items() if k not in ("shuffle", "tag")}
            ctx.case({"family": family, "case": canon}, True,
                     sample={"family": family, "case": case, "outputs": {e: (r if e in ok else r["__error__"]) for e, r in results.items()}}
                     if family in ("estim", "analysis") and len(json.dumps(case)) < 1500 else None)
            ctx.count("family", family)
            ctx.count("engines", "+".join(engines))
            if "link_type" in case:
                ctx.count("link_type", case["link_type"])
            if family == "creator":
                ctx.count("creator", case["creator"])
            if family == "estim":
                ctx.count("estimator", case["kind"])
            if family == "score":
                ctx.count("score_has_tf", any("tf" in l for cc in case["comparisons"] for l in cc["levels"]))
                ctx.count("score_threshold", bool(case.get("thr")))
            if family == "pipeline":
                ctx.count("pipeline_surname_cmp", case["surname_cmp"]); ctx.count("pipeline_em_sessions", case["em_sessions"]); ctx.count("pipeline_tf", case["tf"])
            mr = model_request_engine_free(family, case)
            if mr is not None:
                ctx.count("model_request_engine_free", mr)
                if not mr:
                    raise core.HarnessError(f"the model request of family {family} depends on the engine field")
        if family == "creator":
            rej = {e: r["rejected"] for e, r in ok.items() if "rejected" in r}
            unsup = {e: r for e, r in errs.items() if UNSUPPORTED.search(r["text"] + r.get("tb", "")[-3000:])}
            if rej or unsup:
                if record:
                    for e in rej:
                        ctx.count("excluded", f"creator {case['creator']}: {e} rejects it at get_comparison()")
                    for e in unsup:
                        ctx.count("excluded", f"creator {case['creator']}: accepted by the {e} dialect but the backend raised 'unsupported' at run time")
                        ctx.extra_cov.setdefault("creators_failing_at_run_time", {})[f"{case['creator']}@{e}"] = unsup[e]["text"][:300]
                ok = {e: r for e, r in ok.items() if e not in rej}
                errs = {e: r for e, r in errs.items() if e not in unsup}
                if len(ok) + len(errs) < 2:
                    if record:
                        ctx.count("excluded", "creator: fewer than two engines support the scenario")
                    continue
        if errs and not ok and len({r["__error__"] for r in errs.values()}) == 1:
            if record:
                ctx.count("agree", "every engine raised the same exception type")
                ctx.count("both_raise", f"{family}: {next(iter(errs.values()))['__error__']}")
            continue
        if errs:
            e = sorted(errs)[0]
            r = errs[e]
            info = {"failure": "real code raised", "engine": e, "has_u_zero": has_u_zero(family, case, ok), "has_m_zero": has_m_zero(family, ok), "family": family, "error_type": r["__error__"]}
            problems.append((family, case, f"{family}: {e} raised {r['__error__']} while {sorted(ok) or 'the other engines raised something else'} returned a result",
                             {"error": {x: {"type": y["__error__"], "text": y["text"][:600]} for x, y in errs.items()}, "outputs": ok}, info, results, list(engines)))
            continue
        names = sorted(ok, key=list(engines).index)
        if len(names) < 2:
            if record:
                ctx.count("excluded", f"{family}: fewer than two engines support the scenario")
            continue
        ref = names[0]
        bad = None
        skipped = False
        for e in names[1:]:
            d, ex = diff(family, case, ok[ref], ok[e])
            if ex:
                skipped = True
                if record:
                    ctx.count("excluded", ex)
            if d and "sqlite" in (ref, e) and any(sqlite_misparses(t) for t in thresholds_of(family, case)):
                skipped = True
                if record:
                    ctx.count("excluded", "a threshold literal that SQLite parses one ulp off (pairs exactly on the threshold are within rounding of it)")
                continue
            if d:
                bad = (e, d)
                break
        if bad:
            e, d = bad
            info = {"failure": "engines disagree", "engine": e, "family": family, "stage": d.split(":")[0][:40]}
            problems.append((family, case, f"{family}: {ref} and {e} disagree", {"difference": d, "outputs": {ref: ok[ref], e: ok[e]}}, info, results, list(engines)))
            continue
        if record and not skipped:
            ctx.traces_validated += 1
            ctx.count("agree", "+".join(names))
    return problems


# =========================================================================== shrinking
def shrink(family, case, engines, still):
    cur = jr(case)
    budget = 24

    def attempt(cand):
        nonlocal budget, cur
        if budget <= 0:
            return False
        budget -= 1
        if still(cand):
            cur = cand
            return True
        return False

    changed = True
    while changed and budget > 0:
        changed = False
        if "tables" in cur:
            for ti in range(len(cur["tables"])):
                for ri in range(len(cur["tables"][ti]) - 1, -1, -1):
                    if len(cur["tables"][ti]) <= 1:
                        break
                    cand = jr(cur)
                    del cand["tables"][ti][ri]
                    changed |= attempt(cand)
        if "rows" in cur:
            for ri in range(len(cur["rows"]) - 1, -1, -1):
                if len(cur["rows"]) <= 2:
                    break
                cand = jr(cur)
                del cand["rows"][ri]
                changed |= attempt(cand)
        for key in ("comparisons", "rules", "sessions", "edges"):
            if key in cur and family != "estim":
                for k in range(len(cur[key]) - 1, -1, -1):
                    if len(cur[key]) <= 1:
                        break
                    cand = jr(cur)
                    del cand[key][k]
                    changed |= attempt(cand)
    return cur


# =========================================================================== run
def scenarios_for(ctx, rng, thorough_scale):
    q = {"blocking": 120, "score": 150, "em": 60, "estim": 120, "cluster": 100, "multi": 80, "analysis": 80, "pipeline": 30}
    out = []
    for fam, n in q.items():
        for _ in range(ctx.budget(n, n * thorough_scale)):
            out.append((fam, jr(GENS[fam](rng))))
    return out


def run(ctx: core.Ctx):
    from harness.translate import tdialect

    engines = list(ENGINES)
    ctx.rule = (
        "scenario = one engine-free case run on every engine and the REAL outputs compared pairwise with the first engine (duckdb = reference). Families: "
        "blocking (c01.gen_case: 1-3 tables x <=8 rows, 0-4 plain rules, all link types, predict/deterministic_link: (match_key, left, right) sets), "
        "score (c02.gen_case: 2-9 rows, 1-4 comparisons exact/levenshtein/abs-diff with NULL level, TF adjustments, registered TF lookups, dict and creator construction, 30% with a weight threshold; no u=0: every predict column), "
        "em (c03.gen_case: 1-3 sessions, fix flags, TF on/off: every iteration's m/u/lambda), estim (c04.gen_case: full-sample u, m from label column, m from pairwise labels, prior from deterministic rules + recall), "
        "cluster (c05.decorate on 9 graph families, n<=30, standalone function and linker method, prob/weight thresholds), multi (c11 thresholds lists, cluster columns or summary stats), "
        "analysis (c14.gen_case: pre/post counts, cumulative counts, cartesian, n_largest_blocks), pipeline (own: 1-2 tables of 10-16 noisy duplicates; prior from a deterministic rule, full-sample u, 1-2 EM sessions, "
        "predict with TF adjustments, clustering at a threshold, cumulative + single-rule blocking counts; library creators Levenshtein/JaroWinkler/DamerauLevenshtein/ExactMatch/CustomComparison), "
        "creator (every class of splink.comparison_library with a specimen on a 10-row value grid incl. NULL and empty strings). Spark (thorough): a few scenarios per family, levenshtein only. "
        "non-trivial = every scenario (all compare at least two real executions); distinct = hash of (family, case)."
    )
    ctx.assumptions = [
        "Bayes factors and match weights: relative 1e-9 / absolute 1e-9 (engines evaluate log2/pow with different libm-level routines: SQLite's log2 and pow are Python's math functions registered as UDFs, DuckDB's are its own; the formulas and operand order are the same SQL)",
        "probabilities and directly estimated m/u/prior: relative 1e-9 (counts are exact integers on every engine; one division)",
        "parameters after EM iterations and the scores computed from them: relative 1e-7 (rounding differences of one ulp per operation can be amplified over up to 25 iterations; 1e-7 is far below any modelling significance and far above accumulated rounding); a session whose convergence test lands within 1e-9 of em_convergence may stop one iteration apart and is excluded",
        "pairs whose weight is within 1e-9 of a predict threshold, graphs with an edge probability within 1e-12 of a weight threshold, pipelines with a match probability within 1e-7 of the clustering threshold: excluded (the property says 'within floating-point tolerance')",
        "multi-threshold summary statistics: the threshold_match_probability label is emitted as cast(t as float) — 32-bit on DuckDB and Spark, 64-bit on SQLite — and is compared at 1e-6 (it is a label, not one of the quantities the property names); counts and sizes exactly",
        "SQLite 3.40 parses some decimal literals one ulp away from the correctly rounded double (0.499889; 7 of 20000 six-digit values); Splink inlines thresholds as decimal text; a clustering scenario whose threshold is such a literal AND whose engines disagree is excluded and counted (the disagreeing pair sits exactly on the threshold: within rounding)",
        "Spark results arrive through pandas: a NULL double and NaN are not distinguished when comparing with Spark",
        "n_largest_blocks: which of several equally large blocks is reported is not compared",
        "a creator the dialect rejects at get_comparison(), or whose SQL makes one backend raise an 'unsupported function' error, is outside the quantifier ('features each backend supports'): excluded and counted, listed under creators_failing_at_run_time",
        "behavioural entries of Generated/Dialects.lean come from evaluating fn('martha','martha'), fn('martha','zzzzzz'), fn(NULL,'a') IS NULL, fn('a',NULL) IS NULL on the real backend: two points and NULL, not the whole function (C16 compares the SQLite UDFs with rapidfuzz pointwise)",
        "Spark's jaro_sim / jaro_winkler / damerau_levenshtein / jaccard are Scala UDFs whose jar does not load on the installed Spark 4: the table records them as notRunnable and no theorem speaks about them",
        "Spark: the hand-written level/rule SQL of the c02/c03/c04 generators is given with backtick-quoted identifiers instead of double-quoted ones (a double-quoted token is a string literal in Spark SQL); Spark scenarios run in child processes, 8 per JVM",
        "SQL semantics of each engine for the atoms (=, <=, abs, substr, GROUP BY, joins) are trusted; DuckDB is the reference as the property says",
    ]
    errs, table = tdialect.write(("duckdb", "sqlite", "spark") if ctx.thorough else ("duckdb", "sqlite"))
    ctx.lean = core.lean_check(PROP, ctx.thorough)
    if errs:
        ctx.lean.ok = False
        ctx.lean.problems += ["T-dialect: " + e for e in errs]
    if table:
        ctx.extra_cov["dialect_table"] = {
            d: {"functions": {k: {"name": n, "observed": (table["probes"].get(d) or {"fns": {}})["fns"].get(k, {}).get("behaviour"),
                                  "nullOnNull": (table["probes"].get(d) or {"fns": {}})["fns"].get(k, {}).get("nullOnNull")} for k, n in info["fns"].items()},
                "infinity_expression": info["infinityExpression"], "infinity_observed": (table["probes"].get(d) or {}).get("infinity"),
                "array_first_index": info["arrayFirstIndex"]} for d, info in table["static"].items()}
    core.Driver()  # the model driver must build: the models it serves are the one meaning every backend is compared with (C01..C05, C11, C14)

    # creators: discover the library, specimen for each
    lib = library_creator_names()
    specs = creator_specs()
    missing = [n for n in lib if not any(s == n or s.startswith(n + "(") for s in specs)]
    ctx.extra_cov["library_creators"] = {"found": lib, "without_specimen": missing}
    if missing:
        ctx.notes.append(f"comparison creators without a specimen in c06.creator_specs (not exercised): {missing}")
        for n in missing:
            ctx.count("excluded", f"creator {n}: no specimen arguments in the harness")

    if ctx.replay:
        rp = json.loads(open(ctx.replay).read())["replay"]
        scenarios = [(rp["family"], rp["case"])]
        engines = rp.get("engines", engines)
        corpus = []
    else:
        corpus = [(c["family"], c["case"]) for c in graphs.load_corpus(PROP)]
        scenarios = scenarios_for(ctx, ctx.rng, 10)
        scenarios += [("creator", {"creator": name, "shuffle": ctx.rng.randrange(1 << 30)}) for name in specs if name not in CORPUS_ONLY_CREATORS]
        scenarios += [("creator", {"creator": name, "shuffle": ctx.rng.randrange(1 << 30), "prerender": True}) for name in specs if name not in CORPUS_ONLY_CREATORS]
    problems = evaluate(ctx, corpus + scenarios, engines)
    if (not ctx.lean.ok) and not ctx.replay:
        ctx.notes.append("a proof or the dialect translation broke: ran the widened failing-input search")
        rng2 = random.Random(ctx.seed + 7919)
        problems += evaluate(ctx, scenarios_for(ctx, rng2, 10), engines)

    if ctx.thorough and not ctx.replay:
        rng_s = random.Random(ctx.seed + 31)
        spark_scn = []
        for fam, n in {"blocking": 6, "score": 8, "em": 2, "estim": 6, "cluster": 4, "multi": 3, "analysis": 4}.items():
            spark_scn += [(fam, jr(GENS[fam](rng_s))) for _ in range(n)]
        for fam, c in spark_scn:
            if fam == "em":
                c["max_iter"] = 3  # every EM iteration is several Spark jobs
        spark_scn += [("pipeline", dict(jr(gen_pipeline(rng_s, spark_ok=True)), max_iter=2)) for _ in range(2)]
        spark_scn += [("creator", {"creator": name, "shuffle": 1}) for name in specs if name not in CORPUS_ONLY_CREATORS]
        problems += evaluate(ctx, spark_scn, ["duckdb", "sqlite", "spark"])
    reported = set()
    for family, case, what, detail, info, results, engs in problems:
        cls = (family, info["failure"], info.get("stage"), info["engine"])
        known = any(core._finding_matches(f, dict(info)) for f in ctx.findings)  # a recorded finding has its minimised witness in the corpus already
        if cls in reported or (not known and len([c for c in reported if c[-1] != "known"]) >= 4):
            continue
        reported.add(cls if not known else cls + ("known",))

        def still(cand, family=family, info=info, engs=engs):
            ps = evaluate(ctx, [(family, cand)], engs, parallel=False, record=False)
            return any(p[4]["failure"] == info["failure"] and p[4]["engine"] == info["engine"] for p in ps)

        small = case
        if family != "creator" and "spark" not in engs and not ctx.replay and not known:
            small = shrink(family, case, engs, still)
            ps = evaluate(ctx, [(family, small)], engs, parallel=False, record=False)
            if ps:
                family, small, what, detail, info, results, engs = ps[0]
            else:
                small = case
        ctx.violation("real outputs of two backends differ (C06): " + what,
                      {"family": family, "case": small, "engines": engs, **detail, "which_engine_deviates": attribute(family, small, results)},
                      kind="concrete", match_info=info)
    if not problems and not ctx.lean.ok:
        ctx.violation("Lean obligations for C06 (generated dialect table) no longer check",
                      {"theorems": ctx.lean.as_dict()["undischarged"], "problems": ctx.lean.problems, "build_log_tail": ctx.lean.build_log[-2500:],
                       "dialect_table": ctx.extra_cov.get("dialect_table"), "searched_cases": ctx.evaluations}, kind="unproved")


if __name__ == "__main__":
    import sys

    if len(sys.argv) == 4 and sys.argv[1] == "--spark-child":
        import logging
        import warnings

        warnings.filterwarnings("ignore")
        logging.disable(logging.WARNING)
        _spark_child(sys.argv[2], sys.argv[3])
