"""C17 — turning a specification into SQL is deterministic and side-effect free.

Lean: Model/Creators.lean (a creator = state machine over attribute writes of three kinds), Properties/C17.lean
(stateless ⇒ every call sequence gives the outputs of fresh objects and changes only listed attributes; decided
facts about the GENERATED table Generated/CreatorWrites.lean, re-derived from Splink's source by harness/translate/twrites.py
on every run: which writes are self-dependent, which are not dialect slots).
Tie: every creator class of the library x a finite grid of constructor arguments x call sequences over the dialects the
creator supports, on the real objects: (oracle) outputs equal those of fresh objects, deep vars() snapshots unchanged
modulo dialect slots, settings dicts unchanged, SQL parses (sqlglot); (correspondence) the statefulness observed per
class is the one the table and the compiled model (driver op creator_calls) predict.
Generator audit additions (more_cases, grid_extras, shared_cases, the extras of sequences(), history_pass): further column forms, boundary values,
iterable forms of list arguments (reference = plain lists), omitted arguments (the signature's own mutable defaults), creators / lists / dicts
shared by several consumers (kind 'multi'), settings as saved-model dictionary / JSON file; steps that are dialect-free calls, calls in
unsupported dialects, configure() between calls; watched besides vars(): the caller's argument objects, default-argument objects and class
attributes; a history pass recomputes every fresh-object reference in processes of their own (state kept outside the objects).
"""
from __future__ import annotations

import copy
import functools
import inspect
import itertools
import json
import random

from harness import core

PROP = "C17"
DIALECTS = ["duckdb", "spark", "sqlite", "postgres", "athena"]
MODS = {"cll": "splink.internals.comparison_level_library", "cl": "splink.internals.comparison_library", "brl": "splink.internals.blocking_rule_library",
        "clc": "splink.internals.comparison_level_composition"}


# --------------------------------------------------------------------------- building objects from JSON specs
ITERABLE_FORMS = ("iter", "gen", "tuple", "range")


class Env:
    """One build: objects named in case['shared'] are built once and handed (the SAME object) to every spec that says {"ref": name};
    `keep` collects every mutable / Splink object that was passed to a constructor, so that the caller's own arguments can be
    compared before / after the calls."""

    def __init__(self, shared=None, keep=None, listified=False):
        self.specs, self.objs, self.keep, self.listified = shared or {}, {}, keep, listified
        self.pre = []  # per kept object: its leaves as they were just BEFORE it was first handed to a constructor

    def get(self, name):
        if name not in self.objs:
            spec = self.specs[name]
            self.objs[name] = build(listify(spec) if self.listified else spec, self)
            self.kept(self.objs[name])
        return self.objs[name]

    def kept(self, v):
        if self.keep is not None and (isinstance(v, (list, dict)) or is_splink_obj(v) or hasattr(v, "__next__")) and not any(v is k for k in self.keep):
            self.keep.append(v)
            self.pre.append(snapshot(v)[0])
        return v

    def leaves_before(self) -> dict:
        """The kept objects' leaves before any constructor saw them, under the paths snapshot(self.keep) gives."""
        out = {".<len>": f"list{len(self.keep)}"}
        for i, lv in enumerate(self.pre):
            for p, v in lv.items():
                out[f".{i}{p}" if p.startswith(".") or not p else f".{i}.{p}"] = v
        return out


def listify(spec):
    """The same spec with every iterable form ({"iter"|"gen"|"tuple": [..]}, {"range": [a, b]}) replaced by the plain list of its elements."""
    if isinstance(spec, list):
        return [listify(x) for x in spec]
    if not isinstance(spec, dict):
        return spec
    for k in ("iter", "gen", "tuple"):
        if k in spec and len(spec) == 1:
            return listify(spec[k])
    if "range" in spec and len(spec) == 1:
        return list(range(*spec["range"]))
    return {k: listify(v) for k, v in spec.items()}


def build(spec, env=None):
    """JSON spec -> object.  {"col":name,"ops":[[method,*args],..]} ColumnExpression (name may be {"ref":..}: derive from a shared one);
    {"cls":"mod.Class","args":[..],"kwargs":{..},"configure":{..}} creator; {"fn":"block_on",...}; {"raw":x} / plain JSON: itself (dicts of
    level/comparison settings included); {"ref":name}: the shared object of that name; {"iter"|"gen"|"tuple":[..]} / {"range":[a,b]}: that iterable."""
    import importlib

    env = env or Env()
    if isinstance(spec, list):
        return [build(x, env) for x in spec]
    if not isinstance(spec, dict):
        return spec
    if "ref" in spec:
        return env.get(spec["ref"])
    if len(spec) == 1 and next(iter(spec)) in ITERABLE_FORMS:
        if "range" in spec:
            return range(*spec["range"])
        vals = build(next(iter(spec.values())), env)
        return iter(vals) if "iter" in spec else tuple(vals) if "tuple" in spec else (v for v in vals)
    if "col" in spec:
        from splink.internals.column_expression import ColumnExpression

        if isinstance(spec["col"], dict):
            c = build(spec["col"], env)
        elif spec.get("dialect"):  # a ColumnExpression the user constructed for one dialect (second constructor argument) and then uses anywhere
            from splink.internals.dialects import SplinkDialect

            c = ColumnExpression(spec["col"], SplinkDialect.from_string(spec["dialect"]))
        else:
            c = ColumnExpression(spec["col"])
        for op in spec.get("ops", []):
            c = getattr(c, op[0])(*op[1:])
        return c
    if "raw" in spec:
        return {k: build(v, env) for k, v in spec["raw"].items()}
    if "cls" in spec or "fn" in spec:
        mod, name = (spec.get("cls") or spec["fn"]).split(".")
        f = getattr(importlib.import_module(MODS[mod]), name)
        obj = f(*[env.kept(build(a, env)) for a in spec.get("args", [])], **{k: env.kept(build(v, env)) for k, v in spec.get("kwargs", {}).items()})
        if spec.get("configure"):
            obj = obj.configure(**{k: env.kept(build(v, env)) for k, v in spec["configure"].items()})
        return obj
    return {k: build(v, env) for k, v in spec.items()}


def class_key(obj) -> str:
    t = type(obj)
    return f"{t.__module__.split('.')[-1]}.{t.__name__}"


# --------------------------------------------------------------------------- snapshots
def is_splink_obj(x) -> bool:
    return type(x).__module__.startswith("splink.") and hasattr(x, "__dict__")


def snapshot(obj):
    """Deep snapshot of everything reachable from obj: {path: repr}, plus for every path the chain of enclosing creator objects
    [(path of the creator, its class key)] and the class key of the object that directly owns the leaf."""
    from splink.internals.blocking_rule_creator import BlockingRuleCreator
    from splink.internals.comparison_creator import ComparisonCreator
    from splink.internals.comparison_level_creator import ComparisonLevelCreator
    from splink.internals.dialects import SplinkDialect

    leaves, owners, direct = {}, {}, {}

    def go(x, path, chain, owner, seen):
        if isinstance(x, SplinkDialect):
            leaves[path], owners[path], direct[path] = f"<dialect {x.sql_dialect_str}>", chain, owner
            return
        if id(x) in seen and (is_splink_obj(x) or isinstance(x, (list, dict, tuple, set))):
            leaves[path], owners[path], direct[path] = "<cycle>", chain, owner
            return
        if is_splink_obj(x):
            key = class_key(x)
            cat = "comparison" if isinstance(x, ComparisonCreator) else "level" if isinstance(x, ComparisonLevelCreator) else "blocking" if isinstance(x, BlockingRuleCreator) else "other"
            ch = chain + [(path, key, cat)] if key != "column_expression.ColumnExpression" else chain
            d = vars(x)
            leaves[path + ".<type>"], owners[path + ".<type>"], direct[path + ".<type>"] = key, ch, key
            for k in sorted(d):
                go(d[k], f"{path}.{k}" if path else k, ch, key, seen | {id(x)})
            return
        if isinstance(x, dict):
            leaves[path + ".<len>"], owners[path + ".<len>"], direct[path + ".<len>"] = f"dict{len(x)}", chain, owner
            for k in x:
                go(x[k], f"{path}.{k}", chain, owner, seen | {id(x)})
            return
        if isinstance(x, (list, tuple)):
            leaves[path + ".<len>"], owners[path + ".<len>"], direct[path + ".<len>"] = f"{type(x).__name__}{len(x)}", chain, owner
            for i, v in enumerate(x):
                go(v, f"{path}.{i}", chain, owner, seen | {id(x)})
            return
        if isinstance(x, functools.partial):
            f = x.func
            leaves[path], owners[path], direct[path] = f"partial({getattr(f, '__qualname__', f)}, {x.args!r}, {sorted(x.keywords.items())!r})", chain, owner
            return
        if callable(x) and hasattr(x, "__qualname__"):
            leaves[path], owners[path], direct[path] = f"<callable {x.__qualname__}>", chain, owner
            return
        leaves[path], owners[path], direct[path] = repr(x), chain, owner

    go(obj, "", [], None, frozenset())
    return leaves, owners, direct


def pattern_match(pattern: str, rel: str, prefix=False) -> bool:
    """Attribute-path pattern of a table row ('*' = any one component, '[]' = an index/key) against a snapshot path."""
    ps, rs = [p for p in pattern.split(".") if p], [r for r in rel.split(".") if r and not r.startswith("<")]
    if prefix:
        if len(ps) > len(rs):
            return False
        rs = rs[: len(ps)]
    elif len(ps) != len(rs):
        return False
    return all(p in ("*", "[]") or p == r for p, r in zip(ps, rs))


class Table:
    """The generated write table, as the harness reads it (same rows as Generated/CreatorWrites.lean)."""

    def __init__(self, classes, rows):
        self.classes = classes
        self.rows = rows
        self.by_cls: dict[str, list[dict]] = {}
        for r in rows:
            self.by_cls.setdefault(r["cls"], []).append(r)
        slot = {r["attr"].split(".")[-1] for r in rows if r["kind"] == "dialectSlot"}
        other = {r["attr"].split(".")[-1] for r in rows if r["kind"] != "dialectSlot"}
        self.slot_leaves = slot - other  # attribute names that are written only with the dialect

    def explain(self, path, owners, direct):
        """Why may the leaf at `path` change?  -> (kind, class, row attr) | ('sharedSlot', ..) | None"""
        for cpath, ckey, _cat in reversed(owners):
            rel = path[len(cpath):].lstrip(".") if cpath else path
            for r in self.by_cls.get(ckey, []):
                if pattern_match(r["attr"], rel):
                    return (r["kind"], r.get("defined_in", ckey) + "." + r["method"].split(" -> ")[0], r["attr"])
            for r in self.by_cls.get(ckey, []):
                if r["kind"] != "dialectSlot":
                    # re-assigning `x` changes everything below x; configuring `xs[i]` changes attributes of xs[i]
                    region = ".".join(r["attr"].split(".")[:-1])
                    if pattern_match(r["attr"], rel, prefix=True) or (region and pattern_match(region, rel, prefix=True)):
                        return (r["kind"], r.get("defined_in", ckey) + "." + r["method"].split(" -> ")[0], r["attr"])
        # A comparison creator hands its own ColumnExpression objects to the level creators it builds on every call; those
        # (transient) levels write the slot.  Only then may a slot change without a row of an enclosing creator.
        last = [p for p in path.split(".") if p][-1]
        inner = owners[-1][2] if owners else None
        if last in self.slot_leaves and direct == "column_expression.ColumnExpression" and inner in ("comparison", "other"):
            return ("sharedSlot", "column_expression.ColumnExpression", last)
        return None


# --------------------------------------------------------------------------- one case on the real code
def raised(e: Exception) -> dict:
    import re

    return {"raised": f"{type(e).__name__}: {re.sub(r'0x[0-9a-fA-F]+', '0x', str(e))[:200]}"}


def meta_call(kind, obj):
    """The dialect-free public surface of a creator (labels, descriptions, names, counts, repr): no dialect argument, so the answer may
    depend neither on whether a dialect was ever set nor on which one was set last."""

    def att(f):
        try:
            return f()
        except Exception as e:  # noqa: BLE001
            return raised(e)

    if kind == "level":
        return {"label": att(obj.create_label_for_charts), "repr": att(lambda: repr(obj)), "is_null_level": att(lambda: obj.is_null_level),
                "is_exact_match_level": att(lambda: obj.is_exact_match_level), "tf": att(lambda: bool(obj.term_frequency_adjustments))}
    if kind == "comparison":
        return {"description": att(obj.create_description), "output_column_name": att(obj.create_output_column_name), "repr": att(lambda: repr(obj)),
                "num_levels": att(lambda: obj.num_levels), "num_non_null_levels": att(lambda: obj.num_non_null_levels),
                "labels": att(lambda: [lv.create_label_for_charts() for lv in obj.get_configured_comparison_levels()]),
                "configured": att(lambda: [[getattr(lv, "m_probability", None), getattr(lv, "u_probability", None), bool(lv.term_frequency_adjustments)] for lv in obj.get_configured_comparison_levels()])}
    if kind == "blocking":
        return {"salting_partitions": att(lambda: obj.salting_partitions), "arrays_to_explode": att(lambda: obj.arrays_to_explode)}
    if kind == "settings":
        import dataclasses

        return {"fields": att(lambda: {f.name: getattr(obj, f.name) for f in dataclasses.fields(obj) if f.name not in ("comparisons", "blocking_rules_to_generate_predictions")}),
                "n": att(lambda: [len(obj.comparisons), len(obj.blocking_rules_to_generate_predictions)])}
    raise core.HarnessError(kind)


def api_call(kind, obj, api, d):
    if api == "meta":
        return meta_call(kind, obj)
    if kind == "level":
        if api == "dict":
            return {"level_dict": obj.create_level_dict(d), "label": obj.create_label_for_charts()}
        lv = obj.get_comparison_level(d)
        return {"level": lv.as_dict(), "sql_condition": lv.sql_condition, "label": lv.label_for_charts}
    if kind == "comparison":
        if api == "dict":
            return {"comparison_dict": obj.create_comparison_dict(d), "description": obj.create_description(), "output_column_name": obj.create_output_column_name()}
        c = obj.get_comparison(d)
        return {"comparison": c.as_dict(), "description": obj.create_description()}
    if kind == "blocking":
        if api == "dict":
            return {"blocking_rule_dict": obj.create_blocking_rule_dict(d)}
        b = obj.get_blocking_rule(d)
        return {"blocking_rule": b.as_dict(), "sql": b.blocking_rule_sql}
    if kind == "settings":
        if api == "dict":
            return {"settings_dict": canon(obj.create_settings_dict(d))}
        return {"settings": canon(obj.get_settings(d).as_dict())}
    raise core.HarnessError(kind)


def canon(x):
    return json.loads(json.dumps(x, sort_keys=True, default=repr))


def digest(x) -> str:
    import hashlib

    return hashlib.md5(json.dumps(x, sort_keys=True, default=repr).encode()).hexdigest()


def unsupported(e: Exception) -> str | None:
    """The library's own ways of saying 'this creator does not exist in this dialect'."""
    if isinstance(e, NotImplementedError):
        return "NotImplementedError"
    if isinstance(e, ValueError) and ("not supported" in str(e) or "does not currently support" in str(e)):
        return "ValueError(not supported)"
    return None


def sql_strings(kind, res):
    out = []

    def walk(x):
        if isinstance(x, dict):
            for k, v in x.items():
                if k in ("sql_condition", "blocking_rule") and isinstance(v, str):
                    out.append(v)
                else:
                    walk(v)
        elif isinstance(x, list):
            for v in x:
                walk(v)

    walk(res)
    return out


def consumers_of(case):
    """The objects of a case on which calls are made: one (the usual case) or, for kind 'multi', several that hold the same shared sub-objects."""
    return case["consumers"] if case["kind"] == "multi" else [{"kind": case["kind"], "spec": case["spec"]}]


def make(case, only=None, listified=False, keep=None, env_out=None):
    """Build the consumer(s) of a case on newly built shared objects.  only=i: just consumer i (None elsewhere)."""
    env = Env(case.get("shared"), keep, listified)
    if env_out is not None:
        env_out.append(env)
    objs = []
    for i, c in enumerate(consumers_of(case)):
        if only is not None and i != only:
            objs.append(None)
            continue
        spec = listify(c["spec"]) if listified else c["spec"]
        objs.append(build_settings(spec, env) if c["kind"] == "settings" else build(spec, env))
    return objs


def fkey(api, d, idx=0) -> str:
    return f"{api}:{d}" if not idx else f"{api}:{d}#{idx}"


def configure_options(kind, obj):
    """configure() argument sets (specs) that every creator of the kind accepts; the probabilities lists fit the object's number of levels."""
    if kind == "level":
        return [{"m_probability": 0.8, "u_probability": 0.05}, {"label_for_charts": "relabelled", "tf_adjustment_column": col("first name", ["lower"]), "tf_adjustment_weight": 0.5},
                {"m_probability": None, "label_for_charts": None, "fix_m_probability": True}, {"is_null_level": True, "disable_tf_exact_match_detection": True, "tf_adjustment_weight": 0}]
    if kind == "comparison":
        n = obj.num_non_null_levels
        m = [round((n - i) / (n * (n + 1) / 2), 6) for i in range(n)]
        return [{"term_frequency_adjustments": True}, {"m_probabilities": m, "u_probabilities": m[::-1]}, {"term_frequency_adjustments": False}, {"m_probabilities": [round(1 / max(n, 1), 6)] * n}]
    if kind == "settings":  # SettingsCreator is a plain mutable dataclass: the user re-assigns fields between calls
        return [{"probability_two_random_records_match": 0.3}, {"retain_intermediate_calculation_columns": True, "additional_columns_to_retain": ["x", "y"]},
                {"max_iterations": 7, "em_convergence": 0.002}, {"term_frequency_adjustment_column_prefix": "tfadj_", "linker_uid": "changed"}]
    return []


def apply_configure(obj, cfg):
    try:
        if hasattr(obj, "configure"):
            obj.configure(**{k: build(v) for k, v in cfg.items()})
        else:
            for k, v in cfg.items():
                setattr(obj, k, build(v))
        return None
    except Exception as e:  # noqa: BLE001
        return raised(e)["raised"]


def step_parts(step):
    return step[0], step[1], (step[2] if len(step) > 2 else 0)


def sequences(case, dialects, unsup=(), n_cfg=None, kinds=None):
    """Step sequences to run, each on its own new object(s) (every prefix is checked on the way).  A step is [api, arg] or [api, arg, consumer]:
    api 'dict' / 'obj' (arg = dialect), 'meta' (dialect-free calls, arg None), 'configure' (arg = index of a configure() argument set).
    exh_len: all dialect sequences of that length with the dict API; pairs: 'all' | 'obj' (every 2-step sequence over
    {dict, obj} x dialects / only those with at least one get_* call) | n (seeded sample); sampled: {length: n} extra
    seeded sequences mixing both APIs.  extras (case['extras'], default on): sequences with meta calls first / last / in between, with a
    call in an UNSUPPORTED dialect (which raises) before supported ones, and (n_cfg) with configure() between calls.
    kind 'multi': sequences alternating between the consumers."""
    if not dialects:
        return []
    rng = random.Random(case["seq_seed"])
    n_cons = len(kinds or [None])
    steps = [(a, d) for a in ("dict", "obj") for d in dialects]
    if n_cons > 1:
        seqs = []
        both = lambda: list(rng.choice(steps))  # noqa: E731
        for i in range(n_cons):
            for j in range(n_cons):
                if i != j:
                    for _ in range(int(case.get("per_pair", 2))):
                        seqs.append([both() + [i], both() + [j]])
                    seqs.append([both() + [i], both() + [j], ["meta", None, i]])
        for _ in range(int(case.get("n_long", 8))):
            order = [rng.randrange(n_cons) for _ in range(4)]
            seqs.append([(both() if rng.random() < 0.8 else ["meta", None]) + [i] for i in order])
        if unsup:
            for u in unsup[:2]:
                i, j = rng.sample(range(n_cons), 2)
                seqs.append([[rng.choice(("dict", "obj")), u, i], both() + [j], both() + [i]])
        return seqs
    seqs = [[("dict", d) for d in s] for s in itertools.product(dialects, repeat=case["exh_len"])]
    pairs = [[s1, s2] for s1 in steps for s2 in steps]
    if case["pairs"] == "obj":
        pairs = [p for p in pairs if p[0][0] == "obj" or p[1][0] == "obj"]
    elif case["pairs"] != "all":
        pairs = [p for p in pairs if p[0][0] == "obj" or p[1][0] == "obj"]
        rng.shuffle(pairs)
        pairs = pairs[: int(case["pairs"])]
    seqs += pairs
    for L, n in sorted(case["sampled"].items()):
        for _ in range(n):
            seqs.append([rng.choice(steps) for _ in range(int(L))])
    if not case.get("extras", True):
        return seqs
    rng = random.Random(case["seq_seed"] + 1)
    M = ("meta", None)
    heavy = kinds and kinds[0] in ("comparison", "settings")
    extra = []
    for k, d in enumerate(dialects):  # a dialect-free call before any dialect was set / right after each dialect
        a = ("dict", "obj")[k % 2]
        extra += [[M, (a, d)], [(a, d), M]]
    if heavy:
        rng.shuffle(extra)
        extra = extra[:2]
    extra += [[rng.choice(steps), rng.choice(steps), M], [M, rng.choice(steps), M, rng.choice(steps)]][: 1 if heavy else 2]
    us = list(unsup)
    rng.shuffle(us)
    for u in us[: 1 if heavy else 5]:  # a failed call followed by later calls
        a, b = rng.choice(("dict", "obj")), rng.choice(steps)
        extra.append([(a, u), b])
        extra.append([rng.choice(steps), (a, u), M, b])
    if n_cfg:
        C = lambda: ("configure", rng.randrange(n_cfg))  # noqa: E731
        for _ in range(2 if heavy else 3):
            s1, c1, c2 = rng.choice(steps), C(), C()
            extra += [[s1, c1, s1], [c1, rng.choice(steps), c2, rng.choice(steps)]]
        c1 = C()
        extra += [[rng.choice(steps), c1, c1, rng.choice(steps)], [C(), M, rng.choice(steps), M]]
    return seqs + extra


ANCHOR_MODULES = ["comparison_level_creator", "comparison_creator", "comparison_level_library", "comparison_library", "blocking_rule_creator", "blocking_rule_library",
                  "column_expression", "settings_creator", "comparison_level_composition", "blocking_rule_creator_utils"]


def global_state() -> dict:
    """State that belongs to no creator object: default argument values, class attributes and module-level containers of the anchored modules."""
    import importlib

    out = {}
    for m in ANCHOR_MODULES:
        M = importlib.import_module("splink.internals." + m)
        for k, v in list(vars(M).items()):
            if k.startswith("__"):
                continue
            if isinstance(v, (dict, list, set)):
                out[f"{m}.{k} (container)"] = repr(v)[:400]
            if inspect.isclass(v) and v.__module__ == M.__name__:
                for a, x in list(vars(v).items()):
                    if inspect.isfunction(x):
                        if x.__defaults__ or x.__kwdefaults__:
                            out[f"{m}.{k}.{a}(defaults)"] = repr((x.__defaults__, x.__kwdefaults__))
                    elif not (a.startswith("__") or a == "_abc_impl" or callable(x) or isinstance(x, (property, staticmethod, classmethod))):
                        out[f"{m}.{k}.{a}" + (" (container)" if isinstance(x, (dict, list, set)) else "")] = repr(x)[:400]
            elif inspect.isfunction(v) and v.__module__ == M.__name__ and (v.__defaults__ or v.__kwdefaults__):
                out[f"{m}.{k}(defaults)"] = repr((v.__defaults__, v.__kwdefaults__))
    return out


def run_impl(case: dict) -> dict:
    import time

    import sqlglot

    from splink.internals.dialects import SplinkDialect

    cons = consumers_of(case)
    kinds = [c["kind"] for c in cons]
    multi = len(cons) > 1
    wrap = (lambda objs: objs) if multi else (lambda objs: objs[0])
    g0 = global_state()
    try:
        make(case, listified=True)
    except Exception as e:  # noqa: BLE001  constructor rejects the argument combination: outside the grid
        return {"constructor_rejects": f"{type(e).__name__}: {str(e)[:120]}"}
    try:
        probe = make(case)
    except Exception as e:  # noqa: BLE001  ... but accepts the same elements as a plain list
        return {"form_rejected": f"{type(e).__name__}: {str(e)[:200]}"}
    t0 = time.time()
    out = {"cls": class_key(probe[0]), "fresh": {}, "unsupported": {}, "parse_failures": [], "output_diffs": [], "state_changes": {}, "arg_changes": {}, "calls": 0, "sequences": 0,
           "steps": {}, "nested": sorted({o[1] for pr in probe for ch in snapshot(pr)[1].values() for o in ch})}
    cfgs = [configure_options(k, o) if case.get("configure_steps") else [] for k, o in zip(kinds, probe)]
    # reference: a fresh object (built from the plain-list form of the arguments) called once
    refs = {}

    def reference(idx, applied, api, d):
        key = (idx, applied, api, d)
        if key not in refs:
            o = make(case, only=idx, listified=True)[idx]
            for c in applied:
                apply_configure(o, cfgs[idx][c])
            try:
                refs[key] = canon(api_call(kinds[idx], o, api, d))
            except Exception as e:  # noqa: BLE001
                refs[key] = e
        return refs[key]

    for idx in range(len(cons)):
        for d in DIALECTS:
            for api in ("dict", "obj"):
                r = reference(idx, (), api, d)
                if isinstance(r, Exception):
                    why = unsupported(r)
                    if why is None:
                        import traceback

                        tb = "".join(traceback.format_exception(type(r), r, r.__traceback__))
                        if 'File "/repo/' not in tb and "splink" not in tb:
                            raise r
                        why = f"{type(r).__name__}: {str(r)[:160]}"
                    out["unsupported"][d] = why
                    out["fresh"][fkey(api, d, idx)] = refs[(idx, (), api, d)] = raised(r)
                else:
                    out["fresh"][fkey(api, d, idx)] = r
        out["fresh"][fkey("meta", None, idx)] = reference(idx, (), "meta", None)
    sup = [d for d in DIALECTS if d not in out["unsupported"]]
    unsup = [d for d in DIALECTS if d in out["unsupported"]]
    out["supported"] = sup
    out["fresh_digest"] = {k: digest(v) for k, v in out["fresh"].items()}
    # "parses in that dialect" (sqlglot is the oracle here, outside Lean); a settings dictionary written for one dialect is SQL of that dialect only
    own = [c["spec"].get("base", "duckdb") for c in cons if c["kind"] == "settings" and c["spec"].get("form", "creator") != "creator"]
    for d in sup:
        if own and d not in own:
            continue
        sgd = SplinkDialect.from_string(d).sqlglot_dialect
        for idx in range(len(cons)):
            for sql in sql_strings(kinds[idx], out["fresh"][fkey("dict", d, idx)]):
                if sql.strip().upper() == "ELSE":
                    continue
                try:
                    sqlglot.parse_one(sql, read=sgd)
                except Exception as e:  # noqa: BLE001
                    out["parse_failures"].append({"dialect": d, "sql": sql, "error": f"{type(e).__name__}: {str(e)[:200]}"})
    # call sequences
    for seq in sequences(case, sup, unsup, n_cfg=min((len(c) for c in cfgs), default=0), kinds=kinds):
        keep, envs = [], []
        objs = make(case, keep=keep, env_out=envs)
        applied = [() for _ in objs]
        has_cfg = any(st[0] == "configure" for st in seq)
        before = None if has_cfg else snapshot(wrap(objs))
        args_before = envs[0].leaves_before()  # as the caller made them: a constructor must not change them either
        out["sequences"] += 1
        for i, st in enumerate(seq):
            api, d, idx = step_parts(st)
            sk = api if api in ("meta", "configure") else "failed_call" if d in out["unsupported"] else api
            out["steps"][sk] = out["steps"].get(sk, 0) + 1
            if api == "configure":
                if apply_configure(objs[idx], cfgs[idx][d]) is not None:
                    out["configure_raised"] = out.get("configure_raised", 0) + 1
                applied[idx] += (d,)
                continue
            out["calls"] += 1
            try:
                got = canon(api_call(kinds[idx], objs[idx], api, d))
            except Exception as e:  # noqa: BLE001
                got = raised(e)
            want = reference(idx, applied[idx], api, d)
            if isinstance(want, Exception):
                want = raised(want)
            if got != want:
                if len(out["output_diffs"]) < 3:
                    out["output_diffs"].append({"sequence": seq[: i + 1], "call_index": i, "got": got, "fresh": want})
                out["n_output_diffs"] = out.get("n_output_diffs", 0) + 1
                out["first_diff_call"] = min(out.get("first_diff_call", 99), i)
        if has_cfg:  # the attributes configure() sets are meant to change: compare with a new object configured the same way and never called
            ref_objs = make(case)
            for idx, ap in enumerate(applied):
                for c in ap:
                    apply_configure(ref_objs[idx], cfgs[idx][c])
            before = snapshot(wrap(ref_objs))
        after = snapshot(wrap(objs))
        for p in set(before[0]) | set(after[0]):
            a, b = before[0].get(p, "<absent>"), after[0].get(p, "<absent>")
            if a != b and p not in out["state_changes"]:
                src = after if p in after[0] else before
                out["state_changes"][p] = {"before": a, "after": b, "owners": src[1][p], "direct": src[2][p], "sequence": seq}
        args_after = snapshot(keep)
        for p in set(args_before) | set(args_after[0]):
            a, b = args_before.get(p, "<absent>"), args_after[0].get(p, "<absent>")
            if a != b and p not in out["arg_changes"]:
                out["arg_changes"][p] = {"before": a, "after": b, "direct": args_after[2].get(p), "sequence": seq}
        out["args_kept"] = max(out.get("args_kept", 0), len(keep))
    # a settings dict handed to SettingsCreator must stay as it was
    if kinds == ["settings"]:
        from splink.internals.settings_creator import SettingsCreator

        spec = case["spec"]
        sd = settings_dict(spec, Env(case.get("shared")))
        if spec.get("form", "creator") != "creator":  # the saved-model dictionary (with its "sql_dialect" entries) is the user's object here
            sd = SettingsCreator(**sd).get_settings(spec.get("base", "duckdb")).as_dict()
        keep = copy.deepcopy(json.loads(json.dumps(sd, default=lambda o: f"<obj {id(o)}>")))
        snaps = [snapshot(x)[0] for x in sd["comparisons"] + sd["blocking_rules_to_generate_predictions"] if is_splink_obj(x)]
        for d in (sup[:2] + sup[:1]):
            SettingsCreator.from_path_or_dict(sd).get_settings(d)
            if "sql_dialect" not in sd:
                SettingsCreator(**sd).create_settings_dict(d)
            else:
                SettingsCreator.from_path_or_dict(sd).create_settings_dict(d)
        now = json.loads(json.dumps(sd, default=lambda o: f"<obj {id(o)}>"))
        out["dict_unchanged"] = now == keep
        out["dict_creators_unchanged"] = snaps == [snapshot(x)[0] for x in sd["comparisons"] + sd["blocking_rules_to_generate_predictions"] if is_splink_obj(x)]
    g1 = global_state()
    # a module / class level container that grows may be a correctly keyed cache: recorded, and left to the history pass to judge
    out["global_changes"] = {k: [g0.get(k, "<absent>"), g1.get(k, "<absent>")] for k in g0 if g0[k] != g1.get(k, "<absent>") and not k.endswith("(container)")}
    out["global_containers_changed"] = sorted(k for k in g0 if g0[k] != g1.get(k, "<absent>") and k.endswith("(container)"))
    out["secs"] = round(time.time() - t0, 2)
    return out


run_impl_safe = core.safe(run_impl)


def history_pass(task: dict) -> dict:
    """Runs in a process of its own that has made no Splink call before: every case's fresh-object reference outputs are recomputed
    for the task's dialects only and in the task's case order, and compared (by digest) with those of the main pass, where the same
    process had served other dialects and other cases before.  A difference = the output of a *new* object depends on what happened
    to other objects earlier (state kept outside the object: module / class level memo, mutated default argument, ...)."""
    items = list(reversed(task["cases"])) if task["reverse"] else task["cases"]
    n, mism = 0, []
    for i, case, want in items:
        cons = consumers_of(case)
        for idx, c in enumerate(cons):
            for d in task["dialects"]:
                for api in task.get("apis", ("dict",)):
                    k = fkey(api, d, idx)
                    if k not in want:
                        continue
                    try:
                        got = canon(api_call(c["kind"], make(case, only=idx, listified=True)[idx], api, d))
                    except Exception as e:  # noqa: BLE001
                        got = raised(e)
                    n += 1
                    if digest(got) != want[k] and len(mism) < 4:
                        mism.append({"case_index": i, "key": k, "isolated": got})
    return {"compared": n, "mismatches": mism}


def _iso_child(func, item, conn):
    try:
        core._init_worker()
        conn.send(func(item))
    except Exception as e:  # noqa: BLE001
        import traceback

        conn.send({"__error__": type(e).__name__, "text": str(e)[:500], "tb": traceback.format_exc()[-3000:]})
    finally:
        conn.close()


def run_isolated(func, items):
    """func(item) for every item, each in a forked process of its own (a pool would reuse processes)."""
    import multiprocessing as mp

    ctx = mp.get_context("fork")
    procs = []
    for it in items:
        recv, send = ctx.Pipe(False)
        p = ctx.Process(target=_iso_child, args=(func, it, send))
        p.start()
        send.close()
        procs.append((p, recv))
    out = []
    for p, recv in procs:
        try:
            out.append(recv.recv())
        except EOFError:
            out.append({"__error__": "EOFError", "text": "isolated process died", "tb": ""})
        p.join()
    return out


def settings_dict(spec, env=None):
    env = env or Env()
    d = {"link_type": spec["link_type"], "comparisons": [build(c, env) for c in spec["comparisons"]],
         "blocking_rules_to_generate_predictions": [build(b, env) for b in spec["blocking_rules"]], "probability_two_random_records_match": 0.01,
         "additional_columns_to_retain": ["cluster"]}
    d.update(build(spec.get("options", {}), env))
    return env.kept(d)


def build_settings(spec, env=None):
    """form 'creator': SettingsCreator(**kwargs holding creator objects / dicts / strings); 'dict': the plain dictionary of a saved model
    (Settings.as_dict() for spec['base'], with its 'sql_dialect' entries) through from_path_or_dict; 'path' / 'pathobj': the same as a JSON file."""
    from splink.internals.settings_creator import SettingsCreator

    env = env or Env()
    form = spec.get("form", "creator")
    sc = SettingsCreator(**settings_dict(spec, env if form == "creator" else Env(env.specs, None, env.listified)))
    if form == "creator":
        return sc
    saved = sc.get_settings(spec.get("base", "duckdb")).as_dict()
    if form == "dict":
        return SettingsCreator.from_path_or_dict(env.kept(saved))
    import os
    import tempfile
    from pathlib import Path

    fd, path = tempfile.mkstemp(suffix=".json", prefix="c17_settings_")
    try:
        with os.fdopen(fd, "w") as f:
            json.dump(saved, f)
        return SettingsCreator.from_path_or_dict(Path(path) if form == "pathobj" else path)
    finally:
        os.unlink(path)


# --------------------------------------------------------------------------- the grid
def col(name, *ops):
    return {"col": name, "ops": [list(o) for o in ops]}


COLS = ["first_name", "first name", col("first_name", ["lower"]), col("surname", ["substr", 1, 3]), col("dob", ["try_parse_date"]), col("dob", ["try_parse_date", "%d/%m/%Y"]),
        col("ts", ["try_parse_timestamp"]), col("postcode", ["regex_extract", "^[A-Z]{1,2}"]), col("name", ["lower"], ["nullif", ""]), col("n", ["cast_to_string"]),
        col("arr", ["access_extreme_array_element", "last"]), "lower(first_name)", "first_name || surname"]
COL_PARAMS = {"col_name", "col_name_1", "col_name_2", "col_name_or_expr", "lat_col", "long_col", "forename_col_name", "surname_col_name"}
SECOND_COLS = {"col_name_2": ["surname", col("surname", ["lower"])], "long_col": ["lng"], "surname_col_name": ["surname"], "lat_col": ["lat", col("lat", ["cast_to_string"])]}
VALUES = {
    "valid_string_pattern": [None, "^[A-Z]+$"], "term_frequency_adjustments": [False, True], "literal_value": ["7"], "literal_datatype": ["string", "int", "float", "date"],
    "side_of_comparison": ["both", "left", "right"], "symmetrical": [False, True], "distance_threshold": [1, 0.85], "higher_is_more_similar": [True, False],
    "input_is_string": [True, False], "threshold": [1, 2.5], "metric": ["day", "year", "second"], "datetime_format": [None, "%d/%m/%Y"], "km_threshold": [1, 10.5], "not_null": [False, True],
    "similarity_threshold": [0.9], "min_intersection": [1, 2], "empty_is_subset": [False, True], "percentage_threshold": [0.1], "difference_threshold": [1, 2.5],
    "sql_condition": ["substr(name_l, 1, 2) = substr(name_r, 1, 2)", "name_l = name_r and len(name_l) > 3"], "label_for_charts": [None, "my label"], "base_dialect_str": [None, "duckdb", "spark"],
    "distance_threshold_or_thresholds": [[1, 2], 3], "score_threshold_or_thresholds": [[0.9, 0.7], 0.8], "size_threshold_or_thresholds": [[1], [2, 1]],
    "km_thresholds": [[1, 10], 5], "invalid_dates_as_null": [True, False], "invalid_postcodes_as_null": [False, True], "jaro_winkler_thresholds": [[0.92, 0.88, 0.7], 0.9],
    "dmeta_col_name": [None, "name_dm"], "forename_surname_concat_col_name": [None, "fs_concat"], "output_column_name": [None, "out_col"], "comparison_description": [None, "my comparison"],
    "blocking_rule": ["l.first_name = r.first_name", "l.a = r.a or substr(l.b, 1, 2) = substr(r.b, 1, 2)"], "sql_dialect": [None, "duckdb", "spark"], "salting_partitions": [None, 4],
    "arrays_to_explode": [None, ["arr"]],
}
PAIRED = {  # parameters that must vary together
    ("metrics", "thresholds"): [("day", 1), (["day", "month", "year"], [1, 1, 10])],
    ("datetime_thresholds", "datetime_metrics"): [([1, 1, 10], ["month", "year", "year"]), (2, "day")],
}
OVERRIDE = {
    "comparison_level_library.PairwiseStringDistanceFunctionLevel": {"distance_function_name": ["levenshtein", "damerau_levenshtein", "jaro_winkler", "jaro"]},
    "comparison_library.PairwiseStringDistanceFunctionAtThresholds": {"distance_function_name": ["levenshtein", "jaro_winkler"]},
    "comparison_level_library.DistanceFunctionLevel": {"distance_function_name": ["my_distance"]},
    "comparison_library.DistanceFunctionAtThresholds": {"distance_function_name": ["my_distance"]},
    "comparison_library.PostcodeComparison": {"lat_col": [None, "lat"], "long_col": [None, "lng"]},
}
MOD_ALIAS = {"comparison_level_library": "cll", "comparison_library": "cl", "blocking_rule_library": "brl", "comparison_level_composition": "clc"}
# further column forms, one (quick) / three (thorough) seeded picks per class: names that need quoting for other reasons than a blank (reserved words,
# hyphen, non-ASCII, leading digit, mixed case), table-qualified and indexed column references, longer transform chains, a regex with
# backslash classes and a capture group, explicit formats, raw SQL expressions holding a literal
EXTRA_COLS = ["order", "first-name", "na\u00efve", "Group", "1st", "tbl.first_name", "arr[1]", col("order", ["lower"], ["substr", 1, 2], ["nullif", ""]),
              col("postcode", ["regex_extract", "^(\\w+)\\s", 1]), col("dob", ["try_parse_date", "%Y/%m/%d"], ["cast_to_string"]), col("ts", ["try_parse_timestamp", "%Y-%m-%dT%H:%M:%S"]),
              col("arr", ["access_extreme_array_element", "first"]), col("first name", ["lower"], ["nullif", "n/a"]), "coalesce(first_name, '')", "first_name || ' ' || surname",
              {"col": "first name", "dialect": "spark", "ops": []}, {"col": "surname", "dialect": "sqlite", "ops": [["lower"]]}]
# boundary values of the public arguments, each tried alone on the first grid point of every class that has the parameter
BOUNDARY = {
    "distance_threshold": [0, 1.0], "threshold": [0, 1e-07], "km_threshold": [0], "similarity_threshold": [1], "min_intersection": [0], "percentage_threshold": [0, 1e-07],
    "difference_threshold": [0], "salting_partitions": [0], "arrays_to_explode": [[], ["arr", "tags"]], "distance_threshold_or_thresholds": [[], [2, 1, 1], 0],
    "score_threshold_or_thresholds": [[], [1.0], [0.7, 0.9, 0.7]], "size_threshold_or_thresholds": [[0], [1, 1]], "km_thresholds": [[0], [10, 1, 10]], "jaro_winkler_thresholds": [[], [1.0]],
    "metric": ["month"], "literal_value": [""], "valid_string_pattern": ["^\\d+$"], "label_for_charts": ["it's 100%"], "sql_dialect": ["sqlite"], "base_dialect_str": ["sqlite"],
    "datetime_format": ["%Y-%m-%dT%H:%M:%S"], "comparison_description": [""],
}
PAIRED_BOUNDARY = {("metrics", "thresholds"): [(["day"], [0]), ("month", 0.5)], ("datetime_thresholds", "datetime_metrics"): [([1], ["day"]), ([0, 1], ["day", "month"])]}


def level_spec(name, *args, configure=None, **kw):
    d = {"cls": name, "args": list(args), "kwargs": kw}
    if configure:
        d["configure"] = configure
    return d


def composition_cases():
    E, N, J = level_spec("cll.ExactMatchLevel", "a"), level_spec("cll.NullLevel", col("b", ["lower"])), level_spec("cll.JaroWinklerLevel", "a", 0.9)
    D = level_spec("cll.AbsoluteDateDifferenceLevel", "dob", input_is_string=False, threshold=1, metric="year")
    Ds = level_spec("cll.AbsoluteDateDifferenceLevel", "dob", input_is_string=True, threshold=1, metric="year")
    raw = {"raw": {"sql_condition": "a_l = a_r", "label_for_charts": "raw dict level", "m_probability": 0.7}}
    lv = [
        level_spec("cll.And", E, N), level_spec("cll.Or", E, J, N), level_spec("cll.Not", E), level_spec("cll.Not", N), level_spec("cll.And", level_spec("cll.Or", E, J), level_spec("cll.Not", N)),
        level_spec("cll.And", E, {"raw": {"sql_condition": "a_l = a_r", "label_for_charts": "raw dict level"}}), level_spec("cll.Or", D, E), level_spec("cll.And", Ds, E), level_spec("cll.Not", Ds),
        level_spec("cll.ExactMatchLevel", "a", configure={"m_probability": 0.9, "u_probability": 0.1, "tf_adjustment_column": "a", "tf_adjustment_weight": 0.5, "tf_minimum_u_value": 0.001}),
        level_spec("cll.ExactMatchLevel", col("a", ["lower"]), configure={"tf_adjustment_column": col("a", ["lower"]), "label_for_charts": "custom", "is_null_level": False}),
        level_spec("cll.LevenshteinLevel", "a", 2, configure={"fix_m_probability": True, "fix_u_probability": True, "disable_tf_exact_match_detection": True}),
    ]
    E2 = lambda c: level_spec("brl.ExactMatchRule", c)  # noqa: E731
    C = level_spec("brl.CustomRule", "l.a = r.a and l.b <> r.b")
    br = [
        {"fn": "brl.block_on", "args": ["first_name"]}, {"fn": "brl.block_on", "args": ["first_name", "surname"]}, {"fn": "brl.block_on", "args": [col("first_name", ["lower"]), col("dob", ["substr", 1, 4])]},
        {"fn": "brl.block_on", "args": ["first name", "substr(surname, 1, 2)"], "kwargs": {"salting_partitions": 3}}, {"fn": "brl.block_on", "args": ["city"], "kwargs": {"arrays_to_explode": ["tags"]}},
        {"fn": "brl.block_on", "args": [col("dob", ["try_parse_date"]), "surname"], "kwargs": {"salting_partitions": 2}},
        level_spec("brl.And", E2("a"), E2("b")), level_spec("brl.Or", E2("a"), C), level_spec("brl.Not", E2("a")), level_spec("brl.And", level_spec("brl.Or", E2("a"), E2(col("b", ["lower"]))), level_spec("brl.Not", C), salting_partitions=2),
        level_spec("brl.And", E2("a"), {"raw": {"blocking_rule": "l.c = r.c", "salting_partitions": 5}}), level_spec("brl.Or", level_spec("brl.ExactMatchRule", "a", salting_partitions=7), E2("b")),
    ]
    cmp_ = [
        level_spec("cl.CustomComparison", [N, E, level_spec("cll.ElseLevel")], output_column_name="a", comparison_description="custom"),
        level_spec("cl.CustomComparison", [raw, {"raw": {"sql_condition": "ELSE", "label_for_charts": "else"}}], output_column_name="a"),
        level_spec("cl.CustomComparison", [N, Ds, D, level_spec("cll.ElseLevel")], output_column_name="dob"),
        # configured CustomComparison over the user's own level creators: get_configured_comparison_levels configures them in place
        level_spec("cl.CustomComparison", [N, E, J, level_spec("cll.ElseLevel")], output_column_name="a", configure={"m_probabilities": [0.8, 0.15, 0.05], "u_probabilities": [0.01, 0.09, 0.9]}),
        level_spec("cl.CustomComparison", [N, E, level_spec("cll.ElseLevel")], output_column_name="a", configure={"term_frequency_adjustments": True}),
        level_spec("cl.ExactMatch", "first_name", configure={"term_frequency_adjustments": True, "m_probabilities": [0.9, 0.1], "u_probabilities": [0.05, 0.95]}),
        level_spec("cl.JaroWinklerAtThresholds", "first_name", [0.9, 0.8], configure={"term_frequency_adjustments": True, "m_probabilities": [0.7, 0.2, 0.05, 0.05]}),
        level_spec("cl.NameComparison", col("first_name", ["lower"]), configure={"u_probabilities": [0.01, 0.02, 0.03, 0.04, 0.9]}),
    ]
    return lv, br, cmp_


QUICK_COLS = {"level": [0, 1, 2, 3, 4, 7, 11], "blocking": [0, 1, 2, 3, 4, 7, 11], "comparison": [0, 1, 2, 4, 11]}  # indices into COLS


def grid_for(ckey: str, thorough: bool, rng: random.Random, kind: str = "level"):
    """Constructor-argument grid of one library class, read off its __init__ signature."""
    import importlib

    mod, name = ckey.split(".")
    cls = getattr(importlib.import_module("splink.internals." + mod), name)
    sig = inspect.signature(cls.__init__)
    params = [p for p in list(sig.parameters.values())[1:] if p.kind not in (p.VAR_POSITIONAL, p.VAR_KEYWORD)]
    names = [p.name for p in params]
    dims: list[tuple[tuple, list]] = []
    ov = OVERRIDE.get(ckey, {})
    first_col = True
    done = set()
    for p in params:
        if p.name in done:
            continue
        pair = next((k for k in PAIRED if p.name in k), None)
        if pair and all(x in names for x in pair):
            dims.append((pair, PAIRED[pair]))
            done |= set(pair)
        elif p.name in ov:
            dims.append(((p.name,), [(v,) for v in ov[p.name]]))
        elif p.name in COL_PARAMS:
            vals = (COLS if thorough else [COLS[i] for i in QUICK_COLS[kind]]) if first_col else SECOND_COLS.get(p.name, ["surname"])
            first_col = False
            dims.append(((p.name,), [(v,) for v in vals]))
        elif p.name in VALUES:
            dims.append(((p.name,), [(v,) for v in VALUES[p.name]]))
        elif p.default is not inspect.Parameter.empty:
            dims.append(((p.name,), [(p.default,)] if isinstance(p.default, (int, float, str, bool, type(None), list)) else []))
        else:
            raise core.HarnessError(f"no grid values for parameter {p.name} of {ckey}.__init__ -- extend VALUES in harness/props/c17.py")
    dims = [d for d in dims if d[1]]
    total = 1
    for _, v in dims:
        total *= len(v)
    combos = []
    cap = 60 if thorough else 8
    if total <= cap:
        combos = list(itertools.product(*[v for _, v in dims]))
    else:
        base = [v[0] for _, v in dims]
        combos.append(tuple(base))
        for i, (_, v) in enumerate(dims):  # every value of every parameter at least once
            for x in v[1:]:
                combos.append(tuple(base[:i] + [x] + base[i + 1:]))
        for _ in range(2 if not thorough else 20):  # and seeded random full combinations
            combos.append(tuple(rng.choice(v) for _, v in dims))
    specs, seen = [], set()
    for c in combos:
        kw = {}
        for (ns, _), vals in zip(dims, c):
            for n, v in zip(ns, vals):
                kw[n] = v
        key = json.dumps(kw, sort_keys=True, default=str)
        if key in seen:
            continue
        seen.add(key)
        specs.append({"cls": f"{MOD_ALIAS[mod]}.{name}", "args": [], "kwargs": kw})
    return specs


def grid_extras(ckey: str, base: dict, thorough: bool, rng: random.Random):
    """Further argument families around the first grid point of a class -> [(family, label, spec)]."""
    import importlib

    mod, name = ckey.split(".")
    cls = getattr(importlib.import_module("splink.internals." + mod), name)
    params = {p.name: p for p in list(inspect.signature(cls.__init__).parameters.values())[1:] if p.kind not in (p.VAR_POSITIONAL, p.VAR_KEYWORD)}
    kw = base["kwargs"]
    mk = lambda ch: {"cls": base["cls"], "args": [], "kwargs": {**kw, **ch}}  # noqa: E731
    lab = lambda v: json.dumps(v)[:60]  # noqa: E731
    out = []
    first = next((n for n in params if n in COL_PARAMS), None)
    if first:
        for c in rng.sample(EXTRA_COLS, 3 if thorough else 1):
            out.append(("extra_column_form", lab(c), mk({first: c})))
    for n in params:
        if n in OVERRIDE.get(ckey, {}):
            continue
        vals = [v for v in BOUNDARY.get(n, []) if n in kw and kw[n] != v]
        for v in vals if thorough else rng.sample(vals, min(1, len(vals))):  # quick: one seeded pick per (class, parameter)
            out.append(("boundary_value", f"{n}={lab(v)}", mk({n: v})))
    for pair, vals in PAIRED_BOUNDARY.items():
        if all(n in params for n in pair):
            for vs in vals if thorough else rng.sample(vals, 1):
                out.append(("boundary_value", f"{'/'.join(pair)}={lab(vs)}", mk(dict(zip(pair, vs)))))
    # list-valued arguments given as other iterables (the signatures say Iterable): a one-shot iterator / generator, a tuple / range
    lists = {n: kw[n] for n in params if isinstance(kw.get(n), list) and kw[n]}
    for pair, vals in PAIRED.items():
        if all(n in params for n in pair):
            lists.update(next(dict(zip(pair, vs)) for vs in vals if all(isinstance(v, list) for v in vs)))
    if lists:
        one_shot = rng.choice(["iter", "gen"])
        out.append(("iterable_form", one_shot, mk({n: {one_shot: v} for n, v in lists.items()})))
        rangeable = lambda v: all(isinstance(x, int) for x in v) and v == list(range(v[0], v[0] + len(v)))  # noqa: E731
        out.append(("iterable_form", "tuple/range", mk({n: ({"range": [v[0], v[0] + len(v)]} if rangeable(v) else {"tuple": v}) for n, v in lists.items()})))
    # every optional argument left out: the (mutable) default objects of the signature themselves are used
    if any(isinstance(p.default, (list, dict, set)) for p in params.values()):
        out.append(("defaults_omitted", "", {"cls": base["cls"], "args": [], "kwargs": {k: v for k, v in kw.items() if params[k].default is inspect.Parameter.empty}}))
    return out


def shared_cases():
    """kind 'multi': several consumers built around the SAME sub-objects (a ColumnExpression, a level / rule / comparison creator, a list,
    a dict), called alternately; every output must be the one of that consumer built alone on new objects."""
    E, N, J = level_spec("cll.ExactMatchLevel", "a"), level_spec("cll.NullLevel", "a"), level_spec("cll.JaroWinklerLevel", "a", 0.9)
    R = lambda n: {"ref": n}  # noqa: E731
    lvl = lambda spec: {"kind": "level", "spec": spec}  # noqa: E731
    cmp_ = lambda spec: {"kind": "comparison", "spec": spec}  # noqa: E731
    blk = lambda spec: {"kind": "blocking", "spec": spec}  # noqa: E731
    else_ = level_spec("cll.ElseLevel")
    return [
        {"label": "one ColumnExpression in two levels and a blocking rule", "shared": {"C": col("first name", ["lower"])},
         "consumers": [lvl(level_spec("cll.ExactMatchLevel", R("C"))), lvl(level_spec("cll.LevenshteinLevel", R("C"), 2)), blk({"fn": "brl.block_on", "args": [R("C"), "surname"]})]},
        {"label": "sibling ColumnExpressions derived from one base, and the base", "shared": {"B": col("surname")},
         "consumers": [lvl(level_spec("cll.ExactMatchLevel", {"col": R("B"), "ops": [["lower"]]})), lvl(level_spec("cll.ExactMatchLevel", {"col": R("B"), "ops": [["substr", 1, 3]]})), lvl(level_spec("cll.NullLevel", R("B"))),
                       cmp_(level_spec("cl.ExactMatch", R("B")))]},
        {"label": "derivations from a ColumnExpression that already has a transform", "shared": {"B": col("dob", ["try_parse_date"])},
         "consumers": [lvl(level_spec("cll.AbsoluteDateDifferenceLevel", R("B"), input_is_string=True, threshold=1, metric="year")), lvl(level_spec("cll.ExactMatchLevel", R("B"))),
                       lvl(level_spec("cll.ExactMatchLevel", {"col": R("B"), "ops": [["cast_to_string"]]})), cmp_(level_spec("cl.DateOfBirthComparison", R("B"), input_is_string=True))]},
        {"label": "level creators in two configured CustomComparisons, a composition, and alone", "shared": {"E": E, "N": N, "J": J},
         "consumers": [cmp_(level_spec("cl.CustomComparison", [R("N"), R("E"), else_], output_column_name="a", configure={"m_probabilities": [0.9, 0.1]})),
                       cmp_(level_spec("cl.CustomComparison", [R("N"), R("E"), R("J"), else_], output_column_name="a", configure={"term_frequency_adjustments": True, "u_probabilities": [0.01, 0.09, 0.9]})),
                       lvl(level_spec("cll.And", R("E"), R("J"))), lvl(R("E"))]},
        {"label": "one LIST of levels given to two CustomComparisons", "shared": {"E": E, "N": N, "L": [R("N"), R("E"), else_]},
         "consumers": [cmp_(level_spec("cl.CustomComparison", R("L"), output_column_name="a", configure={"m_probabilities": [0.7, 0.3]})), cmp_(level_spec("cl.CustomComparison", R("L"), output_column_name="b", comparison_description="second"))]},
        {"label": "blocking rule creators in And / Or / Not and alone", "shared": {"R": level_spec("brl.ExactMatchRule", "a", salting_partitions=3), "C": level_spec("brl.CustomRule", "substr(l.b, 1, 2) = substr(r.b, 1, 2)", sql_dialect="duckdb")},
         "consumers": [blk(level_spec("brl.And", R("R"), R("C"))), blk(level_spec("brl.Or", R("R"), level_spec("brl.Not", R("C")))), blk(R("R")), blk(R("C"))]},
        {"label": "comparison / blocking creators in two SettingsCreators and alone", "shared": {"CC": level_spec("cl.LevenshteinAtThresholds", col("surname", ["lower"]), [1, 2], configure={"term_frequency_adjustments": True}),
                                                                                                 "BR": {"fn": "brl.block_on", "args": ["first name", col("dob", ["substr", 1, 4])]}},
         "consumers": [{"kind": "settings", "spec": {"link_type": "dedupe_only", "comparisons": [R("CC"), level_spec("cl.ExactMatch", "city")], "blocking_rules": [R("BR")]}},
                       {"kind": "settings", "spec": {"link_type": "link_only", "comparisons": [R("CC")], "blocking_rules": [R("BR"), "l.city = r.city"]}}, cmp_(R("CC")), blk(R("BR"))]},
        {"label": "one level DICT / rule DICT in several creators", "shared": {"D": {"raw": {"sql_condition": "a_l = a_r", "label_for_charts": "dict level"}}, "DM": {"raw": {"sql_condition": "a_l = a_r", "label_for_charts": "dict level", "m_probability": 0.7, "tf_adjustment_column": "a"}},
                                                                                "X": {"raw": {"sql_condition": "ELSE", "label_for_charts": "else"}}, "BD": {"raw": {"blocking_rule": "l.c = r.c", "sql_dialect": "duckdb", "salting_partitions": 5}}},
         "consumers": [cmp_(level_spec("cl.CustomComparison", [R("DM"), R("D"), R("X")], output_column_name="a")), lvl(level_spec("cll.And", E, R("D"))), cmp_(level_spec("cl.CustomComparison", [N, R("DM"), R("X")], output_column_name="a", configure={"m_probabilities": [0.6, 0.4]})),
                       blk(level_spec("brl.And", level_spec("brl.ExactMatchRule", "a"), R("BD"))), blk(level_spec("brl.Not", level_spec("brl.Or", R("BD"), level_spec("brl.ExactMatchRule", "b"))))]},
        {"label": "the same creator object twice inside one creator", "shared": {"E": E, "N": N, "R": level_spec("brl.ExactMatchRule", col("a", ["lower"]))},
         "consumers": [cmp_(level_spec("cl.CustomComparison", [R("N"), R("E"), R("E"), else_], output_column_name="a", configure={"m_probabilities": [0.5, 0.3, 0.2]})), lvl(level_spec("cll.Or", R("E"), level_spec("cll.Not", R("E")))),
                       blk(level_spec("brl.And", R("R"), R("R"))), lvl(R("N"))]},
        {"label": "one thresholds LIST given to several comparisons", "shared": {"T": [1, 2], "S": [0.9, 0.8]},
         "consumers": [cmp_(level_spec("cl.LevenshteinAtThresholds", "a", R("T"))), cmp_(level_spec("cl.DamerauLevenshteinAtThresholds", "b", R("T"))), cmp_(level_spec("cl.JaroWinklerAtThresholds", "a", R("S"))),
                       cmp_(level_spec("cl.NameComparison", "a", jaro_winkler_thresholds=R("S")))]},
    ]


def kind_of(ckey: str, table_classes) -> str | None:
    import importlib

    from splink.internals.blocking_rule_creator import BlockingRuleCreator
    from splink.internals.comparison_creator import ComparisonCreator
    from splink.internals.comparison_level_creator import ComparisonLevelCreator

    mod, name = ckey.split(".")
    cls = getattr(importlib.import_module("splink.internals." + mod), name)
    if inspect.isabstract(cls) or name.startswith("_Merge") or mod not in MOD_ALIAS:
        return None
    if name in ("And", "Or", "Not") or name == "CustomComparison":
        return None  # composition / custom: hand-written cases
    if issubclass(cls, ComparisonLevelCreator):
        return "level"
    if issubclass(cls, ComparisonCreator):
        return "comparison"
    if issubclass(cls, BlockingRuleCreator):
        return "blocking"
    return None


def gen_cases(ctx, table: Table):
    cases = []
    rng = ctx.rng
    for ckey in table.classes:
        k = kind_of(ckey, table.classes)
        if k is None:
            ctx.count("class_without_own_grid", ckey)
            continue
        for i, spec in enumerate(grid_for(ckey, ctx.thorough, rng, k)):
            cases.append({"kind": k, "spec": spec, "tag": "grid", "representative": i == 0})
    lv, br, cm = composition_cases()
    cases += [{"kind": "level", "spec": s, "tag": "composition", "representative": i < 2} for i, s in enumerate(lv)]
    cases += [{"kind": "blocking", "spec": s, "tag": "composition", "representative": i < 2} for i, s in enumerate(br)]
    cases += [{"kind": "comparison", "spec": s, "tag": "composition", "representative": False} for s in cm]
    # settings: mixtures of creators, dict comparisons, string / dict blocking rules
    raw_cmp = {"raw": {"output_column_name": "city", "comparison_levels": [{"raw": {"sql_condition": "city_l IS NULL OR city_r IS NULL", "label_for_charts": "null", "is_null_level": True}},
                                                                          {"raw": {"sql_condition": "city_l = city_r", "label_for_charts": "exact"}}, {"raw": {"sql_condition": "ELSE", "label_for_charts": "else"}}]}}
    for i, (cmps, brs, lt) in enumerate([
        ([cm[0], level_spec("cl.ExactMatch", "surname"), raw_cmp], [br[0], br[1], "l.city = r.city"], "dedupe_only"),
        ([level_spec("cl.NameComparison", "first_name"), level_spec("cl.DateOfBirthComparison", "dob", input_is_string=True), cm[3]], [br[3], {"raw": {"blocking_rule": "l.dob = r.dob", "salting_partitions": 2}}], "link_only"),
        ([level_spec("cl.LevenshteinAtThresholds", col("surname", ["lower"]), [1, 2]), level_spec("cl.EmailComparison", "email"), cm[4]], [br[2], br[9]], "link_and_dedupe"),
        ([cm[2], level_spec("cl.PostcodeComparison", "postcode")], [br[5]], "dedupe_only"),
    ]):
        cases.append({"kind": "settings", "spec": {"link_type": lt, "comparisons": cmps, "blocking_rules": brs}, "tag": "settings", "representative": False})
    for c in cases:
        cheap = c["kind"] in ("level", "blocking")
        c["max_len"] = 4
        if ctx.thorough and (cheap or c["representative"]):
            c["exh_len"], c["pairs"], c["sampled"] = 4, "all", {}
        elif ctx.thorough:
            c["exh_len"], c["pairs"], c["sampled"] = 3, 40, {"4": 20}
        elif cheap and c["representative"]:
            c["exh_len"], c["pairs"], c["sampled"] = 4, "obj", {}
        elif cheap:
            c["exh_len"], c["pairs"], c["sampled"] = 2, "obj", {"3": 15, "4": 10}
        elif c["representative"]:
            c["exh_len"], c["pairs"], c["sampled"] = 3, 30, {"4": 6}
        else:
            c["exh_len"], c["pairs"], c["sampled"] = 2, 20, {"3": 6, "4": 4}
        c["seq_seed"] = rng.randrange(1 << 30)
        c["family"] = c["tag"]
        c["configure_steps"] = c["kind"] == "settings" or c["kind"] in ("level", "comparison") and (ctx.thorough or c["representative"] or c["tag"] == "composition")
    return cases + more_cases(ctx, table, cases, lv, br, cm)


SETTINGS_OPTIONS = {"em_convergence": 0.01, "max_iterations": 3, "retain_matching_columns": False, "retain_intermediate_calculation_columns": True, "additional_columns_to_retain": [],
                    "unique_id_column_name": "id", "source_dataset_column_name": "src", "bayes_factor_column_prefix": "b_", "term_frequency_adjustment_column_prefix": "t_",
                    "comparison_vector_value_column_prefix": "g_", "linker_uid": "fixed_uid", "probability_two_random_records_match": 0.5}


def more_cases(ctx, table: Table, base_cases, lv, br, cm):
    """The families added by the generator audit; built after (and with a random stream separate from) the original cases, which stay as they were."""
    xr = random.Random(ctx.seed * 7919 + 17)
    out = []
    # around the first grid point of every class: further column forms, boundary values, iterable forms of list arguments, all defaults
    for c in base_cases:
        if c["tag"] == "grid" and c["representative"]:
            ckey = next(k for k, v in MOD_ALIAS.items() if v == c["spec"]["cls"].split(".")[0]) + "." + c["spec"]["cls"].split(".")[1]
            for fam, label, spec in grid_extras(ckey, c["spec"], ctx.thorough, xr):
                out.append({"kind": c["kind"], "spec": spec, "tag": "grid", "family": fam, "family_label": label, "representative": False})
    # compositions
    E, N, J = level_spec("cll.ExactMatchLevel", "a"), level_spec("cll.NullLevel", col("b", ["lower"])), level_spec("cll.JaroWinklerLevel", "a", 0.9)
    E2 = lambda c: level_spec("brl.ExactMatchRule", c)  # noqa: E731
    else_ = level_spec("cll.ElseLevel")
    lv2 = [level_spec("cll.Or", level_spec("cll.And", E, J), level_spec("cll.Not", level_spec("cll.And", N, E))), level_spec("cll.And", E),
           level_spec("cll.And", E, {"raw": {"sql_condition": "substr(a_l, 1, 2) = substr(a_r, 1, 2)", "base_dialect_str": "duckdb"}}),
           level_spec("cll.ExactMatchLevel", "a", configure={"tf_adjustment_column": "a", "tf_adjustment_weight": 0, "tf_minimum_u_value": 0.0, "fix_m_probability": False, "is_null_level": False})]
    br2 = [level_spec("brl.And", E2("a"), {"raw": {"blocking_rule": "l.c = r.c", "sql_dialect": "duckdb"}}), level_spec("brl.Not", level_spec("brl.CustomRule", "substr(l.a, 1, 2) = substr(r.a, 1, 2)", sql_dialect="sqlite")),
           {"fn": "brl.block_on", "args": ["a", "a"]}, level_spec("brl.And", E2("a"), E2("b"), arrays_to_explode=["a"]), level_spec("brl.Not", level_spec("brl.ExactMatchRule", "a", salting_partitions=3)),
           level_spec("brl.And", level_spec("brl.ExactMatchRule", "a", arrays_to_explode=["a"]), E2("b")), {"fn": "brl.block_on", "args": ["a"], "kwargs": {"salting_partitions": 0, "arrays_to_explode": []}}]
    cm2 = [level_spec("cl.CustomComparison", [level_spec("cll.NullLevel", "a"), N, E, else_], output_column_name="a", configure={"m_probabilities": [0.9, 0.1], "u_probabilities": [0.1, 0.9]}),
           level_spec("cl.CustomComparison", [level_spec("cll.And", E, J), level_spec("cll.Or", N, E), else_], output_column_name="a", configure={"term_frequency_adjustments": True, "m_probabilities": [0.6, 0.3, 0.1]}),
           level_spec("cl.CustomComparison", [])]
    out += [{"kind": "level", "spec": x, "tag": "composition", "family": "composition", "representative": False} for x in lv2]
    out += [{"kind": "blocking", "spec": x, "tag": "composition", "family": "composition", "representative": False} for x in br2]
    out += [{"kind": "comparison", "spec": x, "tag": "composition", "family": "composition", "representative": False} for x in cm2]
    # creators / lists / dicts shared between several consumers
    for sc in shared_cases():
        out.append({"kind": "multi", "shared": sc["shared"], "consumers": sc["consumers"], "spec": {"shared": sc["shared"], "consumers": sc["consumers"]}, "tag": "shared", "family": "shared_objects",
                    "family_label": sc["label"], "representative": False, "per_pair": 3 if ctx.thorough else 2, "n_long": 20 if ctx.thorough else 8})
    # settings: the saved-model dictionary and JSON file forms, every option non-default, nothing to build
    st = [c for c in base_cases if c["kind"] == "settings" and c["tag"] == "settings"]
    forms = []
    for i, c in enumerate(st):
        forms.append((c, {"form": "dict", "base": "duckdb"}))
        if ctx.thorough or i in (0, 1):
            forms.append((c, {"form": "path", "base": ("duckdb", "spark")[i % 2]}))
        if ctx.thorough or i == 2:
            forms.append((c, {"form": "pathobj", "base": "duckdb"}))
        if ctx.thorough or i == 0:
            forms.append((c, {"options": SETTINGS_OPTIONS}))
        if ctx.thorough or i == 3:
            forms.append((c, {"form": "dict", "base": "spark", "options": SETTINGS_OPTIONS}))
    for c, ch in forms:
        out.append({"kind": "settings", "spec": {**c["spec"], **ch}, "tag": "settings", "family": "settings_form", "representative": False})
    out.append({"kind": "settings", "spec": {"link_type": "dedupe_only", "comparisons": [], "blocking_rules": []}, "tag": "settings", "family": "settings_form", "representative": False})
    out.append({"kind": "settings", "spec": {"link_type": "link_only", "comparisons": [], "blocking_rules": [], "form": "dict", "base": "duckdb"}, "tag": "settings", "family": "settings_form", "representative": False})
    for c in out:
        cheap = c["kind"] in ("level", "blocking")
        c["max_len"] = 4
        if c["kind"] == "multi":
            c["exh_len"], c["pairs"], c["sampled"] = 0, 0, {}
        elif ctx.thorough:
            c["exh_len"], c["pairs"], c["sampled"] = (3, "all", {"4": 30}) if cheap else (2, 30, {"3": 10, "4": 10})
        elif cheap:
            c["exh_len"], c["pairs"], c["sampled"] = 2, 12, {"3": 6, "4": 6}
        elif c["kind"] == "settings":
            c["exh_len"], c["pairs"], c["sampled"] = 2, 8, {"3": 3, "4": 3}
        else:
            c["exh_len"], c["pairs"], c["sampled"] = 1, 5, {"3": 2, "4": 2}
        c["seq_seed"] = xr.randrange(1 << 30)
        c["configure_steps"] = c["kind"] == "settings" or c["kind"] in ("level", "comparison") and (ctx.thorough or c["tag"] == "composition" or c["family"] in ("iterable_form", "defaults_omitted"))
    return out


# --------------------------------------------------------------------------- verdicts
def verdicts(case, r, table: Table):
    """-> (property problems on the real output [(failure, detail)], observations for the correspondence)"""
    probs = []
    unexplained, nonslot, causes = [], [], {}
    for p, ch in r["state_changes"].items():
        ex = table.explain(p, [tuple(o) for o in ch["owners"]], ch["direct"])
        ch["explained_by"] = ex
        if ex is None:
            unexplained.append(p)
            leaf = [x for x in p.split(".") if x][-1]
            if leaf in table.slot_leaves and ch["direct"] == "column_expression.ColumnExpression":
                continue  # a dialect slot the table does not list for this class: the table is incomplete (correspondence), the object is fine
        if ex is None or ex[0] not in ("dialectSlot", "sharedSlot"):
            nonslot.append(p)
            causes.setdefault("unexplained write" if ex is None else f"{ex[0]} write in {ex[1]}", []).append(p)
    if r["output_diffs"]:
        d0 = r["output_diffs"][0]
        sd = sorted(c for c in causes if c.startswith("selfDependent")) or sorted(causes) or ["no attribute change observed"]
        probs.append(("output differs from a fresh object", sd[0], {"sequence": d0["sequence"], "call_index": d0["call_index"], "got": d0["got"], "fresh": d0["fresh"], "n_differing_calls": r.get("n_output_diffs")}))
    for cause, ps in sorted(causes.items()):
        p = sorted(ps)[0]
        probs.append(("creator object changed by a call", cause, {"attribute": p, "before": r["state_changes"][p]["before"], "after": r["state_changes"][p]["after"], "sequence": r["state_changes"][p]["sequence"],
                                                               "all_changed": sorted(ps)[:8]}))
    if r["parse_failures"]:
        probs.append(("generated SQL does not parse in its dialect (sqlglot)", r["parse_failures"][0]["dialect"], r["parse_failures"][0]))
    if case["kind"] == "settings" and not (r.get("dict_unchanged", True) and r.get("dict_creators_unchanged", True)):
        probs.append(("settings dict changed by SettingsCreator", "", {"dict_unchanged": r.get("dict_unchanged"), "creators_unchanged": r.get("dict_creators_unchanged")}))
    # the caller's own argument objects (lists, dicts, ColumnExpressions, creators handed to a constructor): only dialect slots may differ
    argch = {p: ch for p, ch in r.get("arg_changes", {}).items()
             if not ([x for x in p.split(".") if x][-1] in table.slot_leaves and ch["direct"] == "column_expression.ColumnExpression")}
    if argch:
        p = sorted(argch)[0]
        probs.append(("constructor argument changed by a call", "", {"argument_path": p, "before": argch[p]["before"], "after": argch[p]["after"], "sequence": argch[p]["sequence"], "all_changed": sorted(argch)[:8]}))
    if r.get("global_changes"):
        k = sorted(r["global_changes"])[0]
        probs.append(("state outside the creator objects changed (default argument / class attribute / module global)", k.split("(")[0], {"what": k, "before": r["global_changes"][k][0], "after": r["global_changes"][k][1], "all_changed": sorted(r["global_changes"])[:8]}))
    return probs, {"unexplained": unexplained, "nonslot": nonslot}


def minimal_repro(case):
    s = json.dumps(case["spec"])
    return f"PYTHONPATH=/verif:/repo python -c 'from harness.props import c17; import json; r = c17.run_impl({{**json.loads({json.dumps(json.dumps({k: case[k] for k in case if k != 'spec'}))}), \"spec\": json.loads({json.dumps(s)})}}); print(r[\"output_diffs\"][:1], list(r[\"state_changes\"])[:5])'"


def run(ctx: core.Ctx):
    from harness.translate import twrites

    ctx.rule = (
        "cases = every concrete creator class found by T-writes (comparison levels, comparisons, blocking rules) x a constructor-argument grid read off each __init__ signature "
        "(13 column forms incl. ColumnExpression lower/substr/try_parse_date/try_parse_timestamp/regex_extract/nullif/cast_to_string/array element, raw SQL expressions, a column name needing quotes; "
        "thresholds, metrics, formats, tf flags, literal types, salting, arrays_to_explode; full product when <= 8 (quick) / 60 (thorough) else every value of every parameter + 2 / 20 seeded random combinations; quick uses 7 of the 13 column forms for levels and 5 for comparisons) "
        "+ hand-written And/Or/Not/configure()/block_on/CustomComparison/dict-level compositions + 4 SettingsCreator mixtures. Per case, each sequence on its own new object (all prefixes are checked on the way). "
        "thorough: ALL dialect sequences of length <= 4 (create_*_dict) + all 2-step sequences over {create_*_dict, get_*} x dialects for every level and blocking-rule case and the first grid point of every comparison class; length <= 3 + samples for the other comparison / settings cases. "
        "quick: the same length <= 4 exhaustion for the first grid point of every level / blocking class, length <= 3 for the first grid point of every comparison class, length <= 2 for every other grid point, "
        "plus 2-step sequences involving get_* (all of them for levels and blocking rules, a seeded sample otherwise) and seeded random mixed-API sequences of length 3 and 4. "
        "dialects = those where a fresh object does not raise. non-trivial = at least 2 supported dialects and at least one attribute written; "
        "distinct = hash of (kind, constructor spec). "
        "ADDED BY THE GENERATOR AUDIT -- cases: around the first grid point of every class one (thorough: three) of 17 further column forms (a ColumnExpression constructed WITH a dialect, reserved word, hyphen, non-ASCII, leading digit, mixed case, "
        "table-qualified / indexed reference, 3-step transform chains, regex with backslash classes + capture group, explicit date / timestamp formats, raw SQL holding a literal), boundary values of "
        "every threshold / option (0, 1.0, 1e-07, empty / duplicated / unsorted threshold lists, salting 0, arrays_to_explode [] / 2 columns, empty literal / label / description, other base dialect), list arguments "
        "given as one-shot iterator / generator / tuple / range (reference = the same call with a plain list), every optional argument omitted (the signature's own mutable default objects); further compositions; "
        "10 'shared' cases (kind multi: one ColumnExpression / derivation base / level, rule, comparison creator / list / dict held by several creators or SettingsCreators, calls alternating between them); "
        "settings as saved-model dictionary and JSON file (str and Path) through from_path_or_dict, every SettingsCreator option non-default, empty settings. "
        "steps: besides create_*_dict / get_* also dialect-free calls (labels, descriptions, names, level counts, repr, configured levels) first / last / in between, calls in an UNSUPPORTED dialect (they raise) "
        "followed by supported ones, configure(..) between calls, for a SettingsCreator: fields re-assigned between calls (reference = new object configured the same way). "
        "observed besides outputs and vars(): the caller's argument objects (lists, dicts, ColumnExpressions, creators), default-argument objects / class attributes / module-level containers of the anchored modules; "
        "history pass: every reference output recomputed in 8 processes of their own (create_*_dict; 5 x one dialect only, cases forwards / backwards; 3 x a third of the cases with the dialects in reverse order) and compared with the main pass."
    )
    ctx.assumptions = [
        "'parses in that dialect' is decided by sqlglot.parse_one(sql, read=<the SplinkDialect's sqlglot name>) -- sqlglot is the oracle for this clause, outside Lean",
        "T-writes is flow-insensitive about aliases, treats attributes of a shallow copy(self) as fresh and trusts __init__ not to write into its arguments; whatever it misses shows up as an attribute change the table cannot explain (reported as a broken correspondence)",
        "a dialect in which a *fresh* object raises (ValueError 'not supported', NotImplementedError, or any other error from /repo) is outside the quantifier for that creator and is counted under unsupported_dialect",
        "dialect slots (attributes the generated table marks dialectSlot, e.g. ColumnExpression.sql_dialect) may differ before/after; comparison creators share their ColumnExpression objects with the level creators they build, so the slot of a shared ColumnExpression counts as a slot",
        "an iterable argument (iterator, generator, tuple, range) means the list of its elements: the reference object of such a case is built from the plain lists",
        "a settings dictionary / JSON file written for one dialect is SQL of that dialect: its strings are parse-checked in that dialect only (the call sequences still run over every dialect in which a fresh object does not raise)",
        "new class attributes / module globals (a correctly keyed cache) are not by themselves a violation: only existing default-argument objects, class attributes and module-level containers are compared, and the history pass decides whether outputs of new objects depend on earlier calls",
        "outputs are compared as canonical JSON of create_level_dict / get_comparison_level().as_dict() / create_comparison_dict / get_comparison().as_dict() / create_blocking_rule_dict / get_blocking_rule().as_dict() / create_settings_dict / get_settings().as_dict(), labels, descriptions, output column names",
    ]
    terrs, classes, rows = twrites.write()
    table = Table(classes, rows)
    ctx.lean = core.lean_check(PROP, ctx.thorough)
    if terrs:
        ctx.lean.ok = False
        ctx.lean.problems += ["T-writes: " + e for e in terrs]
    ctx.extra_cov["write_table"] = {"classes": len(classes), "rows": len(rows), "by_kind": {k: sum(1 for r in rows if r["kind"] == k) for k in ("dialectSlot", "configConstant", "selfDependent")},
                                    "non_slot_rows": [[r["cls"], r["method"], r["attr"], r["kind"]] for r in rows if r["kind"] != "dialectSlot"], "translation_errors": terrs}
    drv = core.Driver()
    if ctx.replay:
        cases = [json.loads(open(ctx.replay).read())["replay"]["case"]]
    else:
        from harness import graphs

        cases = list(graphs.load_corpus(PROP)) + gen_cases(ctx, table)
    cases.sort(key=lambda c: -({"settings": 30, "comparison": 10, "multi": 25}.get(c["kind"], 1) * (8 if c["exh_len"] >= (4 if c["kind"] in ("level", "blocking") else 3) else 1)))
    res = core.pmap(run_impl_safe, cases, chunksize=1)
    # ---- history independence of NEW objects: the reference outputs again, in processes that serve one dialect only / the dialects in
    # the opposite order, cases in the same / the opposite order (see history_pass)
    payload = [(i, c, r["fresh_digest"]) for i, (c, r) in enumerate(zip(cases, res)) if isinstance(r, dict) and "fresh_digest" in r]
    tasks = [{"dialects": [d], "reverse": j % 2 == 1, "cases": payload} for j, d in enumerate(DIALECTS)] + [{"dialects": DIALECTS[::-1], "reverse": True, "cases": payload[k::3]} for k in range(3)]
    hist = run_isolated(history_pass, tasks) if payload and not ctx.replay else []

    concrete, broken = [], []
    per_class: dict[str, dict] = {}
    for c, r in zip(cases, res):
        if core.impl_error(r):
            ctx.count("impl_error", r["__error__"])
            concrete.append((c, "real code raised", {"error": r["__error__"], "text": r["text"][:400]}, None))
            continue
        if "constructor_rejects" in r:
            ctx.count("excluded", "constructor rejects the argument combination")
            continue
        if "form_rejected" in r:
            concrete.append((c, "constructor raises for an iterable argument but accepts the list of the same elements", {"error": r["form_rejected"]}, None))
            continue
        nontrivial = len(r["supported"]) >= 2 and bool(r["state_changes"])
        ctx.case({"kind": c["kind"], "spec": c["spec"]}, nontrivial,
                 sample={"kind": c["kind"], "spec": c["spec"], "supported": r["supported"], "sequences": r["sequences"], "calls": r["calls"], "changed_attributes": sorted(r["state_changes"])[:6]} if c["tag"] != "grid" or c["representative"] else None)
        ctx.count("kind", c["kind"]); ctx.count("class", r["cls"]); ctx.count("n_supported_dialects", len(r["supported"])); ctx.count("exhaustive_sequence_length", c["exh_len"])
        ctx.count("sequences_run", "total", r["sequences"]); ctx.count("calls_made", "total", r["calls"])
        ctx.count("family", c.get("family", c.get("tag", "corpus")))
        if c.get("family") in ("extra_column_form", "boundary_value", "iterable_form", "shared_objects"):
            ctx.count(c["family"], c.get("family_label", ""))
        if c["kind"] == "settings":
            ctx.count("settings_form", c["spec"].get("form", "creator") + (" + every option non-default" if c["spec"].get("options") else "") + (" (nothing to build)" if not c["spec"]["comparisons"] else ""))
        for sk, n in r.get("steps", {}).items():
            ctx.count("steps_by_kind", {"dict": "create_*_dict(dialect)", "obj": "get_*(dialect)", "meta": "dialect-free calls (label / description / names / counts / repr)",
                                        "configure": "configure(..) between calls", "failed_call": "call in an unsupported dialect (raises) inside a sequence"}[sk], n)
        ctx.count("constructor_arguments_watched", "total", r.get("args_kept", 0))
        for k in r.get("global_containers_changed", []):
            ctx.count("module_or_class_level_container_changed (not a violation by itself)", k)
        if r.get("configure_raised"):
            ctx.count("configure_raised", r["cls"], r["configure_raised"])
        for d, why in r["unsupported"].items():
            ctx.count("unsupported_dialect", f"{d}: {why[:60]}")
        if not r["supported"]:
            ctx.count("excluded", "no dialect supports this creator / argument combination")
            continue
        probs, obs = verdicts(c, r, table)
        pc = per_class.setdefault(r["cls"], {"cases": 0, "output_diffs": 0, "nonslot": 0, "unexplained": [], "example": None, "nested": set()})
        pc["cases"] += 1
        pc["nested"] |= set(r["nested"])
        pc["output_diffs"] += bool(r["output_diffs"])
        pc["nonslot"] += bool(obs["nonslot"])
        if obs["unexplained"]:
            pc["unexplained"].append((c, obs["unexplained"][:3]))
        for failure, cause, detail in probs:
            concrete.append((c, failure + (f" ({cause})" if cause else ""), detail, r))
        if not probs:
            ctx.traces_validated += 1
    # ---- history pass
    for t, h in zip(tasks, hist):
        what = (f"{t['dialects'][0]} only" if len(t["dialects"]) == 1 else "a third of the cases, the five dialects in reverse order") + f", cases {'last to first' if t['reverse'] else 'first to last'}"
        if "__error__" in h:
            raise core.HarnessError(f"history pass ({what}) failed: {h['__error__']}: {h['text']}\n{h.get('tb', '')}")
        ctx.count("history_pass_comparisons", what, h["compared"])
        for m in h["mismatches"]:
            c, r = cases[m["case_index"]], res[m["case_index"]]
            concrete.append((c, "output of a NEW object depends on what the process did before (state outside the object)",
                             {"call": m["key"], "isolated_process": what, "in_isolated_process": m["isolated"], "in_main_pass": r["fresh"].get(m["key"])}, r))
    # ---- correspondence: what the table + compiled model predict per class vs what was observed
    keys = sorted(per_class)
    pred = drv.batch([{"op": "creator_calls", "cls": k, "ds": ["duckdb", "spark", "duckdb", "duckdb"]} for k in keys])
    corr = {}
    for k, m in zip(keys, pred):
        if "error" in m:
            raise core.HarnessError("model driver error: " + m["error"])
        pc = per_class[k]
        # a composite object also runs the code of the creators nested in it
        nested_pred = drv.batch([{"op": "creator_calls", "cls": n, "ds": ["duckdb", "duckdb"]} for n in sorted(pc["nested"])])
        model_stateless = all(x["stateless"] for x in nested_pred) and m["stateless"]
        model_only_slots = all(x["only_slots"] for x in nested_pred) and m["only_slots"]
        corr[k] = {"cases": pc["cases"], "model_stateless": model_stateless, "model_only_slots": model_only_slots, "observed_output_diffs": pc["output_diffs"], "observed_nonslot_changes": pc["nonslot"]}
        if not m["known_class"] and k != "settings_creator.SettingsCreator":
            broken.append((None, f"class {k} was instantiated but is not in the generated table"))
        if model_stateless and pc["output_diffs"]:
            broken.append((None, f"{k}: the table has no selfDependent write (model: every call equals a fresh call, theorem stateless_calls_commute) but the real object's outputs depend on earlier calls"))
        if not m["stateless"] and not pc["output_diffs"] and k.split(".")[-1] not in ("And", "Or", "Not"):
            broken.append((None, f"{k}: the table lists a selfDependent write (model: second call differs) but no grid point of the class behaves statefully"))
        if model_only_slots and pc["nonslot"]:
            broken.append((None, f"{k}: the table lists only dialect slots but a non-slot attribute of the real object changed"))
        for c, un in pc["unexplained"]:
            broken.append((c, f"{k}: attribute(s) {un} changed but no row of the generated table (for the object or an enclosing creator) accounts for them"))
    ctx.extra_cov["per_class"] = corr
    ctx.extra_cov["parse_check"] = {"oracle": "sqlglot (outside Lean)", "failures": sum(1 for _, f, _, _ in concrete if "does not parse" in f)}

    # one violation per (failure, root cause), on the simplest case that shows it
    rank = {"level": 0, "blocking": 1, "comparison": 2, "settings": 3}
    concrete.sort(key=lambda x: (rank.get(x[0]["kind"], 9), json.dumps(x[0]["spec"]).count('"cls"'), len(json.dumps(x[0]["spec"]))))
    reported = set()
    for c, failure, detail, r in concrete:
        if failure in reported or len(reported) >= 5:
            continue
        reported.add(failure)
        cls = r["cls"] if r else "?"
        small = {k: v for k, v in c.items()}
        ctx.violation(f"real output violates C17: {failure}",
                      {"case": small, "class": cls, "detail": detail, "supported_dialects": r["supported"] if r else None, "classes_involved": r["nested"] if r else None,
                       "cases_with_this_failure": sum(1 for x in concrete if x[1] == failure),
                       "table_rows_of_class": [[x["method"], x["attr"], x["kind"]] for x in table.by_cls.get(cls, [])]},
                      kind="concrete", match_info={"failure": failure.split(" (")[0], "cause": failure.split(" (", 1)[1][:-1] if " (" in failure else ""})
    if not ctx.violations:  # no NEW concrete violation (none at all, or only ones a registered known finding describes)
        if broken:
            c, w = broken[0]
            ctx.violation("correspondence generated write table / Creators model <-> real creator objects no longer checks",
                          {"correspondence": "harness/props/c17.py run(): " + w, "case": c, "disagreements": [b[1] for b in broken][:10], "searched_cases": ctx.evaluations, "lean": ctx.lean.as_dict()}, kind="unproved")
        elif not ctx.lean.ok:
            ctx.violation("Lean obligations / T-writes translation for C17 no longer check",
                          {"theorems": ctx.lean.as_dict()["undischarged"], "problems": ctx.lean.problems, "build_log_tail": ctx.lean.build_log[-1500:], "searched_cases": ctx.evaluations}, kind="unproved")
    elif broken:
        ctx.notes.append("correspondence disagreements besides the concrete violations: " + "; ".join(b[1] for b in broken)[:1500])
    if not ctx.lean.ok and concrete:
        ctx.notes.append("Lean/T-writes problems: " + "; ".join(ctx.lean.problems)[:1500])
