"""C17 — turning a specification into SQL is deterministic and side-effect free.

Lean: Model/Creators.lean (a creator = state machine over attribute writes of three kinds), Properties/C17.lean
(stateless ⇒ every call sequence gives the outputs of fresh objects and changes only listed attributes; decided
facts about the GENERATED table Generated/CreatorWrites.lean, re-derived from Splink's source by harness/translate/twrites.py
on every run: which writes are self-dependent, which are not dialect slots).
Tie: every creator class of the library x a finite grid of constructor arguments x call sequences over the dialects the
creator supports, on the real objects: (oracle) outputs equal those of fresh objects, deep vars() snapshots unchanged
modulo dialect slots, settings dicts unchanged, SQL parses (sqlglot); (correspondence) the statefulness observed per
class is the one the table and the compiled model (driver op creator_calls) predict.
"""
from __future__ import annotations

import copy
import functools
import inspect
import itertools
import json
import random

from harness import core

PROP = "C17"
DIALECTS = ["duckdb", "spark", "sqlite", "postgres", "athena"]
MODS = {"cll": "splink.internals.comparison_level_library", "cl": "splink.internals.comparison_library", "brl": "splink.internals.blocking_rule_library",
        "clc": "splink.internals.comparison_level_composition"}


# --------------------------------------------------------------------------- building objects from JSON specs
def build(spec):
    """JSON spec -> object.  {"col":name,"ops":[[method,*args],..]} ColumnExpression; {"cls":"mod.Class","args":[..],"kwargs":{..},
    "configure":{..}} creator; {"fn":"block_on",...}; {"raw":x} / plain JSON: itself (dicts of level/comparison settings included)."""
    import importlib

    if isinstance(spec, list):
        return [build(x) for x in spec]
    if not isinstance(spec, dict):
        return spec
    if "col" in spec:
        from splink.internals.column_expression import ColumnExpression

        c = ColumnExpression(spec["col"])
        for op in spec.get("ops", []):
            c = getattr(c, op[0])(*op[1:])
        return c
    if "raw" in spec:
        return {k: build(v) for k, v in spec["raw"].items()}
    if "cls" in spec or "fn" in spec:
        mod, name = (spec.get("cls") or spec["fn"]).split(".")
        f = getattr(importlib.import_module(MODS[mod]), name)
        obj = f(*[build(a) for a in spec.get("args", [])], **{k: build(v) for k, v in spec.get("kwargs", {}).items()})
        if spec.get("configure"):
            obj = obj.configure(**{k: build(v) for k, v in spec["configure"].items()})
        return obj
    return {k: build(v) for k, v in spec.items()}


def class_key(obj) -> str:
    t = type(obj)
    return f"{t.__module__.split('.')[-1]}.{t.__name__}"


# --------------------------------------------------------------------------- snapshots
def is_splink_obj(x) -> bool:
    return type(x).__module__.startswith("splink.") and hasattr(x, "__dict__")


def snapshot(obj):
    """Deep snapshot of everything reachable from obj: {path: repr}, plus for every path the chain of enclosing creator objects
    [(path of the creator, its class key)] and the class key of the object that directly owns the leaf."""
    from splink.internals.blocking_rule_creator import BlockingRuleCreator
    from splink.internals.comparison_creator import ComparisonCreator
    from splink.internals.comparison_level_creator import ComparisonLevelCreator
    from splink.internals.dialects import SplinkDialect

    leaves, owners, direct = {}, {}, {}

    def go(x, path, chain, owner, seen):
        if isinstance(x, SplinkDialect):
            leaves[path], owners[path], direct[path] = f"<dialect {x.sql_dialect_str}>", chain, owner
            return
        if id(x) in seen and (is_splink_obj(x) or isinstance(x, (list, dict, tuple, set))):
            leaves[path], owners[path], direct[path] = "<cycle>", chain, owner
            return
        if is_splink_obj(x):
            key = class_key(x)
            cat = "comparison" if isinstance(x, ComparisonCreator) else "level" if isinstance(x, ComparisonLevelCreator) else "blocking" if isinstance(x, BlockingRuleCreator) else "other"
            ch = chain + [(path, key, cat)] if key != "column_expression.ColumnExpression" else chain
            d = vars(x)
            leaves[path + ".<type>"], owners[path + ".<type>"], direct[path + ".<type>"] = key, ch, key
            for k in sorted(d):
                go(d[k], f"{path}.{k}" if path else k, ch, key, seen | {id(x)})
            return
        if isinstance(x, dict):
            leaves[path + ".<len>"], owners[path + ".<len>"], direct[path + ".<len>"] = f"dict{len(x)}", chain, owner
            for k in x:
                go(x[k], f"{path}.{k}", chain, owner, seen | {id(x)})
            return
        if isinstance(x, (list, tuple)):
            leaves[path + ".<len>"], owners[path + ".<len>"], direct[path + ".<len>"] = f"{type(x).__name__}{len(x)}", chain, owner
            for i, v in enumerate(x):
                go(v, f"{path}.{i}", chain, owner, seen | {id(x)})
            return
        if isinstance(x, functools.partial):
            f = x.func
            leaves[path], owners[path], direct[path] = f"partial({getattr(f, '__qualname__', f)}, {x.args!r}, {sorted(x.keywords.items())!r})", chain, owner
            return
        if callable(x) and hasattr(x, "__qualname__"):
            leaves[path], owners[path], direct[path] = f"<callable {x.__qualname__}>", chain, owner
            return
        leaves[path], owners[path], direct[path] = repr(x), chain, owner

    go(obj, "", [], None, frozenset())
    return leaves, owners, direct


def pattern_match(pattern: str, rel: str, prefix=False) -> bool:
    """Attribute-path pattern of a table row ('*' = any one component, '[]' = an index/key) against a snapshot path."""
    ps, rs = [p for p in pattern.split(".") if p], [r for r in rel.split(".") if r and not r.startswith("<")]
    if prefix:
        if len(ps) > len(rs):
            return False
        rs = rs[: len(ps)]
    elif len(ps) != len(rs):
        return False
    return all(p in ("*", "[]") or p == r for p, r in zip(ps, rs))


class Table:
    """The generated write table, as the harness reads it (same rows as Generated/CreatorWrites.lean)."""

    def __init__(self, classes, rows):
        self.classes = classes
        self.rows = rows
        self.by_cls: dict[str, list[dict]] = {}
        for r in rows:
            self.by_cls.setdefault(r["cls"], []).append(r)
        slot = {r["attr"].split(".")[-1] for r in rows if r["kind"] == "dialectSlot"}
        other = {r["attr"].split(".")[-1] for r in rows if r["kind"] != "dialectSlot"}
        self.slot_leaves = slot - other  # attribute names that are written only with the dialect

    def explain(self, path, owners, direct):
        """Why may the leaf at `path` change?  -> (kind, class, row attr) | ('sharedSlot', ..) | None"""
        for cpath, ckey, _cat in reversed(owners):
            rel = path[len(cpath):].lstrip(".") if cpath else path
            for r in self.by_cls.get(ckey, []):
                if pattern_match(r["attr"], rel):
                    return (r["kind"], r.get("defined_in", ckey) + "." + r["method"].split(" -> ")[0], r["attr"])
            for r in self.by_cls.get(ckey, []):
                if r["kind"] != "dialectSlot":
                    # re-assigning `x` changes everything below x; configuring `xs[i]` changes attributes of xs[i]
                    region = ".".join(r["attr"].split(".")[:-1])
                    if pattern_match(r["attr"], rel, prefix=True) or (region and pattern_match(region, rel, prefix=True)):
                        return (r["kind"], r.get("defined_in", ckey) + "." + r["method"].split(" -> ")[0], r["attr"])
        # A comparison creator hands its own ColumnExpression objects to the level creators it builds on every call; those
        # (transient) levels write the slot.  Only then may a slot change without a row of an enclosing creator.
        last = [p for p in path.split(".") if p][-1]
        inner = owners[-1][2] if owners else None
        if last in self.slot_leaves and direct == "column_expression.ColumnExpression" and inner in ("comparison", "other"):
            return ("sharedSlot", "column_expression.ColumnExpression", last)
        return None


# --------------------------------------------------------------------------- one case on the real code
def api_call(kind, obj, api, d):
    if kind == "level":
        if api == "dict":
            return {"level_dict": obj.create_level_dict(d), "label": obj.create_label_for_charts()}
        lv = obj.get_comparison_level(d)
        return {"level": lv.as_dict(), "sql_condition": lv.sql_condition, "label": lv.label_for_charts}
    if kind == "comparison":
        if api == "dict":
            return {"comparison_dict": obj.create_comparison_dict(d), "description": obj.create_description(), "output_column_name": obj.create_output_column_name()}
        c = obj.get_comparison(d)
        return {"comparison": c.as_dict(), "description": obj.create_description()}
    if kind == "blocking":
        if api == "dict":
            return {"blocking_rule_dict": obj.create_blocking_rule_dict(d)}
        b = obj.get_blocking_rule(d)
        return {"blocking_rule": b.as_dict(), "sql": b.blocking_rule_sql}
    if kind == "settings":
        if api == "dict":
            return {"settings_dict": canon(obj.create_settings_dict(d))}
        return {"settings": canon(obj.get_settings(d).as_dict())}
    raise core.HarnessError(kind)


def canon(x):
    return json.loads(json.dumps(x, sort_keys=True, default=repr))


def unsupported(e: Exception) -> str | None:
    """The library's own ways of saying 'this creator does not exist in this dialect'."""
    if isinstance(e, NotImplementedError):
        return "NotImplementedError"
    if isinstance(e, ValueError) and ("not supported" in str(e) or "does not currently support" in str(e)):
        return "ValueError(not supported)"
    return None


def sql_strings(kind, res):
    out = []

    def walk(x):
        if isinstance(x, dict):
            for k, v in x.items():
                if k in ("sql_condition", "blocking_rule") and isinstance(v, str):
                    out.append(v)
                else:
                    walk(v)
        elif isinstance(x, list):
            for v in x:
                walk(v)

    walk(res)
    return out


def sequences(case, dialects):
    """(api, dialect) sequences to run, each on its own new object (every prefix is checked on the way).
    exh_len: all dialect sequences of that length with the dict API; pairs: 'all' | 'obj' (every 2-step sequence over
    {dict, obj} x dialects / only those with at least one get_* call) | n (seeded sample); sampled: {length: n} extra
    seeded sequences mixing both APIs."""
    if not dialects:
        return []
    rng = random.Random(case["seq_seed"])
    seqs = [[("dict", d) for d in s] for s in itertools.product(dialects, repeat=case["exh_len"])]
    steps = [(a, d) for a in ("dict", "obj") for d in dialects]
    pairs = [[s1, s2] for s1 in steps for s2 in steps]
    if case["pairs"] == "obj":
        pairs = [p for p in pairs if p[0][0] == "obj" or p[1][0] == "obj"]
    elif case["pairs"] != "all":
        pairs = [p for p in pairs if p[0][0] == "obj" or p[1][0] == "obj"]
        rng.shuffle(pairs)
        pairs = pairs[: int(case["pairs"])]
    seqs += pairs
    for L, n in sorted(case["sampled"].items()):
        for _ in range(n):
            seqs.append([rng.choice(steps) for _ in range(int(L))])
    return seqs


def run_impl(case: dict) -> dict:
    import sqlglot

    from splink.internals.dialects import SplinkDialect

    kind = case["kind"]
    mk = (lambda: build_settings(case["spec"])) if kind == "settings" else (lambda: build(case["spec"]))
    try:
        probe = mk()
    except Exception as e:  # noqa: BLE001  constructor rejects the argument combination: outside the grid
        return {"constructor_rejects": f"{type(e).__name__}: {str(e)[:120]}"}
    import time

    t0 = time.time()
    out = {"cls": class_key(probe), "fresh": {}, "unsupported": {}, "parse_failures": [], "output_diffs": [], "state_changes": {}, "calls": 0, "sequences": 0,
           "nested": sorted({o[1] for ch in snapshot(probe)[1].values() for o in ch})}
    # reference: a fresh object called once
    for d in DIALECTS:
        for api in ("dict", "obj"):
            try:
                out["fresh"][f"{api}:{d}"] = canon(api_call(kind, mk(), api, d))
            except Exception as e:  # noqa: BLE001
                why = unsupported(e)
                if why is None:
                    import traceback

                    tb = traceback.format_exc()
                    if 'File "/repo/' not in tb and "splink" not in tb:
                        raise
                    why = f"{type(e).__name__}: {str(e)[:160]}"
                out["unsupported"][d] = why
    sup = [d for d in DIALECTS if d not in out["unsupported"]]
    out["supported"] = sup
    # "parses in that dialect" (sqlglot is the oracle here, outside Lean)
    for d in sup:
        sgd = SplinkDialect.from_string(d).sqlglot_dialect
        for sql in sql_strings(kind, out["fresh"][f"dict:{d}"]):
            if sql.strip().upper() == "ELSE":
                continue
            try:
                sqlglot.parse_one(sql, read=sgd)
            except Exception as e:  # noqa: BLE001
                out["parse_failures"].append({"dialect": d, "sql": sql, "error": f"{type(e).__name__}: {str(e)[:200]}"})
    # call sequences
    for seq in sequences(case, sup):
        obj = mk()
        before = snapshot(obj)
        out["sequences"] += 1
        for i, (api, d) in enumerate(seq):
            out["calls"] += 1
            try:
                got = canon(api_call(kind, obj, api, d))
            except Exception as e:  # noqa: BLE001
                got = {"raised": f"{type(e).__name__}: {str(e)[:200]}"}
            if got != out["fresh"][f"{api}:{d}"] and len(out["output_diffs"]) < 3:
                out["output_diffs"].append({"sequence": seq[: i + 1], "call_index": i, "got": got, "fresh": out["fresh"][f"{api}:{d}"]})
            if got != out["fresh"][f"{api}:{d}"]:
                out["n_output_diffs"] = out.get("n_output_diffs", 0) + 1
                out["first_diff_call"] = min(out.get("first_diff_call", 99), i)
        after = snapshot(obj)
        for p in set(before[0]) | set(after[0]):
            a, b = before[0].get(p, "<absent>"), after[0].get(p, "<absent>")
            if a != b and p not in out["state_changes"]:
                src = after if p in after[0] else before
                out["state_changes"][p] = {"before": a, "after": b, "owners": src[1][p], "direct": src[2][p], "sequence": seq}
    # a settings dict handed to SettingsCreator must stay as it was
    if kind == "settings":
        from splink.internals.settings_creator import SettingsCreator

        sd = settings_dict(case["spec"])
        keep = copy.deepcopy(json.loads(json.dumps(sd, default=lambda o: f"<obj {id(o)}>")))
        snaps = [snapshot(x)[0] for x in sd["comparisons"] + sd["blocking_rules_to_generate_predictions"] if is_splink_obj(x)]
        for d in (sup[:2] + sup[:1]):
            SettingsCreator.from_path_or_dict(sd).get_settings(d)
            SettingsCreator(**sd).create_settings_dict(d)
        now = json.loads(json.dumps(sd, default=lambda o: f"<obj {id(o)}>"))
        out["dict_unchanged"] = now == keep
        out["dict_creators_unchanged"] = snaps == [snapshot(x)[0] for x in sd["comparisons"] + sd["blocking_rules_to_generate_predictions"] if is_splink_obj(x)]
    out["secs"] = round(time.time() - t0, 2)
    return out


run_impl_safe = core.safe(run_impl)


def settings_dict(spec):
    return {"link_type": spec["link_type"], "comparisons": [build(c) for c in spec["comparisons"]],
            "blocking_rules_to_generate_predictions": [build(b) for b in spec["blocking_rules"]], "probability_two_random_records_match": 0.01,
            "additional_columns_to_retain": ["cluster"]}


def build_settings(spec):
    from splink.internals.settings_creator import SettingsCreator

    return SettingsCreator(**settings_dict(spec))


# --------------------------------------------------------------------------- the grid
def col(name, *ops):
    return {"col": name, "ops": [list(o) for o in ops]}


COLS = ["first_name", "first name", col("first_name", ["lower"]), col("surname", ["substr", 1, 3]), col("dob", ["try_parse_date"]), col("dob", ["try_parse_date", "%d/%m/%Y"]),
        col("ts", ["try_parse_timestamp"]), col("postcode", ["regex_extract", "^[A-Z]{1,2}"]), col("name", ["lower"], ["nullif", ""]), col("n", ["cast_to_string"]),
        col("arr", ["access_extreme_array_element", "last"]), "lower(first_name)", "first_name || surname"]
COL_PARAMS = {"col_name", "col_name_1", "col_name_2", "col_name_or_expr", "lat_col", "long_col", "forename_col_name", "surname_col_name"}
SECOND_COLS = {"col_name_2": ["surname", col("surname", ["lower"])], "long_col": ["lng"], "surname_col_name": ["surname"], "lat_col": ["lat", col("lat", ["cast_to_string"])]}
VALUES = {
    "valid_string_pattern": [None, "^[A-Z]+$"], "term_frequency_adjustments": [False, True], "literal_value": ["7"], "literal_datatype": ["string", "int", "float", "date"],
    "side_of_comparison": ["both", "left", "right"], "symmetrical": [False, True], "distance_threshold": [1, 0.85], "higher_is_more_similar": [True, False],
    "input_is_string": [True, False], "threshold": [1, 2.5], "metric": ["day", "year", "second"], "datetime_format": [None, "%d/%m/%Y"], "km_threshold": [1, 10.5], "not_null": [False, True],
    "similarity_threshold": [0.9], "min_intersection": [1, 2], "empty_is_subset": [False, True], "percentage_threshold": [0.1], "difference_threshold": [1, 2.5],
    "sql_condition": ["substr(name_l, 1, 2) = substr(name_r, 1, 2)", "name_l = name_r and len(name_l) > 3"], "label_for_charts": [None, "my label"], "base_dialect_str": [None, "duckdb", "spark"],
    "distance_threshold_or_thresholds": [[1, 2], 3], "score_threshold_or_thresholds": [[0.9, 0.7], 0.8], "size_threshold_or_thresholds": [[1], [2, 1]],
    "km_thresholds": [[1, 10], 5], "invalid_dates_as_null": [True, False], "invalid_postcodes_as_null": [False, True], "jaro_winkler_thresholds": [[0.92, 0.88, 0.7], 0.9],
    "dmeta_col_name": [None, "name_dm"], "forename_surname_concat_col_name": [None, "fs_concat"], "output_column_name": [None, "out_col"], "comparison_description": [None, "my comparison"],
    "blocking_rule": ["l.first_name = r.first_name", "l.a = r.a or substr(l.b, 1, 2) = substr(r.b, 1, 2)"], "sql_dialect": [None, "duckdb", "spark"], "salting_partitions": [None, 4],
    "arrays_to_explode": [None, ["arr"]],
}
PAIRED = {  # parameters that must vary together
    ("metrics", "thresholds"): [("day", 1), (["day", "month", "year"], [1, 1, 10])],
    ("datetime_thresholds", "datetime_metrics"): [([1, 1, 10], ["month", "year", "year"]), (2, "day")],
}
OVERRIDE = {
    "comparison_level_library.PairwiseStringDistanceFunctionLevel": {"distance_function_name": ["levenshtein", "damerau_levenshtein", "jaro_winkler", "jaro"]},
    "comparison_library.PairwiseStringDistanceFunctionAtThresholds": {"distance_function_name": ["levenshtein", "jaro_winkler"]},
    "comparison_level_library.DistanceFunctionLevel": {"distance_function_name": ["my_distance"]},
    "comparison_library.DistanceFunctionAtThresholds": {"distance_function_name": ["my_distance"]},
    "comparison_library.PostcodeComparison": {"lat_col": [None, "lat"], "long_col": [None, "lng"]},
}
MOD_ALIAS = {"comparison_level_library": "cll", "comparison_library": "cl", "blocking_rule_library": "brl", "comparison_level_composition": "clc"}


def level_spec(name, *args, configure=None, **kw):
    d = {"cls": name, "args": list(args), "kwargs": kw}
    if configure:
        d["configure"] = configure
    return d


def composition_cases():
    E, N, J = level_spec("cll.ExactMatchLevel", "a"), level_spec("cll.NullLevel", col("b", ["lower"])), level_spec("cll.JaroWinklerLevel", "a", 0.9)
    D = level_spec("cll.AbsoluteDateDifferenceLevel", "dob", input_is_string=False, threshold=1, metric="year")
    Ds = level_spec("cll.AbsoluteDateDifferenceLevel", "dob", input_is_string=True, threshold=1, metric="year")
    raw = {"raw": {"sql_condition": "a_l = a_r", "label_for_charts": "raw dict level", "m_probability": 0.7}}
    lv = [
        level_spec("cll.And", E, N), level_spec("cll.Or", E, J, N), level_spec("cll.Not", E), level_spec("cll.Not", N), level_spec("cll.And", level_spec("cll.Or", E, J), level_spec("cll.Not", N)),
        level_spec("cll.And", E, {"raw": {"sql_condition": "a_l = a_r", "label_for_charts": "raw dict level"}}), level_spec("cll.Or", D, E), level_spec("cll.And", Ds, E), level_spec("cll.Not", Ds),
        level_spec("cll.ExactMatchLevel", "a", configure={"m_probability": 0.9, "u_probability": 0.1, "tf_adjustment_column": "a", "tf_adjustment_weight": 0.5, "tf_minimum_u_value": 0.001}),
        level_spec("cll.ExactMatchLevel", col("a", ["lower"]), configure={"tf_adjustment_column": col("a", ["lower"]), "label_for_charts": "custom", "is_null_level": False}),
        level_spec("cll.LevenshteinLevel", "a", 2, configure={"fix_m_probability": True, "fix_u_probability": True, "disable_tf_exact_match_detection": True}),
    ]
    E2 = lambda c: level_spec("brl.ExactMatchRule", c)  # noqa: E731
    C = level_spec("brl.CustomRule", "l.a = r.a and l.b <> r.b")
    br = [
        {"fn": "brl.block_on", "args": ["first_name"]}, {"fn": "brl.block_on", "args": ["first_name", "surname"]}, {"fn": "brl.block_on", "args": [col("first_name", ["lower"]), col("dob", ["substr", 1, 4])]},
        {"fn": "brl.block_on", "args": ["first name", "substr(surname, 1, 2)"], "kwargs": {"salting_partitions": 3}}, {"fn": "brl.block_on", "args": ["city"], "kwargs": {"arrays_to_explode": ["tags"]}},
        {"fn": "brl.block_on", "args": [col("dob", ["try_parse_date"]), "surname"], "kwargs": {"salting_partitions": 2}},
        level_spec("brl.And", E2("a"), E2("b")), level_spec("brl.Or", E2("a"), C), level_spec("brl.Not", E2("a")), level_spec("brl.And", level_spec("brl.Or", E2("a"), E2(col("b", ["lower"]))), level_spec("brl.Not", C), salting_partitions=2),
        level_spec("brl.And", E2("a"), {"raw": {"blocking_rule": "l.c = r.c", "salting_partitions": 5}}), level_spec("brl.Or", level_spec("brl.ExactMatchRule", "a", salting_partitions=7), E2("b")),
    ]
    cmp_ = [
        level_spec("cl.CustomComparison", [N, E, level_spec("cll.ElseLevel")], output_column_name="a", comparison_description="custom"),
        level_spec("cl.CustomComparison", [raw, {"raw": {"sql_condition": "ELSE", "label_for_charts": "else"}}], output_column_name="a"),
        level_spec("cl.CustomComparison", [N, Ds, D, level_spec("cll.ElseLevel")], output_column_name="dob"),
        # configured CustomComparison over the user's own level creators: get_configured_comparison_levels configures them in place
        level_spec("cl.CustomComparison", [N, E, J, level_spec("cll.ElseLevel")], output_column_name="a", configure={"m_probabilities": [0.8, 0.15, 0.05], "u_probabilities": [0.01, 0.09, 0.9]}),
        level_spec("cl.CustomComparison", [N, E, level_spec("cll.ElseLevel")], output_column_name="a", configure={"term_frequency_adjustments": True}),
        level_spec("cl.ExactMatch", "first_name", configure={"term_frequency_adjustments": True, "m_probabilities": [0.9, 0.1], "u_probabilities": [0.05, 0.95]}),
        level_spec("cl.JaroWinklerAtThresholds", "first_name", [0.9, 0.8], configure={"term_frequency_adjustments": True, "m_probabilities": [0.7, 0.2, 0.05, 0.05]}),
        level_spec("cl.NameComparison", col("first_name", ["lower"]), configure={"u_probabilities": [0.01, 0.02, 0.03, 0.04, 0.9]}),
    ]
    return lv, br, cmp_


QUICK_COLS = {"level": [0, 1, 2, 3, 4, 7, 11], "blocking": [0, 1, 2, 3, 4, 7, 11], "comparison": [0, 1, 2, 4, 11]}  # indices into COLS


def grid_for(ckey: str, thorough: bool, rng: random.Random, kind: str = "level"):
    """Constructor-argument grid of one library class, read off its __init__ signature."""
    import importlib

    mod, name = ckey.split(".")
    cls = getattr(importlib.import_module("splink.internals." + mod), name)
    sig = inspect.signature(cls.__init__)
    params = [p for p in list(sig.parameters.values())[1:] if p.kind not in (p.VAR_POSITIONAL, p.VAR_KEYWORD)]
    names = [p.name for p in params]
    dims: list[tuple[tuple, list]] = []
    ov = OVERRIDE.get(ckey, {})
    first_col = True
    done = set()
    for p in params:
        if p.name in done:
            continue
        pair = next((k for k in PAIRED if p.name in k), None)
        if pair and all(x in names for x in pair):
            dims.append((pair, PAIRED[pair]))
            done |= set(pair)
        elif p.name in ov:
            dims.append(((p.name,), [(v,) for v in ov[p.name]]))
        elif p.name in COL_PARAMS:
            vals = (COLS if thorough else [COLS[i] for i in QUICK_COLS[kind]]) if first_col else SECOND_COLS.get(p.name, ["surname"])
            first_col = False
            dims.append(((p.name,), [(v,) for v in vals]))
        elif p.name in VALUES:
            dims.append(((p.name,), [(v,) for v in VALUES[p.name]]))
        elif p.default is not inspect.Parameter.empty:
            dims.append(((p.name,), [(p.default,)] if isinstance(p.default, (int, float, str, bool, type(None), list)) else []))
        else:
            raise core.HarnessError(f"no grid values for parameter {p.name} of {ckey}.__init__ -- extend VALUES in harness/props/c17.py")
    dims = [d for d in dims if d[1]]
    total = 1
    for _, v in dims:
        total *= len(v)
    combos = []
    cap = 60 if thorough else 8
    if total <= cap:
        combos = list(itertools.product(*[v for _, v in dims]))
    else:
        base = [v[0] for _, v in dims]
        combos.append(tuple(base))
        for i, (_, v) in enumerate(dims):  # every value of every parameter at least once
            for x in v[1:]:
                combos.append(tuple(base[:i] + [x] + base[i + 1:]))
        for _ in range(2 if not thorough else 20):  # and seeded random full combinations
            combos.append(tuple(rng.choice(v) for _, v in dims))
    specs, seen = [], set()
    for c in combos:
        kw = {}
        for (ns, _), vals in zip(dims, c):
            for n, v in zip(ns, vals):
                kw[n] = v
        key = json.dumps(kw, sort_keys=True, default=str)
        if key in seen:
            continue
        seen.add(key)
        specs.append({"cls": f"{MOD_ALIAS[mod]}.{name}", "args": [], "kwargs": kw})
    return specs


def kind_of(ckey: str, table_classes) -> str | None:
    import importlib

    from splink.internals.blocking_rule_creator import BlockingRuleCreator
    from splink.internals.comparison_creator import ComparisonCreator
    from splink.internals.comparison_level_creator import ComparisonLevelCreator

    mod, name = ckey.split(".")
    cls = getattr(importlib.import_module("splink.internals." + mod), name)
    if inspect.isabstract(cls) or name.startswith("_Merge") or mod not in MOD_ALIAS:
        return None
    if name in ("And", "Or", "Not") or name == "CustomComparison":
        return None  # composition / custom: hand-written cases
    if issubclass(cls, ComparisonLevelCreator):
        return "level"
    if issubclass(cls, ComparisonCreator):
        return "comparison"
    if issubclass(cls, BlockingRuleCreator):
        return "blocking"
    return None


def gen_cases(ctx, table: Table):
    cases = []
    rng = ctx.rng
    for ckey in table.classes:
        k = kind_of(ckey, table.classes)
        if k is None:
            ctx.count("class_without_own_grid", ckey)
            continue
        for i, spec in enumerate(grid_for(ckey, ctx.thorough, rng, k)):
            cases.append({"kind": k, "spec": spec, "tag": "grid", "representative": i == 0})
    lv, br, cm = composition_cases()
    cases += [{"kind": "level", "spec": s, "tag": "composition", "representative": i < 2} for i, s in enumerate(lv)]
    cases += [{"kind": "blocking", "spec": s, "tag": "composition", "representative": i < 2} for i, s in enumerate(br)]
    cases += [{"kind": "comparison", "spec": s, "tag": "composition", "representative": False} for s in cm]
    # settings: mixtures of creators, dict comparisons, string / dict blocking rules
    raw_cmp = {"raw": {"output_column_name": "city", "comparison_levels": [{"raw": {"sql_condition": "city_l IS NULL OR city_r IS NULL", "label_for_charts": "null", "is_null_level": True}},
                                                                          {"raw": {"sql_condition": "city_l = city_r", "label_for_charts": "exact"}}, {"raw": {"sql_condition": "ELSE", "label_for_charts": "else"}}]}}
    for i, (cmps, brs, lt) in enumerate([
        ([cm[0], level_spec("cl.ExactMatch", "surname"), raw_cmp], [br[0], br[1], "l.city = r.city"], "dedupe_only"),
        ([level_spec("cl.NameComparison", "first_name"), level_spec("cl.DateOfBirthComparison", "dob", input_is_string=True), cm[3]], [br[3], {"raw": {"blocking_rule": "l.dob = r.dob", "salting_partitions": 2}}], "link_only"),
        ([level_spec("cl.LevenshteinAtThresholds", col("surname", ["lower"]), [1, 2]), level_spec("cl.EmailComparison", "email"), cm[4]], [br[2], br[9]], "link_and_dedupe"),
        ([cm[2], level_spec("cl.PostcodeComparison", "postcode")], [br[5]], "dedupe_only"),
    ]):
        cases.append({"kind": "settings", "spec": {"link_type": lt, "comparisons": cmps, "blocking_rules": brs}, "tag": "settings", "representative": False})
    for c in cases:
        cheap = c["kind"] in ("level", "blocking")
        c["max_len"] = 4
        if ctx.thorough and (cheap or c["representative"]):
            c["exh_len"], c["pairs"], c["sampled"] = 4, "all", {}
        elif ctx.thorough:
            c["exh_len"], c["pairs"], c["sampled"] = 3, 40, {"4": 20}
        elif cheap and c["representative"]:
            c["exh_len"], c["pairs"], c["sampled"] = 4, "obj", {}
        elif cheap:
            c["exh_len"], c["pairs"], c["sampled"] = 2, "obj", {"3": 15, "4": 10}
        elif c["representative"]:
            c["exh_len"], c["pairs"], c["sampled"] = 3, 30, {"4": 6}
        else:
            c["exh_len"], c["pairs"], c["sampled"] = 2, 20, {"3": 6, "4": 4}
        c["seq_seed"] = rng.randrange(1 << 30)
    return cases


# --------------------------------------------------------------------------- verdicts
def verdicts(case, r, table: Table):
    """-> (property problems on the real output [(failure, detail)], observations for the correspondence)"""
    probs = []
    unexplained, nonslot, causes = [], [], {}
    for p, ch in r["state_changes"].items():
        ex = table.explain(p, [tuple(o) for o in ch["owners"]], ch["direct"])
        ch["explained_by"] = ex
        if ex is None:
            unexplained.append(p)
            leaf = [x for x in p.split(".") if x][-1]
            if leaf in table.slot_leaves and ch["direct"] == "column_expression.ColumnExpression":
                continue  # a dialect slot the table does not list for this class: the table is incomplete (correspondence), the object is fine
        if ex is None or ex[0] not in ("dialectSlot", "sharedSlot"):
            nonslot.append(p)
            causes.setdefault("unexplained write" if ex is None else f"{ex[0]} write in {ex[1]}", []).append(p)
    if r["output_diffs"]:
        d0 = r["output_diffs"][0]
        sd = sorted(c for c in causes if c.startswith("selfDependent")) or sorted(causes) or ["no attribute change observed"]
        probs.append(("output differs from a fresh object", sd[0], {"sequence": d0["sequence"], "call_index": d0["call_index"], "got": d0["got"], "fresh": d0["fresh"], "n_differing_calls": r.get("n_output_diffs")}))
    for cause, ps in sorted(causes.items()):
        p = sorted(ps)[0]
        probs.append(("creator object changed by a call", cause, {"attribute": p, "before": r["state_changes"][p]["before"], "after": r["state_changes"][p]["after"], "sequence": r["state_changes"][p]["sequence"],
                                                               "all_changed": sorted(ps)[:8]}))
    if r["parse_failures"]:
        probs.append(("generated SQL does not parse in its dialect (sqlglot)", r["parse_failures"][0]["dialect"], r["parse_failures"][0]))
    if case["kind"] == "settings" and not (r.get("dict_unchanged", True) and r.get("dict_creators_unchanged", True)):
        probs.append(("settings dict changed by SettingsCreator", "", {"dict_unchanged": r.get("dict_unchanged"), "creators_unchanged": r.get("dict_creators_unchanged")}))
    return probs, {"unexplained": unexplained, "nonslot": nonslot}


def minimal_repro(case):
    s = json.dumps(case["spec"])
    return f"PYTHONPATH=/verif:/repo python -c 'from harness.props import c17; import json; r = c17.run_impl({{**json.loads({json.dumps(json.dumps({k: case[k] for k in case if k != 'spec'}))}), \"spec\": json.loads({json.dumps(s)})}}); print(r[\"output_diffs\"][:1], list(r[\"state_changes\"])[:5])'"


def run(ctx: core.Ctx):
    from harness.translate import twrites

    ctx.rule = (
        "cases = every concrete creator class found by T-writes (comparison levels, comparisons, blocking rules) x a constructor-argument grid read off each __init__ signature "
        "(13 column forms incl. ColumnExpression lower/substr/try_parse_date/try_parse_timestamp/regex_extract/nullif/cast_to_string/array element, raw SQL expressions, a column name needing quotes; "
        "thresholds, metrics, formats, tf flags, literal types, salting, arrays_to_explode; full product when <= 8 (quick) / 60 (thorough) else every value of every parameter + 2 / 20 seeded random combinations; quick uses 7 of the 13 column forms for levels and 5 for comparisons) "
        "+ hand-written And/Or/Not/configure()/block_on/CustomComparison/dict-level compositions + 4 SettingsCreator mixtures. Per case, each sequence on its own new object (all prefixes are checked on the way). "
        "thorough: ALL dialect sequences of length <= 4 (create_*_dict) + all 2-step sequences over {create_*_dict, get_*} x dialects for every level and blocking-rule case and the first grid point of every comparison class; length <= 3 + samples for the other comparison / settings cases. "
        "quick: the same length <= 4 exhaustion for the first grid point of every level / blocking class, length <= 3 for the first grid point of every comparison class, length <= 2 for every other grid point, "
        "plus 2-step sequences involving get_* (all of them for levels and blocking rules, a seeded sample otherwise) and seeded random mixed-API sequences of length 3 and 4. "
        "dialects = those where a fresh object does not raise. non-trivial = at least 2 supported dialects and at least one attribute written; "
        "distinct = hash of (kind, constructor spec)."
    )
    ctx.assumptions = [
        "'parses in that dialect' is decided by sqlglot.parse_one(sql, read=<the SplinkDialect's sqlglot name>) -- sqlglot is the oracle for this clause, outside Lean",
        "T-writes is flow-insensitive about aliases, treats attributes of a shallow copy(self) as fresh and trusts __init__ not to write into its arguments; whatever it misses shows up as an attribute change the table cannot explain (reported as a broken correspondence)",
        "a dialect in which a *fresh* object raises (ValueError 'not supported', NotImplementedError, or any other error from /repo) is outside the quantifier for that creator and is counted under unsupported_dialect",
        "dialect slots (attributes the generated table marks dialectSlot, e.g. ColumnExpression.sql_dialect) may differ before/after; comparison creators share their ColumnExpression objects with the level creators they build, so the slot of a shared ColumnExpression counts as a slot",
        "outputs are compared as canonical JSON of create_level_dict / get_comparison_level().as_dict() / create_comparison_dict / get_comparison().as_dict() / create_blocking_rule_dict / get_blocking_rule().as_dict() / create_settings_dict / get_settings().as_dict(), labels, descriptions, output column names",
    ]
    terrs, classes, rows = twrites.write()
    table = Table(classes, rows)
    ctx.lean = core.lean_check(PROP, ctx.thorough)
    if terrs:
        ctx.lean.ok = False
        ctx.lean.problems += ["T-writes: " + e for e in terrs]
    ctx.extra_cov["write_table"] = {"classes": len(classes), "rows": len(rows), "by_kind": {k: sum(1 for r in rows if r["kind"] == k) for k in ("dialectSlot", "configConstant", "selfDependent")},
                                    "non_slot_rows": [[r["cls"], r["method"], r["attr"], r["kind"]] for r in rows if r["kind"] != "dialectSlot"], "translation_errors": terrs}
    drv = core.Driver()
    if ctx.replay:
        cases = [json.loads(open(ctx.replay).read())["replay"]["case"]]
    else:
        from harness import graphs

        cases = list(graphs.load_corpus(PROP)) + gen_cases(ctx, table)
    cases.sort(key=lambda c: -({"settings": 30, "comparison": 10}.get(c["kind"], 1) * (8 if c["exh_len"] >= (4 if c["kind"] in ("level", "blocking") else 3) else 1)))
    res = core.pmap(run_impl_safe, cases, chunksize=1)

    concrete, broken = [], []
    per_class: dict[str, dict] = {}
    for c, r in zip(cases, res):
        if core.impl_error(r):
            ctx.count("impl_error", r["__error__"])
            concrete.append((c, "real code raised", {"error": r["__error__"], "text": r["text"][:400]}, None))
            continue
        if "constructor_rejects" in r:
            ctx.count("excluded", "constructor rejects the argument combination")
            continue
        nontrivial = len(r["supported"]) >= 2 and bool(r["state_changes"])
        ctx.case({"kind": c["kind"], "spec": c["spec"]}, nontrivial,
                 sample={"kind": c["kind"], "spec": c["spec"], "supported": r["supported"], "sequences": r["sequences"], "calls": r["calls"], "changed_attributes": sorted(r["state_changes"])[:6]} if c["tag"] != "grid" or c["representative"] else None)
        ctx.count("kind", c["kind"]); ctx.count("class", r["cls"]); ctx.count("n_supported_dialects", len(r["supported"])); ctx.count("exhaustive_sequence_length", c["exh_len"])
        ctx.count("sequences_run", "total", r["sequences"]); ctx.count("calls_made", "total", r["calls"])
        for d, why in r["unsupported"].items():
            ctx.count("unsupported_dialect", f"{d}: {why[:60]}")
        if not r["supported"]:
            ctx.count("excluded", "no dialect supports this creator / argument combination")
            continue
        probs, obs = verdicts(c, r, table)
        pc = per_class.setdefault(r["cls"], {"cases": 0, "output_diffs": 0, "nonslot": 0, "unexplained": [], "example": None, "nested": set()})
        pc["cases"] += 1
        pc["nested"] |= set(r["nested"])
        pc["output_diffs"] += bool(r["output_diffs"])
        pc["nonslot"] += bool(obs["nonslot"])
        if obs["unexplained"]:
            pc["unexplained"].append((c, obs["unexplained"][:3]))
        for failure, cause, detail in probs:
            concrete.append((c, failure + (f" ({cause})" if cause else ""), detail, r))
        if not probs:
            ctx.traces_validated += 1
    # ---- correspondence: what the table + compiled model predict per class vs what was observed
    keys = sorted(per_class)
    pred = drv.batch([{"op": "creator_calls", "cls": k, "ds": ["duckdb", "spark", "duckdb", "duckdb"]} for k in keys])
    corr = {}
    for k, m in zip(keys, pred):
        if "error" in m:
            raise core.HarnessError("model driver error: " + m["error"])
        pc = per_class[k]
        # a composite object also runs the code of the creators nested in it
        nested_pred = drv.batch([{"op": "creator_calls", "cls": n, "ds": ["duckdb", "duckdb"]} for n in sorted(pc["nested"])])
        model_stateless = all(x["stateless"] for x in nested_pred) and m["stateless"]
        model_only_slots = all(x["only_slots"] for x in nested_pred) and m["only_slots"]
        corr[k] = {"cases": pc["cases"], "model_stateless": model_stateless, "model_only_slots": model_only_slots, "observed_output_diffs": pc["output_diffs"], "observed_nonslot_changes": pc["nonslot"]}
        if not m["known_class"] and k != "settings_creator.SettingsCreator":
            broken.append((None, f"class {k} was instantiated but is not in the generated table"))
        if model_stateless and pc["output_diffs"]:
            broken.append((None, f"{k}: the table has no selfDependent write (model: every call equals a fresh call, theorem stateless_calls_commute) but the real object's outputs depend on earlier calls"))
        if not m["stateless"] and not pc["output_diffs"] and k.split(".")[-1] not in ("And", "Or", "Not"):
            broken.append((None, f"{k}: the table lists a selfDependent write (model: second call differs) but no grid point of the class behaves statefully"))
        if model_only_slots and pc["nonslot"]:
            broken.append((None, f"{k}: the table lists only dialect slots but a non-slot attribute of the real object changed"))
        for c, un in pc["unexplained"]:
            broken.append((c, f"{k}: attribute(s) {un} changed but no row of the generated table (for the object or an enclosing creator) accounts for them"))
    ctx.extra_cov["per_class"] = corr
    ctx.extra_cov["parse_check"] = {"oracle": "sqlglot (outside Lean)", "failures": sum(1 for _, f, _, _ in concrete if "does not parse" in f)}

    # one violation per (failure, root cause), on the simplest case that shows it
    rank = {"level": 0, "blocking": 1, "comparison": 2, "settings": 3}
    concrete.sort(key=lambda x: (rank.get(x[0]["kind"], 9), json.dumps(x[0]["spec"]).count('"cls"'), len(json.dumps(x[0]["spec"]))))
    reported = set()
    for c, failure, detail, r in concrete:
        if failure in reported or len(reported) >= 5:
            continue
        reported.add(failure)
        cls = r["cls"] if r else "?"
        small = {k: v for k, v in c.items()}
        ctx.violation(f"real output violates C17: {failure}",
                      {"case": small, "class": cls, "detail": detail, "supported_dialects": r["supported"] if r else None, "classes_involved": r["nested"] if r else None,
                       "cases_with_this_failure": sum(1 for x in concrete if x[1] == failure),
                       "table_rows_of_class": [[x["method"], x["attr"], x["kind"]] for x in table.by_cls.get(cls, [])]},
                      kind="concrete", match_info={"failure": failure.split(" (")[0], "cause": failure.split(" (", 1)[1][:-1] if " (" in failure else ""})
    if not concrete:
        if broken:
            c, w = broken[0]
            ctx.violation("correspondence generated write table / Creators model <-> real creator objects no longer checks",
                          {"correspondence": "harness/props/c17.py run(): " + w, "case": c, "disagreements": [b[1] for b in broken][:10], "searched_cases": ctx.evaluations, "lean": ctx.lean.as_dict()}, kind="unproved")
        elif not ctx.lean.ok:
            ctx.violation("Lean obligations / T-writes translation for C17 no longer check",
                          {"theorems": ctx.lean.as_dict()["undischarged"], "problems": ctx.lean.problems, "build_log_tail": ctx.lean.build_log[-1500:], "searched_cases": ctx.evaluations}, kind="unproved")
    elif broken:
        ctx.notes.append("correspondence disagreements besides the concrete violations: " + "; ".join(b[1] for b in broken)[:1500])
    if not ctx.lean.ok and concrete:
        ctx.notes.append("Lean/T-writes problems: " + "; ".join(ctx.lean.problems)[:1500])
