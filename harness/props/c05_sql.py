"""C05/C11, SQL level: T-sql regeneration of Generated/CCSql.lean and its translation validation.

`prepare()` regenerates the Lean terms of the SQL statements `solve_connected_components` emits now.
`validate()` evaluates those regenerated terms with the Lean SQL semantics (`Rel.eval`, driver op `cc_sql`) on the small
cases of the correspondence run and compares rows and per-pass counts with what the engine returned for the real code:
this validates the translator + `Rel.eval` against DuckDB/SQLite (it is testing, not proof; the proof is
`Properties/C05Sql.lean`: the SQL pipeline = `CC.cluster` for every input).
"""
from __future__ import annotations

from harness import core

MAX_N = 14  # Rel.eval joins are quadratic list scans: keep the validated cases small
MAX_CASES = 700


def prepare() -> list[str]:
    from harness.translate import tsql

    try:
        return tsql.run_isolated("cc")
    except Exception as e:  # noqa: BLE001  the capture run itself failed inside the real code or the translator
        return [f"T-sql capture/translation failed: {type(e).__name__}: {str(e)[:300]}"]


def request(case: dict, thr_value, order: list[int]) -> dict:
    """cc_sql request in rank space; probabilities and threshold become integer order keys."""
    rank = [0] * len(order)
    for r, i in enumerate(order):
        rank[i] = r
    vals = sorted({p for _, _, p in case["edges"]} | ({thr_value} if thr_value is not None else set()))
    key = {v: k for k, v in enumerate(vals)}
    return {
        "op": "cc_sql",
        "n": len(order),
        "edges": [[rank[a], rank[b], key[p]] for a, b, p in case["edges"]],
        "thr": None if thr_value is None else key[thr_value],
    }


def validate(ctx: core.Ctx, items, drv: core.Driver):
    """items: (case, order, real_result, thr_value) for non-excluded cases whose real run succeeded.
    Returns [(case, text, False, real_result)] for disagreements."""
    items = [it for it in items if len(it[0]["ids"]) <= MAX_N][:MAX_CASES]
    if not items:
        return []
    reqs = [request(c, t, o) for c, o, _, t in items]
    out = drv.pbatch(reqs)
    problems = []
    for (c, order, r, _), m in zip(items, out):
        if "error" in m:
            ctx.count("sql_model_unavailable", m["error"][:80])
            continue
        rows = sorted((order[a], order[b]) for a, b in m["rows"])
        ctx.count("translation_validation", "cc_sql evaluated")
        if rows != r["rows"]:
            problems.append((c, "rows of the regenerated SQL evaluated by Rel.eval (Generated/CCSql.lean) differ from the engine's result", False, r))
        elif m["trace"] != r["trace"]:
            problems.append((c, f"per-pass counts of the regenerated SQL under Rel.eval differ from the engine's: engine {r['trace'][:12]} Rel.eval {m['trace'][:12]}", False, r))
        else:
            ctx.count("translation_validation", "cc_sql agrees with engine")
    return problems
