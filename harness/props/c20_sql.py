"""C20, SQL level: T-sql regeneration of Generated/DescSql.lean (term_frequencies_for_single_column_sql and the per-column
sub-select of completeness_data, as Rel terms) and its translation validation: the driver's `descriptive` answer carries the
regenerated statements evaluated by `Rel.eval` (`tf_sql`, `compl_sql`) next to the functional model's tables (`tf`, `compl`),
which the same run compares with the engines."""
from __future__ import annotations

from fractions import Fraction


def prepare() -> list[str]:
    from harness.translate import tsql

    try:
        return tsql.run_isolated("desc")
    except Exception as e:  # noqa: BLE001
        return [f"T-sql capture/translation failed in write_desc: {type(e).__name__}: {str(e)[:300]}"]


def _q(v):
    return None if v is None else (Fraction(v[0], v[1]) if isinstance(v, list) else Fraction(v))


def differs(ctx, m: dict) -> str | None:
    """None if the regenerated SQL under Rel.eval gives the functional model's TF tables and completeness rows (as sets of rows
    with exact rational values), else a description."""
    if "tf_sql" not in m:
        return None
    ctx.count("translation_validation", "desc_sql evaluated")
    for k, (sql_rows, rows) in enumerate(zip(m["tf_sql"], m["tf"])):
        a = sorted((r[0], _q(r[1])) for r in sql_rows)
        b = sorted((v, Fraction(n, d)) for v, n, d in rows)
        if a != b:
            return f"TF table #{k}: Rel.eval of the regenerated statement {a[:4]} vs Descriptive.tfTable {b[:4]}"
    for k, (sql_rows, rows) in enumerate(zip(m["compl_sql"], m["compl"])):
        a = sorted((r[0], r[2], r[3], _q(r[4])) for r in sql_rows)
        b = sorted((sd, nul, tot, Fraction(nn, tot) if tot else None) for sd, nul, tot, nn in rows)
        if a != b:
            return f"completeness of column #{k}: Rel.eval of the regenerated statement {a[:4]} vs Descriptive.completenessCol {b[:4]}"
    ctx.count("translation_validation", "desc_sql agrees with the model (which is compared with the engine)")
    return None
