"""C20, SQL level: T-sql regeneration of Generated/DescSql.lean (term_frequencies_for_single_column_sql, the per-column
sub-select of completeness_data, comparison_vector_distribution_sql, the two statements of _hist_sql and the three statements of
unlinkables_data, as Rel terms) and its translation validation: the driver's `descriptive` answer carries the
regenerated statements evaluated by `Rel.eval` (`tf_sql`, `compl_sql`, `cvd_sql`, `hist_sql`, `unl_sql`).  The first two are compared with
the functional model's tables (`tf`, `compl`), which the same run compares with the engines; the last three are compared with the ROWS
THE ENGINE RETURNED for the real code (same tolerances and exceptions as the model comparison of harness/props/c20.py)."""
from __future__ import annotations

from fractions import Fraction


def prepare() -> list[str]:
    from harness.translate import tsql

    try:
        return tsql.run_isolated("desc")
    except Exception as e:  # noqa: BLE001
        return [f"T-sql capture/translation failed in write_desc: {type(e).__name__}: {str(e)[:300]}"]


def _q(v):
    return None if v is None else (Fraction(v[0], v[1]) if isinstance(v, list) else Fraction(v))


def differs_engine(ctx, m: dict, case: dict, r: dict, skip=()) -> str | None:
    """None if the regenerated comparison-vector distribution / histogram / unlinkables statements under Rel.eval return the rows the
    engine returned for the real code on this case, else a description.  Inputs of Rel.eval: the gamma columns of the scored pairs; the
    bin of every pair (`bw * floor(w / bw)` at Float: opaque in the Lean statement) with the width `_bins` chose; the rounded self-link
    scores (DuckDB's rounding; cases within 1e-9 of a rounding boundary are excepted, as in the model comparison)."""
    from harness import core
    from harness.props import c20

    if "cvd_sql" not in m:
        return None
    t32 = c20.tol32(case)
    gcols = [f"gamma_{c['col']}{i}" for i, c in enumerate(case["comparisons"])]
    if "cvd" not in skip:
        ctx.count("translation_validation", "cvd_sql evaluated")
        k = len(gcols)
        a = {tuple(row[4:4 + k]): (row[0], row[1], row[2], _q(row[3])) for row in m["cvd_sql"]}
        b = {tuple(x[c] for c in gcols): (x["gam_concat"], x["sum_gam"], x["count_rows_in_comparison_vector_group"], x["proportion_of_comparisons"]) for x in r["cvd"]}
        if len(a) != len(m["cvd_sql"]) or len(b) != len(r["cvd"]) or set(a) != set(b) or any(
                a[g][:3] != tuple(b[g][:3]) or not core.close(float(a[g][3]), b[g][3], t32, t32) for g in a):
            return f"comparison-vector distribution: Rel.eval of the regenerated statement {sorted(a.items())[:4]} vs engine {sorted(b.items())[:4]}"
        ctx.count("translation_validation", "cvd_sql agrees with the engine")
    if "histogram" not in skip and r.get("hist") is not None and m.get("hist_sql") is not None:
        ctx.count("translation_validation", "hist_sql evaluated")
        a = sorted((float(_q(row[0])), float(_q(row[1])), row[2], float(_q(row[3]))) for row in m["hist_sql"])
        b = sorted((x["splink_score_bin_low"], x["binwidth"], x["count_rows"], x["splink_score_bin_high"]) for x in r["hist"])
        if len(a) != len(b) or any(not core.close(x[0], y[0], 1e-12) or x[1] != y[1] or x[2] != y[2] or not core.close(x[3], y[3], 1e-6, 1e-7)
                                   for x, y in zip(a, b)):
            return f"histogram: Rel.eval of the regenerated statements {a[:5]} vs engine {b[:5]}"
        ctx.count("translation_validation", "hist_sql agrees with the engine")
    if "unlinkables" not in skip and not any(c20.knife(p, 1e5) for _, p in r["self"]) and not any(c20.knife(w, 1e2) for w, _ in r["self"]):
        ctx.count("translation_validation", "unl_sql evaluated")
        a = sorted((float(_q(row[1])), row[0] / 100, float(_q(row[2])), float(_q(row[3]))) for row in m["unl_sql"])
        b = sorted((x["match_probability"], x["match_weight"], x["prop"], x["cum_prop"]) for x in r["unl"])
        tcum = 1e-6 if case["engine"] == "duckdb" else 1e-12
        if len(a) != len(b) or any(not core.close(x[0], y[0], 1e-9) or not core.close(x[1], y[1], 1e-9, 1e-9) or not core.close(x[2], y[2], t32, t32)
                                   or not core.close(x[3], y[3], tcum, tcum) for x, y in zip(a, b)):
            return f"unlinkables: Rel.eval of the regenerated statements {a[:5]} vs engine {b[:5]}"
        ctx.count("translation_validation", "unl_sql agrees with the engine")
    return None


def differs(ctx, m: dict) -> str | None:
    """None if the regenerated SQL under Rel.eval gives the functional model's TF tables and completeness rows (as sets of rows
    with exact rational values), else a description."""
    if "tf_sql" not in m:
        return None
    ctx.count("translation_validation", "desc_sql evaluated")
    for k, (sql_rows, rows) in enumerate(zip(m["tf_sql"], m["tf"])):
        a = sorted((r[0], _q(r[1])) for r in sql_rows)
        b = sorted((v, Fraction(n, d)) for v, n, d in rows)
        if a != b:
            return f"TF table #{k}: Rel.eval of the regenerated statement {a[:4]} vs Descriptive.tfTable {b[:4]}"
    for k, (sql_rows, rows) in enumerate(zip(m["compl_sql"], m["compl"])):
        a = sorted((r[0], r[2], r[3], _q(r[4])) for r in sql_rows)
        b = sorted((sd, nul, tot, Fraction(nn, tot) if tot else None) for sd, nul, tot, nn in rows)
        if a != b:
            return f"completeness of column #{k}: Rel.eval of the regenerated statement {a[:4]} vs Descriptive.completenessCol {b[:4]}"
    ctx.count("translation_validation", "desc_sql agrees with the model (which is compared with the engine)")
    return None
