"""C15, SQL level: T-sql regeneration of Generated/AccSql.lean (the truth-space statements of accuracy.py, labels from a table,
as Rel terms) and its translation validation: the regenerated statements evaluated by `Rel.eval` in the compiled driver
(`acc_sql`) must give the rows of the functional model (`acc_truth`), which the same run compares with the engine."""
from __future__ import annotations

from harness import core

MAX_ROWS = 40
CUTOFF = -998.0


def prepare() -> list[str]:
    from harness.translate import tsql

    try:
        return tsql.run_isolated("acc")
    except Exception as e:  # noqa: BLE001
        return [f"T-sql capture/translation failed in write_acc: {type(e).__name__}: {str(e)[:300]}"]


def request(truth_req: dict) -> dict | None:
    """acc_sql request for a table-mode acc_truth request (None otherwise / too large for the quadratic evaluator)."""
    if "rows" not in truth_req or len(truth_req["rows"]) > MAX_ROWS:
        return None
    return {"op": "acc_sql", "rows": truth_req["rows"], "thr": truth_req["thr"], "round": truth_req["round"], "f32": truth_req["f32"]}


def validate(ctx: core.Ctx, items, drv: core.Driver):
    """items: (case, acc_truth request, acc_truth result).  Returns [(case, text)] for disagreements."""
    todo = [(c, request(q), m) for c, q, m in items]
    todo = [(c, q, m) for c, q, m in todo if q is not None][:600]
    if not todo:
        return []
    out = drv.pbatch([q for _, q, _ in todo])
    problems = []
    for (c, _, m), s in zip(todo, out):
        if "error" in s:
            ctx.count("sql_model_unavailable", s["error"][:80])
            continue
        ctx.count("translation_validation", "acc_sql evaluated")
        got = sorted(tuple(r) for r in s["rows"] if core.b2f(r[0]) >= CUTOFF)
        want = sorted(tuple(r[:8]) for r in m["rows"])
        if got != want:
            problems.append((c, f"counts of the regenerated truth-space SQL under Rel.eval (Generated/AccSql.lean) differ from the functional model Accuracy.truthSpace: Rel.eval {got[:4]} model {want[:4]}"))
        else:
            ctx.count("translation_validation", "acc_sql agrees with the model (which is compared with the engine)")
    return problems
