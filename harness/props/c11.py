"""C11 — multi-threshold clustering equals clustering at each threshold.

Lean: Model/MultiThreshold.lean mirrors cluster_pairwise_predictions_at_multiple_thresholds;
Properties/C11.lean proves every output column equals the connected components at
that threshold (stable-cluster and in-play lemmas) and the summary statistics are
those of that partition.  Tie: real code vs compiled model on C05's graph families
x threshold lists, comparing every column, the per-threshold iteration traces from
Splink's log, and the summary statistics; a union-find oracle decides the property
on the real output.

Inputs (generator audit): besides graphs x threshold lists, a case says HOW the call is made - the form of the two input
tables (pandas / list of records / dict of columns / SplinkDataFrame / table name / a SplinkDataFrame Splink derived itself,
whose templated name differs from its physical name), the column names (given or defaulted edge columns), further columns,
edges with a NULL probability, thresholds given as ints / -0.0 / numpy floats / exact duplicates / extreme weights - and a
*session* is 2-3 such calls on ONE database API object (tables re-registered under the same names with overwrite=True,
the very same objects passed again, results kept and read again after the last call or dropped, a single-threshold
clustering of the same tables kept across the multi-threshold call).
"""
from __future__ import annotations

import itertools
import math
import random

from harness import core, graphs
from harness.props import c05, c11_sql

PROP = "C11"
DEFAULT_COLS = ("my_id", "n_1", "n_2")
ONE_SHOT_FORMS = ("raw_pandas", "raw_records", "raw_dict", "sdf_new", "name_new", "sdf_derived")
SESSION_FORMS = ("raw_pandas", "raw_records", "sdf_new", "name_new", "sdf_derived", "sdf_same", "sdf_same", "name_same", "name_same", "sdf_derived_same")


# --------------------------------------------------------------------------- real code
def _cols(case):
    return tuple(case.get("cols") or DEFAULT_COLS)


def _form(case):
    return tuple(case.get("form") or ("raw_pandas", "raw_pandas"))


def _null_edges(case):
    return [tuple(e) for e in case.get("null_edges") or []]


def _tables(case: dict):
    """(node rows, node types, edge rows, edge types, node column, left, right): c05's table builder; edges with a NULL probability
    are further rows of the edge table."""
    st = dict(case, cols=_cols(case), edges=[tuple(e) for e in case["edges"]] + [(a, b, None) for a, b in _null_edges(case)])
    return c05._fn_tables(st)


def _materialise(api, rows, types, form: str, base: str, k: int):
    """One input table in the requested form (c05._materialise) plus `sdf_derived`: a SplinkDataFrame that Splink computed itself from
    a table of the caller, as the predictions of a Linker are: its templated name (__splink__df_predict) is not its physical name."""
    from harness import impl

    if form.startswith("sdf_derived"):
        same = form.endswith("_same")
        name = f"{base}_src" if same else f"{base}_src_{k}"
        api.register_table(impl.typed_frame(rows, types), name, overwrite=same)
        return api.sql_to_splink_dataframe_checking_cache(f"select * from {name}", "__splink__df_predict" if base.endswith("edges") else "__splink__df_concat")
    return c05._materialise(api, rows, types, form, base, k)


def _colname(c) -> str:
    return str(getattr(c, "name", c)).strip('"`')


def _read(case: dict, sdf) -> dict:
    ids = case["ids"]
    node_col = _cols(case)[0]
    rows = sdf.as_record_dict()
    key = {ids[i]: i for i in range(len(ids))}
    if case["stats"]:
        def num(x, f):
            return None if x is None else f(x)

        out = sorted(([float(r["threshold_match_probability"]), num(r["num_clusters"], int), num(r["max_cluster_size"], int), num(r["avg_cluster_size"], float),
                       num(r.get("threshold_match_weight"), float)] for r in rows), key=lambda x: x[0])
        return {"stats": [x[:4] for x in out], "stats_w": [x[4] for x in out]}
    cols = [c for c in (_colname(c) for c in sdf.columns) if c != node_col]
    table = {}
    for r in rows:
        table[key.get(r[node_col], -1)] = [key.get(r[c], -1) for c in cols]
    return {"cols": cols, "table": sorted(table.items()), "n_rows": len(rows)}


def threshold_list(case: dict) -> list:
    ts = list(case["ts"])
    if case.get("ts_form") == "npfloat":
        import numpy as np

        ts = [np.float64(t) for t in ts]  # what list(np.linspace(..)) / list(np.arange(..)) hold: a subclass of float
    return ts


def _call(api, case: dict, k: int, prev_args, ts_obj=None):
    """One call of cluster_pairwise_predictions_at_multiple_thresholds; returns (result dict, the returned SplinkDataFrame, the input
    objects, a kept single-threshold result or None).  `ts_obj`: the caller's own list of thresholds (a session passes the SAME list
    object to every call that asks for the same thresholds)."""
    from splink.internals.clustering import cluster_pairwise_predictions_at_multiple_thresholds, cluster_pairwise_predictions_at_threshold

    from harness import impl

    nrows, ntypes, erows, etypes, node_col, left, right = _tables(case)
    form = _form(case)
    nodes = prev_args[0] if (form[0] == "reuse" and prev_args) else _materialise(api, nrows, ntypes, form[0], "user_nodes", k)
    edges_in = prev_args[1] if (form[1] == "reuse" and prev_args) else _materialise(api, erows, etypes, form[1], "user_edges", k)
    ts = ts_obj if ts_obj is not None else threshold_list(case)
    kw = {"match_weight_thresholds" if case["weights"] else "match_probability_thresholds": ts}
    ckw = {}
    if left is not None:
        ckw["edge_id_column_name_left"] = left
    if right is not None:
        ckw["edge_id_column_name_right"] = right
    single = None
    if case.get("fail_first"):
        # a call that fails (on the same tables), then the call proper
        bad = {"both": dict(match_probability_thresholds=[0.5], match_weight_thresholds=[0.0], **ckw), "empty": dict(match_probability_thresholds=[], **ckw),
               "bad_column": dict(kw, **dict(ckw, edge_id_column_name_left="no_such_column"))}[case["fail_first"]]
        try:
            cluster_pairwise_predictions_at_multiple_thresholds(nodes, edges_in, api, node_col, output_cluster_summary_stats=case["stats"], **bad)
        except Exception:  # noqa: BLE001  expected; what matters is the call after it
            pass
    if case.get("single_first"):
        # the caller clusters the same tables at the lowest of the thresholds first and KEEPS that result
        s = cluster_pairwise_predictions_at_threshold(nodes, edges_in, api, node_col, threshold_match_probability=min(probs_of(case)), **ckw)
        single = (s, _read_single(case, s))
    with impl.capture_log(c05.CC_LOGGER) as msgs:
        res = cluster_pairwise_predictions_at_multiple_thresholds(nodes, edges_in, api, node_col, output_cluster_summary_stats=case["stats"], **kw, **ckw)
        out = _read(case, res)
    out["trace"] = impl.cc_trace(msgs)
    return out, res, (nodes, edges_in), single


def _read_single(case, sdf):
    ids = case["ids"]
    key = {ids[i]: i for i in range(len(ids))}
    node_col = _cols(case)[0]
    return sorted((key.get(r[node_col], -1), key.get(r["cluster_id"], -1)) for r in sdf.as_record_dict())


def run_impl(case: dict) -> dict:
    from harness import impl

    api = impl.make_api(case["engine"], threads=2)
    out, _, _, single = _call(api, case, 0, None)
    if single is not None:
        out["single"], out["single_again"] = single[1], _read_single(case, single[0])
    if case.get("alone_too"):
        out["alone"] = _alone(case)
    return out


def _alone(case):
    """The statement's right-hand side on the real code: `clustering independently at that threshold`, the threshold handed over in the
    same form (weight / probability) to cluster_pairwise_predictions_at_threshold, on a database API of its own."""
    from splink.internals.clustering import cluster_pairwise_predictions_at_threshold

    from harness import impl

    api = impl.make_api(case["engine"], threads=2)
    nrows, ntypes, erows, etypes, node_col, left, right = _tables(case)
    nodes, edges_in = _materialise(api, nrows, ntypes, "raw_pandas", "alone_nodes", 0), _materialise(api, erows, etypes, "raw_pandas", "alone_edges", 0)
    ckw = {}
    if left is not None:
        ckw["edge_id_column_name_left"] = left
    if right is not None:
        ckw["edge_id_column_name_right"] = right
    out = []
    for t in threshold_list(case):
        s = cluster_pairwise_predictions_at_threshold(nodes, edges_in, api, node_col, **{"threshold_match_weight" if case["weights"] else "threshold_match_probability": t}, **ckw)
        out.append(_read_single(case, s))
    return out


run_impl_safe = core.safe(run_impl)


def _same_inputs(a: dict, b: dict) -> bool:
    """Could call b be made with the very table objects call a was made with?"""
    keys = ("ids", "shuffle", "extra_cols", "idtype")
    return (all(a.get(k) == b.get(k) for k in keys) and [tuple(e) for e in a["edges"]] == [tuple(e) for e in b["edges"]]
            and _null_edges(a) == _null_edges(b) and _cols(a) == _cols(b))


def run_session(sess: dict) -> dict:
    """All calls of a session on ONE database API object.  Per call: the result read right after it and - for results the caller keeps -
    read AGAIN after the last call; a result not kept is dropped by the caller right after reading it."""
    from harness import impl

    api = impl.make_api(sess["engine"], threads=2)
    steps = sess["steps"]
    outs, kept, singles = [], [], []
    prev_args = None
    ts_objs = {}  # the caller's threshold lists: calls asking for the same thresholds pass the very same list object
    for pos, st in enumerate(steps):
        try:
            reusable = prev_args if (pos > 0 and _same_inputs(steps[pos - 1], st)) else None
            ts_obj = ts_objs.setdefault(repr((st["ts"], st["weights"], st.get("ts_form"))), threshold_list(st))
            out, res, prev_args, single = _call(api, st, st.get("k", pos), reusable, ts_obj)
            if single is not None:
                out["single"] = single[1]
                singles.append((out, st, single[0]))
            if st.get("keep", True):
                kept.append((out, st, res))
            else:
                res.drop_table_from_database_and_remove_from_cache()
            outs.append(out)
        except Exception as e:  # noqa: BLE001
            e.partial = {"failed_step": pos, "steps": outs}
            raise
    try:
        for out, st, res in kept:
            again = _read(st, res)
            out["again_same"] = all(again.get(k) == out.get(k) for k in ("stats", "stats_w", "cols", "table", "n_rows"))
            if not out["again_same"]:
                out["again"] = again
        for out, st, s in singles:
            out["single_again"] = _read_single(st, s)
    except Exception as e:  # noqa: BLE001
        e.partial = {"failed_step": "re-reading a kept result after the last call", "steps": outs}
        raise
    return {"steps": outs}


run_session_safe = core.safe(run_session)


# --------------------------------------------------------------------------- oracle
def probs_of(case):
    ts = list(case["ts"])
    if case["weights"]:
        ts = [(2.0**w) / (1.0 + 2.0**w) for w in ts]
    return sorted({float(t) for t in ts})  # 0, 0.0 and -0.0 (1 and 1.0) are one threshold


def oracle(case: dict):
    out = []
    for t in probs_of(case):
        c = dict(case, thr=t, thr_kind="prob", entry="fn")
        out.append(c05.oracle_clusters(c))
    return out


def fragile(case) -> bool:
    if case["engine"] == "sqlite" and not all(core.sqlite_literal_exact(t) for t in probs_of(case)):
        return True  # SQLite reads one of the threshold literals one ulp high (engine defect, see core.sqlite_literal_exact)
    if not case["weights"]:
        return False
    return any(p != t and abs(p - t) <= 1e-12 for t in probs_of(case) for _, _, p in case["edges"])


def split_traces(flat: list[int]) -> list[list[int]]:
    out, cur = [], []
    for x in flat:
        cur.append(x)
        if x == 0:
            out.append(cur)
            cur = []
    if cur:
        out.append(cur)
    return out


def column_threshold(name: str):
    """('p' | 'w', value) denoted by a column name cluster_<threshold>, or None.  Read back naively: digits with '_' for the decimal
    point, `neg_` for a minus sign, p_/mw_ for the form, 0_0 / 1_0 and mw_minus_inf / mw_inf for the ends."""
    if not name.startswith("cluster_"):
        return None
    s = name[len("cluster_"):]
    fixed = {"0_0": ("p", 0.0), "1_0": ("p", 1.0), "mw_minus_inf": ("w", -math.inf), "mw_inf": ("w", math.inf)}
    if s in fixed:
        return fixed[s]
    try:
        if s.startswith("p_"):
            return "p", float(s[2:].replace("_", "."))
        if s.startswith("mw_"):
            body = s[3:]
            neg = body.startswith("neg_")
            v = float((body[4:] if neg else body).replace("_", "."))
            return "w", (-v if neg else v)
    except ValueError:
        return None
    return None


def weight_of(p: float):
    return -math.inf if p == 0.0 else math.inf if p == 1.0 else math.log2(p / (1.0 - p))


def verdict(case: dict, r: dict) -> str | None:
    n = len(case["ids"])
    want = oracle(case)
    probs = probs_of(case)
    if case["stats"]:
        if len(r["stats"]) != len(want):
            return f"summary has {len(r['stats'])} rows for {len(want)} distinct thresholds"
        for k, ((tp, num, mx, avg), w, t) in enumerate(zip(r["stats"], want, probs)):
            sizes = {}
            for i in range(n):
                sizes[w[i]] = sizes.get(w[i], 0) + 1
            exp = (len(sizes), max(sizes.values()), n / len(sizes)) if n else (0, None, None)
            if num != exp[0] or mx != exp[1] or not core.close(avg, exp[2], 1e-6):
                return f"summary statistics differ at threshold {tp}: got (count={num}, max={mx}, mean={avg}) expected {exp}"
            # the row must be labelled with its threshold (cast(.. as float) is a 32-bit float on DuckDB: 1e-6 relative)
            if abs(tp - t) > 1e-6 * abs(t):
                return f"summary row labelled with another threshold: row #{k} says threshold_match_probability {tp}, the thresholds are {probs}"
            if "stats_w" in r:
                tw, ew = r["stats_w"][k], weight_of(t)
                if (tw is None) != math.isinf(ew) or (tw is not None and not core.close(tw, ew, 1e-6, 1e-6)):
                    return f"summary row labelled with another threshold: row #{k} (probability {tp}) says threshold_match_weight {tw}, expected {None if math.isinf(ew) else ew}"
        return None
    if r["n_rows"] != n or [i for i, _ in r["table"]] != list(range(n)):
        return f"records not returned exactly once ({r['n_rows']} rows for {n} nodes)"
    if len(r["cols"]) != len(want):
        return f"{len(r['cols'])} cluster columns for {len(want)} distinct thresholds"
    for k, w in enumerate(want):
        for i, vals in r["table"]:
            if vals[k] != w[i]:
                return f"partition differs at threshold #{k}: column {r['cols'][k]} gives node {i} cluster {vals[k]}, clustering at that threshold alone gives {w[i]}"
    for k, (name, t) in enumerate(zip(r["cols"], probs)):
        got = column_threshold(name)
        exp = ("w", weight_of(t)) if case["weights"] else ("p", t)
        if got is None or got[0] != exp[0] or not (got[1] == exp[1] or abs(got[1] - exp[1]) <= 6e-7):
            return f"column named after another threshold: column #{k} is {name}, the threshold is {'weight' if case['weights'] else 'probability'} {exp[1]}"
    return None


def call_verdict(case: dict, r: dict) -> str | None:
    """verdict() plus what a session / a kept single-threshold result adds."""
    v = verdict(case, r)
    if v is not None:
        return v
    if r.get("again_same") is False:
        return "result kept by the caller changed under a later call: " + (verdict(case, dict(r, **r["again"])) or "it still satisfies the property but reads differently")
    if "alone" in r:
        # thresholds in the order given; the multi-threshold columns are in ascending order of DISTINCT probabilities
        given = [(2.0**w) / (1.0 + 2.0**w) for w in case["ts"]] if case["weights"] else [float(t) for t in case["ts"]]
        for t, rows in zip(given, r["alone"]):
            c = dict(case, thr=t, thr_kind="prob", entry="fn")
            v = c05.oracle_verdict(c, rows)
            if v is not None:
                form = "weight" if case["weights"] else "probability"
                return f"clustering independently at the {form} threshold {case['ts'][given.index(t)]} (cluster_pairwise_predictions_at_threshold) differs from the partition at that threshold: " + v
    if "single" in r:
        c = dict(case, thr=min(probs_of(case)), thr_kind="prob", entry="fn")
        for which in ("single", "single_again"):
            if which in r:
                v = c05.oracle_verdict(c, r[which])
                if v is not None:
                    return ("single-threshold result kept by the caller changed under the multi-threshold call: " if which == "single_again" else "single-threshold clustering before the call: ") + v
    return None


def model_request(case):
    keys = case["ids"]
    order = sorted(range(len(keys)), key=lambda i: keys[i])
    rank = [0] * len(keys)
    for rk, i in enumerate(order):
        rank[i] = rk
    # edges with a NULL probability pass no threshold: the model is given the graph without them
    return {"op": "multi", "n": len(keys), "edges": [[rank[a], rank[b], core.f2b(p)] for a, b, p in case["edges"]],
            "ts": [core.f2b(t) for t in case["ts"]], "weights": bool(case["weights"])}, order


# --------------------------------------------------------------------------- generators
def gen_thresholds(rng, edges):
    """1..6 probabilities, unsorted: equal to edge probabilities, the ends of [0, 1] in every spelling (0, 0.0, -0.0, 1, 1.0), 0.5,
    one step (1e-6) beside an edge probability, random; sometimes with an exact duplicate.  Distinct values stay distinct after
    6-decimal formatting (the column names)."""
    ps = sorted({p for _, _, p in edges})
    k = rng.randint(1, 6)
    ts = []
    for _ in range(k):
        r = rng.random()
        if r < 0.45 and ps:
            t = rng.choice(ps)
        elif r < 0.6:
            t = rng.choice([0.0, 1.0, 0, 1, -0.0, 0.5])
        elif r < 0.72 and ps:
            t = min(1.0, max(0.0, round(rng.choice(ps) + rng.choice([-1e-6, 1e-6]), 6)))
        else:
            t = round(rng.random(), rng.choice([1, 2, 4]))
        if all(f"{abs(t):.6f}" != f"{abs(u):.6f}" for u in ts):
            ts.append(t)
    if len(ts) < 6 and rng.random() < 0.12:
        u = rng.choice(ts)
        ts.append(rng.choice([0, 0.0, -0.0]) if u == 0 else rng.choice([1, 1.0]) if u == 1 else u)  # the same threshold listed twice
    rng.shuffle(ts)
    return ts


def gen_weights(rng):
    """1..6 match weights, unsorted: random, ints, 0 in every spelling, weights whose probability rounds to exactly 1.0 (60, 70: the same
    threshold twice) / to 0.0 (-1100) / is ~1e-18 (-60); sometimes an exact duplicate."""
    ts = {round(rng.uniform(-6, 6), 2) for _ in range(rng.randint(1, 6))}
    if rng.random() < 0.35:
        ts.add(rng.choice([0, 0.0, -0.0]))
    if rng.random() < 0.2:
        ts.add(rng.randint(-5, 5))
    ts = sorted(ts)
    if rng.random() < 0.2:
        ts += rng.sample([60, -60.0, 70, -1100], rng.randint(1, 2))
    if len(ts) < 6 and rng.random() < 0.1:
        ts.append(rng.choice(ts))
    rng.shuffle(ts)
    return ts


def pick_thresholds(rng, case):
    weights = rng.random() < 0.25
    return (gen_weights(rng) if weights else gen_thresholds(rng, case["edges"])), weights


def pick_call_shape(rng, case, forms=ONE_SHOT_FORMS):
    """How the call is made: column names (given / defaulted edge columns), further columns, form of the two tables, spelling of the floats."""
    case["cols"] = DEFAULT_COLS if rng.random() < 0.55 else rng.choice(c05.FN_COLS)
    case["extra_cols"] = rng.random() < 0.25
    if rng.random() < 0.5:
        case["form"] = ("raw_pandas", "raw_pandas")
    else:
        f = rng.choice(forms)
        case["form"] = (f, f if rng.random() < 0.7 else rng.choice(forms))
    case["ts_form"] = "npfloat" if rng.random() < 0.1 else "list"


def pick_data_values(rng, case):
    """Edges with probability exactly 0.0 and edges whose probability is NULL (they pass no threshold)."""
    n = len(case["ids"])
    if case["edges"] and rng.random() < 0.1:
        for _ in range(rng.randint(1, 2)):
            j = rng.randrange(len(case["edges"]))
            a, b, _p = case["edges"][j]
            case["edges"][j] = (a, b, 0.0)
    if n >= 2 and rng.random() < 0.12:
        case["null_edges"] = [tuple(rng.sample(range(n), 2)) for _ in range(rng.randint(1, 3))]


def gen_session(rng, engine) -> dict:
    """2-3 calls on one database API object: the same nodes with other edges / the same data / other data, the same or other thresholds
    and output kind, tables under fresh names or re-registered under the same names (overwrite=True) or the very same objects again,
    results kept (read again at the end) or dropped."""
    nsteps = rng.choice([2, 2, 3])
    same_nodes, same_ts, same_form, same_shape = rng.random() < 0.6, rng.random() < 0.6, rng.random() < 0.75, rng.random() < 0.8
    idtype = rng.choice(["int", "int", "str", "strmixed"])
    probs = rng.choice(["grid", "grid", "rand"])
    steps = []
    for k in range(nsteps):
        prev = steps[-1] if steps else None
        n = rng.randint(2, 16) if rng.random() < 0.15 else rng.randint(2, 8)
        repeat = prev is not None and rng.random() < 0.25
        if repeat:
            st = dict(prev)
        elif prev is not None and same_nodes:
            st = dict(prev)
            st["edges"] = c05.noisy_edges(rng, len(prev["ids"]), c05.small_graph(rng, len(prev["ids"])), probs)
            st["shuffle"] = rng.randrange(1 << 30)
            st.pop("null_edges", None)
            pick_data_values(rng, st)
        else:
            st = c05.decorate(rng, n, c05.small_graph(rng, n), engine=engine, entry="fn", order=rng.choice(["random", "identity", "reversed"]),
                              idtype=idtype, probs=probs, thr=None, tag="session")
            pick_data_values(rng, st)
        st["k"] = k
        if prev is not None and (same_ts or (repeat and rng.random() < 0.5)):
            st["ts"], st["weights"] = prev["ts"], prev["weights"]
            st["stats"] = prev["stats"] if rng.random() < 0.75 else not prev["stats"]
        else:
            st["ts"], st["weights"] = pick_thresholds(rng, st)
            st["stats"] = rng.random() < 0.3
        if prev is None or not (same_shape or repeat):
            pick_call_shape(rng, st, SESSION_FORMS)
            f = rng.choice(SESSION_FORMS)
            st["form"] = (f, f if rng.random() < 0.75 else rng.choice(SESSION_FORMS))
        else:
            for kk in ("cols", "extra_cols", "ts_form"):
                st[kk] = prev[kk]
            if repeat and rng.random() < 0.6:
                st["form"] = ("reuse", "reuse")  # the very objects of the previous call
            elif same_form and prev["form"][0] != "reuse":
                st["form"] = prev["form"]
            else:
                f = rng.choice(SESSION_FORMS)
                st["form"] = (f, f if rng.random() < 0.75 else rng.choice(SESSION_FORMS))
        st["keep"] = rng.random() < 0.7
        st["single_first"] = rng.random() < 0.25
        st["fail_first"] = rng.choice(["both", "empty", "bad_column"]) if rng.random() < 0.2 else None
        steps.append(st)
    return {"session": True, "engine": engine, "steps": steps, "tag": "session", "ids": steps[0]["ids"], "edges": steps[0]["edges"]}


def gen_cases(ctx):
    rng = ctx.rng
    cases = []

    def mk(n, pairs, tag, order="random", probs=None):
        base = c05.decorate(rng, n, pairs, engine=rng.choice(["duckdb", "sqlite"]), entry="fn", order=order, probs=probs or rng.choice(["grid", "rand", "grid"]), thr=None, tag=tag)
        pick_data_values(rng, base)
        ts, weights = pick_thresholds(rng, base)
        base.update(ts=ts, weights=weights, stats=rng.random() < 0.3)
        if weights and base["edges"] and rng.random() < 0.6:
            # pairs whose probability IS that of a weight threshold (a pair scored with exactly that weight): they belong to the clusters
            for _ in range(rng.randint(1, 3)):
                j, w = rng.randrange(len(base["edges"])), rng.choice(ts)
                base["edges"][j] = (base["edges"][j][0], base["edges"][j][1], (2.0**w) / (1.0 + 2.0**w))
        base["alone_too"] = rng.random() < (0.6 if weights else 0.15)
        pick_call_shape(rng, base)
        return base

    # exhaustive sub-domain: every labelled graph on <=4 nodes, edge probabilities from a rotating 3-value set,
    # every non-empty subset of the distinct edge probabilities as the threshold list
    for n in range(2, 5):
        for gi, pairs in enumerate(graphs.all_graphs(n)):
            if not pairs:
                continue
            vals = [0.3, 0.6, 0.9]
            edges = [(a, b, vals[(k + gi) % 3]) for k, (a, b) in enumerate(pairs)]
            ps = sorted({p for _, _, p in edges})
            for r in range(1, len(ps) + 1):
                for sub in itertools.combinations(ps, r):
                    ts = list(sub)
                    rng.shuffle(ts)
                    cases.append({"n": n, "ids": list(range(n)), "edges": edges,
                                  "engine": "sqlite" if len(cases) % 2 else "duckdb", "entry": "fn", "shuffle": len(cases), "tag": f"exh{n}",
                                  "ts": ts, "weights": False, "stats": False, "idtype": "int", "order": "identity"})
    if not ctx.thorough:
        rng.shuffle(cases)
        cases = cases[:250]
    nfam = ctx.budget(260, 4000)
    nmax = 60 if ctx.thorough else 30
    for _ in range(nfam):
        fam = rng.choice(["path", "cycle", "star", "cliques", "caterpillar", "gnp", "gnp", "forest", "grid"])
        n = rng.randint(2, nmax)
        cases.append(mk(n, graphs.family(rng, fam, n), fam, order=rng.choice(["identity", "reversed", "bitrev", "zigzag", "random"])))
    # the smallest inputs: an empty nodes table, a single record, an empty edges table
    for i in range(ctx.budget(24, 200)):
        n = [0, 1, 2, rng.randint(2, 6)][i % 4]
        c = mk(n, [], "tiny")
        if n >= 2 and rng.random() < 0.4:
            c["edges"] = [(0, 1, rng.choice([0.0, 0.5, 1.0]))]
        if not c["weights"]:
            c["ts"] = gen_thresholds(rng, c["edges"])
        cases.append(c)
    # fine-grained: edge probabilities half a unit of the 6th decimal apart (9 decimals), thresholds one unit of the 6th decimal apart
    # (the finest the column names tell apart), on and between the edge probabilities
    for _ in range(ctx.budget(36, 300)):
        n = rng.randint(3, 10)
        c = mk(n, graphs.family(rng, rng.choice(["path", "cycle", "gnp", "star"]), n), "fine_thr")
        base = rng.choice([0.95, 0.5, 0.999998, 0.1234])
        grid = [min(1.0, round(base + k * 5e-7, 9)) for k in range(-4, 5)]
        c["edges"] = [(a, b, rng.choice(grid)) for a, b, _ in c["edges"]]
        tgrid = sorted({min(1.0, round(base + j * 1e-6, 6)) for j in range(-2, 3)})
        c["ts"] = rng.sample(tgrid, rng.randint(2, len(tgrid))) + ([rng.choice([0, 1.0])] if rng.random() < 0.3 else [])
        c["weights"] = False
        cases.append(c)
    # sessions: 2-3 calls on ONE database API object
    for _ in range(ctx.budget(56, 500)):
        cases.append(gen_session(rng, rng.choice(["duckdb", "sqlite"])))
    return cases


# --------------------------------------------------------------------------- comparison
CANON_KEYS = ("ids", "edges", "null_edges", "ts", "weights", "stats", "engine", "cols", "extra_cols", "form", "ts_form")


def _n_bucket(n):
    return "0" if n == 0 else "1" if n == 1 else "2-4" if n <= 4 else "5-12" if n <= 12 else "13-30" if n <= 30 else ">30"


def count_inputs(ctx, c):
    ctx.count("family", c["tag"]); ctx.count("engine", c["engine"]); ctx.count("n_thresholds", len(c["ts"]))
    ctx.count("form", "weights" if c["weights"] else "probabilities"); ctx.count("output", "stats" if c["stats"] else "columns")
    ctx.count("n_nodes", _n_bucket(len(c["ids"])))
    ctx.count("edge_table", "empty" if not c["edges"] and not _null_edges(c) else "rows")
    ctx.count("column_names", "/".join(str(x) for x in _cols(c)))
    ctx.count("extra_columns", bool(c.get("extra_cols")))
    ctx.count("nodes_form", _form(c)[0]); ctx.count("edges_form", _form(c)[1])
    ctx.count("threshold_floats", c.get("ts_form", "list"))
    ts = c["ts"]
    if any(isinstance(t, int) and not isinstance(t, bool) for t in ts):
        ctx.count("threshold_values", "an int in the list")
    if any(isinstance(t, float) and t == 0 and math.copysign(1.0, t) < 0 for t in ts):
        ctx.count("threshold_values", "-0.0 in the list")
    if len({float(t) for t in ts}) < len(ts):
        ctx.count("threshold_values", "the same threshold listed twice")
    probs = probs_of(c)
    if len(probs) < len({float(t) for t in ts}):
        ctx.count("threshold_values", "two weights with the same probability")
    if 0.0 in probs:
        ctx.count("threshold_values", "probability 0")
    if 1.0 in probs:
        ctx.count("threshold_values", "probability 1")
    if c["weights"] and any(abs(t) >= 50 for t in ts):
        ctx.count("threshold_values", "weight beyond +-50")
    eps = {p for _, _, p in c["edges"]}
    if any(t in eps for t in probs):
        ctx.count("threshold_values", "equal to an edge probability")
    if any(0 < abs(t - p) <= 1.01e-6 for t in probs for p in eps):
        ctx.count("threshold_values", "within 1e-6 of an edge probability")
    if _null_edges(c):
        ctx.count("edge_values", "NULL probability")
    if 0.0 in eps:
        ctx.count("edge_values", "probability 0.0")
    if 1.0 in eps:
        ctx.count("edge_values", "probability 1.0")


def judge(ctx, c, order, r, m, owner, problems, sql_items):
    """One call: oracle on the real output, then real output vs Lean model.  `owner` = what a problem is reported for (the case / its session)."""
    n = len(c["ids"])
    if "error" in m and ctx.lean.ok:
        raise core.HarnessError("model driver error: " + m["error"])
    if fragile(c):
        ctx.count("excluded", "weight threshold within 1e-12 of an edge probability / SQLite misreads a threshold literal")
        return
    v = call_verdict(c, r)
    if v is not None:
        problems.append((owner, v, True))
        return
    sql_items.append((c, order, r))
    if "error" in m:
        # the translated part of the model could not be regenerated from the current source (already recorded as a broken
        # obligation): no model answer; the independent oracle above still decides the property on the real output
        ctx.count("model_unavailable", m["error"][:80])
        return
    # model vs impl
    mcols = [sorted((order[a], order[b]) for a, b in res_["rows"]) for res_ in m["results"]]
    # the model keeps one entry per listed threshold; the code keeps one per distinct value (0.0 and -0.0 are one value)
    seen, mdistinct, mstats = set(), [], []
    for res_, rows in zip(m["results"], mcols):
        tv = core.b2f(res_["t"])
        if tv in seen:
            continue
        seen.add(tv)
        mdistinct.append(rows)
        mstats.append((res_["num"], res_["max"], res_["total"]))
    if c["stats"]:
        got = [(num, mx if n else (mx or 0)) for _, num, mx, _ in r["stats"]]  # MAX over no cluster is NULL in SQL, 0 in the model
        if got != [(a, b) for a, b, _ in mstats]:
            problems.append((owner, f"summary statistics differ from Lean model: impl {got} model {mstats}", False))
            return
    else:
        icol = [sorted((i, vals[k]) for i, vals in r["table"]) for k in range(len(r["cols"]))]
        if icol != mdistinct:
            problems.append((owner, "cluster columns differ from Lean model MultiThreshold.multi (real output still satisfies the property)", False))
            return
    mtr = [t for t in m["traces"]]
    itr = split_traces(r["trace"])
    if itr != mtr:
        problems.append((owner, f"per-threshold iteration traces differ from Lean model: impl {itr[:6]} model {mtr[:6]}", False))
        return
    ctx.traces_validated += 1


def compare(ctx, cases, drv):
    sessions = [c for c in cases if c.get("session")]
    cases = [c for c in cases if not c.get("session")]
    calls = cases + [st for s in sessions for st in s["steps"]]
    reqs, orders = zip(*[model_request(c) for c in calls]) if calls else ([], [])
    res = core.pmap(run_impl_safe, cases, chunksize=2)
    sres = core.pmap(run_session_safe, sessions, chunksize=1)
    mres = drv.pbatch(list(reqs))
    problems = []
    sql_items = []  # cases on which the regenerated SQL (T-sql) is evaluated by Rel.eval and compared with the engine
    for c, order, r, m in zip(cases, orders, res, mres):
        n = len(c["ids"])
        want = oracle(c)
        changes = sum(1 for a, b in zip(want, want[1:]) if a != b)
        ctx.case({k: c.get(k) for k in CANON_KEYS}, changes >= 1 and len(want) >= 2,
                 sample={"case": {k: c.get(k) for k in CANON_KEYS + ("tag",)} if n <= 6 else {"tag": c["tag"], "n": n, "ts": c["ts"], "weights": c["weights"], "stats": c["stats"]},
                         "impl": (r.get("table") or r.get("stats")) if n <= 6 and isinstance(r, dict) else None})
        count_inputs(ctx, c)
        ctx.count("partition_changes_between_thresholds", changes)
        if core.impl_error(r):
            ctx.count("impl_error", r["__error__"])
            problems.append((c, f"real code raised {r['__error__']}: {r['text'][:300]}", True))
            continue
        judge(ctx, c, order, r, m, c, problems, sql_items)
    pos = len(cases)
    for s, r in zip(sessions, sres):
        steps = s["steps"]
        ms, os_ = mres[pos: pos + len(steps)], orders[pos: pos + len(steps)]
        pos += len(steps)
        ctx.count("session_calls", len(steps)); ctx.count("session_engine", s["engine"])
        for k, st in enumerate(steps):
            want = oracle(st)
            changes = sum(1 for a, b in zip(want, want[1:]) if a != b)
            ctx.case({"session_call": k, "of": [{kk: x.get(kk) for kk in CANON_KEYS + ("keep", "single_first", "fail_first")} for x in steps[: k + 1]]}, changes >= 1 and len(want) >= 2 and k > 0, sample=None)
            count_inputs(ctx, st)
            ctx.count("partition_changes_between_thresholds", changes)
            ctx.count("session_result", "kept and read again after the last call" if st.get("keep", True) else "dropped by the caller")
            ctx.count("session_single_threshold_result_kept_across_the_call", bool(st.get("single_first")))
            ctx.count("session_failed_call_first", st.get("fail_first") or "no")
            if k > 0 and any((x["ts"], x["weights"], x.get("ts_form")) == (st["ts"], st["weights"], st.get("ts_form")) for x in steps[:k]):
                ctx.count("session_same_threshold_list_object_passed_again", True)
            if k > 0:
                p = steps[k - 1]
                same_edges = [tuple(e) for e in p["edges"]] == [tuple(e) for e in st["edges"]] and _null_edges(p) == _null_edges(st)
                ctx.count("session_data_vs_previous_call", "same" if same_edges and p["ids"] == st["ids"] else "same nodes, other edges" if p["ids"] == st["ids"] else "other nodes and edges")
                ctx.count("session_thresholds_vs_previous_call", "same" if (p["ts"], p["weights"]) == (st["ts"], st["weights"]) else "differ")
                ctx.count("session_output_vs_previous_call", "same" if p["stats"] == st["stats"] else "differ")
                for which, f in zip(("nodes", "edges"), _form(st)):
                    if f.endswith("_same") and any(_form(x)[which == "edges"] == f for x in steps[:k]):
                        changed = not (same_edges if which == "edges" else p["ids"] == st["ids"])
                        ctx.count(f"session_{which}_re_registered_under_the_same_name", "other content" if changed else "same content")
        if len(steps) > 1 and sum(1 for x in ctx.samples if isinstance(x, dict) and "session" in x) < 1:
            ctx.samples.append({"session": {"engine": s["engine"], "calls": [{kk: st.get(kk) for kk in CANON_KEYS + ("keep", "single_first", "fail_first")} for st in steps]},
                                "impl": r.get("steps") if isinstance(r, dict) and max(len(st["ids"]) for st in steps) <= 8 else None})
        if core.impl_error(r):
            ctx.count("impl_error", r["__error__"])
            problems.append((s, f"call {(r.get('partial') or {}).get('failed_step')}: real code raised {r['__error__']}: {r['text'][:300]}", True))
            continue
        for k, (st, order, m) in enumerate(zip(steps, os_, ms)):
            before = len(problems)
            judge(ctx, st, order, r["steps"][k], m, s, problems, sql_items)
            if len(problems) > before:
                c_, w, conc = problems[-1]
                problems[-1] = (c_, f"call {k + 1} of {len(steps)}: {w}", conc)
                break
    # T-sql sees the graph the thresholds see: an edge with a NULL probability is in no statement's result
    problems += [(c, w, conc) for c, w, conc, _ in c11_sql.validate(ctx, [it for it in sql_items if not _null_edges(it[0])], drv)]
    return problems


# --------------------------------------------------------------------------- reporting
def impl_fails(case) -> bool:
    r = run_impl_safe(case)
    return "__error__" in r or call_verdict(case, r) is not None


def session_fails(sess):
    """None or (index of the failing call | None, description)."""
    r = run_session_safe(sess)
    if "__error__" in r:
        k = (r.get("partial") or {}).get("failed_step")
        return (k if isinstance(k, int) else None), f"real code raised {r['__error__']}: {r.get('text', '')[:200]}", r
    for k, (st, out) in enumerate(zip(sess["steps"], r["steps"])):
        if fragile(st):
            continue
        v = call_verdict(st, out)
        if v is not None:
            return k, v, r
    return None


def simplify(case: dict, fails) -> dict:
    """Greedy: default call shape first (one option at a time), then c05's shrinking of edges and nodes."""
    cur = dict(case)
    for key, val in (("null_edges", []), ("single_first", False), ("fail_first", None), ("form", ("raw_pandas", "raw_pandas")), ("cols", DEFAULT_COLS), ("extra_cols", False), ("ts_form", "list")):
        if cur.get(key) not in (None, val):
            cand = dict(cur, **{key: val})
            if fails(cand):
                cur = cand
    if not _null_edges(cur) and len(cur["ids"]) <= 60:
        cur = c05.shrink(cur, fails)
    return cur


def shrink_session(sess: dict) -> dict:
    cur = dict(sess)
    budget = 12
    changed = True
    while changed and budget > 0 and len(cur["steps"]) > 1:
        changed = False
        for k in range(len(cur["steps"]) - 1, -1, -1):
            if len(cur["steps"]) <= 1 or budget <= 0:
                break
            cand = dict(cur, steps=cur["steps"][:k] + cur["steps"][k + 1:])
            budget -= 1
            if session_fails(cand) is not None:
                cur, changed = cand, True
    return cur


def run(ctx: core.Ctx):
    ctx.rule = (
        "cases = every labelled graph on 2..4 nodes with edge probabilities from a rotating 3-value set x every non-empty subset of the distinct "
        "edge probabilities as threshold list (exhaustive in thorough, a 250-case sample in quick) + C05's structured families (<=30/60 nodes) x threshold lists "
        "of length 1..6 (values equal to edge probabilities, one 1e-6 step beside them, 0 / 0.0 / -0.0 / 1 / 1.0 / 0.5, random; unsorted; exact duplicates; "
        "weight form 25% incl. ints, 0 / -0.0, +-60, 70, -1100), summary-statistics output 30%; edges with probability 0.0 / NULL; the smallest inputs "
        "(empty nodes table, one record, empty edges table); fine-grained probabilities (5e-7 apart) x thresholds 1e-6 apart; every call in one of the "
        "accepted input forms (pandas / list of records / dict of columns / SplinkDataFrame / table name / Splink-derived SplinkDataFrame whose templated "
        "name is not its physical name) with given or defaulted edge column names and optional further columns, thresholds as floats or numpy floats; "
        "sessions = 2-3 calls on ONE database API (same / other data, thresholds, output kind; tables under fresh names, re-registered under the same "
        "names with overwrite=True, or the very same objects again; results kept and read again after the last call, or dropped; a single-threshold "
        "clustering of the same tables kept across the call); duckdb+sqlite. "
        "non-trivial = >=2 distinct thresholds and the partition changes between two consecutive ones; distinct = hash of (ids, edges, thresholds, form, output, engine, call shape)."
    )
    ctx.assumptions = [
        "distinct thresholds stay distinct after 6-decimal formatting (column names), edge endpoints are nodes, ids distinct and non-NULL",
        "weight thresholds whose probability lies within 1e-12 of an edge probability are excluded (floating point)",
    ]
    from harness.translate import tarith

    errs = tarith.write({"threshold_args_to_match_prob_list", "bayes_factor_to_prob", "match_weight_to_bayes_factor"})  # Generated/Arith.lean: the model's threshold list is the translated threshold_args_to_match_prob_list
    sql_errs = c11_sql.prepare()  # Generated/CCSql.lean, MultiSql.lean: the SQL the code emits now, as Rel terms (T-sql)
    ctx.lean = core.lean_check(PROP, ctx.thorough)
    if errs or sql_errs:
        ctx.lean.ok = False
        ctx.lean.problems += ["T-arith: " + e for e in errs] + ["T-sql: " + e for e in sql_errs]
    drv = core.Driver()
    if ctx.replay:
        import json

        case = json.loads(open(ctx.replay).read())["replay"]["case"]
        for c in [case] + list(case.get("steps", [])):
            c["edges"] = [tuple(e) for e in c["edges"]]
        cases = [case]
    else:
        cases = graphs.load_corpus(PROP) + gen_cases(ctx)
    problems = compare(ctx, cases, drv)
    ctx.exhaustive = ctx.thorough
    if (not ctx.lean.ok or any(not conc for _, _, conc in problems)) and not ctx.replay:
        ctx.notes.append("proof or correspondence broke: ran the widened failing-input search")
        save = ctx.rng
        ctx.rng = random.Random(ctx.seed + 7919)
        was, ctx.thorough = ctx.thorough, True
        try:
            more = gen_cases(ctx)
            more = [c for c in more if not c.get("session")][:2300] + [c for c in more if c.get("session")][:200]
        finally:
            ctx.thorough, ctx.rng = was, save
        problems += compare(ctx, more, drv)
    concrete = [(c, w) for c, w, conc in problems if conc]
    broken = [(c, w) for c, w, conc in problems if not conc]
    reported = {"single": 0, "session": 0}
    for c, w in concrete:
        if c.get("session"):
            if reported["session"] >= 2:
                continue
            reported["session"] += 1
            small = shrink_session(c)
            f = session_fails(small)
            k, what, rr = f if f is not None else (None, w, run_session_safe(small))
            calls = [{kk: st.get(kk) for kk in CANON_KEYS + ("keep", "single_first", "fail_first", "k")} for st in small["steps"]]
            ctx.violation("real output violates C11 in a sequence of calls on one database API: " + what.split(":")[0],
                          {"case": small, "calls": calls, "failing_call_index": k, "observed": rr,
                           "expected_partitions_per_call": [oracle(st) for st in small["steps"]] if max(len(st["ids"]) for st in small["steps"]) <= 40 else None, "detail": what},
                          kind="concrete", match_info={"failure": what.split(":")[0], "session": True})
            continue
        if reported["single"] >= 3:
            continue
        reported["single"] += 1
        small = simplify(c, impl_fails)
        rr = run_impl_safe(small)
        what = (call_verdict(small, rr) if "__error__" not in rr else f"real code raised {rr['__error__']}: {rr['text'][:200]}") or w
        ctx.violation("real output violates C11: " + what.split(":")[0],
                      {"case": small, "observed": rr, "expected_partitions": oracle(small) if len(small["ids"]) <= 40 else None, "detail": what},
                      kind="concrete", match_info={"failure": what.split(":")[0]})
    if not ctx.violations:  # no NEW concrete violation (none at all, or only ones a registered known finding describes)
        if broken:
            c, w = broken[0]
            ctx.violation("correspondence MultiThreshold model <-> cluster_pairwise_predictions_at_multiple_thresholds no longer checks",
                          {"correspondence": "harness/props/c11.py compare(): " + w, "case": c if len(c["ids"]) <= 40 else {"tag": c["tag"], "n": len(c["ids"])},
                           "disagreeing_cases": len(broken), "searched_cases": ctx.evaluations, "lean": ctx.lean.as_dict()}, kind="unproved")
        elif not ctx.lean.ok:
            ctx.violation("Lean obligations for C11 no longer check",
                          {"theorems": ctx.lean.as_dict()["undischarged"], "problems": ctx.lean.problems, "build_log_tail": ctx.lean.build_log[-1500:],
                           "searched_cases": ctx.evaluations}, kind="unproved")
