"""C11 — multi-threshold clustering equals clustering at each threshold.

Lean: Model/MultiThreshold.lean mirrors cluster_pairwise_predictions_at_multiple_thresholds;
Properties/C11.lean proves every output column equals the connected components at
that threshold (stable-cluster and in-play lemmas) and the summary statistics are
those of that partition.  Tie: real code vs compiled model on C05's graph families
x threshold lists, comparing every column, the per-threshold iteration traces from
Splink's log, and the summary statistics; a union-find oracle decides the property
on the real output.
"""
from __future__ import annotations

import itertools
import random

from harness import core, graphs
from harness.props import c05, c11_sql

PROP = "C11"


def run_impl(case: dict) -> dict:
    from splink.internals.clustering import cluster_pairwise_predictions_at_multiple_thresholds

    from harness import impl

    api = impl.make_api(case["engine"], threads=2)
    ids = case["ids"]
    n = len(ids)
    rng = random.Random(case.get("shuffle", 0))
    node_order = list(range(n))
    rng.shuffle(node_order)
    edges = list(case["edges"])
    rng.shuffle(edges)
    idt = "str" if isinstance(ids[0], str) else "int"
    nodes_df = impl.typed_frame([{"my_id": ids[i]} for i in node_order], {"my_id": idt})
    edges_df = impl.typed_frame(
        [{"n_1": ids[a], "n_2": ids[b], "match_probability": p} for a, b, p in edges],
        {"n_1": idt, "n_2": idt, "match_probability": "float"},
    )
    kw = {"match_weight_thresholds" if case["weights"] else "match_probability_thresholds": list(case["ts"])}
    with impl.capture_log(c05.CC_LOGGER) as msgs:
        res = cluster_pairwise_predictions_at_multiple_thresholds(
            nodes_df, edges_df, api, "my_id", edge_id_column_name_left="n_1", edge_id_column_name_right="n_2",
            output_cluster_summary_stats=case["stats"], **kw,
        )
        rows = res.as_record_dict()
    key = {ids[i]: i for i in range(n)}
    if case["stats"]:
        out = sorted(
            (float(r["threshold_match_probability"]), int(r["num_clusters"]), int(r["max_cluster_size"]), float(r["avg_cluster_size"]))
            for r in rows
        )
        return {"stats": out, "trace": impl.cc_trace(msgs)}
    cols = [c for c in (rows[0].keys() if rows else []) if c != "my_id"]
    table = {}
    for r in rows:
        table[key[r["my_id"]]] = [key.get(r[c], -1) for c in cols]
    return {"cols": cols, "table": sorted(table.items()), "n_rows": len(rows), "trace": impl.cc_trace(msgs)}


run_impl_safe = core.safe(run_impl)


def probs_of(case):
    ts = list(case["ts"])
    if case["weights"]:
        ts = [(2.0**w) / (1.0 + 2.0**w) for w in ts]
    return sorted(set(ts))


def oracle(case: dict):
    out = []
    for t in probs_of(case):
        c = dict(case, thr=t, thr_kind="prob", entry="fn")
        out.append(c05.oracle_clusters(c))
    return out


def fragile(case) -> bool:
    if case["engine"] == "sqlite" and not all(core.sqlite_literal_exact(t) for t in probs_of(case)):
        return True  # SQLite reads one of the threshold literals one ulp high (engine defect, see core.sqlite_literal_exact)
    if not case["weights"]:
        return False
    return any(p != t and abs(p - t) <= 1e-12 for t in probs_of(case) for _, _, p in case["edges"])


def split_traces(flat: list[int]) -> list[list[int]]:
    out, cur = [], []
    for x in flat:
        cur.append(x)
        if x == 0:
            out.append(cur)
            cur = []
    if cur:
        out.append(cur)
    return out


def verdict(case: dict, r: dict) -> str | None:
    n = len(case["ids"])
    want = oracle(case)
    if case["stats"]:
        if len(r["stats"]) != len(want):
            return f"summary has {len(r['stats'])} rows for {len(want)} distinct thresholds"
        for (tp, num, mx, avg), w in zip(r["stats"], want):
            sizes = {}
            for i in range(n):
                sizes[w[i]] = sizes.get(w[i], 0) + 1
            exp = (len(sizes), max(sizes.values()), n / len(sizes))
            if num != exp[0] or mx != exp[1] or not core.close(avg, exp[2], 1e-6):
                return f"summary statistics differ at threshold {tp}: got (count={num}, max={mx}, mean={avg}) expected {exp}"
        return None
    if r["n_rows"] != n or [i for i, _ in r["table"]] != list(range(n)):
        return f"records not returned exactly once ({r['n_rows']} rows for {n} nodes)"
    if len(r["cols"]) != len(want):
        return f"{len(r['cols'])} cluster columns for {len(want)} distinct thresholds"
    for k, w in enumerate(want):
        for i, vals in r["table"]:
            if vals[k] != w[i]:
                return f"partition differs at threshold #{k}: column {r['cols'][k]} gives node {i} cluster {vals[k]}, clustering at that threshold alone gives {w[i]}"
    return None


def model_request(case):
    keys = case["ids"]
    order = sorted(range(len(keys)), key=lambda i: keys[i])
    rank = [0] * len(keys)
    for rk, i in enumerate(order):
        rank[i] = rk
    return {"op": "multi", "n": len(keys), "edges": [[rank[a], rank[b], core.f2b(p)] for a, b, p in case["edges"]],
            "ts": [core.f2b(t) for t in case["ts"]], "weights": bool(case["weights"])}, order


def gen_thresholds(rng, edges):
    ps = sorted({p for _, _, p in edges})
    k = rng.randint(1, 6)
    pool = list(ps) + [0.0, 1.0] + [round(rng.random(), rng.choice([1, 2, 4])) for _ in range(4)]
    ts = []
    for _ in range(k):
        t = rng.choice(pool)
        if all(f"{t:.6f}" != f"{u:.6f}" for u in ts):
            ts.append(t)
    rng.shuffle(ts)
    return ts


def gen_cases(ctx):
    rng = ctx.rng
    cases = []

    def mk(n, pairs, tag, order="random", probs=None):
        base = c05.decorate(rng, n, pairs, engine=rng.choice(["duckdb", "sqlite"]), entry="fn", order=order, probs=probs or rng.choice(["grid", "rand", "grid"]), thr=None, tag=tag)
        weights = rng.random() < 0.25
        if weights:
            ts = sorted({round(rng.uniform(-6, 6), 2) for _ in range(rng.randint(1, 6))} | ({rng.choice([0, 0.0, -0.0])} if rng.random() < 0.35 else set()))
            rng.shuffle(ts)
        else:
            ts = gen_thresholds(rng, base["edges"])
        base.update(ts=ts, weights=weights, stats=rng.random() < 0.3)
        return base

    # exhaustive sub-domain: every labelled graph on <=4 nodes, edge probabilities from a rotating 3-value set,
    # every non-empty subset of the distinct edge probabilities as the threshold list
    for n in range(2, 5):
        for gi, pairs in enumerate(graphs.all_graphs(n)):
            if not pairs:
                continue
            vals = [0.3, 0.6, 0.9]
            edges = [(a, b, vals[(k + gi) % 3]) for k, (a, b) in enumerate(pairs)]
            ps = sorted({p for _, _, p in edges})
            for r in range(1, len(ps) + 1):
                for sub in itertools.combinations(ps, r):
                    ts = list(sub)
                    rng.shuffle(ts)
                    cases.append({"n": n, "ids": [3 * ((i * 7 + gi) % n) + 1 for i in range(n)] if False else list(range(n)), "edges": edges,
                                  "engine": "sqlite" if len(cases) % 2 else "duckdb", "entry": "fn", "shuffle": len(cases), "tag": f"exh{n}",
                                  "ts": ts, "weights": False, "stats": False, "idtype": "int", "order": "identity"})
    if not ctx.thorough:
        rng.shuffle(cases)
        cases = cases[:250]
    nfam = ctx.budget(260, 4000)
    nmax = 60 if ctx.thorough else 30
    for _ in range(nfam):
        fam = rng.choice(["path", "cycle", "star", "cliques", "caterpillar", "gnp", "gnp", "forest", "grid"])
        n = rng.randint(2, nmax)
        cases.append(mk(n, graphs.family(rng, fam, n), fam, order=rng.choice(["identity", "reversed", "bitrev", "zigzag", "random"])))
    return cases


def compare(ctx, cases, drv):
    reqs, orders = zip(*[model_request(c) for c in cases]) if cases else ([], [])
    res = core.pmap(run_impl_safe, cases, chunksize=2)
    mres = drv.pbatch(list(reqs))
    problems = []
    sql_items = []  # cases on which the regenerated SQL (T-sql) is evaluated by Rel.eval and compared with the engine
    for c, order, r, m in zip(cases, orders, res, mres):
        n = len(c["ids"])
        want = oracle(c)
        changes = sum(1 for a, b in zip(want, want[1:]) if a != b)
        ctx.case({k: c[k] for k in ("ids", "edges", "ts", "weights", "stats", "engine")}, changes >= 1 and len(want) >= 2,
                 sample={"case": {k: c[k] for k in ("ids", "edges", "ts", "weights", "stats", "engine", "tag")} if n <= 6 else {"tag": c["tag"], "n": n, "ts": c["ts"], "weights": c["weights"], "stats": c["stats"]},
                         "impl": (r.get("table") or r.get("stats")) if n <= 6 and isinstance(r, dict) else None})
        ctx.count("family", c["tag"]); ctx.count("engine", c["engine"]); ctx.count("n_thresholds", len(c["ts"]))
        ctx.count("form", "weights" if c["weights"] else "probabilities"); ctx.count("output", "stats" if c["stats"] else "columns")
        ctx.count("partition_changes_between_thresholds", changes)
        if core.impl_error(r):
            ctx.count("impl_error", r["__error__"])
            problems.append((c, f"real code raised {r['__error__']}: {r['text'][:300]}", True))
            continue
        if "error" in m and ctx.lean.ok:
            raise core.HarnessError("model driver error: " + m["error"])
        if fragile(c):
            ctx.count("excluded", "weight threshold within 1e-12 of an edge probability / SQLite misreads a threshold literal")
            continue
        v = verdict(c, r)
        if v is not None:
            problems.append((c, v, True))
            continue
        sql_items.append((c, order, r))
        if "error" in m:
            # the translated part of the model could not be regenerated from the current source (already recorded as a broken
            # obligation): no model answer; the independent oracle above still decides the property on the real output
            ctx.count("model_unavailable", m["error"][:80])
            continue
        # model vs impl
        mcols = [sorted((order[a], order[b]) for a, b in res_["rows"]) for res_ in m["results"]]
        # the model keeps one entry per listed threshold; the code keeps one per distinct value
        seen, mdistinct, mstats = set(), [], []
        for res_, rows in zip(m["results"], mcols):
            if res_["t"] in seen:
                continue
            seen.add(res_["t"])
            mdistinct.append(rows)
            mstats.append((res_["num"], res_["max"], res_["total"]))
        if c["stats"]:
            got = [(num, mx) for _, num, mx, _ in r["stats"]]
            if got != [(a, b) for a, b, _ in mstats]:
                problems.append((c, f"summary statistics differ from Lean model: impl {got} model {mstats}", False))
                continue
        else:
            icol = [sorted((i, vals[k]) for i, vals in r["table"]) for k in range(len(r["cols"]))]
            if icol != mdistinct:
                problems.append((c, "cluster columns differ from Lean model MultiThreshold.multi (real output still satisfies the property)", False))
                continue
        mtr = [t for t in m["traces"]]
        # one trace per listed threshold in the model; duplicates of a threshold are not re-run by the code?  They are: compare flat
        itr = split_traces(r["trace"])
        if itr != mtr:
            problems.append((c, f"per-threshold iteration traces differ from Lean model: impl {itr[:6]} model {mtr[:6]}", False))
            continue
        ctx.traces_validated += 1
    problems += [(c, w, conc) for c, w, conc, _ in c11_sql.validate(ctx, sql_items, drv)]
    return problems


def impl_fails(case) -> bool:
    r = run_impl_safe(case)
    return "__error__" in r or verdict(case, r) is not None


def run(ctx: core.Ctx):
    ctx.rule = (
        "cases = every labelled graph on 2..4 nodes with edge probabilities from a rotating 3-value set x every non-empty subset of the distinct "
        "edge probabilities as threshold list (exhaustive in thorough, a 250-case sample in quick) + C05's structured families (<=30/60 nodes) x threshold lists "
        "of length 1..6 (values equal to edge probabilities, 0, 1, random; unsorted; weight form 25%), summary-statistics output 30%; duckdb+sqlite. "
        "non-trivial = >=2 distinct thresholds and the partition changes between two consecutive ones; distinct = hash of (ids, edges, thresholds, form, output, engine)."
    )
    ctx.assumptions = [
        "thresholds pairwise distinct after 6-decimal formatting (column names), edge endpoints are nodes, ids distinct and non-NULL",
        "weight thresholds whose probability lies within 1e-12 of an edge probability are excluded (floating point)",
    ]
    from harness.translate import tarith

    errs = tarith.write({"threshold_args_to_match_prob_list", "bayes_factor_to_prob", "match_weight_to_bayes_factor"})  # Generated/Arith.lean: the model's threshold list is the translated threshold_args_to_match_prob_list
    sql_errs = c11_sql.prepare()  # Generated/CCSql.lean, MultiSql.lean: the SQL the code emits now, as Rel terms (T-sql)
    ctx.lean = core.lean_check(PROP, ctx.thorough)
    if errs or sql_errs:
        ctx.lean.ok = False
        ctx.lean.problems += ["T-arith: " + e for e in errs] + ["T-sql: " + e for e in sql_errs]
    drv = core.Driver()
    if ctx.replay:
        import json

        case = json.loads(open(ctx.replay).read())["replay"]["case"]
        case["edges"] = [tuple(e) for e in case["edges"]]
        cases = [case]
    else:
        cases = graphs.load_corpus(PROP) + gen_cases(ctx)
    problems = compare(ctx, cases, drv)
    ctx.exhaustive = ctx.thorough
    if (not ctx.lean.ok or any(not conc for _, _, conc in problems)) and not ctx.replay:
        ctx.notes.append("proof or correspondence broke: ran the widened failing-input search")
        save = ctx.rng
        ctx.rng = random.Random(ctx.seed + 7919)
        was, ctx.thorough = ctx.thorough, True
        try:
            more = gen_cases(ctx)[:2500]
        finally:
            ctx.thorough, ctx.rng = was, save
        problems += compare(ctx, more, drv)
    concrete = [(c, w) for c, w, conc in problems if conc]
    broken = [(c, w) for c, w, conc in problems if not conc]
    for c, w in concrete[:3]:
        small = c05.shrink(c, impl_fails) if len(c["ids"]) <= 60 else c
        rr = run_impl_safe(small)
        what = (verdict(small, rr) if "__error__" not in rr else f"real code raised {rr['__error__']}: {rr['text'][:200]}") or w
        ctx.violation("real output violates C11: " + what.split(":")[0],
                      {"case": small, "observed": rr, "expected_partitions": oracle(small) if len(small["ids"]) <= 40 else None, "detail": what},
                      kind="concrete", match_info={"failure": what.split(":")[0]})
    if not concrete:
        if broken:
            c, w = broken[0]
            ctx.violation("correspondence MultiThreshold model <-> cluster_pairwise_predictions_at_multiple_thresholds no longer checks",
                          {"correspondence": "harness/props/c11.py compare(): " + w, "case": c if len(c["ids"]) <= 40 else {"tag": c["tag"], "n": len(c["ids"])},
                           "disagreeing_cases": len(broken), "searched_cases": ctx.evaluations, "lean": ctx.lean.as_dict()}, kind="unproved")
        elif not ctx.lean.ok:
            ctx.violation("Lean obligations for C11 no longer check",
                          {"theorems": ctx.lean.as_dict()["undischarged"], "problems": ctx.lean.problems, "build_log_tail": ctx.lean.build_log[-1500:],
                           "searched_cases": ctx.evaluations}, kind="unproved")
