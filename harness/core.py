"""Shared machinery of the checks: Lean build + axiom audit, model driver,
evidence writer, known-findings matcher, VIOLATION reporting, parallel map.

Every check is `harness/props/cXX.py:run(ctx)`; `ctx` is a `Ctx` below.
"""
from __future__ import annotations

import hashlib
import json
import multiprocessing as mp
import os
import random
import re
import shutil
import struct
import subprocess
import sys
import time
import traceback
from pathlib import Path

VERIF = Path(__file__).resolve().parent.parent
LEAN = VERIF / "lean"
REPO = Path(os.environ.get("SPLINK_REPO", "/repo"))
DRV = LEAN / ".lake" / "build" / "bin" / "drv"
STD_AXIOMS = {"propext", "Classical.choice", "Quot.sound"}
FORBIDDEN = re.compile(
    r"\bsorry\b|\badmit\b|^\s*axiom\s|native_decide|bv_decide|implemented_by|\bunsafe\s|maxHeartbeats\s+0\b",
    re.M,
)

TRUSTED_BASE = [
    "Lean 4.33.0 kernel; axioms allowed: propext, Classical.choice, Quot.sound (audited by #print axioms on every run)",
    "no native_decide / bv_decide / implemented_by / unsafe / own axioms / sorry / admit (grep on every run)",
    "Lean compiler + IEEE double for the executable driver",
    "Python correspondence harness (generators, canonicalisation, naive oracles) and the SQL engines it drives",
]


# --------------------------------------------------------------------------- util
def f2b(x: float) -> int:
    """IEEE-754 bits of a double (floats cross the line protocol as bit patterns)."""
    return struct.unpack("<Q", struct.pack("<d", float(x)))[0]


def b2f(n: int) -> float:
    return struct.unpack("<d", struct.pack("<Q", int(n)))[0]


def close(a, b, rel=1e-9, abs_=1e-12) -> bool:
    if a is None or b is None:
        return a is None and b is None
    if a == b:
        return True
    if a != a or b != b:  # NaN
        return (a != a) and (b != b)
    if a in (float("inf"), float("-inf")) or b in (float("inf"), float("-inf")):
        return a == b
    return abs(a - b) <= max(abs_, rel * max(abs(a), abs(b)))


def canon_hash(obj) -> str:
    return hashlib.sha256(json.dumps(obj, sort_keys=True, default=str).encode()).hexdigest()[:16]


def _init_worker():
    import gc
    import logging

    # objects inherited from the parent (e.g. a DuckDB connection of a case the parent re-ran while shrinking a failure) must never be
    # finalised in this process: their threads do not exist here and DuckDB's destructors crash or block (observed: workers dying
    # with a segmentation fault while garbage-collecting, the pool then waiting for ever)
    gc.freeze()
    logging.disable(logging.WARNING)
    import warnings

    warnings.filterwarnings("ignore")


def pmap(func, items, workers: int | None = None, chunksize: int = 1):
    """Ordered parallel map in forked workers (each worker imports Splink/duckdb lazily).  A worker that dies (a crash of native code)
    ends the run with a HarnessError instead of leaving the pool waiting for its result for ever."""
    import gc
    from concurrent.futures import ProcessPoolExecutor
    from concurrent.futures.process import BrokenProcessPool

    items = list(items)
    if not items:
        return []
    workers = workers or min(16, os.cpu_count() or 4)
    if workers <= 1 or len(items) == 1:
        return [func(x) for x in items]
    gc.collect()  # garbage of earlier in-process runs of the real code is finalised here, not inherited by the workers
    with ProcessPoolExecutor(max_workers=workers, mp_context=mp.get_context("fork"), initializer=_init_worker) as ex:
        try:
            return list(ex.map(func, items, chunksize=chunksize))
        except BrokenProcessPool as e:
            raise HarnessError(f"a worker process of the parallel map died ({e}); {len(items)} items were in flight") from e


class _Batch:
    def __init__(self, func):
        self.func = func

    def __call__(self, xs):
        return [self.func(x) for x in xs]


def fresh_process_map(func, items, batch: int = 2, per_item_timeout: float = 150.0, budget_s: float = 1800.0):
    """Ordered map in which every batch of items runs in a newly forked process of its own, one batch at a time, under a time limit.
    For Spark cases: the JVM a batch starts belongs to that process and ends with it, so its heap does not grow over a whole run (one
    session serving ~40 Splink cases ran out of heap even after clearing the cache), and a case on which Spark's planner exhausts the
    heap (observed: a 9-record link_only case spinning in garbage collection for over an hour) costs its batch, not the run: the
    items of a batch that did not answer in time come back as {"__timeout__": True}."""
    items = list(items)
    if not items:
        return []
    out = []
    ctx = mp.get_context("fork")
    t0 = time.time()
    for i in range(0, len(items), batch):
        chunk = items[i:i + batch]
        if time.time() - t0 > budget_s:  # the Spark part of a run is bounded: what does not fit is excluded and counted
            out += [{"__timeout__": True} for _ in items[i:]]
            break
        pool = ctx.Pool(1, initializer=_init_worker)
        try:
            out += pool.apply_async(_Batch(func), (chunk,)).get(timeout=per_item_timeout * len(chunk))
        except mp.TimeoutError:
            out += [{"__timeout__": True} for _ in chunk]
        finally:
            pool.terminate()
            pool.join()
            _kill_jvms_of_dead_workers()
    return out


def _kill_jvms_of_dead_workers():
    """A terminated worker's Spark JVM normally ends when its stdin closes; one that is spinning in garbage collection may not."""
    import subprocess

    try:
        ps = subprocess.run(["ps", "-eo", "pid,ppid,comm"], capture_output=True, text=True, timeout=20).stdout.splitlines()[1:]
    except Exception:  # noqa: BLE001
        return
    for line in ps:
        parts = line.split()
        if len(parts) >= 3 and parts[2] == "java" and parts[1] == "1":  # orphaned (re-parented) JVM
            try:
                cmd = open(f"/proc/{parts[0]}/cmdline").read()
                if "pyspark" in cmd:
                    os.kill(int(parts[0]), 9)
            except Exception:  # noqa: BLE001
                pass


SPARK_EXHAUSTED = ("OutOfMemoryError", "Java heap space", "GC overhead", "Connection refused", "Py4JNetworkError", "Answer from Java side is empty",
                   "SparkContext was shut down", "SparkContext has been shutdown", "stopped SparkContext", "getResult")


def timed_out(r) -> bool:
    """A Spark case that did not answer within the time limit, or whose JVM ran out of heap / went away (resource exhaustion of the local
    Spark in this sandbox, not an answer of the code under test): excluded and counted, never a violation."""
    if isinstance(r, dict) and r.get("__timeout__") is True:
        return True
    return isinstance(r, dict) and r.get("__error__") in ("Py4JJavaError", "Py4JNetworkError", "Py4JError", "ConnectionRefusedError") and any(
        k in (r.get("text", "") + r.get("tb", "")) for k in SPARK_EXHAUSTED)


class safe:
    """Wrap a (module-level) worker so an exception becomes a value {'__error__': kind, 'text': ...}; picklable."""

    def __init__(self, func):
        self.func = func

    def __call__(self, x):
        try:
            return self.func(x)
        except Exception as e:  # noqa: BLE001
            t = str(e)
            if len(t) > 2000:  # engines put their own message after the (long) SQL text: keep both ends
                t = t[:1300] + " ... " + t[-700:]
            tb = traceback.format_exc()
            if len(tb) > 9000:  # the frames come first, a (possibly huge) message last: keep both so that impl_error sees the frames
                tb = "".join(traceback.format_tb(e.__traceback__))[-6000:] + "\n ... \n" + tb[-3000:]
            out = {"__error__": type(e).__name__, "text": t, "tb": tb}
            if isinstance(getattr(e, "partial", None), dict):
                out["partial"] = e.partial  # what the worker had produced before the real code raised
            return out


class HarnessError(RuntimeError):
    pass


def impl_error(r) -> bool:
    """True iff `r` is an exception raised from inside /repo (the real code), as opposed to a harness bug.
    A harness bug must never be reported as a violation: it raises HarnessError (exit 2)."""
    if not (isinstance(r, dict) and "__error__" in r):
        return False
    if f'File "{REPO}/' in r.get("tb", ""):
        return True
    raise HarnessError(f"harness-side exception {r['__error__']}: {r['text'][:500]}\n{r.get('tb', '')[-1500:]}")


# --------------------------------------------------------------------------- Lean
class LeanStatus:
    def __init__(self):
        self.ok = True
        self.obligations: list[str] = []
        self.discharged: list[str] = []
        self.open_statements: list[str] = []
        self.problems: list[str] = []
        self.axioms: dict[str, list[str]] = {}
        self.build_log = ""
        self.checker_cmd = ""

    def as_dict(self):
        return {
            "ok": self.ok,
            "obligations": self.obligations,
            "discharged": self.discharged,
            "undischarged": [o for o in self.obligations if o not in self.discharged],
            "problems": self.problems,
            "axioms": self.axioms,
        }


def _strip_lean_comments(src: str) -> str:
    # nested block comments /- ... -/ and line comments --
    out, i, depth, n = [], 0, 0, len(src)
    while i < n:
        if src.startswith("/-", i):
            depth += 1
            i += 2
        elif depth and src.startswith("-/", i):
            depth -= 1
            i += 2
        elif depth:
            if src[i] == "\n":
                out.append("\n")
            i += 1
        elif src.startswith("--", i):
            while i < n and src[i] != "\n":
                i += 1
        else:
            out.append(src[i])
            i += 1
    return "".join(out)


def lean_sources_clean() -> list[str]:
    bad = []
    for p in sorted((LEAN / "SplinkVerif").rglob("*.lean")) + [LEAN / "Driver.lean"]:
        txt = _strip_lean_comments(p.read_text())
        # string literals may legitimately mention the words; drop them
        txt = re.sub(r'"(?:[^"\\]|\\.)*"', '""', txt)
        for m in FORBIDDEN.finditer(txt):
            line = txt.count("\n", 0, m.start()) + 1
            bad.append(f"{p.relative_to(LEAN)}:{line}: forbidden token {m.group(0).strip()!r}")
    return bad


def lake(args: list[str], timeout=3000) -> tuple[int, str]:
    env = dict(os.environ)
    p = subprocess.run(["lake"] + args, cwd=LEAN, capture_output=True, text=True, timeout=timeout, env=env)
    return p.returncode, (p.stdout + p.stderr)


def lean_check(prop: str, thorough: bool = False) -> LeanStatus:
    """Build the property's Lean modules + driver, audit axioms of every obligation."""
    st = LeanStatus()
    spec = json.loads((LEAN / "obligations.json").read_text())[prop]
    st.obligations = list(spec["theorems"])
    st.open_statements = list(spec.get("open_statements", []))
    modules = spec["modules"]
    st.checker_cmd = (
        f"cd /verif/lean && lake build {' '.join(modules)} drv && lake env lean .lake/audit/{prop}.lean"
        "  (#print axioms per obligation; grep for sorry/admit/axiom/native_decide/bv_decide/implemented_by/unsafe)"
    )
    bad = lean_sources_clean()
    if bad:
        st.ok = False
        st.problems += bad
    rc, log = lake(["build"] + modules + ["drv"])
    st.build_log = log[-6000:]
    if rc != 0:
        st.ok = False
        errs = [l for l in log.splitlines() if "error" in l.lower()][:20]
        st.problems.append("lake build failed: " + " | ".join(errs))
        # try each module alone so that the healthy ones still count
    audit_dir = LEAN / ".lake" / "audit"
    audit_dir.mkdir(parents=True, exist_ok=True)
    af = audit_dir / f"{prop}.lean"
    lines = []
    for m in modules:
        olean = LEAN / ".lake" / "build" / "lib" / "lean" / (m.replace(".", "/") + ".olean")
        if olean.exists() and rc == 0:
            lines.append(f"import {m}")
        elif olean.exists():
            # stale olean of a module whose rebuild failed must not be trusted
            r2, _ = lake(["build", m])
            if r2 == 0:
                lines.append(f"import {m}")
    for t in st.obligations:
        lines.append(f"#print axioms {t}")
    af.write_text("\n".join(lines) + "\n")
    p = subprocess.run(["lake", "env", "lean", str(af)], cwd=LEAN, capture_output=True, text=True, timeout=3000)
    out = p.stdout + p.stderr
    for t in st.obligations:
        m = re.search(r"'" + re.escape(t) + r"' depends on axioms: \[([^\]]*)\]", out, re.S)
        if m:
            ax = [a.strip() for a in m.group(1).replace("\n", " ").split(",") if a.strip()]
            st.axioms[t] = ax
            extra = [a for a in ax if a not in STD_AXIOMS]
            if extra:
                st.ok = False
                st.problems.append(f"{t}: non-standard axioms {extra}")
            else:
                st.discharged.append(t)
        elif re.search(r"'" + re.escape(t) + r"' does not depend on any axioms", out):
            st.axioms[t] = []
            st.discharged.append(t)
        else:
            st.ok = False
            st.problems.append(f"{t}: not present in the built environment")
    if thorough and st.ok:
        try:
            p = subprocess.run(
                ["lake", "env", "leanchecker"] + modules, cwd=LEAN, capture_output=True, text=True, timeout=3000
            )
            st.checker_cmd += f" && lake env leanchecker {' '.join(modules)}"
            if p.returncode != 0:
                st.ok = False
                st.problems.append("leanchecker failed: " + (p.stdout + p.stderr)[-800:])
        except Exception as e:  # noqa: BLE001
            st.problems.append(f"leanchecker not run: {e}")
    return st


class Driver:
    """Batch interface to the compiled model driver (one JSON per line)."""

    def __init__(self):
        if not DRV.exists():
            rc, log = lake(["build", "drv"])
            if rc != 0:
                raise RuntimeError("driver build failed:\n" + log[-3000:])

    def batch(self, reqs: list[dict], timeout=3000) -> list[dict]:
        if not reqs:
            return []
        data = "\n".join(json.dumps(r, separators=(",", ":")) for r in reqs) + "\n"
        p = subprocess.run([str(DRV)], input=data, capture_output=True, text=True, timeout=timeout)
        lines = p.stdout.splitlines()
        if len(lines) != len(reqs):
            raise RuntimeError(f"driver returned {len(lines)} lines for {len(reqs)} requests; stderr={p.stderr[-500:]}")
        return [json.loads(l) for l in lines]

    def pbatch(self, reqs: list[dict], workers=8) -> list[dict]:
        """Split a large batch over several driver processes."""
        if len(reqs) < 64:
            return self.batch(reqs)
        k = min(workers, max(1, len(reqs) // 32))
        chunks = [reqs[i::k] for i in range(k)]
        from concurrent.futures import ThreadPoolExecutor

        with ThreadPoolExecutor(k) as ex:
            outs = list(ex.map(self.batch, chunks))
        res = [None] * len(reqs)
        for ci, out in enumerate(outs):
            for j, o in enumerate(out):
                res[ci + j * k] = o
        return res


# --------------------------------------------------------------------------- mirrors (source-drift sentinel)
def mirror_drift(prop: str) -> list[str]:
    """Functions mirrored by the hand-written model whose AST changed since the model was written.
    Not a violation: it deepens the correspondence budget for this run."""
    import ast

    mf = LEAN / "mirrors.json"
    if not mf.exists():
        return []
    spec = json.loads(mf.read_text()).get(prop, {})
    drift = []
    cache: dict[str, ast.Module] = {}
    for qual, want in spec.items():
        path, _, name = qual.partition("::")
        try:
            if path not in cache:
                cache[path] = ast.parse((REPO / path).read_text())
            h = _ast_hash(cache[path], name)
        except Exception:  # noqa: BLE001
            h = None
        if h != want:
            drift.append(qual)
    return drift


def _ast_hash(tree, name: str):
    import ast

    parts = name.split(".")

    def find(body, parts):
        for node in body:
            if isinstance(node, (ast.FunctionDef, ast.ClassDef, ast.AsyncFunctionDef)) and node.name == parts[0]:
                if len(parts) == 1:
                    return node
                return find(node.body, parts[1:])
        return None

    node = find(tree.body, parts)
    if node is None:
        return None
    # docstrings are not behaviour
    if node.body and isinstance(node.body[0], ast.Expr) and isinstance(getattr(node.body[0], "value", None), ast.Constant) and isinstance(node.body[0].value.value, str):
        node = type(node)(**{**{f: getattr(node, f) for f in node._fields}, "body": node.body[1:] or [ast.Pass()]})
    return hashlib.sha256(ast.dump(node).encode()).hexdigest()[:16]


def compute_mirror_hashes(quals: list[str]) -> dict[str, str]:
    import ast

    out = {}
    for q in quals:
        path, _, name = q.partition("::")
        out[q] = _ast_hash(ast.parse((REPO / path).read_text()), name)
    return out


# --------------------------------------------------------------------------- findings
def load_findings() -> list[dict]:
    f = VERIF / "known_findings.json"
    if not f.exists():
        return []
    return [e for e in json.loads(f.read_text()).get("findings", []) if e.get("status") == "known"]


# --------------------------------------------------------------------------- context
class Ctx:
    def __init__(self, prop: str, tier: str, seed: int, replay: str | None = None):
        self.prop = prop
        self.tier = tier
        self.thorough = tier == "thorough"
        self.seed = seed
        self.replay = replay
        self.rng = random.Random(seed)
        self.t0 = time.time()
        self.evaluations = 0
        self.nontrivial: set[str] = set()
        self.samples: list = []
        self.dist: dict[str, dict] = {}
        self.traces_validated = 0
        self.violations: list[dict] = []
        self.known_hits: list[str] = []
        self.notes: list[str] = []
        self.lean: LeanStatus | None = None
        self.extra_cov: dict = {}
        self.rule = ""
        self.assumptions: list[str] = []
        self.exhaustive = False
        self.findings = [f for f in load_findings() if f["property"] == prop]
        self.drift: list[str] = []
        self._printed_known: set[str] = set()
        self.deadline = None

    # -- budgets
    def budget(self, quick: int, thorough: int) -> int:
        n = thorough if self.thorough else quick
        if self.drift or (self.lean is not None and not self.lean.ok):
            n *= 4  # deepen the search where the model may be stale / a proof broke
        return n

    # -- bookkeeping
    def count(self, key: str, val, n: int = 1):
        d = self.dist.setdefault(key, {})
        k = str(val)
        d[k] = d.get(k, 0) + n

    def case(self, canon, nontrivial: bool, sample=None):
        self.evaluations += 1
        if nontrivial:
            self.nontrivial.add(canon_hash(canon))
        if sample is not None and len(self.samples) < 6:
            self.samples.append(sample)

    # -- violations
    def violation(self, what: str, replay: dict, kind: str = "concrete", match_info: dict | None = None):
        """Register a violation (concrete failing input, or a broken proof/correspondence
        with no failing input).  A concrete violation matched by a committed known finding prints KNOWN-FINDING instead."""
        info = dict(match_info or {})
        info.setdefault("what", what)
        if kind == "concrete":
            for f in self.findings:
                if _finding_matches(f, info):
                    if f["id"] not in self._printed_known:
                        self._printed_known.add(f["id"])
                        print(f"KNOWN-FINDING: property={self.prop} {f['id']}: {f['what']}", flush=True)
                    self.known_hits.append(f["id"])
                    return
        if getattr(self, "shrunk", None) is not None and isinstance(replay, dict):
            # found in the pass that runs with the code's size thresholds scaled down (harness/cli.py): a replay needs the same setting
            replay = dict(replay, shrunk_size_constants={"value": self.shrunk, "constants": getattr(self, "shrunk_names", [])})
            what = what + " [with the code's size thresholds scaled down]"
        self.violations.append({"what": what, "replay": replay, "kind": kind})

    def finish(self) -> int:
        wall = time.time() - self.t0
        rc = 0
        rep_dir = VERIF / "replays"
        rep_dir.mkdir(exist_ok=True)
        # concrete ones first; one line per distinct 'what' (max 5)
        self.violations.sort(key=lambda v: 0 if v["kind"] == "concrete" else 1)
        seen = set()
        for v in self.violations:
            if v["what"] in seen or len(seen) >= 5:
                continue
            seen.add(v["what"])
            rc = 1
            name = f"{self.prop}_{self.tier}_{self.seed}_{len(seen)}.json"
            path = rep_dir / name
            body = {
                "property": self.prop,
                "what": v["what"],
                "kind": v["kind"],
                "replay": v["replay"],
                "rerun": f"cd /verif && ./check {self.prop} --tier {self.tier} --replay replays/{name}",
            }
            path.write_text(json.dumps(body, indent=1, default=str))
            tail = " no-failing-input-found" if v["kind"] != "concrete" else ""
            print(f"VIOLATION property={self.prop} replay={path}{tail}", flush=True)
        lean = self.lean
        cov = {
            "obligations": len(lean.obligations) if lean else 0,
            "discharged": len(lean.discharged) if lean else 0,
            "checker_cmd": lean.checker_cmd if lean else "",
            "trusted_base": TRUSTED_BASE,
            "theorems": lean.obligations if lean else [],
            "undischarged": [o for o in lean.obligations if o not in lean.discharged] if lean else [],
            "open_statements": lean.open_statements if lean else [],
            "axioms_used": sorted({a for v in lean.axioms.values() for a in v}) if lean else [],
            "lean_problems": lean.problems if lean else [],
            "evaluations": self.evaluations,
            "distinct_nontrivial": len(self.nontrivial),
            "rule": self.rule,
            "samples": self.samples[:6] or ["(no correspondence case was generated)"],
            "traces_validated_against_impl": self.traces_validated,
            "input_distribution": self.dist,
            "exhaustive": self.exhaustive,
            "source_drift": self.drift,
            "known_findings_hit": sorted(set(self.known_hits)),
            "notes": self.notes,
        }
        cov.update(self.extra_cov)
        ev = {
            "property_id": self.prop,
            "tier": self.tier,
            "seed": self.seed,
            "level": "proof",
            "coverage": cov,
            "assumptions": self.assumptions,
            "wall_s": round(wall, 2),
            "violations": len(seen),
        }
        # runs against a scratch worktree (seeded-change experiments) must not overwrite the committed evidence
        ev_dir = VERIF / "evidence" if str(REPO) == "/repo" else VERIF / ".scratch" / "evidence_seeded"
        ev_dir.mkdir(parents=True, exist_ok=True)
        (ev_dir / f"{self.prop}.json").write_text(json.dumps(ev, indent=1, default=str))
        print(
            f"[{self.prop}] tier={self.tier} seed={self.seed} obligations={cov['obligations']} discharged={cov['discharged']} "
            f"evaluations={self.evaluations} nontrivial={len(self.nontrivial)} violations={len(seen)} "
            f"known={sorted(set(self.known_hits))} wall={wall:.1f}s",
            flush=True,
        )
        return rc


def _finding_matches(f: dict, info: dict) -> bool:
    """A known finding is keyed by `match`: every key must equal the violation's match_info."""
    m = f.get("match", {})
    if not m:
        return False
    for k, v in m.items():
        if info.get(k) != v:
            return False
    return True


_SQLITE_LIT: dict = {}


def sqlite_literal_exact(x) -> bool:
    """Does this SQLite read the decimal literal repr(x) as the double x?  SQLite 3.40.1 parses a few decimal literals one ulp
    high (`select 0.499889 = ?` bound to the Python float is false; 7 of 20000 random six-digit literals).  Splink inlines
    thresholds as text, so on SQLite `match_probability >= <such a literal>` drops an edge whose probability equals the threshold:
    an engine defect (trusted base), excluded from the SQLite cases and counted, never reported."""
    import sqlite3

    key = repr(float(x))
    if key not in _SQLITE_LIT:
        con = sqlite3.connect(":memory:")
        try:
            _SQLITE_LIT[key] = bool(con.execute(f"select {key} = ?", (float(x),)).fetchone()[0])
        except sqlite3.Error:
            _SQLITE_LIT[key] = True
        finally:
            con.close()
    return _SQLITE_LIT[key]


def scratch_dir() -> Path:
    d = VERIF / ".scratch" / str(os.getpid())
    d.mkdir(parents=True, exist_ok=True)
    return d


def cleanup_scratch():
    d = VERIF / ".scratch" / str(os.getpid())
    shutil.rmtree(d, ignore_errors=True)
