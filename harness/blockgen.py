"""Generators for record tables and blocking rules, with an independent 3-valued evaluator.

A rule is an AST:
  ("eq", lcol, rcol)            l.<lcol> = r.<rcol>
  ("lt", col)                   l.<col> < r.<col>               (asymmetric)
  ("sub", col)                  substr(l.col,1,1) = substr(r.col,1,1)
  ("lit", side, col, value)     <side>.<col> = '<value>'        (asymmetric unless on both sides)
  ("arr", col)                  l.<col> = r.<col> on the exploded array column (exploding rules only)
  ("and", x, y) ("or", x, y) ("not", x)
Values: None = SQL NULL.
"""
from __future__ import annotations

import itertools
import random

T, F, N = True, False, None


def and3(a, b):
    if a is False or b is False:
        return False
    if a is None or b is None:
        return None
    return True


def or3(a, b):
    if a is True or b is True:
        return True
    if a is None or b is None:
        return None
    return False


def not3(a):
    return None if a is None else (not a)


def ev(rule, l: dict, r: dict):
    k = rule[0]
    if k == "eq":
        a, b = l[rule[1]], r[rule[2]]
        return None if a is None or b is None else a == b
    if k == "lt":
        a, b = l[rule[1]], r[rule[1]]
        return None if a is None or b is None else a < b
    if k == "sub":
        a, b = l[rule[1]], r[rule[1]]
        return None if a is None or b is None else a[:1] == b[:1]
    if k == "lit":
        rec = l if rule[1] == "l" else r
        a = rec[rule[2]]
        return None if a is None else a == rule[3]
    if k == "arr":
        a, b = l[rule[1]], r[rule[1]]  # scalars of the unnested rows
        return None if a is None or b is None else a == b
    if k == "and":
        return and3(ev(rule[1], l, r), ev(rule[2], l, r))
    if k == "or":
        return or3(ev(rule[1], l, r), ev(rule[2], l, r))
    if k == "not":
        return not3(ev(rule[1], l, r))
    raise ValueError(rule)


def sql(rule, q=lambda c: c) -> str:
    """Render with explicit parentheses around every binary node (q quotes a column name)."""
    k = rule[0]
    if k == "eq":
        return f"l.{q(rule[1])} = r.{q(rule[2])}"
    if k == "lt":
        return f"l.{q(rule[1])} < r.{q(rule[1])}"
    if k == "sub":
        return f"substr(l.{q(rule[1])}, 1, 1) = substr(r.{q(rule[1])}, 1, 1)"
    if k == "lit":
        return f"{rule[1]}.{q(rule[2])} = '{rule[3]}'"
    if k == "arr":
        return f"l.{q(rule[1])} = r.{q(rule[1])}"
    if k == "and":
        return f"({sql(rule[1], q)}) AND ({sql(rule[2], q)})"
    if k == "or":
        return f"({sql(rule[1], q)}) OR ({sql(rule[2], q)})"
    if k == "not":
        return f"NOT ({sql(rule[1], q)})"
    raise ValueError(rule)


def sql_top(rule, q=lambda c: c) -> str:
    """As a user would write it: the TOP-LEVEL connective is not parenthesised (a OR b, a AND b)."""
    k = rule[0]
    if k in ("and", "or"):
        op = " AND " if k == "and" else " OR "

        def side(x):
            # keep precedence right without outer parens: parenthesise OR under AND
            s = sql(x, q)
            return f"({s})" if x[0] in ("or", "and") else s

        return side(rule[1]) + op + side(rule[2])
    return sql(rule, q)


def symmetric(rule) -> bool:
    k = rule[0]
    if k in ("eq",):
        return rule[1] == rule[2]
    if k in ("sub", "arr"):
        return True
    if k in ("lt", "lit"):
        return False
    return all(symmetric(x) for x in rule[1:])


def columns_of(rule) -> set[str]:
    k = rule[0]
    if k == "eq":
        return {rule[1], rule[2]}
    if k in ("lt", "sub", "arr"):
        return {rule[1]}
    if k == "lit":
        return {rule[2]}
    out = set()
    for x in rule[1:]:
        out |= columns_of(x)
    return out


def uses_arr(rule) -> bool:
    return rule[0] == "arr" or (rule[0] in ("and", "or", "not") and any(uses_arr(x) for x in rule[1:]))


STR_DOM = ["x", "y", "xa", "zed"]
INT_DOM = [0, 1, 2]


def gen_atom(rng: random.Random, asym_ok=True, arr=False):
    r = rng.random()
    if arr and r < 0.5:
        return ("arr", "arr") if rng.random() < 0.6 else ("arr", "arr2")
    if r < 0.45:
        c = rng.choice(["a", "b"])
        return ("eq", c, c)
    if r < 0.6:
        return ("eq", "c", "c")
    if r < 0.7:
        return ("sub", rng.choice(["a", "b"]))
    if asym_ok and r < 0.8:
        return ("eq", "a", "b")
    if asym_ok and r < 0.9:
        return ("lt", "c")
    if asym_ok:
        return ("lit", rng.choice(["l", "r"]), "a", rng.choice(STR_DOM))
    return ("eq", "a", "a")


def gen_rule(rng: random.Random, depth=2, asym_ok=True, arr=False):
    if depth == 0 or rng.random() < 0.35:
        return gen_atom(rng, asym_ok, arr)
    r = rng.random()
    if r < 0.45:
        return ("and", gen_rule(rng, depth - 1, asym_ok, arr), gen_rule(rng, depth - 1, asym_ok, False))
    if r < 0.85:
        return ("or", gen_rule(rng, depth - 1, asym_ok, arr), gen_rule(rng, depth - 1, asym_ok, False))
    return ("not", gen_rule(rng, depth - 1, asym_ok, False))


def gen_tables(rng: random.Random, n_tables: int, max_rows=8, null_rate=None, idtype=None, with_arr=False, min_rows=0):
    """Returns list of tables; each a list of dict rows with unique_id,a,b,c[,arr]."""
    null_rate = rng.choice([0.0, 0.1, 0.25, 0.4]) if null_rate is None else null_rate
    idtype = idtype or rng.choice(["int", "int", "str"])
    tables = []
    for _ in range(n_tables):
        k = rng.randint(min_rows, max_rows)
        if idtype == "int":
            ids = rng.sample(range(0, 12), k)  # overlapping across tables; "10" < "9" as strings
        else:
            ids = rng.sample([f"i{j}" for j in range(12)] + ["9", "10"], k)
        rows = []
        for u in ids:
            row = {
                "unique_id": u,
                "a": None if rng.random() < null_rate else rng.choice(STR_DOM),
                "b": None if rng.random() < null_rate else rng.choice(STR_DOM),
                "c": None if rng.random() < null_rate else rng.choice(INT_DOM),
            }
            if with_arr:
                r = rng.random()
                row["arr"] = None if r < null_rate / 2 else [rng.choice(["p", "q", "r", "s"]) for _ in range(rng.choice([0, 1, 1, 2, 3]))]
                # a second array column: a rule exploding both must see the CROSS PRODUCT of the elements (different lengths, shared
                # elements at different positions)
                r2 = rng.random()
                row["arr2"] = None if r2 < null_rate / 2 else [rng.choice(["x", "y", "z"]) for _ in range(rng.choice([0, 1, 2, 2, 3]))]
            rows.append(row)
        tables.append(rows)
    return tables


COL_TYPES = {"unique_id": None, "a": "str", "b": "str", "c": "int"}


def concat_records(tables, aliases):
    """The vertically concatenated table as a list of dicts with 'source_dataset'."""
    out = []
    for rows, al in zip(tables, aliases):
        for r in rows:
            d = dict(r)
            d["source_dataset"] = al
            out.append(d)
    return out


def composite_key(rec, multi: bool):
    return f"{rec['source_dataset']}-__-{rec['unique_id']}" if multi else rec["unique_id"]


def ranks(values):
    order = sorted(set(values))
    pos = {v: i for i, v in enumerate(order)}
    return [pos[v] for v in values]


def arr_cols(rule) -> list[str]:
    """The array columns a rule compares (its `arrays_to_explode`)."""
    if rule[0] == "arr":
        return [rule[1]]
    if rule[0] in ("and", "or", "not"):
        return sorted({c for x in rule[1:] for c in arr_cols(x)})
    return []


def explode_true(rule, l: dict, r: dict) -> bool:
    """Some combination of array elements - one element per exploded column and side, all combinations (cross product) - makes the
    rule TRUE (unnest drops NULL/empty arrays)."""
    cols = arr_cols(rule) or ["arr"]
    if any(not l.get(c) or not r.get(c) for c in cols):
        return False
    for xs in itertools.product(*[l[c] for c in cols]):
        for ys in itertools.product(*[r[c] for c in cols]):
            if ev(rule, dict(l, **dict(zip(cols, xs))), dict(r, **dict(zip(cols, ys)))) is True:
                return True
    return False
    for x, y in itertools.product(la, ra):
        if ev(rule, dict(l, arr=x), dict(r, arr=y)) is True:
            return True
    return False
