"""Operation histories on one linker: generator, executor, instrumented database API.

Shared by C07 (cache soundness), C08 (atomicity under faults) and C18 (table ownership).
The instrumented API wraps the REAL DuckDBAPI/SQLiteAPI of /repo (no change to /repo):
  * logs every request to the cache-checking entry point (templated name, sql hash, use_cache, hit/miss, physical name),
  * counts backend statements and can raise at the k-th one (fault injection),
  * can snapshot the catalog (table names + checksums).
"""
from __future__ import annotations

import hashlib
import random

from harness.props import c02

NOT_OBS = "level not observed in training dataset"


class InjectedFault(Exception):
    pass


def instrument(api):
    """Wrap an API instance in place. Returns the log object.
    log["events"]: ordered req / set_named / drop / invalidate events of the table cache (for replay in the Lean Cache model)."""
    log = {"requests": [], "statements": 0, "fail_at": None, "events": [], "phys": {}}
    orig_exec = api._execute_sql_against_backend
    orig_check = api.sql_to_splink_dataframe_checking_cache
    orig_remove = api.remove_splinkdataframe_from_cache
    cache = api._intermediate_table_cache
    orig_invalidate = cache.invalidate_cache
    cache_cls = type(cache)

    def exec_wrapper(final_sql):
        log["statements"] += 1
        if log["fail_at"] is not None and log["statements"] == log["fail_at"]:
            raise InjectedFault(f"injected backend failure at statement {log['statements']}")
        return orig_exec(final_sql)

    def check_wrapper(sql, output_tablename_templated, use_cache=True):
        before = len(api._intermediate_table_cache.executed_queries)
        h = hashlib.sha256(sql.encode()).hexdigest()[:12]
        uid = api._cache_uid
        log["_in_request"] = True
        try:
            df = orig_check(sql, output_tablename_templated, use_cache)
        finally:
            log["_in_request"] = False
        executed = len(api._intermediate_table_cache.executed_queries) > before
        if executed:
            log["phys"][df.physical_name] = (output_tablename_templated, h, uid)
        ev = {"k": "req", "templ": output_tablename_templated, "text": h, "use_cache": use_cache, "hit": not executed, "uid": uid, "debug": bool(api.debug_mode)}
        log["requests"].append(ev)
        log["events"].append(ev)
        return df

    def remove_wrapper(splink_dataframe):
        ph = splink_dataframe.physical_name
        log["events"].append({"k": "drop", "phys": ph})
        return orig_remove(splink_dataframe)

    class LoggingCache(cache_cls):
        def __setitem__(self, key, value):
            super().__setitem__(key, value)
            if key != value.physical_name:
                log["events"].append({"k": "set_named", "templ": key, "phys": value.physical_name})
            elif not log.get("_in_request"):
                log["events"].append({"k": "set_phys", "phys": value.physical_name})

        def __delitem__(self, key):
            value = self.data.get(key)
            super().__delitem__(key)
            if value is not None and key != value.physical_name:
                log["events"].append({"k": "forget_named", "templ": key})

        def invalidate_cache(self):
            log["events"].append({"k": "invalidate"})
            return super().invalidate_cache()

    cache.__class__ = LoggingCache
    api._execute_sql_against_backend = exec_wrapper
    api.sql_to_splink_dataframe_checking_cache = check_wrapper
    api.remove_splinkdataframe_from_cache = remove_wrapper
    return log


# --------------------------------------------------------------------------- dataset + model
def gen_world(rng: random.Random, engine=None, tf=True):
    engine = engine or rng.choice(["duckdb", "duckdb", "sqlite"])
    n = rng.randint(6, 12)
    rows = []
    for i in range(n):
        rows.append({
            "unique_id": i + 1,
            "a": None if rng.random() < 0.1 else rng.choice(c02.STR_DOM[:5]),
            "b": None if rng.random() < 0.1 else rng.choice(c02.STR_DOM[:4]),
            "c": None if rng.random() < 0.1 else rng.choice(c02.INT_DOM),
            "d": rng.choice(["p", "q"]),
            "lab": None if rng.random() < 0.3 else rng.choice(["e1", "e2", "e3"]),
        })
    comps = []
    for col in ["a", "b", "c"][: rng.randint(2, 3)]:
        cc = c02.gen_comparison(rng, col, engine)
        for l in cc["levels"]:
            if l.get("u") == 0.0:
                l["u"] = 0.05
            if "tf" in l and (not tf or l["kind"] != "eq"):
                del l["tf"]
            if "tf" in l:
                l["tf"].pop("disable_detection", None)
        comps.append(cc)
    rules = rng.choice([["l.d = r.d"], ["l.d = r.d", "l.a = r.a"], []])
    return {"engine": engine, "rows": rows, "comparisons": comps, "prior": rng.choice([0.05, 0.2]), "rules": rules}


def settings_dict(world):
    comps = []
    for ci, c in enumerate(world["comparisons"]):
        lv = []
        for l in c["levels"]:
            d = {"sql_condition": c02.level_sql(c["col"], l), "label_for_charts": l["kind"] + str(l.get("k", ""))}
            if l["kind"] == "null":
                d["is_null_level"] = True
            else:
                d["m_probability"], d["u_probability"] = l["m"], l["u"]
            if "tf" in l:
                d["tf_adjustment_column"] = c["col"]
                d["tf_adjustment_weight"] = l["tf"]["weight"]
                d["tf_minimum_u_value"] = l["tf"]["minU"]
            lv.append(d)
        comps.append({"output_column_name": f"{c['col']}{ci}", "comparison_levels": lv})
    return {"link_type": world.get("link_type", "dedupe_only"), "comparisons": comps, "blocking_rules_to_generate_predictions": list(world["rules"]),
            "probability_two_random_records_match": world["prior"], "retain_matching_columns": True, "retain_intermediate_calculation_columns": True,
            "max_iterations": 3, "em_convergence": 0.01}


TYPES = {"unique_id": "int", "a": "str", "b": "str", "c": "int", "d": "str", "lab": "str"}


def input_frames(world, rows=None):
    """The input data as typed frames: one frame, or (link types: world["link_type"] != "dedupe_only") two frames, the first holding the
    records whose unique_id is in world["first_table_ids"]."""
    from harness import impl

    rows = world["rows"] if rows is None else rows
    if world.get("link_type", "dedupe_only") == "dedupe_only":
        return [impl.typed_frame(rows, TYPES)]
    first = set(world["first_table_ids"])
    return [impl.typed_frame([r for r in rows if r["unique_id"] in first], TYPES), impl.typed_frame([r for r in rows if r["unique_id"] not in first], TYPES)]


def source_dataset_of(world, uid):
    """Name of the source dataset of a record when the inputs are frames (Splink's own aliases)."""
    return "__splink__input_table_0" if (world.get("link_type", "dedupe_only") == "dedupe_only" or uid in set(world["first_table_ids"])) else "__splink__input_table_1"


def make_linker(world, api, settings=None, table_name=None):
    """Input data live in a real table `people` (so that they can be mutated in place); worlds with input_form == "frame" (used by the
    re-registration histories) hand the linker DataFrames instead: Splink registers them as __splink__input_table_<i> with
    overwrite=True, so a second Linker on the same DatabaseAPI REPLACES the first one's input tables."""
    from splink import Linker

    from harness import impl

    if world.get("input_form") == "frame":
        frames = input_frames(world)
        return Linker(frames if len(frames) > 1 else frames[0], settings if settings is not None else settings_dict(world), api)
    name = table_name or "people"
    df = impl.typed_frame(world["rows"], TYPES)
    if world["engine"] == "duckdb":
        api._con.register("__people_src", df)
        api._con.execute(f"CREATE OR REPLACE TABLE {name} AS SELECT * FROM __people_src")
        api._con.unregister("__people_src")
    else:
        df.to_sql(name, api.con, index=False, if_exists="replace")
    return Linker(name, settings if settings is not None else settings_dict(world), api)


# --------------------------------------------------------------------------- operations
OPS = ["estimate_u", "estimate_m_label", "em", "estimate_prior", "predict", "predict_thr", "deterministic_link", "cluster", "compute_tf",
       "register_tf_lookup", "find_matches", "compare_two", "graph_metrics", "invalidate", "mutate_invalidate", "delete_splink_tables"]


# Operations that REPLACE a table under its name through Splink (register_* with overwrite=True, a second Linker over new frames) and
# the computations derived from such tables.  Kept out of OPS (C08/C18 draw from OPS); used by C07's re-registration histories.
REREG_REGISTER_OPS = ["register_predict", "register_labels", "register_concat_with_tf", "register_user_table", "relink"]
# training calls whose estimates are observed (what THIS call estimated, from the levels' records of trained values / the prior)
REREG_TRAINING_OPS = ["estimate_u_observed", "em_observed", "estimate_prior_observed", "estimate_m_label_observed"]
REREG_OBSERVED_OPS = ["cluster_registered", "best_links_registered", "graph_metrics_registered", "accuracy_labels_table", "prediction_errors_labels_table",
                      "estimate_m_pairwise_labels", "blocking_analysis_user_table"] + REREG_TRAINING_OPS
REREG_OPS = REREG_REGISTER_OPS + REREG_OBSERVED_OPS
LABELS_NAME = "my_labels"
USER_TABLE_NAME = "extra_people"


def _with_sources(world):
    return world.get("link_type", "dedupe_only") != "dedupe_only"


def predict_table_types(world):
    t = {"unique_id_l": "int", "unique_id_r": "int", "match_weight": "float", "match_probability": "float"}
    return dict({"source_dataset_l": "str", "source_dataset_r": "str"}, **t) if _with_sources(world) else t


def labels_table_types(world):
    t = {"unique_id_l": "int", "unique_id_r": "int", "clerical_match_score": "float"}
    return dict({"source_dataset_l": "str", "source_dataset_r": "str"}, **t) if _with_sources(world) else t


def _pairs(rng, world, ids, n):
    out = {}
    for _ in range(n):
        a, b = sorted(rng.sample(ids, 2))
        row = {"unique_id_l": a, "unique_id_r": b}
        if _with_sources(world):
            row["source_dataset_l"], row["source_dataset_r"] = source_dataset_of(world, a), source_dataset_of(world, b)
        out[(a, b)] = row
    return [out[k] for k in sorted(out)]


def gen_rereg_step(rng: random.Random, world, op, ids=None):
    """Parameters of one re-registration / derived-computation step. `ids`: the unique ids the data hold at that point of the history."""
    import math

    ids = ids or [r["unique_id"] for r in world["rows"]]
    if op == "register_predict":
        rows = _pairs(rng, world, ids, rng.randint(3, 9))
        for k, r in enumerate(rows):
            # distinct probabilities: which of two equally good links cluster_using_single_best_links keeps is not determined
            pr = rng.choice([0.02, 0.3, 0.5, 0.6, 0.9, 0.97]) + 0.001 * k
            r["match_probability"], r["match_weight"] = pr, math.log2(pr / (1 - pr))
        return {"op": op, "p": {"rows": rows, "overwrite": True}}
    if op in ("estimate_u_observed", "estimate_m_label_observed"):
        return {"op": op, "p": {}}
    if op == "em_observed":
        return {"op": op, "p": {"rule": rng.choice(["l.d = r.d", "l.a = r.a", "l.c = r.c"]), "fix_u": rng.random() < 0.5}}
    if op == "estimate_prior_observed":
        return {"op": op, "p": {"rules": rng.choice([["l.a = r.a and l.b = r.b"], ["l.a = r.a and l.c = r.c", "l.b = r.b and l.d = r.d"]]), "recall": rng.choice([1.0, 0.8])}}
    if op == "register_labels":
        rows = _pairs(rng, world, ids, rng.randint(3, 8))
        for r in rows:
            r["clerical_match_score"] = rng.choice([0.0, 1.0, 1.0, 0.9, 0.3])
        return {"op": op, "p": {"rows": rows, "form": rng.choice(["named", "named", "named, passed as the returned SplinkDataFrame", "register_labels_table"]), "overwrite": True}}
    if op == "register_concat_with_tf":
        return {"op": op, "p": {"drop_last": rng.choice([0, 0, 1, 2]), "overwrite": True}}
    if op == "register_user_table":
        rows = []
        for k in range(rng.randint(4, 8)):
            rows.append({"unique_id": 3000 + k, "a": rng.choice(c02.STR_DOM[:4]), "b": rng.choice(c02.STR_DOM[:3]), "c": rng.choice(c02.INT_DOM), "d": rng.choice(["p", "q"]), "lab": None})
        return {"op": op, "p": {"rows": rows, "overwrite": True}}
    if op == "relink":
        return {"op": op, "p": {"new_row": {"unique_id": 700 + rng.randrange(200), "a": rng.choice(c02.STR_DOM[:5]), "b": rng.choice(c02.STR_DOM[:4]), "c": rng.choice(c02.INT_DOM),
                                            "d": rng.choice(["p", "q"]), "lab": rng.choice([None, "e1", "e2"])}}}
    if op == "cluster_registered":
        return {"op": op, "p": rng.choice([{"t": 0.5}, {"t": 0.25}, {"t": 0.95}, {"w": 0.0}, {}])}
    if op == "best_links_registered":
        return {"op": op, "p": {"t": rng.choice([0.25, 0.5, 0.95]), "free": rng.choice([[0], [1], [0, 1]])}}
    if op == "graph_metrics_registered":
        return {"op": op, "p": {"t": rng.choice([0.25, 0.5])}}
    if op == "accuracy_labels_table":
        return {"op": op, "p": {"thr": rng.choice([0.5, 0.5, 0.9, 0.1]), "round": rng.choice([0.1, 1.0, None])}}
    if op == "prediction_errors_labels_table":
        fp, fn = rng.choice([(True, True), (True, False), (False, True)])
        return {"op": op, "p": {"fp": fp, "fn": fn, "thr": rng.choice([0.5, 0.5, 0.9, 0.1])}}
    if op == "estimate_m_pairwise_labels":
        return {"op": op, "p": {}}
    if op == "blocking_analysis_user_table":
        return {"op": op, "p": {"kind": rng.choice(["count_comparisons", "cumulative_comparisons", "n_largest_blocks"]), "rule": rng.choice(["l.d = r.d", "l.a = r.a", "l.a = r.a and l.b = r.b"])}}
    raise ValueError(op)


def canon_table(records):
    """Records of a result table as JSON-able dicts, NaN -> None, in a stable order (non-float fields first)."""
    import json as _json

    rows = []
    for r in records:
        rows.append({k: (None if isinstance(v, float) and v != v else v) for k, v in _json.loads(_json.dumps(r, default=str)).items()})
    rows.sort(key=lambda r: (_json.dumps({k: v for k, v in r.items() if not isinstance(v, float)}, sort_keys=True),
                             _json.dumps({k: round(v, 6) for k, v in r.items() if isinstance(v, float)}, sort_keys=True)))
    return rows


def note_registered(state, kind, step):
    """state["registered"]: the tables the caller currently has registered with the linker's API, as the steps that registered them, in
    the order of their last registration (a fresh reference linker replays exactly these)."""
    reg = [x for x in state.get("registered", []) if x[0] != kind]
    if step is not None:
        reg.append([kind, step])
    state["registered"] = reg


def gen_history(rng: random.Random, world, length=None, ops=None):
    ops = ops or OPS
    length = length or rng.randint(2, 12)
    tfcols = sorted({c["col"] for c in world["comparisons"] if any("tf" in l for l in c["levels"])})
    hist = []
    for _ in range(length):
        op = rng.choice(ops)
        p = {}
        if op == "em":
            # populate_prior: the non-default option that takes the model prior from the median over ALL registered sessions
            p = {"rule": rng.choice(["l.d = r.d", "l.a = r.a", "l.c = r.c"]), "fix_u": rng.random() < 0.5, "populate_prior": rng.random() < 0.35}
        elif op == "estimate_prior":
            p = {"rules": rng.choice([["l.a = r.a and l.b = r.b"], ["l.a = r.a and l.c = r.c", "l.b = r.b and l.d = r.d"]]), "recall": rng.choice([1.0, 0.8])}
        elif op == "predict_thr":
            p = {"w": rng.choice([-5.0, 0.0, 2.0])}
        elif op == "cluster":
            p = {"t": rng.choice([0.1, 0.5, 0.9])}
        elif op in ("compute_tf", "register_tf_lookup"):
            if not tfcols:
                continue
            p = {"col": rng.choice(tfcols)}
            if op == "register_tf_lookup":
                p["table"] = {v: round(rng.uniform(0.05, 0.5), 3) for v in c02.STR_DOM[:5] if rng.random() < 0.8}
        elif op == "find_matches":
            p = {"records": [{"unique_id": 1000 + k, "a": rng.choice(c02.STR_DOM[:5]), "b": rng.choice(c02.STR_DOM[:4]), "c": rng.choice(c02.INT_DOM), "d": rng.choice(["p", "q"]), "lab": None} for k in range(rng.randint(1, 2))],
                 "rules": rng.choice([[], ["l.d = r.d"]])}
        elif op == "compare_two":
            p = {"r1": {"unique_id": 2001, "a": rng.choice(c02.STR_DOM[:5]), "b": "ann", "c": 1, "d": "p", "lab": None},
                 "r2": {"unique_id": 2002, "a": rng.choice(c02.STR_DOM[:5]), "b": "anne", "c": 2, "d": "p", "lab": None}}
        elif op == "mutate_invalidate":
            p = {"new_row": {"unique_id": 500 + len(hist), "a": rng.choice(c02.STR_DOM[:5]), "b": rng.choice(c02.STR_DOM[:4]), "c": rng.choice(c02.INT_DOM), "d": rng.choice(["p", "q"]), "lab": None}}
        hist.append({"op": op, "p": p})
    return hist


def apply_op(linker, world, step, state):
    """Run one operation on the real linker. `state` carries the last predict/cluster dataframes. Returns a small result summary."""
    from harness import impl

    op, p = step["op"], step["p"]
    api = linker._db_api
    if op in REREG_OPS:
        return apply_rereg_op(linker, world, step, state)
    if op == "estimate_u":
        linker.training.estimate_u_using_random_sampling(max_pairs=1e5)
        return None
    if op == "estimate_m_label":
        linker.training.estimate_m_from_label_column("lab")
        return None
    if op == "em":
        linker.training.estimate_parameters_using_expectation_maximisation(
            p["rule"], fix_u_probabilities=p["fix_u"], populate_probability_two_random_records_match_from_trained_values=bool(p.get("populate_prior", False)))
        return None
    if op == "estimate_prior":
        linker.training.estimate_probability_two_random_records_match(p["rules"], recall=p["recall"])
        return None
    if op == "predict":
        state["predict"] = linker.inference.predict()
        return len(state["predict"].as_record_dict())
    if op == "predict_thr":
        state["predict"] = linker.inference.predict(threshold_match_weight=p["w"])
        return len(state["predict"].as_record_dict())
    if op == "deterministic_link":
        if not world["rules"]:
            return None
        return len(linker.inference.deterministic_link().as_record_dict())
    if op == "cluster":
        if state.get("predict") is None:
            state["predict"] = linker.inference.predict()
        state["cluster"] = linker.clustering.cluster_pairwise_predictions_at_threshold(state["predict"], threshold_match_probability=p["t"])
        state["cluster_t"] = p["t"]
        return len(state["cluster"].as_record_dict())
    if op == "compute_tf":
        return len(linker.table_management.compute_tf_table(p["col"]).as_record_dict())
    if op == "register_tf_lookup":
        col = p["col"]
        tdf = impl.typed_frame([{col: v, f"tf_{col}": t} for v, t in p["table"].items()], {col: "str", f"tf_{col}": "float"})
        linker.table_management.register_term_frequency_lookup(tdf, col, overwrite=True)
        state.setdefault("lookups", {})[col] = p["table"]
        if "registered" in state:
            note_registered(state, f"lookup:{col}", step)
            note_registered(state, "concat_with_tf", None)  # the registration forgets __splink__df_concat_with_tf (documented in the code)
        return None
    if op == "find_matches":
        df = impl.typed_frame(p["records"], TYPES)
        return len(linker.inference.find_matches_to_new_records(df, blocking_rules=p["rules"], match_weight_threshold=-30).as_record_dict())
    if op == "compare_two":
        r = linker.inference.compare_two_records(p["r1"], p["r2"]).as_record_dict()
        return r[0]["match_weight"] if r else None
    if op == "graph_metrics":
        if state.get("cluster") is None:
            return None
        edges = [r for r in state["predict"].as_record_dict() if r["match_probability"] >= state["cluster_t"]]
        if not edges:
            return None
        gm = linker.clustering.compute_graph_metrics(state["predict"], state["cluster"], threshold_match_probability=state["cluster_t"])
        return len(gm.nodes.as_record_dict())
    if op == "invalidate":
        linker.table_management.invalidate_cache()
        # invalidate_cache() empties the whole cache dict, registered lookup tables included (documented behaviour)
        state.pop("predict", None); state.pop("cluster", None); state.pop("lookups", None)
        if "registered" in state:
            # the dict entries of the registered lookups / concat_with_tf / predictions are gone; tables the caller addresses by name
            # (labels, own tables) are not Splink's to drop and stay usable
            state["registered"] = [x for x in state["registered"] if x[0] in ("labels", "user_table")]
            state.pop("reg_predict", None)  # registered predictions are no longer served to predict(); the caller lets go of the handle too
        state.pop("kept", None)
        return None
    if op == "mutate_invalidate":
        row = p["new_row"]
        cols = list(TYPES)
        vals = ", ".join("NULL" if row[c] is None else (str(row[c]) if TYPES[c] == "int" else "'" + str(row[c]) + "'") for c in cols)
        sql = f"INSERT INTO people ({', '.join(cols)}) VALUES ({vals})"
        if world["engine"] == "duckdb":
            api._con.execute(sql)
        else:
            api.con.execute(sql)
        state.setdefault("extra_rows", []).append(row)
        linker.table_management.invalidate_cache()
        state.pop("predict", None); state.pop("cluster", None); state.pop("lookups", None)
        return None
    if op == "delete_splink_tables":
        linker.table_management.delete_tables_created_by_splink_from_db()
        state.pop("predict", None); state.pop("cluster", None); state.pop("kept", None)
        return None
    raise ValueError(op)


def _keep(state, label, sdf, rows):
    """Results the caller keeps: they must still read as they were after later operations (until a clean-up drops Splink's tables)."""
    state["kept"] = (state.get("kept", []) + [[label, sdf, rows]])[-3:]


def apply_rereg_op(linker, world, step, state):
    """The operations that replace a table under its name through Splink, and the computations derived from such tables.  The observed
    ones return the canonical PUBLIC result (compared with the same call on a fresh linker by C07)."""
    import json as _json

    from harness import impl

    op, p = step["op"], step["p"]
    api = linker._db_api
    state.setdefault("registered", [])
    kw_ow = {} if p.get("overwrite") is None else {"overwrite": p["overwrite"]}
    if op == "register_predict":
        state["reg_predict"] = linker.table_management.register_table_predict(impl.typed_frame(p["rows"], predict_table_types(world)), **kw_ow)
        state["reg_predict_rows"] = p["rows"]
        note_registered(state, "predict", step)
        return len(p["rows"])
    if op == "register_labels":
        df = impl.typed_frame(p["rows"], labels_table_types(world))
        if p["form"] == "register_labels_table":
            state["labels"] = linker.table_management.register_labels_table(df, **kw_ow)
        else:
            sdf = linker.table_management.register_table(df, LABELS_NAME, **kw_ow)
            state["labels"] = sdf if "SplinkDataFrame" in p["form"] else LABELS_NAME
        note_registered(state, "labels", step)
        return len(p["rows"])
    if op == "register_concat_with_tf":
        rows = p.get("rows")
        if rows is None:
            # "a pre-computed version of the input_nodes_concat_with_tf table ... that you created in a previous run": computed by a
            # throw-away linker on a database of its own (current data, current model, current lookups), then possibly cut short
            from splink.internals.pipeline import CTEPipeline
            from splink.internals.vertically_concatenate import compute_df_concat_with_tf

            model = _json.loads(_json.dumps(linker.misc.save_model_to_json(out_path=None)))
            l0 = make_linker(dict(world, rows=current_rows(world, state)), impl.make_api(world["engine"], threads=2), settings=model)
            for kind, st in state["registered"]:
                if kind.startswith("lookup:"):
                    apply_op(l0, world, st, {})
            rows = canon_table(compute_df_concat_with_tf(l0, CTEPipeline()).as_record_dict())
            rows.sort(key=lambda r: r["unique_id"])
            rows = rows[: len(rows) - p["drop_last"]] if p["drop_last"] else rows
        types = dict(TYPES)
        for k in rows[0]:
            if k not in types:
                types[k] = "str" if k == "source_dataset" else "float"
        types = {k: types[k] for k in rows[0]}
        state["reg_concat"] = linker.table_management.register_table_input_nodes_concat_with_tf(impl.typed_frame(rows, types), **kw_ow)
        note_registered(state, "concat_with_tf", {"op": op, "p": dict(p, rows=rows)})
        return len(rows)
    if op == "register_user_table":
        linker.table_management.register_table(impl.typed_frame(p["rows"], TYPES), USER_TABLE_NAME, **kw_ow)
        note_registered(state, "user_table", step)
        return len(p["rows"])
    if op == "relink":
        # the input data change THROUGH Splink: a new Linker over the new frames on the SAME DatabaseAPI (a notebook cell run again);
        # Splink re-registers __splink__input_table_<i> with overwrite=True.  The model is the saved one.
        from splink import Linker

        model = _json.loads(_json.dumps(linker.misc.save_model_to_json(out_path=None)))
        state.setdefault("extra_rows", []).append(p["new_row"])
        frames = input_frames(world, current_rows(world, state))
        state["linker"] = Linker(frames if len(frames) > 1 else frames[0], model, api)
        return len(current_rows(world, state))
    if op in ("cluster_registered", "best_links_registered", "graph_metrics_registered"):
        sdf = state.get("reg_predict")
        if sdf is None:
            return None
        if op == "cluster_registered":
            kw = {"threshold_match_probability": p["t"]} if "t" in p else {"threshold_match_weight": p["w"]} if "w" in p else {}
            r = linker.clustering.cluster_pairwise_predictions_at_threshold(sdf, **kw)
        elif op == "best_links_registered":
            if not _with_sources(world):
                return None  # needs a source dataset column
            kept = [x["match_probability"] for x in state["reg_predict_rows"] if x["match_probability"] >= p["t"]]
            if len(set(kept)) < len(kept):
                return None  # equally good links: the result is not determined (ORDER BY match_probability only), a false alarm under one hash seed
            r = linker.clustering.cluster_using_single_best_links(sdf, duplicate_free_datasets=[f"__splink__input_table_{i}" for i in p["free"]], threshold_match_probability=p["t"])
        else:
            if not any(x["match_probability"] >= p["t"] for x in state["reg_predict_rows"]):
                return None
            cl = linker.clustering.cluster_pairwise_predictions_at_threshold(sdf, threshold_match_probability=p["t"])
            gm = linker.clustering.compute_graph_metrics(sdf, cl, threshold_match_probability=p["t"])
            return canon_table([dict(x, __table="nodes") for x in gm.nodes.as_record_dict()] + [dict(x, __table="edges") for x in gm.edges.as_record_dict()]
                               + [dict(x, __table="clusters") for x in gm.clusters.as_record_dict()])
        rows = canon_table(r.as_record_dict())
        _keep(state, op, r, rows)
        return rows
    if op in ("accuracy_labels_table", "prediction_errors_labels_table", "estimate_m_pairwise_labels"):
        labels = state.get("labels")
        if labels is None:
            return None
        if op == "accuracy_labels_table":
            r = linker.evaluation.accuracy_analysis_from_labels_table(labels, threshold_match_probability=p["thr"], match_weight_round_to_nearest=p["round"], output_type="table")
        elif op == "prediction_errors_labels_table":
            r = linker.evaluation.prediction_errors_from_labels_table(labels, include_false_positives=p["fp"], include_false_negatives=p["fn"], threshold_match_probability=p["thr"])
        else:
            linker.training.estimate_m_from_pairwise_labels(labels)
            # what THIS call estimated: a linker's m probabilities are by design the average over all its training sessions (not kept
            # by a saved model), so the values of the session are read from the levels' records of trained values
            return canon_table([{"comparison": cc.output_column_name, "level": i,
                                 "m_estimated_by_this_call": (cl._trained_m_probabilities[-1]["probability"] if cl._trained_m_probabilities else None)}
                                for cc in linker._settings_obj.comparisons for i, cl in enumerate(cc.comparison_levels)])
        rows = canon_table(r.as_record_dict())
        _keep(state, op, r, rows)
        return rows
    if op in REREG_TRAINING_OPS:
        levels = [(cc.output_column_name, i, cl) for cc in linker._settings_obj.comparisons for i, cl in enumerate(cc.comparison_levels)]
        before = {(c, i): (len(cl._trained_m_probabilities), len(cl._trained_u_probabilities)) for c, i, cl in levels}
        if op == "estimate_u_observed":
            linker.training.estimate_u_using_random_sampling(max_pairs=1e5)  # every pair: no sampling, the estimate is a function of the data
        elif op == "estimate_m_label_observed":
            linker.training.estimate_m_from_label_column("lab")
        elif op == "em_observed":
            linker.training.estimate_parameters_using_expectation_maximisation(p["rule"], fix_u_probabilities=p["fix_u"])
        else:
            linker.training.estimate_probability_two_random_records_match(p["rules"], recall=p["recall"])
        rows = [{"comparison": "(prior)", "level": -1, "what": "probability_two_random_records_match", "n": 0,
                 "value": float(linker._settings_obj._probability_two_random_records_match)}]
        for c, i, cl in levels:
            for what, recs, n0 in (("m", cl._trained_m_probabilities, before[(c, i)][0]), ("u", cl._trained_u_probabilities, before[(c, i)][1])):
                for n, r in enumerate(recs[n0:]):
                    v = r["probability"]
                    rows.append({"comparison": c, "level": i, "what": what + " estimated by this call", "n": n, "value": (float(v) if isinstance(v, (int, float)) else str(v))})
        return canon_table(rows)
    if op == "blocking_analysis_user_table":
        if not any(k == "user_table" for k, _ in state["registered"]):
            return None
        from splink import blocking_analysis as ba

        if p["kind"] == "count_comparisons":
            return canon_table([ba.count_comparisons_from_blocking_rule(table_or_tables=USER_TABLE_NAME, blocking_rule=p["rule"], link_type="dedupe_only", db_api=api)])
        if p["kind"] == "cumulative_comparisons":
            return canon_table(ba.cumulative_comparisons_to_be_scored_from_blocking_rules_data(
                table_or_tables=USER_TABLE_NAME, blocking_rules=["l.d = r.d", p["rule"]], link_type="dedupe_only", db_api=api).to_dict(orient="records"))
        # every block is asked for: which of several equally large blocks are among the n largest is not determined (ORDER BY count
        # LIMIT n), and comparing a top-3 against a fresh linker's raised a false alarm under one string-hash seed (vp check 6)
        return canon_table(ba.n_largest_blocks(table_or_tables=USER_TABLE_NAME, blocking_rule=p["rule"], link_type="dedupe_only", db_api=api, n_largest=100000).as_record_dict())
    raise ValueError(op)


def current_rows(world, state):
    return list(world["rows"]) + list(state.get("extra_rows", []))


def predict_rows(linker):
    """Canonical predict() output: {(uid_l, uid_r): (match_weight, gammas…)}"""
    out = {}
    for r in linker.inference.predict().as_record_dict():
        key = f"{r['unique_id_l']}-{r['unique_id_r']}"
        out[key] = {k: v for k, v in r.items() if k == "match_weight" or k.startswith(("gamma_", "bf_"))}
    return out


def fresh_reference(linker, world, state):
    """predict() of a fresh linker (new database, current data, saved model, same registered TF lookups)."""
    import json as _json

    from harness import impl

    model = _json.loads(_json.dumps(linker.misc.save_model_to_json(out_path=None)))
    api2 = impl.make_api(world["engine"], threads=2)
    w2 = dict(world, rows=current_rows(world, state))
    l2 = make_linker(w2, api2, settings=model)
    for col, table in state.get("lookups", {}).items():
        tdf = impl.typed_frame([{col: v, f"tf_{col}": t} for v, t in table.items()], {col: "str", f"tf_{col}": "float"})
        l2.table_management.register_term_frequency_lookup(tdf, col, overwrite=True)
    return predict_rows(l2)
