"""Operation histories on one linker: generator, executor, instrumented database API.

Shared by C07 (cache soundness), C08 (atomicity under faults) and C18 (table ownership).
The instrumented API wraps the REAL DuckDBAPI/SQLiteAPI of /repo (no change to /repo):
  * logs every request to the cache-checking entry point (templated name, sql hash, use_cache, hit/miss, physical name),
  * counts backend statements and can raise at the k-th one (fault injection),
  * can snapshot the catalog (table names + checksums).
"""
from __future__ import annotations

import hashlib
import random

from harness.props import c02

NOT_OBS = "level not observed in training dataset"


class InjectedFault(Exception):
    pass


def instrument(api):
    """Wrap an API instance in place. Returns the log object.
    log["events"]: ordered req / set_named / drop / invalidate events of the table cache (for replay in the Lean Cache model)."""
    log = {"requests": [], "statements": 0, "fail_at": None, "events": [], "phys": {}}
    orig_exec = api._execute_sql_against_backend
    orig_check = api.sql_to_splink_dataframe_checking_cache
    orig_remove = api.remove_splinkdataframe_from_cache
    cache = api._intermediate_table_cache
    orig_invalidate = cache.invalidate_cache
    cache_cls = type(cache)

    def exec_wrapper(final_sql):
        log["statements"] += 1
        if log["fail_at"] is not None and log["statements"] == log["fail_at"]:
            raise InjectedFault(f"injected backend failure at statement {log['statements']}")
        return orig_exec(final_sql)

    def check_wrapper(sql, output_tablename_templated, use_cache=True):
        before = len(api._intermediate_table_cache.executed_queries)
        h = hashlib.sha256(sql.encode()).hexdigest()[:12]
        uid = api._cache_uid
        log["_in_request"] = True
        try:
            df = orig_check(sql, output_tablename_templated, use_cache)
        finally:
            log["_in_request"] = False
        executed = len(api._intermediate_table_cache.executed_queries) > before
        if executed:
            log["phys"][df.physical_name] = (output_tablename_templated, h, uid)
        ev = {"k": "req", "templ": output_tablename_templated, "text": h, "use_cache": use_cache, "hit": not executed, "uid": uid, "debug": bool(api.debug_mode)}
        log["requests"].append(ev)
        log["events"].append(ev)
        return df

    def remove_wrapper(splink_dataframe):
        ph = splink_dataframe.physical_name
        log["events"].append({"k": "drop", "phys": ph})
        return orig_remove(splink_dataframe)

    class LoggingCache(cache_cls):
        def __setitem__(self, key, value):
            super().__setitem__(key, value)
            if key != value.physical_name:
                log["events"].append({"k": "set_named", "templ": key, "phys": value.physical_name})
            elif not log.get("_in_request"):
                log["events"].append({"k": "set_phys", "phys": value.physical_name})

        def __delitem__(self, key):
            value = self.data.get(key)
            super().__delitem__(key)
            if value is not None and key != value.physical_name:
                log["events"].append({"k": "forget_named", "templ": key})

        def invalidate_cache(self):
            log["events"].append({"k": "invalidate"})
            return super().invalidate_cache()

    cache.__class__ = LoggingCache
    api._execute_sql_against_backend = exec_wrapper
    api.sql_to_splink_dataframe_checking_cache = check_wrapper
    api.remove_splinkdataframe_from_cache = remove_wrapper
    return log


# --------------------------------------------------------------------------- dataset + model
def gen_world(rng: random.Random, engine=None, tf=True):
    engine = engine or rng.choice(["duckdb", "duckdb", "sqlite"])
    n = rng.randint(6, 12)
    rows = []
    for i in range(n):
        rows.append({
            "unique_id": i + 1,
            "a": None if rng.random() < 0.1 else rng.choice(c02.STR_DOM[:5]),
            "b": None if rng.random() < 0.1 else rng.choice(c02.STR_DOM[:4]),
            "c": None if rng.random() < 0.1 else rng.choice(c02.INT_DOM),
            "d": rng.choice(["p", "q"]),
            "lab": None if rng.random() < 0.3 else rng.choice(["e1", "e2", "e3"]),
        })
    comps = []
    for col in ["a", "b", "c"][: rng.randint(2, 3)]:
        cc = c02.gen_comparison(rng, col, engine)
        for l in cc["levels"]:
            if l.get("u") == 0.0:
                l["u"] = 0.05
            if "tf" in l and (not tf or l["kind"] != "eq"):
                del l["tf"]
            if "tf" in l:
                l["tf"].pop("disable_detection", None)
        comps.append(cc)
    rules = rng.choice([["l.d = r.d"], ["l.d = r.d", "l.a = r.a"], []])
    return {"engine": engine, "rows": rows, "comparisons": comps, "prior": rng.choice([0.05, 0.2]), "rules": rules}


def settings_dict(world):
    comps = []
    for ci, c in enumerate(world["comparisons"]):
        lv = []
        for l in c["levels"]:
            d = {"sql_condition": c02.level_sql(c["col"], l), "label_for_charts": l["kind"] + str(l.get("k", ""))}
            if l["kind"] == "null":
                d["is_null_level"] = True
            else:
                d["m_probability"], d["u_probability"] = l["m"], l["u"]
            if "tf" in l:
                d["tf_adjustment_column"] = c["col"]
                d["tf_adjustment_weight"] = l["tf"]["weight"]
                d["tf_minimum_u_value"] = l["tf"]["minU"]
            lv.append(d)
        comps.append({"output_column_name": f"{c['col']}{ci}", "comparison_levels": lv})
    return {"link_type": "dedupe_only", "comparisons": comps, "blocking_rules_to_generate_predictions": list(world["rules"]),
            "probability_two_random_records_match": world["prior"], "retain_matching_columns": True, "retain_intermediate_calculation_columns": True,
            "max_iterations": 3, "em_convergence": 0.01}


TYPES = {"unique_id": "int", "a": "str", "b": "str", "c": "int", "d": "str", "lab": "str"}


def make_linker(world, api, settings=None, table_name=None):
    """Input data live in a real table `people` (so that they can be mutated in place)."""
    from splink import Linker

    from harness import impl

    name = table_name or "people"
    df = impl.typed_frame(world["rows"], TYPES)
    if world["engine"] == "duckdb":
        api._con.register("__people_src", df)
        api._con.execute(f"CREATE OR REPLACE TABLE {name} AS SELECT * FROM __people_src")
        api._con.unregister("__people_src")
    else:
        df.to_sql(name, api.con, index=False, if_exists="replace")
    return Linker(name, settings if settings is not None else settings_dict(world), api)


# --------------------------------------------------------------------------- operations
OPS = ["estimate_u", "estimate_m_label", "em", "estimate_prior", "predict", "predict_thr", "deterministic_link", "cluster", "compute_tf",
       "register_tf_lookup", "find_matches", "compare_two", "graph_metrics", "invalidate", "mutate_invalidate", "delete_splink_tables"]


def gen_history(rng: random.Random, world, length=None, ops=None):
    ops = ops or OPS
    length = length or rng.randint(2, 12)
    tfcols = sorted({c["col"] for c in world["comparisons"] if any("tf" in l for l in c["levels"])})
    hist = []
    for _ in range(length):
        op = rng.choice(ops)
        p = {}
        if op == "em":
            # populate_prior: the non-default option that takes the model prior from the median over ALL registered sessions
            p = {"rule": rng.choice(["l.d = r.d", "l.a = r.a", "l.c = r.c"]), "fix_u": rng.random() < 0.5, "populate_prior": rng.random() < 0.35}
        elif op == "estimate_prior":
            p = {"rules": rng.choice([["l.a = r.a and l.b = r.b"], ["l.a = r.a and l.c = r.c", "l.b = r.b and l.d = r.d"]]), "recall": rng.choice([1.0, 0.8])}
        elif op == "predict_thr":
            p = {"w": rng.choice([-5.0, 0.0, 2.0])}
        elif op == "cluster":
            p = {"t": rng.choice([0.1, 0.5, 0.9])}
        elif op in ("compute_tf", "register_tf_lookup"):
            if not tfcols:
                continue
            p = {"col": rng.choice(tfcols)}
            if op == "register_tf_lookup":
                p["table"] = {v: round(rng.uniform(0.05, 0.5), 3) for v in c02.STR_DOM[:5] if rng.random() < 0.8}
        elif op == "find_matches":
            p = {"records": [{"unique_id": 1000 + k, "a": rng.choice(c02.STR_DOM[:5]), "b": rng.choice(c02.STR_DOM[:4]), "c": rng.choice(c02.INT_DOM), "d": rng.choice(["p", "q"]), "lab": None} for k in range(rng.randint(1, 2))],
                 "rules": rng.choice([[], ["l.d = r.d"]])}
        elif op == "compare_two":
            p = {"r1": {"unique_id": 2001, "a": rng.choice(c02.STR_DOM[:5]), "b": "ann", "c": 1, "d": "p", "lab": None},
                 "r2": {"unique_id": 2002, "a": rng.choice(c02.STR_DOM[:5]), "b": "anne", "c": 2, "d": "p", "lab": None}}
        elif op == "mutate_invalidate":
            p = {"new_row": {"unique_id": 500 + len(hist), "a": rng.choice(c02.STR_DOM[:5]), "b": rng.choice(c02.STR_DOM[:4]), "c": rng.choice(c02.INT_DOM), "d": rng.choice(["p", "q"]), "lab": None}}
        hist.append({"op": op, "p": p})
    return hist


def apply_op(linker, world, step, state):
    """Run one operation on the real linker. `state` carries the last predict/cluster dataframes. Returns a small result summary."""
    from harness import impl

    op, p = step["op"], step["p"]
    api = linker._db_api
    if op == "estimate_u":
        linker.training.estimate_u_using_random_sampling(max_pairs=1e5)
        return None
    if op == "estimate_m_label":
        linker.training.estimate_m_from_label_column("lab")
        return None
    if op == "em":
        linker.training.estimate_parameters_using_expectation_maximisation(
            p["rule"], fix_u_probabilities=p["fix_u"], populate_probability_two_random_records_match_from_trained_values=bool(p.get("populate_prior", False)))
        return None
    if op == "estimate_prior":
        linker.training.estimate_probability_two_random_records_match(p["rules"], recall=p["recall"])
        return None
    if op == "predict":
        state["predict"] = linker.inference.predict()
        return len(state["predict"].as_record_dict())
    if op == "predict_thr":
        state["predict"] = linker.inference.predict(threshold_match_weight=p["w"])
        return len(state["predict"].as_record_dict())
    if op == "deterministic_link":
        if not world["rules"]:
            return None
        return len(linker.inference.deterministic_link().as_record_dict())
    if op == "cluster":
        if state.get("predict") is None:
            state["predict"] = linker.inference.predict()
        state["cluster"] = linker.clustering.cluster_pairwise_predictions_at_threshold(state["predict"], threshold_match_probability=p["t"])
        state["cluster_t"] = p["t"]
        return len(state["cluster"].as_record_dict())
    if op == "compute_tf":
        return len(linker.table_management.compute_tf_table(p["col"]).as_record_dict())
    if op == "register_tf_lookup":
        col = p["col"]
        tdf = impl.typed_frame([{col: v, f"tf_{col}": t} for v, t in p["table"].items()], {col: "str", f"tf_{col}": "float"})
        linker.table_management.register_term_frequency_lookup(tdf, col, overwrite=True)
        state.setdefault("lookups", {})[col] = p["table"]
        return None
    if op == "find_matches":
        df = impl.typed_frame(p["records"], TYPES)
        return len(linker.inference.find_matches_to_new_records(df, blocking_rules=p["rules"], match_weight_threshold=-30).as_record_dict())
    if op == "compare_two":
        r = linker.inference.compare_two_records(p["r1"], p["r2"]).as_record_dict()
        return r[0]["match_weight"] if r else None
    if op == "graph_metrics":
        if state.get("cluster") is None:
            return None
        edges = [r for r in state["predict"].as_record_dict() if r["match_probability"] >= state["cluster_t"]]
        if not edges:
            return None
        gm = linker.clustering.compute_graph_metrics(state["predict"], state["cluster"], threshold_match_probability=state["cluster_t"])
        return len(gm.nodes.as_record_dict())
    if op == "invalidate":
        linker.table_management.invalidate_cache()
        # invalidate_cache() empties the whole cache dict, registered lookup tables included (documented behaviour)
        state.pop("predict", None); state.pop("cluster", None); state.pop("lookups", None)
        return None
    if op == "mutate_invalidate":
        row = p["new_row"]
        cols = list(TYPES)
        vals = ", ".join("NULL" if row[c] is None else (str(row[c]) if TYPES[c] == "int" else "'" + str(row[c]) + "'") for c in cols)
        sql = f"INSERT INTO people ({', '.join(cols)}) VALUES ({vals})"
        if world["engine"] == "duckdb":
            api._con.execute(sql)
        else:
            api.con.execute(sql)
        state.setdefault("extra_rows", []).append(row)
        linker.table_management.invalidate_cache()
        state.pop("predict", None); state.pop("cluster", None); state.pop("lookups", None)
        return None
    if op == "delete_splink_tables":
        linker.table_management.delete_tables_created_by_splink_from_db()
        state.pop("predict", None); state.pop("cluster", None)
        return None
    raise ValueError(op)


def current_rows(world, state):
    return list(world["rows"]) + list(state.get("extra_rows", []))


def predict_rows(linker):
    """Canonical predict() output: {(uid_l, uid_r): (match_weight, gammas…)}"""
    out = {}
    for r in linker.inference.predict().as_record_dict():
        key = f"{r['unique_id_l']}-{r['unique_id_r']}"
        out[key] = {k: v for k, v in r.items() if k == "match_weight" or k.startswith(("gamma_", "bf_"))}
    return out


def fresh_reference(linker, world, state):
    """predict() of a fresh linker (new database, current data, saved model, same registered TF lookups)."""
    import json as _json

    from harness import impl

    model = _json.loads(_json.dumps(linker.misc.save_model_to_json(out_path=None)))
    api2 = impl.make_api(world["engine"], threads=2)
    w2 = dict(world, rows=current_rows(world, state))
    l2 = make_linker(w2, api2, settings=model)
    for col, table in state.get("lookups", {}).items():
        tdf = impl.typed_frame([{col: v, f"tf_{col}": t} for v, t in table.items()], {col: "str", f"tf_{col}": "float"})
        l2.table_management.register_term_frequency_lookup(tdf, col, overwrite=True)
    return predict_rows(l2)
