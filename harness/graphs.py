"""Graph generators shared by C05/C11/C12/C19 and the corpus loader."""
from __future__ import annotations

import itertools
import json
import random
from pathlib import Path

VERIF = Path(__file__).resolve().parent.parent


def all_graphs(n: int):
    """Every labelled simple graph on n nodes, as a list of edge lists."""
    pairs = list(itertools.combinations(range(n), 2))
    for mask in range(1 << len(pairs)):
        yield [pairs[k] for k in range(len(pairs)) if mask >> k & 1]


def order_perm(rng: random.Random, n: int, order: str) -> list[int]:
    """perm[i] = rank of node i (position of its id in sorted order)."""
    if order == "identity":
        return list(range(n))
    if order == "reversed":
        return list(range(n - 1, -1, -1))
    if order == "bitrev":
        bits = max(1, (n - 1).bit_length())
        keyed = sorted(range(n), key=lambda i: int(format(i, f"0{bits}b")[::-1], 2))
        perm = [0] * n
        for r, i in enumerate(keyed):
            perm[i] = r
        return perm
    if order == "zigzag":
        # 0, n-1, 1, n-2, ...
        seq, lo, hi = [], 0, n - 1
        while lo <= hi:
            seq.append(lo)
            if lo != hi:
                seq.append(hi)
            lo, hi = lo + 1, hi - 1
        return seq
    p = list(range(n))
    rng.shuffle(p)
    return p


def family(rng: random.Random, fam: str, n: int) -> list[tuple[int, int]]:
    if n <= 1:
        return []
    if fam == "path":
        return [(i, i + 1) for i in range(n - 1)]
    if fam == "cycle":
        return [(i, (i + 1) % n) for i in range(n)] if n > 2 else [(0, 1)]
    if fam == "star":
        c = rng.randrange(n)
        return [(c, i) for i in range(n) if i != c]
    if fam == "cliques":
        # cliques of size 2..5 joined (some of them) by single bridges
        out, start, firsts = [], 0, []
        while start < n:
            k = min(n - start, rng.randint(2, 5))
            out += [(start + a, start + b) for a in range(k) for b in range(a + 1, k)]
            firsts.append((start, start + k - 1))
            start += k
        for (a0, a1), (b0, b1) in zip(firsts, firsts[1:]):
            if rng.random() < 0.6:
                out.append((a1, b0))
        return out
    if fam == "caterpillar":
        spine = max(1, n // 2)
        out = [(i, i + 1) for i in range(spine - 1)]
        out += [(rng.randrange(spine), j) for j in range(spine, n)]
        return out
    if fam == "forest":
        out = []
        for i in range(1, n):
            if rng.random() < 0.8:
                out.append((rng.randrange(i), i))
        return out
    if fam == "grid":
        w = max(1, int(n**0.5))
        out = []
        for i in range(n):
            if (i + 1) % w and i + 1 < n:
                out.append((i, i + 1))
            if i + w < n:
                out.append((i, i + w))
        return out
    # gnp
    p = rng.choice([0.5, 1.0, 1.5, 2.5]) / max(1, n - 1)
    return [(a, b) for a in range(n) for b in range(a + 1, n) if rng.random() < p]


def load_corpus(prop: str) -> list[dict]:
    d = VERIF / "corpus" / prop
    out = []
    if d.exists():
        for f in sorted(d.glob("*.json")):
            c = json.loads(f.read_text())
            if "edges" in c:
                c["edges"] = [tuple(e) for e in c["edges"]]
            out.append(c)
    return out
