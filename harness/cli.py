"""./check <ID> --tier quick|thorough [--replay file]"""
from __future__ import annotations

import argparse
import importlib
import logging
import os
import sys
import traceback
import warnings


def all_splink_modules() -> list[str]:
    import importlib
    import pkgutil

    import splink.internals as pkg

    names = []
    for m in pkgutil.walk_packages(pkg.__path__, "splink.internals."):
        if any(x in m.name for x in (".spark", ".postgres", ".athena")):
            continue
        try:
            importlib.import_module(m.name)
            names.append(m.name)
        except Exception:  # noqa: BLE001  optional dependencies
            pass
    return names


def second_pass_with_shrunk_size_constants(ctx, mod):
    """The properties quantify over all input sizes, the generated inputs are small.  If the code under test has module-level size
    thresholds (chunk / batch sizes: integer constants >= 64 in splink/internals), the whole check is run once more with every one of
    them set to 3, so that small inputs lie beyond the thresholds.  The pinned tree has no such constant: then nothing happens."""
    from harness import impl

    mods = all_splink_modules()
    found = impl.size_constants(mods)
    ctx.count("size_constants_in_code", ", ".join(sorted(found)) or "none")
    if not found:
        return
    ctx.notes.append("size thresholds found in the code: " + ", ".join(f"{k} = {v}" for k, v in sorted(found.items())) + "; second pass with all of them set to 3")
    ctx.shrunk, ctx.shrunk_names = 3, sorted(found)
    try:
        with impl.shrunk_constants(mods, 3):
            mod.run(ctx)
    finally:
        ctx.shrunk = None


def main() -> int:
    ap = argparse.ArgumentParser()
    ap.add_argument("prop")
    ap.add_argument("--tier", default=os.environ.get("VERIF_TIER", "quick"), choices=["quick", "thorough"])
    ap.add_argument("--replay", default=None)
    ap.add_argument("--seed", type=int, default=None)
    a = ap.parse_args()
    seed = a.seed if a.seed is not None else int(os.environ.get("VERIF_SEED", "0") or 0)
    warnings.filterwarnings("ignore")
    logging.getLogger("splink").setLevel(logging.ERROR)
    logging.disable(logging.WARNING)
    from harness import core

    ctx = core.Ctx(a.prop.upper(), a.tier, seed, a.replay)
    try:
        mod = importlib.import_module(f"harness.props.{a.prop.lower()}")
    except ModuleNotFoundError:
        print(f"no check for {a.prop}", file=sys.stderr)
        return 2
    try:
        ctx.drift = core.mirror_drift(ctx.prop)
        shrink = None
        if a.replay:
            import json

            shrink = (json.loads(open(a.replay).read()).get("replay") or {}).get("shrunk_size_constants")
        if shrink:
            from harness import impl

            ctx.shrunk = shrink["value"]
            with impl.shrunk_constants(all_splink_modules(), shrink["value"]) as found:
                ctx.shrunk_names = sorted(found)
                mod.run(ctx)
        else:
            mod.run(ctx)
            if not a.replay:
                second_pass_with_shrunk_size_constants(ctx, mod)
        rc = ctx.finish()
    except Exception:  # harness error: exit 2, never a VIOLATION
        traceback.print_exc()
        rc = 2
    finally:
        core.cleanup_scratch()
    return rc


if __name__ == "__main__":
    sys.exit(main())
