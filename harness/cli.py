"""./check <ID> --tier quick|thorough [--replay file]"""
from __future__ import annotations

import argparse
import importlib
import logging
import os
import sys
import traceback
import warnings


def main() -> int:
    ap = argparse.ArgumentParser()
    ap.add_argument("prop")
    ap.add_argument("--tier", default=os.environ.get("VERIF_TIER", "quick"), choices=["quick", "thorough"])
    ap.add_argument("--replay", default=None)
    ap.add_argument("--seed", type=int, default=None)
    a = ap.parse_args()
    seed = a.seed if a.seed is not None else int(os.environ.get("VERIF_SEED", "0") or 0)
    warnings.filterwarnings("ignore")
    logging.getLogger("splink").setLevel(logging.ERROR)
    logging.disable(logging.WARNING)
    from harness import core

    ctx = core.Ctx(a.prop.upper(), a.tier, seed, a.replay)
    try:
        mod = importlib.import_module(f"harness.props.{a.prop.lower()}")
    except ModuleNotFoundError:
        print(f"no check for {a.prop}", file=sys.stderr)
        return 2
    try:
        ctx.drift = core.mirror_drift(ctx.prop)
        mod.run(ctx)
        rc = ctx.finish()
    except Exception:  # harness error: exit 2, never a VIOLATION
        traceback.print_exc()
        rc = 2
    finally:
        core.cleanup_scratch()
    return rc


if __name__ == "__main__":
    sys.exit(main())
