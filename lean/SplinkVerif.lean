-- Root of the `SplinkVerif` library: models, lemmas, property theorems.
import SplinkVerif.Model.Base
import SplinkVerif.Model.CC
import SplinkVerif.Model.MultiThreshold
import SplinkVerif.Model.Blocking
import SplinkVerif.Model.Score
import SplinkVerif.Model.ArithNum
import SplinkVerif.Generated.Arith
import SplinkVerif.Model.BlockingAnalysis
import SplinkVerif.Model.EM
import SplinkVerif.Model.Estimators
import SplinkVerif.Model.GraphMetrics
import SplinkVerif.Model.Cache
import SplinkVerif.Model.Descriptive
import SplinkVerif.Model.Accuracy
import SplinkVerif.Model.Serialise
import SplinkVerif.Model.Creators
import SplinkVerif.Generated.CreatorWrites
