import SplinkVerif.Drv.CC
import SplinkVerif.Drv.CCSql
import SplinkVerif.Drv.BCountSql
import SplinkVerif.Drv.MultiThreshold
import SplinkVerif.Drv.Blocking
import SplinkVerif.Drv.BlockSql
import SplinkVerif.Drv.Score
import SplinkVerif.Drv.Arith
import SplinkVerif.Drv.BlockingAnalysis
import SplinkVerif.Drv.EM
import SplinkVerif.Drv.Estimators
import SplinkVerif.Drv.Cache
import SplinkVerif.Drv.GraphMetrics
import SplinkVerif.Drv.Descriptive
import SplinkVerif.Drv.Accuracy
import SplinkVerif.Drv.Serialise
import SplinkVerif.Drv.Creators
import SplinkVerif.Drv.Entry
import SplinkVerif.Drv.OneToOne
import SplinkVerif.Drv.OtoSql
import SplinkVerif.Drv.ScoreSql
import SplinkVerif.Drv.Tables
import SplinkVerif.Drv.Levels
/-! Line-protocol driver: one JSON object per input line, one JSON object per output line. -/
open Lean SplinkVerif.Drv

def dispatch (j : Json) : Except String Json := do
  let op ← getStr j "op"
  match op with
  | "cc" => handleCC j
  | "cc_sql" => handleCCSql j
  | "multi_sql" => handleMultiSql j
  | "gm_sql" => handleGMSql j
  | "bcount_sql" => handleBCountSql j
  | "multi" => handleMulti j
  | "block" => handleBlock j
  | "block_sql" => handleBlockSql j
  | "score" => handleScore j
  | "arith" => handleArith j
  | "blockanalysis" => handleBlockAnalysis j
  | "em_step" => handleEMStep j
  | "em_run" => handleEMRun j
  | "em_misc" => handleEMMisc j
  | "estim" => handleEstim j
  | "cache_trace" => handleCacheTrace j
  | "graphmetrics" => handleGraphMetrics j
  | "descriptive" => handleDescriptive j
  | "acc_truth" => handleAccTruth j
  | "acc_sql" => handleAccSql j
  | "acc_errors" => handleAccErrors j
  | "acc_prepare" => handleAccPrepare j
  | "ser_save" => handleSerSave j
  | "ser_load" => handleSerLoad j
  | "creator_calls" => handleCreatorCalls j
  | "entry" => handleEntry j
  | "sbl" => handleSBL j
  | "sbl_all" => handleSBLAll j
  | "oto_sql" => handleOtoSql j
  | "score_sql" => handleScoreSql j
  | "tables_trace" => handleTablesTrace j
  | "levels_sat" => handleLevelsSat j
  | "levels_metric" => handleLevelsMetric j
  | "ping" => pure (Json.mkObj [("pong", Json.bool true)])
  | _ => throw s!"unknown op {op}"

partial def loop (hin hout : IO.FS.Stream) : IO Unit := do
  let line ← hin.getLine
  if line.isEmpty then return ()
  let out := match Json.parse line >>= dispatch with
    | .ok j => j.compress
    | .error e => (Json.mkObj [("error", Json.str e)]).compress
  hout.putStrLn out
  loop hin hout

def main : IO Unit := do
  let hin ← IO.getStdin
  let hout ← IO.getStdout
  loop hin hout
  hout.flush
