import SplinkVerif.Lemmas.Blocking
import SplinkVerif.Lemmas.CC
/-!
# Helper lemmas for C13 (invariance under re-presentation) — blocking and clustering

Everything here is a corollary of the exactness theorem of blocking
(`Blk.mem_block`: a row is emitted iff admissible ∧ first TRUE rule) and of the
characterisation of clusters by reachability (`same_cluster_iff_reach`,
`cluster_is_min_reachable`): the characterising conditions are equivariant under
the re-presentations, hence so are the outputs.
-/
namespace SplinkVerif.Lemmas.Inv
open SplinkVerif SplinkVerif.Blocking SplinkVerif.Lemmas.Blk

/-! ## Transport of a table and of rules along a relabelling of record indices -/

/-- The table whose record `i` is record `σ i` of `t` (records listed in another order). -/
def transportTable (t : Table) (σ : Nat → Nat) : Table :=
  { m := t.m, key := fun i => t.key (σ i), sd := fun i => t.sd (σ i),
    part := fun i n => t.part (σ i) n }

/-- The same rule, seen on the re-listed records. -/
def transportRule (σ : Nat → Nat) (q : Rule) : Rule :=
  { kind := q.kind, eval := fun l r => q.eval (σ l) (σ r) }

theorem whereCond_transport (lt : LinkType) (t : Table) (σ : Nat → Nat) (l r : Nat) :
    whereCond lt (transportTable t σ) l r = whereCond lt t (σ l) (σ r) := by
  cases lt <;> rfl

theorem holds_transport (rules : List Rule) (σ : Nat → Nat) (i l r : Nat) :
    holds (rules.map (transportRule σ)) i l r ↔ holds rules i (σ l) (σ r) := by
  unfold holds
  simp only [List.getElem?_map, Option.map_eq_some_iff]
  constructor
  · rintro ⟨rule, ⟨q, hq, rfl⟩, ht⟩
    exact ⟨q, hq, ht⟩
  · rintro ⟨q, hq, ht⟩
    exact ⟨transportRule σ q, ⟨q, hq, rfl⟩, ht⟩

theorem saltOK_transport (t : Table) (rules : List Rule) (σ : Nat → Nat)
    (hσ : ∀ i, i < t.m → σ i < t.m) (h : SaltOK t rules) :
    SaltOK (transportTable t σ) (rules.map (transportRule σ)) := by
  intro r hr n hk
  obtain ⟨q, hq, rfl⟩ := List.mem_map.mp hr
  obtain ⟨h1, h2⟩ := h q hq n hk
  exact ⟨h1, fun i hi => h2 (σ i) (hσ i hi)⟩

theorem block_row_perm (lt : LinkType) (t : Table) (rules : List Rule) (σ : Nat → Nat)
    (hlt : SelfJoin lt) (hsalt : SaltOK t rules)
    (hσ : ∀ i, σ i < t.m ↔ i < t.m) (i l r : Nat) :
    (i, l, r) ∈ block lt (transportTable t σ) (rules.map (transportRule σ)) ↔
      (i, σ l, σ r) ∈ block lt t rules := by
  by_cases hne : rules = []
  · subst hne
    rw [List.map_nil, mem_block_nil lt _ hlt, mem_block_nil lt _ hlt, whereCond_transport]
    show i = 0 ∧ l < t.m ∧ r < t.m ∧ _ ↔ _
    rw [hσ l, hσ r]
  · have hne' : rules.map (transportRule σ) ≠ [] := by simpa using hne
    have hs' := saltOK_transport t rules σ (fun i hi => (hσ i).mpr hi) hsalt
    rw [mem_block lt _ _ hlt hne' hs', mem_block lt t rules hlt hne hsalt, whereCond_transport]
    simp only [holds_transport]
    show l < t.m ∧ r < t.m ∧ _ ↔ _
    rw [hσ l, hσ r]

/-- With an inverse `τ` on the range, every row of the original output is reached. -/
theorem block_row_perm_inv (lt : LinkType) (t : Table) (rules : List Rule) (σ τ : Nat → Nat)
    (hlt : SelfJoin lt) (hsalt : SaltOK t rules)
    (hσ : ∀ i, σ i < t.m ↔ i < t.m) (hτ : ∀ i, i < t.m → σ (τ i) = i) (i l r : Nat) :
    (i, l, r) ∈ block lt t rules ↔
      l < t.m ∧ r < t.m ∧
        (i, τ l, τ r) ∈ block lt (transportTable t σ) (rules.map (transportRule σ)) := by
  constructor
  · intro h
    have hl : l < t.m := by
      by_cases hne : rules = []
      · subst hne; exact ((mem_block_nil lt t hlt i l r).mp h).2.1
      · exact ((mem_block lt t rules hlt hne hsalt i l r).mp h).1
    have hr : r < t.m := by
      by_cases hne : rules = []
      · subst hne; exact ((mem_block_nil lt t hlt i l r).mp h).2.2.1
      · exact ((mem_block lt t rules hlt hne hsalt i l r).mp h).2.1
    refine ⟨hl, hr, ?_⟩
    rw [block_row_perm lt t rules σ hlt hsalt hσ, hτ l hl, hτ r hr]
    exact h
  · rintro ⟨hl, hr, h⟩
    rw [block_row_perm lt t rules σ hlt hsalt hσ, hτ l hl, hτ r hr] at h
    exact h

/-! ## Rule reordering -/

theorem exists_holds_iff (rules : List Rule) (l r : Nat) :
    (∃ i, holds rules i l r) ↔ ∃ q ∈ rules, B3.isTrue (q.eval l r) = true := by
  unfold holds
  constructor
  · rintro ⟨i, q, hq, ht⟩
    exact ⟨q, List.mem_of_getElem? hq, ht⟩
  · rintro ⟨q, hq, ht⟩
    obtain ⟨i, hi⟩ := List.getElem?_of_mem hq
    exact ⟨i, q, hi, ht⟩

/-- The pair `(l, r)` is emitted (under some `match_key`) iff it is admissible and some rule is TRUE. -/
theorem exists_mem_block (lt : LinkType) (t : Table) (rules : List Rule)
    (hlt : SelfJoin lt) (hne : rules ≠ []) (hsalt : SaltOK t rules) (l r : Nat) :
    (∃ i, (i, l, r) ∈ block lt t rules) ↔
      l < t.m ∧ r < t.m ∧ whereCond lt t l r = true ∧
        ∃ q ∈ rules, B3.isTrue (q.eval l r) = true := by
  rw [← exists_holds_iff]
  constructor
  · rintro ⟨i, h⟩
    obtain ⟨h1, h2, h3, h4, _⟩ := (mem_block lt t rules hlt hne hsalt i l r).mp h
    exact ⟨h1, h2, h3, i, h4⟩
  · rintro ⟨h1, h2, h3, i, h4⟩
    obtain ⟨k, hk1, hk2⟩ := exists_first_of_holds rules l r i h4
    exact ⟨k, (mem_block lt t rules hlt hne hsalt k l r).mpr ⟨h1, h2, h3, hk1, hk2⟩⟩

theorem saltOK_perm {t : Table} {rules rules' : List Rule} (hp : rules.Perm rules')
    (h : SaltOK t rules) : SaltOK t rules' :=
  fun r hr => h r (hp.mem_iff.mpr hr)

theorem block_rule_reorder (lt : LinkType) (t : Table) (rules rules' : List Rule)
    (hlt : SelfJoin lt) (hsalt : SaltOK t rules) (hp : rules.Perm rules') (l r : Nat) :
    (∃ i, (i, l, r) ∈ block lt t rules) ↔ (∃ i, (i, l, r) ∈ block lt t rules') := by
  by_cases hne : rules = []
  · subst hne
    have : rules' = [] := List.Perm.eq_nil (List.Perm.symm hp)
    subst this
    exact Iff.rfl
  · have hne' : rules' ≠ [] := fun h => hne (by subst h; exact List.Perm.eq_nil hp)
    rw [exists_mem_block lt t rules hlt hne hsalt,
      exists_mem_block lt t rules' hlt hne' (saltOK_perm hp hsalt)]
    simp only [hp.mem_iff]

/-! ## Salting: partition counts and salts are irrelevant -/

/-- Same records, ids and source datasets; another assignment of salts. -/
def withPart (t : Table) (part : Nat → Nat → Nat) : Table := { t with part := part }

theorem whereCond_withPart (lt : LinkType) (t : Table) (part : Nat → Nat → Nat) (l r : Nat) :
    whereCond lt (withPart t part) l r = whereCond lt t l r := by
  cases lt <;> rfl

theorem block_resalt (lt : LinkType) (t : Table) (part : Nat → Nat → Nat)
    (rules rules' : List Rule) (hlt : SelfJoin lt)
    (hsalt : SaltOK t rules) (hsalt' : SaltOK (withPart t part) rules')
    (hev : rules.map (·.eval) = rules'.map (·.eval)) :
    (block lt t rules).Perm (block lt (withPart t part) rules') := by
  by_cases hne : rules = []
  · subst hne
    have : rules' = [] := by simpa using hev.symm
    subst this
    apply (List.perm_ext_iff_of_nodup (block_nodup_rows lt t [])
      (block_nodup_rows lt (withPart t part) [])).mpr
    rintro ⟨i, l, r⟩
    rw [mem_block_nil lt t hlt, mem_block_nil lt _ hlt, whereCond_withPart]
    exact Iff.rfl
  · have hne' : rules' ≠ [] := by
      intro h
      subst h
      exact hne (by simpa using hev)
    apply (List.perm_ext_iff_of_nodup (block_nodup_rows lt t rules)
      (block_nodup_rows lt (withPart t part) rules')).mpr
    rintro ⟨i, l, r⟩
    rw [mem_block lt t rules hlt hne hsalt, mem_block lt _ rules' hlt hne' hsalt',
      whereCond_withPart]
    simp only [holds_congr hev]
    exact Iff.rfl

/-! ## Relabelling of unique ids -/

/-- Same records, other ids. -/
def withKey (t : Table) (key : Nat → Nat) : Table := { t with key := key }

theorem whereCond_mono (lt : LinkType) (t : Table) (f : Nat → Nat)
    (hf : ∀ a b, a < b → f a < f b) (l r : Nat) :
    whereCond lt (withKey t fun i => f (t.key i)) l r = whereCond lt t l r := by
  have hiff : ∀ a b, (f a < f b) ↔ a < b := by
    intro a b
    constructor
    · intro h
      rcases Nat.lt_trichotomy a b with h' | h' | h'
      · exact h'
      · subst h'; exact absurd h (Nat.lt_irrefl _)
      · exact absurd (Nat.lt_trans h (hf b a h')) (Nat.lt_irrefl _)
    · exact hf a b
  cases lt <;> simp [whereCond, withKey, hiff]

theorem rulePairs_congr (lt : LinkType) (t t' : Table) (pre : List Done) (rule : Rule)
    (hm : t'.m = t.m) (hsd : t'.sd = t.sd) (hpart : t'.part = t.part)
    (hw : ∀ l r, whereCond lt t' l r = whereCond lt t l r) :
    rulePairs lt t' pre rule = rulePairs lt t pre rule := by
  have hmin : minSd t' = minSd t := by unfold minSd; rw [hm, hsd]
  have hL : leftTable lt t' = leftTable lt t := by
    unfold leftTable; cases lt <;> simp only [hm, hsd, hmin]
  have hR : rightTable lt t' = rightTable lt t := by
    unfold rightTable; cases lt <;> simp only [hm, hsd, hmin]
  unfold rulePairs
  cases rule.kind <;> simp only [hL, hR, hw, hm, hsd, hpart]

theorem blockFrom_congr (lt : LinkType) (t t' : Table)
    (hm : t'.m = t.m) (hsd : t'.sd = t.sd) (hpart : t'.part = t.part)
    (hw : ∀ l r, whereCond lt t' l r = whereCond lt t l r) :
    ∀ (rules : List Rule) (pre : List Done), blockFrom lt t' pre rules = blockFrom lt t pre rules := by
  intro rules
  induction rules with
  | nil => intro pre; rfl
  | cons q rest ih =>
    intro pre
    simp only [blockFrom, rulePairs_congr lt t t' pre q hm hsd hpart hw, ih]

theorem block_key_mono (lt : LinkType) (t : Table) (rules : List Rule) (f : Nat → Nat)
    (hf : ∀ a b, a < b → f a < f b) :
    block lt (withKey t fun i => f (t.key i)) rules = block lt t rules := by
  unfold block
  exact blockFrom_congr lt t (withKey t fun i => f (t.key i)) rfl rfl rfl
    (whereCond_mono lt t f hf) _ _

/-- A rule list is symmetric in `l`/`r`. -/
def SymRules (rules : List Rule) : Prop := ∀ q ∈ rules, ∀ l r, q.eval l r = q.eval r l

theorem holds_symm {rules : List Rule} (hs : SymRules rules) (i l r : Nat) :
    holds rules i l r ↔ holds rules i r l := by
  unfold holds
  constructor <;>
  · rintro ⟨q, hq, ht⟩
    exact ⟨q, hq, by rw [hs q (List.mem_of_getElem? hq)] at ht; exact ht⟩

/-- Orientation-free characterisation of the output for symmetric rules: it does not mention the
order of the keys at all. -/
theorem mem_block_unordered (lt : LinkType) (t : Table) (rules : List Rule)
    (hlt : SelfJoin lt) (hne : rules ≠ []) (hsalt : SaltOK t rules) (hwf : WFKeys t)
    (hs : SymRules rules) (i l r : Nat) :
    ((i, l, r) ∈ block lt t rules ∨ (i, r, l) ∈ block lt t rules) ↔
      l < t.m ∧ r < t.m ∧ l ≠ r ∧ (lt = .linkOnly → t.sd l ≠ t.sd r) ∧
        holds rules i l r ∧ ∀ j, j < i → ¬ holds rules j l r := by
  have key_of : ∀ a b, whereCond lt t a b = true →
      t.key a < t.key b ∧ (lt = .linkOnly → t.sd a ≠ t.sd b) := by
    intro a b h
    cases lt <;> simp_all [whereCond, SelfJoin]
  have of_key : ∀ a b, t.key a < t.key b → (lt = .linkOnly → t.sd a ≠ t.sd b) →
      whereCond lt t a b = true := by
    intro a b h1 h2
    cases lt <;> simp_all [whereCond, SelfJoin]
  constructor
  · rintro (h | h)
    · obtain ⟨h1, h2, h3, h4, h5⟩ := (mem_block lt t rules hlt hne hsalt i l r).mp h
      obtain ⟨hk, hsd⟩ := key_of l r h3
      exact ⟨h1, h2, fun e => by subst e; exact Nat.lt_irrefl _ hk, hsd, h4, h5⟩
    · obtain ⟨h1, h2, h3, h4, h5⟩ := (mem_block lt t rules hlt hne hsalt i r l).mp h
      obtain ⟨hk, hsd⟩ := key_of r l h3
      exact ⟨h2, h1, fun e => by subst e; exact Nat.lt_irrefl _ hk,
        fun e h' => hsd e h'.symm, (holds_symm hs i r l).mp h4,
        fun j hj h' => h5 j hj ((holds_symm hs j l r).mp h')⟩
  · rintro ⟨h1, h2, hne', hsd, h4, h5⟩
    have hk : t.key l ≠ t.key r := fun h => hne' (hwf l r h1 h2 h)
    rcases Nat.lt_or_gt_of_ne hk with h | h
    · exact Or.inl ((mem_block lt t rules hlt hne hsalt i l r).mpr
        ⟨h1, h2, of_key l r h hsd, h4, h5⟩)
    · exact Or.inr ((mem_block lt t rules hlt hne hsalt i r l).mpr
        ⟨h2, h1, of_key r l h (fun e h' => hsd e h'.symm), (holds_symm hs i l r).mp h4,
          fun j hj h' => h5 j hj ((holds_symm hs j r l).mp h')⟩)

theorem block_key_bijection (lt : LinkType) (t : Table) (key' : Nat → Nat) (rules : List Rule)
    (hlt : SelfJoin lt) (hne : rules ≠ []) (hsalt : SaltOK t rules)
    (hwf : WFKeys t) (hwf' : WFKeys (withKey t key')) (hs : SymRules rules) (i l r : Nat) :
    ((i, l, r) ∈ block lt (withKey t key') rules ∨ (i, r, l) ∈ block lt (withKey t key') rules) ↔
      ((i, l, r) ∈ block lt t rules ∨ (i, r, l) ∈ block lt t rules) := by
  rw [mem_block_unordered lt t rules hlt hne hsalt hwf hs,
    mem_block_unordered lt (withKey t key') rules hlt hne hsalt hwf' hs]
  exact Iff.rfl

/-! ## Clustering under a relabelling of the nodes -/

open SplinkVerif.CC

/-- The edge list with both endpoints relabelled. -/
def mapEdges (σ : Nat → Nat) (edges : List Edge) : List Edge := edges.map fun e => (σ e.1, σ e.2)

theorem mapEdges_bound (n : Nat) (edges : List Edge) (σ : Nat → Nat)
    (hE : ∀ e ∈ edges, e.1 < n ∧ e.2 < n) (hσ : ∀ i, i < n → σ i < n) :
    ∀ e ∈ mapEdges σ edges, e.1 < n ∧ e.2 < n := by
  intro e he
  obtain ⟨e0, he0, rfl⟩ := List.mem_map.mp he
  exact ⟨hσ _ (hE e0 he0).1, hσ _ (hE e0 he0).2⟩

theorem adj_map (n : Nat) (edges : List Edge) (σ : Nat → Nat) (hσ : ∀ i, i < n → σ i < n)
    (a b : Nat) (h : Adj n edges a b) : Adj n (mapEdges σ edges) (σ a) (σ b) := by
  obtain ⟨ha, hb, h⟩ := h
  refine ⟨hσ a ha, hσ b hb, ?_⟩
  rcases h with h | h
  · exact Or.inl (List.mem_map.mpr ⟨(a, b), h, rfl⟩)
  · exact Or.inr (List.mem_map.mpr ⟨(b, a), h, rfl⟩)

theorem adj_unmap (n : Nat) (edges : List Edge) (σ τ : Nat → Nat)
    (hE : ∀ e ∈ edges, e.1 < n ∧ e.2 < n) (hτ : ∀ i, i < n → τ i < n)
    (hτσ : ∀ i, i < n → τ (σ i) = i)
    (a b : Nat) (h : Adj n (mapEdges σ edges) a b) : Adj n edges (τ a) (τ b) := by
  obtain ⟨ha, hb, h⟩ := h
  refine ⟨hτ a ha, hτ b hb, ?_⟩
  rcases h with h | h
  · obtain ⟨e, he, heq⟩ := List.mem_map.mp h
    have e1 : σ e.1 = a := congrArg Prod.fst heq
    have e2 : σ e.2 = b := congrArg Prod.snd heq
    left
    rw [← e1, ← e2, hτσ _ (hE e he).1, hτσ _ (hE e he).2]
    exact he
  · obtain ⟨e, he, heq⟩ := List.mem_map.mp h
    have e1 : σ e.1 = b := congrArg Prod.fst heq
    have e2 : σ e.2 = a := congrArg Prod.snd heq
    right
    rw [← e1, ← e2, hτσ _ (hE e he).1, hτσ _ (hE e he).2]
    exact he

theorem reach_map {adj adj' : Nat → Nat → Prop} (f : Nat → Nat)
    (h : ∀ a b, adj a b → adj' (f a) (f b)) {i j : Nat} (hr : Reach adj i j) :
    Reach adj' (f i) (f j) := by
  induction hr with
  | refl => exact Reach.refl _
  | tail _ hjk ih => exact Reach.tail ih (h _ _ hjk)

/-- Reachability is preserved and reflected by a graph isomorphism. -/
theorem reach_iso (n : Nat) (edges : List Edge) (σ τ : Nat → Nat)
    (hE : ∀ e ∈ edges, e.1 < n ∧ e.2 < n)
    (hσ : ∀ i, i < n → σ i < n) (hτ : ∀ i, i < n → τ i < n)
    (hτσ : ∀ i, i < n → τ (σ i) = i) (i j : Nat) (hi : i < n) (hj : j < n) :
    Reach (Adj n (mapEdges σ edges)) (σ i) (σ j) ↔ Reach (Adj n edges) i j := by
  constructor
  · intro h
    have := reach_map (adj' := Adj n edges) τ (adj_unmap n edges σ τ hE hτ hτσ) h
    rw [hτσ i hi, hτσ j hj] at this
    exact this
  · exact reach_map σ (adj_map n edges σ hσ)

theorem cc_partition_relabel (n : Nat) (edges : List Edge) (σ τ : Nat → Nat)
    (hE : ∀ e ∈ edges, e.1 < n ∧ e.2 < n)
    (hσ : ∀ i, i < n → σ i < n) (hτ : ∀ i, i < n → τ i < n)
    (hτσ : ∀ i, i < n → τ (σ i) = i)
    (i j ci cj ci' cj' : Nat)
    (hi : (i, ci) ∈ cluster n edges) (hj : (j, cj) ∈ cluster n edges)
    (hi' : (σ i, ci') ∈ cluster n (mapEdges σ edges))
    (hj' : (σ j, cj') ∈ cluster n (mapEdges σ edges)) :
    ci' = cj' ↔ ci = cj := by
  have hE' := mapEdges_bound n edges σ hE hσ
  rw [same_cluster_iff_reach n _ hE' _ _ _ _ hi' hj', same_cluster_iff_reach n edges hE _ _ _ _ hi hj]
  exact reach_iso n edges σ τ hE hσ hτ hτσ i j (mem_cluster n edges hE i ci hi).1
    (mem_cluster n edges hE j cj hj).1

/-- If the relabelling is monotone *within every connected component* (in particular if it is
order preserving), cluster ids are relabelled with the nodes. -/
theorem cc_relabel_mono (n : Nat) (edges : List Edge) (σ τ : Nat → Nat)
    (hE : ∀ e ∈ edges, e.1 < n ∧ e.2 < n)
    (hσ : ∀ i, i < n → σ i < n) (hτ : ∀ i, i < n → τ i < n)
    (hτσ : ∀ i, i < n → τ (σ i) = i) (hστ : ∀ i, i < n → σ (τ i) = i)
    (hmono : ∀ a b, Reach (Adj n edges) a b → a ≤ b → σ a ≤ σ b)
    (i c c' : Nat) (hi : (i, c) ∈ cluster n edges)
    (hi' : (σ i, c') ∈ cluster n (mapEdges σ edges)) : c' = σ c := by
  have hE' := mapEdges_bound n edges σ hE hσ
  obtain ⟨hr, hmin⟩ := cluster_is_min_reachable n edges hE i c hi
  obtain ⟨hr', hmin'⟩ := cluster_is_min_reachable n _ hE' (σ i) c' hi'
  have hin : i < n := (mem_cluster n edges hE i c hi).1
  -- every node reachable from a node `< n` is `< n`
  have bound : ∀ {adj : Nat → Nat → Prop} (_ : ∀ a b, adj a b → b < n) {a b : Nat},
      a < n → Reach adj a b → b < n := by
    intro adj hadj a b ha h
    induction h with
    | refl => exact ha
    | tail _ hjk _ => exact hadj _ _ hjk
  have hcn : c < n := bound (fun a b h => h.2.1) hin hr
  have hc'n : c' < n := bound (fun a b h => h.2.1) (hσ i hin) hr'
  -- `σ c` is reachable from `σ i`
  have h1 : c' ≤ σ c := hmin' _ (reach_map σ (adj_map n edges σ hσ) hr)
  -- `τ c'` is reachable from `i`
  have h2 : Reach (Adj n edges) i (τ c') := by
    have := reach_map (adj' := Adj n edges) τ (adj_unmap n edges σ τ hE hτ hτσ) hr'
    rw [hτσ i hin] at this
    exact this
  have h3 : c ≤ τ c' := hmin _ h2
  have h4 : Reach (Adj n edges) c (τ c') :=
    reach_trans (reach_symm (adj_symm n edges) hr) h2
  have h5 : σ c ≤ σ (τ c') := hmono _ _ h4 h3
  rw [hστ c' hc'n] at h5
  exact Nat.le_antisymm h1 h5

end SplinkVerif.Lemmas.Inv
