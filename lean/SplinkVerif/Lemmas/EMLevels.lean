import SplinkVerif.Model.EM
import Mathlib.Data.List.Basic
/-!
# Helper lemmas for C03 (EM): `levelsToReverse`

* `insertByLenDesc_perm`, `sortByLenDesc_perm`: the stable sort is a permutation;
* `aux_sublist`, `aux_mem`, `aux_disj`: invariants of the greedy choice;
* `levelsToReverse_sound`, `levelsToReverse_single`.
-/
namespace SplinkVerif.Lemmas.EM
open SplinkVerif SplinkVerif.EM

theorem insertByLenDesc_perm {β : Type} (x : Nat × List β) :
    ∀ l : List (Nat × List β), (insertByLenDesc x l).Perm (x :: l)
  | [] => List.Perm.refl _
  | y :: ys => by
    unfold insertByLenDesc
    split
    · exact List.Perm.refl _
    · exact ((insertByLenDesc_perm x ys).cons y).trans (List.Perm.swap x y ys)

theorem foldl_insert_perm {β : Type} (xs : List (Nat × List β)) :
    ∀ acc : List (Nat × List β),
      (xs.foldl (fun acc x => insertByLenDesc x acc) acc).Perm (acc ++ xs) := by
  induction xs with
  | nil => intro acc; simp
  | cons x xs ih =>
    intro acc
    rw [List.foldl_cons]
    refine (ih _).trans ?_
    refine ((insertByLenDesc_perm x acc).append_right xs).trans ?_
    simpa using (List.perm_middle (a := x) (l₁ := acc) (l₂ := xs)).symm

theorem sortByLenDesc_perm {β : Type} (xs : List (Nat × List β)) : (sortByLenDesc xs).Perm xs := by
  unfold sortByLenDesc
  simpa using foldl_insert_perm xs []

/-! ## The greedy choice -/

theorem aux_sublist (l : List (Nat × List Nat)) :
    ∀ rem : List Nat, (levelsToReverseAux l rem).Sublist (l.map Prod.fst) := by
  induction l with
  | nil => intro rem; simp [levelsToReverseAux]
  | cons x rest ih =>
    intro rem
    obtain ⟨k, cols⟩ := x
    unfold levelsToReverseAux
    split
    · exact (ih _).cons_cons k
    · exact (ih _).cons k

theorem aux_mem (l : List (Nat × List Nat)) :
    ∀ (rem : List Nat) (i : Nat), i ∈ levelsToReverseAux l rem →
      ∃ cols, (i, cols) ∈ l ∧ ∀ c ∈ cols, c ∈ rem := by
  induction l with
  | nil => intro rem i h; simp [levelsToReverseAux] at h
  | cons x rest ih =>
    intro rem i h
    obtain ⟨k, cols⟩ := x
    unfold levelsToReverseAux at h
    split at h
    · next hall =>
      rcases List.mem_cons.mp h with rfl | h'
      · refine ⟨cols, List.mem_cons_self .., ?_⟩
        intro c hc
        have := List.all_eq_true.mp hall c hc
        exact List.contains_iff_mem.mp this
      · obtain ⟨cs, hm, hsub⟩ := ih _ i h'
        refine ⟨cs, List.mem_cons_of_mem _ hm, ?_⟩
        intro c hc
        exact (List.mem_filter.mp (hsub c hc)).1
    · obtain ⟨cs, hm, hsub⟩ := ih _ i h
      exact ⟨cs, List.mem_cons_of_mem _ hm, hsub⟩

theorem snd_unique (l : List (Nat × List Nat)) (hn : (l.map Prod.fst).Nodup) (i : Nat)
    (a b : List Nat) (ha : (i, a) ∈ l) (hb : (i, b) ∈ l) : a = b := by
  induction l with
  | nil => simp at ha
  | cons x rest ih =>
    rw [List.map_cons, List.nodup_cons] at hn
    rcases List.mem_cons.mp ha with ha | ha <;> rcases List.mem_cons.mp hb with hb | hb
    · rw [← ha] at hb
      exact (Prod.mk.inj hb).2.symm
    · exact absurd (List.mem_map.mpr ⟨(i, b), hb, by rw [← ha]⟩) hn.1
    · exact absurd (List.mem_map.mpr ⟨(i, a), ha, by rw [← hb]⟩) hn.1
    · exact ih hn.2 ha hb

/-- columns of a level chosen later avoid the columns of a level chosen earlier -/
theorem aux_later_avoid (rest : List (Nat × List Nat)) (hn : (rest.map Prod.fst).Nodup)
    (rem cols : List Nat) (j : Nat) (cj : List Nat)
    (hj : j ∈ levelsToReverseAux rest (rem.filter fun c => !cols.contains c))
    (hcj : (j, cj) ∈ rest) : ∀ c ∈ cj, c ∉ cols := by
  obtain ⟨cj', hm, hsub⟩ := aux_mem rest _ j hj
  have : cj' = cj := snd_unique rest hn j cj' cj hm hcj
  subst this
  intro c hc hcc
  have := (List.mem_filter.mp (hsub c hc)).2
  simp [hcc] at this

theorem aux_disj (l : List (Nat × List Nat)) :
    ∀ (rem : List Nat), (l.map Prod.fst).Nodup →
      ∀ i j ci cj, i ∈ levelsToReverseAux l rem → j ∈ levelsToReverseAux l rem → i ≠ j →
        (i, ci) ∈ l → (j, cj) ∈ l → ∀ c ∈ ci, c ∉ cj := by
  induction l with
  | nil => intro rem _ i j ci cj hi; simp [levelsToReverseAux] at hi
  | cons x rest ih =>
    intro rem hn i j ci cj hi hj hij hci hcj
    obtain ⟨k, cols⟩ := x
    rw [List.map_cons, List.nodup_cons] at hn
    have hne : ∀ (rem' : List Nat) (a : Nat), a ∈ levelsToReverseAux rest rem' → a ≠ k := by
      intro rem' a ha hak
      exact hn.1 (hak ▸ (aux_sublist rest rem').subset ha)
    have hrest : ∀ (a : Nat) (ca : List Nat), a ≠ k → (a, ca) ∈ (k, cols) :: rest →
        (a, ca) ∈ rest := by
      intro a ca hak hm
      rcases List.mem_cons.mp hm with h | h
      · exact absurd (Prod.mk.inj h).1 hak
      · exact h
    have hhead : ∀ (ca : List Nat), (k, ca) ∈ (k, cols) :: rest → ca = cols := by
      intro ca hm
      rcases List.mem_cons.mp hm with h | h
      · exact (Prod.mk.inj h).2
      · exact absurd (List.mem_map.mpr ⟨(k, ca), h, rfl⟩) hn.1
    unfold levelsToReverseAux at hi hj
    split at hi
    · next hall =>
      rw [if_pos hall] at hj
      rcases List.mem_cons.mp hi with hi1 | hi2 <;> rcases List.mem_cons.mp hj with hj1 | hj2
      · exact absurd (hi1.trans hj1.symm) hij
      · -- i = k chosen first, j later
        subst hi1
        have := hhead ci hci
        subst this
        intro c hc hcc
        exact aux_later_avoid rest hn.2 rem ci j cj hj2 (hrest j cj (hne _ j hj2) hcj) c hcc hc
      · subst hj1
        have := hhead cj hcj
        subst this
        exact aux_later_avoid rest hn.2 rem cj i ci hi2 (hrest i ci (hne _ i hi2) hci)
      · exact ih _ hn.2 i j ci cj hi2 hj2 hij (hrest i ci (hne _ i hi2) hci)
          (hrest j cj (hne _ j hj2) hcj)
    · next hall =>
      rw [if_neg hall] at hj
      exact ih _ hn.2 i j ci cj hi hj hij (hrest i ci (hne _ i hi) hci)
        (hrest j cj (hne _ j hj) hcj)

/-! ## Indexing -/

theorem mem_range_zip (levels : List (List Nat)) (i : Nat) (cols : List Nat) :
    (i, cols) ∈ (List.range levels.length).zip levels ↔ levels[i]? = some cols := by
  rw [List.mem_iff_getElem?]
  constructor
  · rintro ⟨n, hn⟩
    rw [List.getElem?_zip_eq_some] at hn
    obtain ⟨h1, h2⟩ := hn
    simp only at h1 h2
    have : n = i := by
      rcases Nat.lt_or_ge n levels.length with hlt | hge
      · rw [List.getElem?_range hlt] at h1
        exact Option.some.inj h1
      · rw [List.getElem?_eq_none (by simpa using hge)] at h1
        exact absurd h1 (by simp)
    subst this
    exact h2
  · intro h
    refine ⟨i, ?_⟩
    rw [List.getElem?_zip_eq_some]
    have hlt : i < levels.length := by
      rcases Nat.lt_or_ge i levels.length with hlt | hge
      · exact hlt
      · rw [List.getElem?_eq_none hge] at h
        exact absurd h (by simp)
    exact ⟨by simp [List.getElem?_range hlt], h⟩

theorem fst_range_zip (levels : List (List Nat)) :
    ((List.range levels.length).zip levels).map Prod.fst = List.range levels.length := by
  rw [List.map_fst_zip]
  simp

theorem sorted_nodup (levels : List (List Nat)) :
    ((sortByLenDesc ((List.range levels.length).zip levels)).map Prod.fst).Nodup := by
  have hp := (sortByLenDesc_perm ((List.range levels.length).zip levels)).map Prod.fst
  rw [hp.nodup_iff, fst_range_zip]
  exact List.nodup_range

theorem mem_sorted (levels : List (List Nat)) (i : Nat) (cols : List Nat) :
    (i, cols) ∈ sortByLenDesc ((List.range levels.length).zip levels) ↔
      levels[i]? = some cols := by
  rw [(sortByLenDesc_perm _).mem_iff, mem_range_zip]

theorem levelsToReverse_sound (levels : List (List Nat)) (ruleCols : List Nat) :
    (∀ i ∈ levelsToReverse levels ruleCols,
      ∃ cols, levels[i]? = some cols ∧ ∀ c ∈ cols, c ∈ ruleCols) ∧
    (levelsToReverse levels ruleCols).Nodup ∧
    (∀ (i j : Nat) (ci cj : List Nat), i ∈ levelsToReverse levels ruleCols →
        j ∈ levelsToReverse levels ruleCols → i ≠ j →
        levels[i]? = some ci → levels[j]? = some cj → ci ≠ [] → ∀ c ∈ ci, c ∉ cj) := by
  refine ⟨?_, ?_, ?_⟩
  · intro i hi
    obtain ⟨cols, hm, hsub⟩ := aux_mem _ _ i hi
    refine ⟨cols, (mem_sorted levels i cols).mp hm, ?_⟩
    intro c hc
    exact List.mem_eraseDups.mp (hsub c hc)
  · exact (aux_sublist _ _).nodup (sorted_nodup levels)
  · intro i j ci cj hi hj hij hci hcj _
    exact aux_disj _ _ (sorted_nodup levels) i j ci cj hi hj hij
      ((mem_sorted levels i ci).mpr hci) ((mem_sorted levels j cj).mpr hcj)

theorem levelsToReverse_single (cols : List Nat) (ruleCols : List Nat)
    (hsub : ∀ c ∈ cols, c ∈ ruleCols) :
    levelsToReverse [cols] ruleCols = [0] := by
  have hall : (cols.all fun c => ruleCols.eraseDups.contains c) = true := by
    rw [List.all_eq_true]
    intro c hc
    exact List.contains_iff_mem.mpr (List.mem_eraseDups.mpr (hsub c hc))
  have hs : sortByLenDesc ((List.range [cols].length).zip [cols]) = [(0, cols)] := by
    simp [sortByLenDesc, insertByLenDesc, List.range_succ]
  unfold levelsToReverse
  rw [hs]
  unfold levelsToReverseAux
  rw [if_pos hall]
  simp [levelsToReverseAux]

end SplinkVerif.Lemmas.EM
