import SplinkVerif.Model.Serialise
/-!
Helper lemmas for C09 (round trip of `Model/Serialise.lean`), proved field group by field group:
levels, comparisons, rules, settings.  Core Lean only.
-/
namespace SplinkVerif.Serialise.Lemmas
open SplinkVerif.Serialise

theorem orElse_some_truthy {s d : String} (h : truthy s = true) : orElse (some s) d = s := by
  simp [orElse, h]

theorem truthy_className : truthy className = true := by decide

/-! ### Dictionary-side well-formedness (what a user may write) -/

/-- A level dictionary the constructors accept silently and completely: the label (or the SQL
text that replaces a missing one) is non-empty; TF weight / minimum-u only together with a TF
column (they are ignored otherwise), the TF column non-empty, a zero minimum-u written `0.0`. -/
def LevelDict.wf (d : LevelDict) : Bool :=
  truthy (match d.label_for_charts with | some s => s | none => d.sql_condition) &&
  (d.is_null_level != some true || (d.m_probability == none && d.u_probability == none)) &&
  (match d.tf_adjustment_column with
    | none => d.tf_adjustment_weight == none && d.tf_minimum_u_value == none
    | some c => truthy c &&
        (match d.tf_minimum_u_value with | some x => !x.isZero || x == .flt 0 | none => true))

/-! ### Levels -/

/-- `as_dict` then the constructor path gives back the very same level object state. -/
theorem level_roundtrip (cvv : String) (l : Level) (h : l.wf = true) :
    Level.fromDict (Level.asDict cvv l) = l := by
  obtain ⟨sql, label, isNull, tfCol, tfWeight, tfMinU, disableTf, m, u, fixM, fixU⟩ := l
  simp only [Level.wf, Bool.and_eq_true] at h
  obtain ⟨⟨⟨⟨hlab, hnull⟩, hm⟩, hu⟩, htf⟩ := h
  cases label with
  | none => simp at hlab
  | some lab =>
    simp only at hlab
    have hl1 : ∀ d, orElse (some lab) d = lab := fun d => orElse_some_truthy hlab
    cases tfCol with
    | none =>
      simp only [Bool.and_eq_true, beq_iff_eq] at htf
      obtain ⟨hw, hmu⟩ := htf
      subst hw; subst hmu
      cases m <;> cases u <;> cases isNull <;> cases disableTf <;>
        simp_all [Level.fromDict, Level.asDict, Level.ofDict, creatorLevelDict, Level.labelForCharts,
          Prob.emit, Prob.ofOpt]
    | some c =>
      simp only [Bool.and_eq_true, Bool.or_eq_true, Bool.not_eq_true', beq_iff_eq] at htf
      obtain ⟨_, hz⟩ := htf
      cases hzz : tfMinU.isZero with
      | false =>
        cases m <;> cases u <;> cases isNull <;> cases disableTf <;>
          simp_all [Level.fromDict, Level.asDict, Level.ofDict, creatorLevelDict, Level.labelForCharts,
            Prob.emit, Prob.ofOpt]
      | true =>
        have : tfMinU = .flt 0 := by
          cases hz with
          | inl h0 => rw [hzz] at h0; cases h0
          | inr h1 => exact h1
        subst this
        cases m <;> cases u <;> cases isNull <;> cases disableTf <;>
          simp_all [Level.fromDict, Level.asDict, Level.ofDict, creatorLevelDict, Level.labelForCharts,
            Prob.emit, Prob.ofOpt]

theorem getD_ite (b : Bool) : (if b = true then some true else none : Option Bool).getD false = b := by
  cases b <;> rfl

theorem emit_ofOpt (o : Option Num) : Prob.ofOpt (Prob.emit (Prob.ofOpt o)) = Prob.ofOpt o := by
  cases o <;> rfl

/-- Construction through the creators (which passes through `as_dict` once) is the plain
constructor applied to the user's dictionary: nothing the user wrote is altered. -/
theorem level_construction (d : LevelDict) (h : LevelDict.wf d = true) :
    Level.fromDict d = Level.ofDict (creatorLevelDict d) := by
  obtain ⟨sql, label, m, u, fixM, fixU, tfCol, tfMinU, tfWeight, isNull, disableTf⟩ := d
  simp only [LevelDict.wf, Bool.and_eq_true] at h
  obtain ⟨⟨hlab, _⟩, htf⟩ := h
  have hl1 : ∀ (x dflt : String), truthy x = true → orElse (some x) dflt = x :=
    fun _ _ hx => orElse_some_truthy hx
  cases label <;> simp only at hlab <;>
  cases tfCol with
  | none =>
    simp only [Bool.and_eq_true, beq_iff_eq] at htf
    obtain ⟨hw, hmu⟩ := htf
    subst hw; subst hmu
    simp [Level.fromDict, Level.asDict, Level.ofDict, creatorLevelDict, Level.labelForCharts,
      emit_ofOpt, hl1 _ _ hlab, hlab] <;>
        exact ⟨getD_ite _, getD_ite _⟩
  | some c =>
    simp only [Bool.and_eq_true] at htf
    obtain ⟨_, hz⟩ := htf
    cases tfMinU with
    | none =>
      simp [Level.fromDict, Level.asDict, Level.ofDict, creatorLevelDict, Level.labelForCharts,
        emit_ofOpt, hl1 _ _ hlab, hlab, Num.isZero] <;>
        exact ⟨getD_ite _, getD_ite _⟩
    | some x =>
      simp only [Bool.or_eq_true, Bool.not_eq_true', beq_iff_eq] at hz
      cases hzz : x.isZero with
      | false =>
        simp [Level.fromDict, Level.asDict, Level.ofDict, creatorLevelDict, Level.labelForCharts,
          emit_ofOpt, hl1 _ _ hlab, hlab, hzz] <;>
        exact ⟨getD_ite _, getD_ite _⟩
      | true =>
        have : x = .flt 0 := by
          cases hz with
          | inl h0 => rw [hzz] at h0; cases h0
          | inr h1 => exact h1
        subst this
        simp [Level.fromDict, Level.asDict, Level.ofDict, creatorLevelDict, Level.labelForCharts,
          emit_ofOpt, hl1 _ _ hlab, hlab, Num.isZero] <;>
        exact ⟨getD_ite _, getD_ite _⟩

/-- A level built from an accepted dictionary is well-formed. -/
theorem level_ofDict_wf (d : LevelDict) (h : LevelDict.wf d = true) :
    (Level.ofDict (creatorLevelDict d)).wf = true := by
  obtain ⟨sql, label, m, u, fixM, fixU, tfCol, tfMinU, tfWeight, isNull, disableTf⟩ := d
  simp only [LevelDict.wf, Bool.and_eq_true] at h
  obtain ⟨⟨hlab, hnull⟩, htf⟩ := h
  simp only [Level.wf, Level.ofDict, creatorLevelDict, Bool.and_eq_true]
  refine ⟨⟨⟨⟨hlab, ?_⟩, ?_⟩, ?_⟩, ?_⟩
  · cases isNull with
    | none => simp
    | some b =>
      cases b with
      | false => simp
      | true =>
        simp only [bne_self_eq_false, Bool.false_or, Bool.and_eq_true, beq_iff_eq] at hnull
        obtain ⟨h1, h2⟩ := hnull
        subst h1; subst h2
        simp [Prob.ofOpt]
  · cases m <;> simp [Prob.ofOpt]
  · cases u <;> simp [Prob.ofOpt]
  · cases tfCol with
    | none =>
      simp only [Bool.and_eq_true, beq_iff_eq] at htf
      obtain ⟨hw, hmu⟩ := htf
      subst hw; subst hmu
      simp
    | some c =>
      simp only [Bool.and_eq_true] at htf
      obtain ⟨hc, hz⟩ := htf
      cases tfMinU with
      | none => simp [hc, Num.isZero]
      | some x => simpa [hc] using hz

theorem level_fromDict_wf (d : LevelDict) (h : LevelDict.wf d = true) :
    (Level.fromDict d).wf = true := by
  rw [level_construction d h]; exact level_ofDict_wf d h

/-! ### Lists of levels inside a comparison -/

theorem cvvStrs_length (ls : List Level) : ∀ k, (cvvStrs ls k).length = ls.length := by
  induction ls with
  | nil => intro k; rfl
  | cons l ls ih =>
    intro k
    unfold cvvStrs
    split <;> simp [ih]

theorem map_zip_roundtrip : ∀ (cs : List String) (ls : List Level), cs.length = ls.length →
    (∀ l ∈ ls, l.wf = true) →
    ((cs.zip ls).map (fun p => Level.fromDict (Level.asDict p.1 p.2))) = ls := by
  intro cs ls
  induction ls generalizing cs with
  | nil => intro _ _; cases cs <;> rfl
  | cons l ls ih =>
    intro hlen hwf
    cases cs with
    | nil => simp at hlen
    | cons c cs =>
      simp only [List.zip_cons_cons, List.map_cons]
      rw [level_roundtrip c l (hwf l (List.mem_cons_self ..))]
      rw [ih cs (by simpa using hlen) (fun x hx => hwf x (List.mem_cons_of_mem _ hx))]

theorem levels_roundtrip (ls : List Level) (h : ls.all Level.wf = true) :
    ((zipWithCvv ls).map (fun p => Level.asDict p.1 p.2)).map Level.fromDict = ls := by
  rw [List.map_map]
  have hw : ∀ l ∈ ls, l.wf = true := by
    intro l hl; exact (List.all_eq_true.mp h) l hl
  exact map_zip_roundtrip _ ls (cvvStrs_length ls _) hw

/-! ### Comparisons -/

theorem comparison_roundtrip (v : Version) (dn : List Level → String) (c : Comparison)
    (h : c.wf v = true) : Comparison.fromDict v dn (Comparison.asDict c) = c := by
  obtain ⟨name, desc, levels⟩ := c
  simp only [Comparison.wf, Bool.and_eq_true, Bool.or_eq_true, beq_iff_eq] at h
  obtain ⟨⟨⟨hn, hd⟩, hv⟩, hl⟩ := h
  have hlv := levels_roundtrip levels hl
  simp only [Comparison.fromDict, Comparison.asDict, hlv, orElse_some_truthy hn]
  cases v with
  | current =>
    have : desc = className := by
      cases hv with
      | inl h => cases h
      | inr h => exact h
    subst this
    simp [createDescription, orElse_some_truthy truthy_className]
  | patched =>
    simp [createDescription, orElse_some_truthy hd]

/-! ### Rules -/

theorem rule_reload (b b' : String) (r : Rule) (h : Rule.wf b r = true) :
    Rule.fromDict b' (Rule.asDict r) = r.withDialect b' := by
  cases r with
  | plain s d => simp [Rule.fromDict, Rule.asDict, Rule.withDialect]
  | salted s d n =>
    simp only [Rule.wf, Bool.and_eq_true, decide_eq_true_eq] at h
    obtain ⟨_, hn⟩ := h
    cases n with
    | zero => omega
    | succ k => simp [Rule.fromDict, Rule.asDict, Rule.withDialect]
  | exploding s d cs =>
    simp only [Rule.wf, Bool.and_eq_true] at h
    obtain ⟨_, hc⟩ := h
    cases cs with
    | nil => simp at hc
    | cons c cs => simp [Rule.fromDict, Rule.asDict, Rule.withDialect]

theorem rule_withDialect_self (b : String) (r : Rule) (h : Rule.wf b r = true) :
    r.withDialect b = r := by
  cases r <;> simp_all [Rule.wf, Rule.withDialect]

theorem rules_reload (b b' : String) (rs : List Rule) (h : rs.all (Rule.wf b) = true) :
    (rs.map Rule.asDict).map (Rule.fromDict b') = rs.map (Rule.withDialect b') := by
  rw [List.map_map]
  apply List.map_congr_left
  intro r hr
  exact rule_reload b b' r ((List.all_eq_true.mp h) r hr)

theorem comparisons_roundtrip (v : Version) (dn : List Level → String) (cs : List Comparison)
    (h : cs.all (Comparison.wf v) = true) :
    (cs.map Comparison.asDict).map (Comparison.fromDict v dn) = cs := by
  rw [List.map_map]
  conv => rhs; rw [← List.map_id cs]
  apply List.map_congr_left
  intro c hc
  exact comparison_roundtrip v dn c ((List.all_eq_true.mp h) c hc)

/-! ### Settings -/

/-- Loading a saved model on backend `b'`: everything but the dialect stamps is unchanged. -/
theorem settings_reload (v : Version) (dn : List Level → String) (b b' uid : String) (s : Settings)
    (h : s.wf v b = true) : reload v dn b' uid s = s.withDialect b' := by
  obtain ⟨linkType, prior, rm, ri, add, dialect, luid, emc, mi, bf, tf, gam, uidc, sds, rules, comps⟩ := s
  simp only [Settings.wf, Bool.and_eq_true] at h
  obtain ⟨⟨⟨_, hu⟩, hr⟩, hc⟩ := h
  cases luid with
  | none => simp at hu
  | some u =>
    simp only [reload, Settings.fromDict, Settings.asDict, Settings.withDialect, Option.getD_some,
      rules_reload b b' rules hr, comparisons_roundtrip v dn comps hc]

theorem settings_withDialect_self (v : Version) (b : String) (s : Settings) (h : s.wf v b = true) :
    s.withDialect b = s := by
  obtain ⟨linkType, prior, rm, ri, add, dialect, luid, emc, mi, bf, tf, gam, uidc, sds, rules, comps⟩ := s
  simp only [Settings.wf, Bool.and_eq_true, beq_iff_eq] at h
  obtain ⟨⟨⟨hd, _⟩, hr⟩, _⟩ := h
  simp only [Settings.withDialect]
  have : rules.map (Rule.withDialect b) = rules := by
    conv => rhs; rw [← List.map_id rules]
    apply List.map_congr_left
    intro r hr'
    exact rule_withDialect_self b r ((List.all_eq_true.mp hr) r hr')
  rw [this, hd]

theorem settings_roundtrip (v : Version) (dn : List Level → String) (b uid : String) (s : Settings)
    (h : s.wf v b = true) : reload v dn b uid s = s := by
  rw [settings_reload v dn b b uid s h, settings_withDialect_self v b s h]

theorem rule_withDialect_wf (b b' : String) (r : Rule) (h : Rule.wf b r = true) :
    Rule.wf b' (r.withDialect b') = true := by
  cases r <;> simp_all [Rule.wf, Rule.withDialect]

theorem settings_withDialect_wf (v : Version) (b b' : String) (s : Settings) (h : s.wf v b = true) :
    (s.withDialect b').wf v b' = true := by
  simp only [Settings.wf, Bool.and_eq_true] at h ⊢
  obtain ⟨⟨⟨_, hu⟩, hr⟩, hc⟩ := h
  refine ⟨⟨⟨by simp [Settings.withDialect], by simpa [Settings.withDialect] using hu⟩, ?_⟩,
    by simpa [Settings.withDialect] using hc⟩
  simp only [Settings.withDialect, List.all_map]
  apply List.all_eq_true.mpr
  intro r hr'
  exact rule_withDialect_wf b b' r ((List.all_eq_true.mp hr) r hr')

/-! ### Training keeps a model well-formed -/

theorem setM_wf (n : Num) (l : Level) (h : l.wf = true) : (l.setM n).wf = true := by
  unfold Level.setM
  cases hn : l.isNull with
  | true => simpa using h
  | false =>
    simp only [Level.wf, Bool.and_eq_true] at h ⊢
    obtain ⟨⟨⟨⟨hlab, _⟩, _⟩, hu⟩, htf⟩ := h
    simp [hlab, hu, htf]

theorem setU_wf (n : Num) (l : Level) (h : l.wf = true) : (l.setU n).wf = true := by
  unfold Level.setU
  cases hn : l.isNull with
  | true => simpa using h
  | false =>
    simp only [Level.wf, Bool.and_eq_true] at h ⊢
    obtain ⟨⟨⟨⟨hlab, _⟩, hm⟩, _⟩, htf⟩ := h
    simp [hlab, hm, htf]

end SplinkVerif.Serialise.Lemmas
