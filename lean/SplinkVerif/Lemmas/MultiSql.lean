import Mathlib.Data.List.Nodup
import Mathlib.Data.List.Perm.Basic
import SplinkVerif.Lemmas.CCSql
import SplinkVerif.Lemmas.MultiThreshold
import SplinkVerif.Properties.C05Sql
import SplinkVerif.Model.MultiSql
/-!
# The regenerated SQL of one pass of the threshold loop refines `MultiThreshold.next`

Statement by statement, the relational-algebra terms of `Generated/MultiSql.lean` (evaluated with `Rel.eval`) compute
the tables of `Model/MultiThreshold.lean`; the marginal clustering is `CCSql.cluster` on a node subset
(`Lemmas.CCSql.cluster_core`); the control flow of `Model/MultiSql.lean` follows `MultiThreshold.loop`.
-/
namespace SplinkVerif.Lemmas.MultiSql
open SplinkVerif SplinkVerif.Rel SplinkVerif.Lemmas.Rel SplinkVerif.Gen.MultiSql
open SplinkVerif.Lemmas.CCSql (iv iv_inj nodeRowsS mem_nodeRowsS mem_edgeRows)

/-- `>=` on integer order keys (same as `C11Sql.geInt`). -/
def geInt (a b : Int) : Bool := decide (a ≥ b)

theorem geInt_iff (a b : Int) : geInt a b = true ↔ b ≤ a := by
  unfold geInt
  simp

/-- A result row `(node_id, cluster_id)`. -/
abbrev pairRow := C05Sql.pairRow

theorem pairRow_def (p : Nat × Nat) : pairRow p = [iv p.1, iv p.2] := rfl

theorem pairRow_eq : (C05Sql.pairRow : Nat × Nat → Row) = Lemmas.CCSql.pairRow := rfl

/-- Evaluate scalar expressions on concrete rows. -/
macro "ev_simp" : tactic =>
  `(tactic| simp [Expr.holds, Expr.eval, List.getD_cons_zero, List.getD_cons_succ])
macro "ev_simp" "at" h:ident : tactic =>
  `(tactic| simp [Expr.holds, Expr.eval, List.getD_cons_zero, List.getD_cons_succ] at $h:ident)

/-- Look a table up in a database built with `Db.set`. -/
macro "db_get" : tactic =>
  `(tactic| (repeat (first | rw [set_same] | rw [set_ne _ _ _ _ (by decide)])))

/-! ## `min` over integers and NULLs -/

/-- `min` ignores NULLs: it is NULL iff there is no integer, otherwise the least integer of the list. -/
theorem minVals_spec {l : List Val} (h : ∀ v ∈ l, IntOrNull v) :
    (minVals l = .null ∧ ∀ k, Val.int k ∉ l) ∨
      ∃ m, minVals l = .int m ∧ Val.int m ∈ l ∧ ∀ k, Val.int k ∈ l → m ≤ k := by
  induction l with
  | nil => left; exact ⟨rfl, fun k hk => by cases hk⟩
  | cons v vs ih =>
    have hvs : ∀ v ∈ vs, IntOrNull v := fun x hx => h x (List.mem_cons_of_mem _ hx)
    rw [minVals_cons]
    rcases h v List.mem_cons_self with rfl | ⟨a, rfl⟩
    · rcases ih hvs with ⟨h1, h2⟩ | ⟨m, h1, h2, h3⟩
      · left
        refine ⟨by rw [h1]; rfl, ?_⟩
        intro k hk
        rcases List.mem_cons.mp hk with hk | hk
        · cases hk
        · exact h2 k hk
      · right
        refine ⟨m, by rw [h1]; rfl, List.mem_cons_of_mem _ h2, ?_⟩
        intro k hk
        rcases List.mem_cons.mp hk with hk | hk
        · cases hk
        · exact h3 k hk
    · rcases ih hvs with ⟨h1, h2⟩ | ⟨m, h1, h2, h3⟩
      · right
        refine ⟨a, by rw [h1]; rfl, List.mem_cons_self, ?_⟩
        intro k hk
        rcases List.mem_cons.mp hk with hk | hk
        · injection hk with hk; omega
        · exact absurd hk (h2 k)
      · right
        rw [h1, minStep_int_int]
        by_cases hma : m ≤ a
        · refine ⟨m, by rw [Int.min_eq_right hma], List.mem_cons_of_mem _ h2, ?_⟩
          intro k hk
          rcases List.mem_cons.mp hk with hk | hk
          · injection hk with hk; omega
          · exact h3 k hk
        · refine ⟨a, by rw [Int.min_eq_left (by omega)], List.mem_cons_self, ?_⟩
          intro k hk
          rcases List.mem_cons.mp hk with hk | hk
          · injection hk with hk; omega
          · have := h3 k hk; omega

/-- The model's reading of the HAVING clause on the probabilities `ps` of a cluster. -/
def havingModel (one tNew : Int) (ps : List Int) : Bool :=
  match ps with
  | [] => geInt one tNew
  | ps => ps.all fun p => geInt p tNew

theorem isStable_eq (one : Int) (cc : List (Nat × Nat)) (edges : List (Nat × Nat × Int)) (tPrev tNew : Int)
    (c : Nat) : MultiThreshold.isStable geInt one cc edges tPrev tNew c =
      havingModel one tNew (MultiThreshold.clusterEdgeProbs geInt cc edges tPrev c) := by
  unfold MultiThreshold.isStable havingModel
  generalize MultiThreshold.clusterEdgeProbs geInt cc edges tPrev c = ps
  cases ps <;> rfl

/-- `coalesce(min(p), one) >= tNew` on a group whose integers are exactly the members of `ps`. -/
theorem having_iff {vals : List Val} {ps : List Int} (one tNew : Int) (h : ∀ v ∈ vals, IntOrNull v)
    (hps : ∀ k, Val.int k ∈ vals ↔ k ∈ ps) :
    (Cmp.ge.eval (match minVals vals with | .null => Val.int one | v => v) (Val.int tNew) = .bool true) ↔
      havingModel one tNew ps = true := by
  unfold havingModel
  rcases minVals_spec h with ⟨h1, h2⟩ | ⟨m, h1, h2, h3⟩
  · have : ps = [] := by
      cases ps with
      | nil => rfl
      | cons a l => exact absurd ((hps a).mpr List.mem_cons_self) (h2 a)
    subst this
    rw [h1]
    simp [geInt]
  · rw [h1]
    have hm : m ∈ ps := (hps m).mp h2
    have hall : (ps.all fun p => geInt p tNew) = true ↔ tNew ≤ m := by
      rw [List.all_eq_true]
      constructor
      · intro hh; exact (geInt_iff _ _).mp (hh m hm)
      · intro hh k hk
        have := h3 k ((hps k).mpr hk)
        exact (geInt_iff _ _).mpr (by omega)
    cases ps with
    | nil => cases hm
    | cons a l =>
      simp only [cmp_ge_int]
      rw [hall]
      simp

/-! ## The statements before the marginal clustering -/

/-- `__splink__relevant_edges` ↔ the model's `edges.filter (ge p tPrev)`. -/
theorem relevantEdges_mem (edges : List (Nat × Nat × Int)) (tPrev : Int) (db : Db)
    (hE : (db "edges_in").Perm (CCSql.edgeRows edges)) (row : Row) :
    row ∈ (relevantEdges (Val.int tPrev)).eval db ↔
      ∃ a b k, (a, b, k) ∈ edges ∧ geInt k tPrev = true ∧ row = [iv a, iv b, Val.int k] := by
  simp only [relevantEdges, mem_filter, eval_table, hE.mem_iff, mem_edgeRows]
  constructor
  · rintro ⟨⟨a, b, k, he, rfl⟩, hh⟩
    ev_simp at hh
    exact ⟨a, b, k, he, (geInt_iff _ _).mpr hh, rfl⟩
  · rintro ⟨a, b, k, he, hk, rfl⟩
    refine ⟨⟨a, b, k, he, rfl⟩, ?_⟩
    ev_simp
    exact (geInt_iff _ _).mp hk

/-- What is needed of `__splink__cluster_edge_probabilities`. -/
structure CepSpec (cc : List (Nat × Nat)) (edges : List (Nat × Nat × Int)) (tPrev : Int) (T : List Row) :
    Prop where
  /-- every row belongs to a cluster and carries NULL or the probability of a relevant edge at a member -/
  sound : ∀ row ∈ T, ∃ i c, (i, c) ∈ cc ∧ (row = [iv c, Val.null] ∨
    ∃ a b k, (a, b, k) ∈ edges ∧ geInt k tPrev = true ∧ (a = i ∨ b = i) ∧ row = [iv c, Val.int k])
  /-- every relevant edge at a member contributes its probability -/
  edge : ∀ i c a b k, (i, c) ∈ cc → (a, b, k) ∈ edges → geInt k tPrev = true → (a = i ∨ b = i) →
    [iv c, Val.int k] ∈ T
  /-- every cluster has a group (the LEFT JOIN keeps clusters without edges) -/
  group : ∀ i c, (i, c) ∈ cc → ∃ row ∈ T, row.getD 0 .null = iv c

theorem clusterEdgeProbabilities_spec (cc : List (Nat × Nat)) (edges : List (Nat × Nat × Int)) (tPrev : Int)
    (db : Db) (hcc : (db "cc").Perm (cc.map pairRow))
    (hrel : ∀ row, row ∈ db "__splink__relevant_edges" ↔
      ∃ a b k, (a, b, k) ∈ edges ∧ geInt k tPrev = true ∧ row = [iv a, iv b, Val.int k]) :
    CepSpec cc edges tPrev (clusterEdgeProbabilities.eval db) := by
  have hccm : ∀ row, row ∈ db "cc" ↔ ∃ i c, (i, c) ∈ cc ∧ row = [iv i, iv c] := by
    intro row
    rw [hcc.mem_iff, List.mem_map]
    constructor
    · rintro ⟨⟨i, c⟩, h, rfl⟩; exact ⟨i, c, h, rfl⟩
    · rintro ⟨i, c, h, rfl⟩; exact ⟨(i, c), h, rfl⟩
  constructor
  · intro row hrow
    simp only [clusterEdgeProbabilities, mem_union, mem_project, eval_join, eval_table,
      mem_joinRows_left] at hrow
    rcases hrow with ⟨x, ⟨ra, hra, h⟩, rfl⟩ | ⟨x, ⟨ra, hra, h⟩, rfl⟩
    · obtain ⟨i, c, hic, rfl⟩ := (hccm _).mp hra
      refine ⟨i, c, hic, ?_⟩
      rcases h with ⟨rb, hrb, hon, rfl⟩ | ⟨_, rfl⟩
      · obtain ⟨a, b, k, he, hk, rfl⟩ := (hrel _).mp hrb
        ev_simp at hon
        right
        exact ⟨a, b, k, he, hk, Or.inl (by omega), by ev_simp⟩
      · left; ev_simp
    · obtain ⟨i, c, hic, rfl⟩ := (hccm _).mp hra
      refine ⟨i, c, hic, ?_⟩
      rcases h with ⟨rb, hrb, hon, rfl⟩ | ⟨_, rfl⟩
      · obtain ⟨a, b, k, he, hk, rfl⟩ := (hrel _).mp hrb
        ev_simp at hon
        right
        exact ⟨a, b, k, he, hk, Or.inr (by omega), by ev_simp⟩
      · left; ev_simp
  · intro i c a b k hic he hk hab
    simp only [clusterEdgeProbabilities, mem_union, mem_project, eval_join, eval_table,
      mem_joinRows_left]
    have hra : [iv i, iv c] ∈ db "cc" := (hccm _).mpr ⟨i, c, hic, rfl⟩
    have hrb : [iv a, iv b, Val.int k] ∈ db "__splink__relevant_edges" :=
      (hrel _).mpr ⟨a, b, k, he, hk, rfl⟩
    rcases hab with rfl | rfl
    · left
      exact ⟨_, ⟨_, hra, Or.inl ⟨_, hrb, by ev_simp, rfl⟩⟩, by ev_simp⟩
    · right
      exact ⟨_, ⟨_, hra, Or.inl ⟨_, hrb, by ev_simp, rfl⟩⟩, by ev_simp⟩
  · intro i c hic
    have hra : [iv i, iv c] ∈ db "cc" := (hccm _).mpr ⟨i, c, hic, rfl⟩
    simp only [clusterEdgeProbabilities, mem_union, mem_project, eval_join, eval_table,
      mem_joinRows_left]
    by_cases hex : ∃ rb ∈ db "__splink__relevant_edges",
        (Expr.cmp Cmp.eq (Expr.col 0) (Expr.col 2)).holds ([iv i, iv c] ++ rb) = true
    · obtain ⟨rb, hrb, hon⟩ := hex
      obtain ⟨a, b, k, he, hk, rfl⟩ := (hrel _).mp hrb
      exact ⟨_, Or.inl ⟨_, ⟨_, hra, Or.inl ⟨_, hrb, hon, rfl⟩⟩, rfl⟩, by ev_simp⟩
    · refine ⟨_, Or.inl ⟨_, ⟨_, hra, Or.inr ⟨?_, rfl⟩⟩, rfl⟩, by ev_simp⟩
      intro rb hrb
      cases hh : (Expr.cmp Cmp.eq (Expr.col 0) (Expr.col 2)).holds ([iv i, iv c] ++ rb)
      · rfl
      · exact absurd ⟨rb, hrb, hh⟩ hex

/-- The integers of the group of cluster `c` are the model's `clusterEdgeProbs`. -/
theorem mem_clusterEdgeProbs_iff (cc : List (Nat × Nat)) (edges : List (Nat × Nat × Int)) (tPrev : Int)
    (c : Nat) (k : Int) :
    k ∈ MultiThreshold.clusterEdgeProbs geInt cc edges tPrev c ↔
      ∃ i a b, (i, c) ∈ cc ∧ (a, b, k) ∈ edges ∧ geInt k tPrev = true ∧ (a = i ∨ b = i) := by
  have hmem : ∀ x, ((cc.filter fun r => r.2 == c).map (·.1)).contains x = true ↔ (x, c) ∈ cc := by
    intro x
    rw [List.contains_iff_mem, List.mem_map]
    constructor
    · rintro ⟨⟨i, c'⟩, hr, rfl⟩
      obtain ⟨h1, h2⟩ := List.mem_filter.mp hr
      have : c' = c := by simpa using h2
      subst this
      exact h1
    · intro h
      exact ⟨(x, c), List.mem_filter.mpr ⟨h, by simp⟩, rfl⟩
  unfold MultiThreshold.clusterEdgeProbs
  simp only [List.mem_append, List.mem_map, List.mem_filter, hmem]
  constructor
  · rintro (⟨⟨a, b, k'⟩, ⟨⟨he, hk⟩, hm⟩, rfl⟩ | ⟨⟨a, b, k'⟩, ⟨⟨he, hk⟩, hm⟩, rfl⟩)
    · exact ⟨a, a, b, hm, he, hk, Or.inl rfl⟩
    · exact ⟨b, a, b, hm, he, hk, Or.inr rfl⟩
  · rintro ⟨i, a, b, hic, he, hk, rfl | rfl⟩
    · exact Or.inl ⟨(a, b, k), ⟨⟨he, hk⟩, hic⟩, rfl⟩
    · exact Or.inr ⟨(a, b, k), ⟨⟨he, hk⟩, hic⟩, rfl⟩

/-- `__splink__stable_clusters_at_new_threshold` ↔ `MultiThreshold.isStable`. -/
theorem stableClusters_mem (cc : List (Nat × Nat)) (edges : List (Nat × Nat × Int)) (tPrev tNew one : Int)
    (db : Db) (hcep : CepSpec cc edges tPrev (db "__splink__cluster_edge_probabilities")) (row : Row) :
    row ∈ (stableClustersAtNewThreshold (Val.int one) (Val.int tNew)).eval db ↔
      ∃ c, (∃ i, (i, c) ∈ cc) ∧ MultiThreshold.isStable geInt one cc edges tPrev tNew c = true ∧
        row = [iv c] := by
  -- the HAVING clause on the group of a row `x` of cluster `c`
  have key : ∀ x ∈ db "__splink__cluster_edge_probabilities", ∀ c, x.getD 0 .null = iv c →
      ((Expr.cmp Cmp.ge (Expr.coalesce (Expr.col 1) (Expr.lit (Val.int one))) (Expr.lit (Val.int tNew))).holds
        ([Expr.col 0].map (·.eval x) ++ [Agg.min (Expr.col 1)].map
          (·.eval ((db "__splink__cluster_edge_probabilities").filter fun y =>
            [Expr.col 0].map (·.eval y) == [Expr.col 0].map (·.eval x)))) = true ↔
        MultiThreshold.isStable geInt one cc edges tPrev tNew c = true) := by
    intro x _ c hxc
    simp only [List.map_cons, List.map_nil, Expr.eval, hxc, Agg.eval, List.cons_append, List.nil_append,
      Expr.holds, List.getD_cons_zero, List.getD_cons_succ, beq_iff_eq]
    rw [isStable_eq]
    apply having_iff
    · intro v hv
      obtain ⟨y, hy, rfl⟩ := List.mem_map.mp hv
      obtain ⟨i', c', _, h | ⟨a, b, k, _, _, _, h⟩⟩ := hcep.sound y (List.mem_filter.mp hy).1
      · left; rw [h]; rfl
      · right; rw [h]; exact ⟨k, rfl⟩
    · intro k
      rw [mem_clusterEdgeProbs_iff, List.mem_map]
      constructor
      · rintro ⟨y, hy, hyk⟩
        obtain ⟨hy1, hy2⟩ := List.mem_filter.mp hy
        obtain ⟨i', c', hic, h | ⟨a, b, k', he, hk, hab, h⟩⟩ := hcep.sound y hy1
        · rw [h] at hyk; cases hyk
        · rw [h] at hyk hy2
          have hk' : k' = k := by
            have : Val.int k' = Val.int k := hyk
            injection this
          have hc' : c' = c := by
            have : iv c' = iv c := by simpa using hy2
            exact iv_inj.mp this
          subst hk' hc'
          exact ⟨i', a, b, hic, he, hk, hab⟩
      · rintro ⟨i, a, b, hic, he, hk, hab⟩
        refine ⟨[iv c, Val.int k], List.mem_filter.mpr ⟨hcep.edge i c a b k hic he hk hab, ?_⟩, rfl⟩
        simp
  simp only [stableClustersAtNewThreshold, mem_project, mem_filter, eval_groupBy, eval_table,
    mem_groupRows (show [Expr.col 0] ≠ [] by simp)]
  constructor
  · rintro ⟨g, ⟨⟨x, hx, rfl⟩, hh⟩, rfl⟩
    obtain ⟨i, c, hic, hxc⟩ : ∃ i c, (i, c) ∈ cc ∧ x.getD 0 .null = iv c := by
      obtain ⟨i, c, hic, h | ⟨a, b, k, _, _, _, h⟩⟩ := hcep.sound x hx
      · exact ⟨i, c, hic, by rw [h]; rfl⟩
      · exact ⟨i, c, hic, by rw [h]; rfl⟩
    refine ⟨c, ⟨i, hic⟩, (key x hx c hxc).mp hh, ?_⟩
    simp only [List.map_cons, List.map_nil, Expr.eval, hxc, List.cons_append, List.getD_cons_zero]
  · rintro ⟨c, ⟨i, hic⟩, hst, rfl⟩
    obtain ⟨x, hx, hxc⟩ := hcep.group i c hic
    refine ⟨_, ⟨⟨x, hx, rfl⟩, (key x hx c hxc).mpr hst⟩, ?_⟩
    simp only [List.map_cons, List.map_nil, Expr.eval, hxc, List.cons_append, List.getD_cons_zero]

open SplinkVerif.Lemmas.CCSql (mem_subVals) in
/-- `__splink__stable_nodes_at_new_threshold` ↔ `MultiThreshold.stableNodes`. -/
theorem stableNodes_perm (n : Nat) (cc : List (Nat × Nat)) (edges : List (Nat × Nat × Int))
    (tPrev tNew one : Int) (db : Db) (hcc : (db "cc").Perm (cc.map pairRow))
    (hsc : ∀ row, row ∈ db "__splink__stable_clusters_at_new_threshold" ↔
      ∃ c, (∃ i, (i, c) ∈ cc) ∧ MultiThreshold.isStable geInt one cc edges tPrev tNew c = true ∧
        row = [iv c]) :
    (stableNodesAtNewThreshold.eval db).Perm
      ((MultiThreshold.stableNodes geInt one n edges cc tPrev tNew).map pairRow) := by
  rw [Lemmas.MT.stableNodes_eq]
  unfold stableNodesAtNewThreshold
  rw [eval_whereIn, eval_project, eval_table, eval_table]
  unfold whereInRows
  refine (hcc.filter _).trans (List.Perm.of_eq ?_)
  rw [List.filter_map]
  congr 1
  apply List.filter_congr
  rintro ⟨i, c⟩ hic
  have hx : (Expr.col 1).eval (pairRow (i, c)) = iv c := by simp [pairRow_def, Expr.eval]
  simp only [Function.comp, hx, Bool.false_eq_true, if_false]
  rw [inVals_pos _ _ (by simp)]
  apply contains_eq_of_mem_iff
  rw [mem_subVals]
  constructor
  · rintro ⟨row, hrow, h⟩
    obtain ⟨c', _, hst, rfl⟩ := (hsc row).mp hrow
    ev_simp at h
    have : c' = c := by omega
    rw [← this]; exact hst
  · intro h
    exact ⟨[iv c], (hsc _).mpr ⟨c, ⟨i, hic⟩, h, rfl⟩, by ev_simp⟩

open SplinkVerif.Lemmas.CCSql (mem_subVals) in
/-- `__splink__nodes_in_play` ↔ the nodes satisfying `MultiThreshold.inPlay`. -/
theorem nodesInPlay_perm (n : Nat) (sn : List (Nat × Nat)) (db : Db)
    (hN : (db "nodes_in").Perm (CCSql.nodeRows n))
    (hsn : (db "__splink__stable_nodes_at_new_threshold").Perm (sn.map pairRow)) :
    (nodesInPlay.eval db).Perm (nodeRowsS ((List.range n).filter (MultiThreshold.inPlay n sn).get)) := by
  unfold nodesInPlay
  rw [eval_whereIn, eval_project, eval_table, eval_table]
  unfold whereInRows
  refine (hN.filter _).trans (List.Perm.of_eq ?_)
  unfold CCSql.nodeRows nodeRowsS
  rw [List.filter_map]
  congr 1
  apply List.filter_congr
  intro i _
  have hx : (Expr.col 0).eval [Val.int (i : Int)] = iv i := by simp [Expr.eval]
  simp only [Function.comp, hx, if_true]
  have hmem : ∀ v, v ∈ ((db "__splink__stable_nodes_at_new_threshold").map
      fun row => [Expr.col 0].map (·.eval row)).map (fun row => row.getD 0 .null) ↔
      ∃ r ∈ sn, v = iv r.1 := by
    intro v
    rw [mem_subVals]
    constructor
    · rintro ⟨row, hrow, rfl⟩
      obtain ⟨r, hr, rfl⟩ := List.mem_map.mp (hsn.mem_iff.mp hrow)
      exact ⟨r, hr, by simp [pairRow_def]⟩
    · rintro ⟨r, hr, rfl⟩
      exact ⟨pairRow r, hsn.mem_iff.mpr (List.mem_map.mpr ⟨r, hr, rfl⟩), by simp [pairRow_def]⟩
  rw [inVals_neg _ _ (by simp)]
  · unfold MultiThreshold.inPlay
    rw [Tab.get_build]
    congr 1
    apply contains_eq_of_mem_iff
    rw [hmem, List.any_eq_true]
    constructor
    · rintro ⟨r, hr, h⟩
      exact ⟨r, hr, by simpa using (iv_inj.mp h).symm⟩
    · rintro ⟨r, hr, h⟩
      have : r.1 = i := by simpa using h
      exact ⟨r, hr, by rw [this]⟩
  · rw [hmem]
    rintro ⟨r, _, h⟩
    cases h

open SplinkVerif.Lemmas.CCSql (mem_subVals) in
/-- `__splink__edges_in_play` ↔ `MultiThreshold.edgesInPlay`. -/
theorem edgesInPlay_perm (n : Nat) (ip : Nat → Bool) (edges : List (Nat × Nat × Int)) (db : Db)
    (hEn : ∀ e ∈ edges, e.1 < n ∧ e.2.1 < n)
    (hE : (db "edges_in").Perm (CCSql.edgeRows edges))
    (hnip : (db "__splink__nodes_in_play").Perm (nodeRowsS ((List.range n).filter ip))) :
    (edgesInPlay.eval db).Perm (CCSql.edgeRows (MultiThreshold.edgesInPlay ip edges)) := by
  have hmem : ∀ a, a < n → (((db "__splink__nodes_in_play").map
      fun row => [Expr.col 0].map (·.eval row)).map (fun row => row.getD 0 .null)).contains (iv a) = ip a := by
    intro a ha
    apply contains_eq_of_mem_iff
    rw [mem_subVals]
    constructor
    · rintro ⟨row, hrow, h⟩
      obtain ⟨j, hj, rfl⟩ := mem_nodeRowsS.mp (hnip.mem_iff.mp hrow)
      have hja : j = a := by
        have : iv j = iv a := by simpa using h
        exact iv_inj.mp this
      subst hja
      exact (List.mem_filter.mp hj).2
    · intro h
      refine ⟨[iv a], hnip.mem_iff.mpr (mem_nodeRowsS.mpr ⟨a, ?_, rfl⟩), by simp⟩
      exact List.mem_filter.mpr ⟨List.mem_range.mpr ha, h⟩
  unfold edgesInPlay
  rw [eval_whereIn, eval_whereIn, eval_project, eval_table, eval_table]
  unfold whereInRows
  rw [List.filter_filter]
  refine (hE.filter _).trans (List.Perm.of_eq ?_)
  unfold CCSql.edgeRows MultiThreshold.edgesInPlay
  rw [List.filter_map]
  congr 1
  apply List.filter_congr
  rintro ⟨a, b, k⟩ he
  obtain ⟨ha, hb⟩ := hEn _ he
  have hx0 : (Expr.col 0).eval [Val.int (a : Int), Val.int (b : Int), Val.int k] = iv a := by
    simp [Expr.eval]
  have hx1 : (Expr.col 1).eval [Val.int (a : Int), Val.int (b : Int), Val.int k] = iv b := by
    simp [Expr.eval]
  simp only [Function.comp, hx0, hx1, Bool.false_eq_true, if_false]
  rw [inVals_pos _ _ (by simp), inVals_pos _ _ (by simp), hmem a ha, hmem b hb, Bool.and_comm]

/-! ## The statements of one pass, in sequence -/

theorem runStmts_cons (db : Db) (s : Stmt) (ss : List Stmt) :
    runStmts db (s :: ss) = runStmts (Db.set db s.name (s.rel.eval db)) ss := rfl

/-- The three tables the rest of the pass reads, after the statements `before`. -/
theorem before_spec (n : Nat) (edges : List (Nat × Nat × Int)) (cc : List (Nat × Nat)) (tPrev tNew one : Int)
    (db0 : Db) (hEn : ∀ e ∈ edges, e.1 < n ∧ e.2.1 < n)
    (hN : (db0 "nodes_in").Perm (CCSql.nodeRows n))
    (hE : (db0 "edges_in").Perm (CCSql.edgeRows edges))
    (hcc : (db0 "cc").Perm (cc.map pairRow)) :
    (runStmts db0 (before (Val.int tPrev) (Val.int tNew) (Val.int one))
        "__splink__stable_nodes_at_new_threshold").Perm
      ((MultiThreshold.stableNodes geInt one n edges cc tPrev tNew).map pairRow) ∧
    (runStmts db0 (before (Val.int tPrev) (Val.int tNew) (Val.int one)) "__splink__nodes_in_play").Perm
      (nodeRowsS ((List.range n).filter
        (MultiThreshold.inPlay n (MultiThreshold.stableNodes geInt one n edges cc tPrev tNew)).get)) ∧
    (runStmts db0 (before (Val.int tPrev) (Val.int tNew) (Val.int one)) "__splink__edges_in_play").Perm
      (CCSql.edgeRows (MultiThreshold.edgesInPlay
        (MultiThreshold.inPlay n (MultiThreshold.stableNodes geInt one n edges cc tPrev tNew)).get edges)) := by
  obtain ⟨db1, hdb1⟩ : ∃ d : Db, d = Db.set db0 "__splink__relevant_edges"
    ((relevantEdges (Val.int tPrev)).eval db0) := ⟨_, rfl⟩
  obtain ⟨db2, hdb2⟩ : ∃ d : Db, d = Db.set db1 "__splink__cluster_edge_probabilities"
    (clusterEdgeProbabilities.eval db1) := ⟨_, rfl⟩
  obtain ⟨db3, hdb3⟩ : ∃ d : Db, d = Db.set db2 "__splink__stable_clusters_at_new_threshold"
    ((stableClustersAtNewThreshold (Val.int one) (Val.int tNew)).eval db2) := ⟨_, rfl⟩
  obtain ⟨db4, hdb4⟩ : ∃ d : Db, d = Db.set db3 "__splink__stable_nodes_at_new_threshold"
    (stableNodesAtNewThreshold.eval db3) := ⟨_, rfl⟩
  obtain ⟨db5, hdb5⟩ : ∃ d : Db, d = Db.set db4 "__splink__nodes_in_play" (nodesInPlay.eval db4) := ⟨_, rfl⟩
  obtain ⟨db6, hdb6⟩ : ∃ d : Db, d = Db.set db5 "__splink__edges_in_play" (edgesInPlay.eval db5) := ⟨_, rfl⟩
  have hrun : runStmts db0 (before (Val.int tPrev) (Val.int tNew) (Val.int one)) = db6 := by
    rw [hdb6, hdb5, hdb4, hdb3, hdb2, hdb1]
    rfl
  rw [hrun]
  -- 1: relevant edges
  have h1 : ∀ row, row ∈ db1 "__splink__relevant_edges" ↔
      ∃ a b k, (a, b, k) ∈ edges ∧ geInt k tPrev = true ∧ row = [iv a, iv b, Val.int k] := by
    intro row
    rw [hdb1]; db_get
    exact relevantEdges_mem edges tPrev db0 hE row
  have hcc1 : (db1 "cc").Perm (cc.map pairRow) := by
    rw [hdb1]; db_get; exact hcc
  -- 2: cluster edge probabilities
  have h2 : CepSpec cc edges tPrev (db2 "__splink__cluster_edge_probabilities") := by
    rw [hdb2]; db_get
    exact clusterEdgeProbabilities_spec cc edges tPrev db1 hcc1 h1
  -- 3: stable clusters
  have h3 : ∀ row, row ∈ db3 "__splink__stable_clusters_at_new_threshold" ↔
      ∃ c, (∃ i, (i, c) ∈ cc) ∧ MultiThreshold.isStable geInt one cc edges tPrev tNew c = true ∧
        row = [iv c] := by
    intro row
    rw [hdb3]; db_get
    exact stableClusters_mem cc edges tPrev tNew one db2 h2 row
  have hcc3 : (db3 "cc").Perm (cc.map pairRow) := by
    rw [hdb3, hdb2]; db_get; exact hcc1
  -- 4: stable nodes
  have h4 : (db4 "__splink__stable_nodes_at_new_threshold").Perm
      ((MultiThreshold.stableNodes geInt one n edges cc tPrev tNew).map pairRow) := by
    rw [hdb4]; db_get
    exact stableNodes_perm n cc edges tPrev tNew one db3 hcc3 h3
  have hN4 : (db4 "nodes_in").Perm (CCSql.nodeRows n) := by
    rw [hdb4, hdb3, hdb2, hdb1]; db_get; exact hN
  have hE4 : (db4 "edges_in").Perm (CCSql.edgeRows edges) := by
    rw [hdb4, hdb3, hdb2, hdb1]; db_get; exact hE
  -- 5: nodes in play
  have h5 : (db5 "__splink__nodes_in_play").Perm (nodeRowsS ((List.range n).filter
      (MultiThreshold.inPlay n (MultiThreshold.stableNodes geInt one n edges cc tPrev tNew)).get)) := by
    rw [hdb5]; db_get
    exact nodesInPlay_perm n _ db4 hN4 h4
  have hE5 : (db5 "edges_in").Perm (CCSql.edgeRows edges) := by
    rw [hdb5]; db_get; exact hE4
  -- 6: edges in play
  have h6 : (db6 "__splink__edges_in_play").Perm (CCSql.edgeRows (MultiThreshold.edgesInPlay
      (MultiThreshold.inPlay n (MultiThreshold.stableNodes geInt one n edges cc tPrev tNew)).get edges)) := by
    rw [hdb6]; db_get
    exact edgesInPlay_perm n _ edges db5 hEn hE5 h5
  refine ⟨?_, ?_, h6⟩
  · rw [hdb6, hdb5]; db_get; exact h4
  · rw [hdb6]; db_get; exact h5

theorem kept_eq (thr : Option Int) (es : List (Nat × Nat × Int)) :
    Lemmas.CCSql.kept thr es = CC.thresholdEdges geInt thr es := rfl

/-- The marginal clustering ↔ `MultiThreshold.ccAt` on the nodes in play. -/
theorem marginal_perm (n : Nat) (edges : List (Nat × Nat × Int)) (ip : Nat → Bool) (tNew : Int)
    (hEn : ∀ e ∈ edges, e.1 < n ∧ e.2.1 < n) (nodes edgeTab : List Row)
    (hN : nodes.Perm (nodeRowsS ((List.range n).filter ip)))
    (hT : edgeTab.Perm (CCSql.edgeRows (MultiThreshold.edgesInPlay ip edges))) :
    (CCSql.cluster nodes edgeTab (some (Val.int tNew)) (CC.fuel n)).Perm
      ((MultiThreshold.ccAt geInt n ip (MultiThreshold.edgesInPlay ip edges) tNew).map pairRow) := by
  have hS : ((List.range n).filter ip).Nodup := List.nodup_range.filter _
  have hSn : ∀ i ∈ (List.range n).filter ip, i < n :=
    fun i hi => List.mem_range.mp (List.mem_filter.mp hi).1
  have hES : ∀ e ∈ MultiThreshold.edgesInPlay ip edges,
      e.1 ∈ (List.range n).filter ip ∧ e.2.1 ∈ (List.range n).filter ip := by
    intro e he
    obtain ⟨h1, h2⟩ := List.mem_filter.mp he
    simp only [Bool.and_eq_true] at h2
    exact ⟨List.mem_filter.mpr ⟨List.mem_range.mpr (hEn e h1).1, h2.1⟩,
      List.mem_filter.mpr ⟨List.mem_range.mpr (hEn e h1).2, h2.2⟩⟩
  have hcore := Lemmas.CCSql.cluster_core n _ (MultiThreshold.edgesInPlay ip edges) (some tNew) hS hSn hES
    nodes edgeTab hN hT
  refine hcore.trans (List.Perm.of_eq ?_)
  rw [kept_eq]
  show List.map pairRow _ = _
  congr 1
  unfold MultiThreshold.ccAt
  apply List.filter_congr
  rintro ⟨i, c⟩ hic
  have hlt := Lemmas.MT.thresholdEdges_lt geInt (some tNew) n _ (Lemmas.MT.edgesInPlay_lt ip n edges hEn)
  have hi := (Lemmas.mem_cluster n _ hlt i c hic).1
  apply contains_eq_of_mem_iff
  rw [List.mem_filter, List.mem_range]
  exact ⟨fun h => h.2, fun h => ⟨hi, h⟩⟩

theorem project01_pairRow (l : List (Nat × Nat)) :
    ((l.map pairRow).map fun row => [Expr.col 0, Expr.col 1].map (·.eval row)) = l.map pairRow := by
  rw [List.map_map]
  apply List.map_congr_left
  intro p _
  simp [pairRow_def, Expr.eval]

/-- **One pass of the threshold loop refines the model**, with the previous clustering given up to row order. -/
theorem step_perm_gen (n : Nat) (edges : List (Nat × Nat × Int)) (cc : List (Nat × Nat)) (ccRows : List Row)
    (tPrev tNew one : Int) (hE : ∀ e ∈ edges, e.1 < n ∧ e.2.1 < n) (hcc : ccRows.Perm (cc.map pairRow)) :
    (MultiSql.step (CCSql.nodeRows n) (CCSql.edgeRows edges) ccRows
        (Val.int tPrev) (Val.int tNew) (Val.int one) (CC.fuel n)).Perm
      ((MultiThreshold.next geInt one n edges cc tPrev tNew).map pairRow) := by
  obtain ⟨db0, hdb0⟩ : ∃ d : Db, d = Db.set (Db.set (Db.set CCSql.emptyDb "nodes_in" (CCSql.nodeRows n))
    "edges_in" (CCSql.edgeRows edges)) "cc" ccRows := ⟨_, rfl⟩
  have hN : (db0 "nodes_in").Perm (CCSql.nodeRows n) := by
    rw [hdb0]; db_get
  have hEd : (db0 "edges_in").Perm (CCSql.edgeRows edges) := by
    rw [hdb0]; db_get
  have hc : (db0 "cc").Perm (cc.map pairRow) := by
    rw [hdb0]; db_get; exact hcc
  obtain ⟨h4, h5, h6⟩ := before_spec n edges cc tPrev tNew one db0 hE hN hEd hc
  have hm := marginal_perm n edges _ tNew hE _ _ h5 h6
  show (Gen.MultiSql.after.rel.eval (Db.set (runStmts (Db.set (Db.set (Db.set CCSql.emptyDb "nodes_in"
    (CCSql.nodeRows n)) "edges_in" (CCSql.edgeRows edges)) "cc" ccRows)
      (before (Val.int tPrev) (Val.int tNew) (Val.int one))) "marginal" _)).Perm _
  rw [← hdb0]
  show (clustersAtThreshold.eval _).Perm _
  unfold clustersAtThreshold MultiThreshold.next
  rw [eval_union_all, eval_project, eval_project, eval_table, eval_table]
  db_get
  rw [List.map_append]
  refine List.Perm.append ?_ ?_
  · refine (h4.map _).trans (List.Perm.of_eq ?_)
    exact project01_pairRow _
  · refine (hm.map _).trans (List.Perm.of_eq ?_)
    exact project01_pairRow _

/-! ## The targets of `Properties/C11Sql.lean` -/

/-- A clustering of the nodes `0..n-1` (same as `C11Sql.IsClustering`). -/
def IsClustering (n : Nat) (cc : List (Nat × Nat)) : Prop :=
  (cc.map (·.1)).Perm (List.range n) ∧ ∀ r ∈ cc, r.2 < n

theorem step_perm_model (n : Nat) (edges : List (Nat × Nat × Int)) (cc : List (Nat × Nat))
    (tPrev tNew one : Int) (hE : ∀ e ∈ edges, e.1 < n ∧ e.2.1 < n) (_hcc : IsClustering n cc) :
    (MultiSql.step (CCSql.nodeRows n) (CCSql.edgeRows edges) (cc.map C05Sql.pairRow)
        (Val.int tPrev) (Val.int tNew) (Val.int one) (CC.fuel n)).Perm
      ((MultiThreshold.next geInt one n edges cc tPrev tNew).map C05Sql.pairRow) :=
  step_perm_gen n edges cc _ tPrev tNew one hE (List.Perm.refl _)

/-- The clustering of all nodes at one threshold is a clustering. -/
theorem cluster_is_clustering (n : Nat) (E : List CC.Edge) (hE : ∀ e ∈ E, e.1 < n ∧ e.2 < n) :
    IsClustering n (CC.cluster n E) := by
  refine ⟨Lemmas.cluster_nodes_perm n E hE, ?_⟩
  rintro ⟨i, c⟩ hic
  have hi := (Lemmas.mem_cluster n E hE i c hic).1
  have := (Lemmas.cluster_is_min_reachable n E hE i c hic).2 i (Reach.refl _)
  exact Nat.lt_of_le_of_lt this hi

theorem next_is_clustering (n : Nat) (edges : List (Nat × Nat × Int)) (cc : List (Nat × Nat))
    (tPrev tNew one : Int) (hE : ∀ e ∈ edges, e.1 < n ∧ e.2.1 < n) (hcc : IsClustering n cc) :
    IsClustering n (MultiThreshold.next geInt one n edges cc tPrev tNew) := by
  rw [Lemmas.MT.next_eq]
  generalize hst : (fun r : Nat × Nat => MultiThreshold.isStable geInt one cc edges tPrev tNew r.2) = st
  generalize hipf : (MultiThreshold.inPlay n (cc.filter st)).get = ipf
  have hlt := Lemmas.MT.thresholdEdges_lt geInt (some tNew) n _ (Lemmas.MT.edgesInPlay_lt ipf n edges hE)
  have hcl := cluster_is_clustering n _ hlt
  have hnd : (cc.map (·.1)).Nodup := hcc.1.nodup_iff.mpr List.nodup_range
  -- on the rows of `cc`, "in play" is "not stable"
  have hip : ∀ r ∈ cc, ipf r.1 = !st r := by
    intro r hr
    rw [← hipf]
    unfold MultiThreshold.inPlay
    rw [Tab.get_build]
    congr 1
    cases hs : st r
    · rw [List.any_eq_false]
      intro r' hr' heq
      obtain ⟨hm', hs'⟩ := List.mem_filter.mp hr'
      have h1 : r'.1 = r.1 := by simpa using heq
      have : r' = r := List.inj_on_of_nodup_map hnd hm' hr h1
      rw [this, hs] at hs'
      cases hs'
    · rw [List.any_eq_true]
      exact ⟨r, List.mem_filter.mpr ⟨hr, hs⟩, by simp⟩
  constructor
  · rw [List.map_append]
    have e1 : cc.filter st = cc.filter ((fun i => !ipf i) ∘ (·.1)) := by
      apply List.filter_congr
      intro r hr
      show _ = !ipf r.1
      rw [hip r hr]
      simp
    have e2 : ((CC.cluster n (CC.thresholdEdges geInt (some tNew) (MultiThreshold.edgesInPlay ipf edges))).filter
        fun r => ipf r.1) = (CC.cluster n (CC.thresholdEdges geInt (some tNew)
          (MultiThreshold.edgesInPlay ipf edges))).filter (ipf ∘ (·.1)) := rfl
    rw [e1, e2, ← List.filter_map, ← List.filter_map]
    have p1 := hcc.1.filter (fun i => !ipf i)
    have p2 := hcl.1.filter ipf
    exact (p1.append p2).trans
      (List.perm_append_comm.trans (List.filter_append_perm ipf (List.range n)))
  · intro r hr
    rcases List.mem_append.mp hr with hr | hr
    · exact hcc.2 r (List.mem_filter.mp hr).1
    · exact hcl.2 r (List.mem_filter.mp hr).1

/-- The loop, with the previous clustering given up to row order. -/
theorem loop_perm_model (n : Nat) (edges : List (Nat × Nat × Int)) (one : Int)
    (hE : ∀ e ∈ edges, e.1 < n ∧ e.2.1 < n) (ts : List Int) :
    ∀ (cc : List (Nat × Nat)) (ccRows : List Row) (tPrev : Int), ccRows.Perm (cc.map pairRow) →
      List.Forall₂ (fun (sqlRows : List Row) (m : Int × List (Nat × Nat)) => sqlRows.Perm (m.2.map C05Sql.pairRow))
        (MultiSql.loop (CCSql.nodeRows n) (CCSql.edgeRows edges) (Val.int one) (CC.fuel n) ccRows (Val.int tPrev)
          (ts.map Val.int))
        (MultiThreshold.loop geInt one n edges cc tPrev ts) := by
  induction ts with
  | nil => intro cc ccRows tPrev _; exact List.Forall₂.nil
  | cons t ts ih =>
    intro cc ccRows tPrev hcc
    have hstep := step_perm_gen n edges cc ccRows tPrev t one hE hcc
    simp only [List.map_cons, MultiSql.loop, MultiThreshold.loop]
    exact List.Forall₂.cons hstep (ih _ _ t hstep)

theorem multi_perm_model (n : Nat) (edges : List (Nat × Nat × Int)) (one : Int) (ts : List Int)
    (hE : ∀ e ∈ edges, e.1 < n ∧ e.2.1 < n) :
    List.Forall₂ (fun (sqlRows : List Row) (m : Int × List (Nat × Nat)) => sqlRows.Perm (m.2.map C05Sql.pairRow))
      (MultiSql.multi (CCSql.nodeRows n) (CCSql.edgeRows edges) (Val.int one) (CC.fuel n) (ts.map Val.int))
      (match ts with
        | [] => []
        | t0 :: rest =>
          let cc0 := MultiThreshold.ccAt geInt n (fun _ => true) edges t0
          (t0, cc0) :: MultiThreshold.loop geInt one n edges cc0 t0 rest) := by
  cases ts with
  | nil => exact List.Forall₂.nil
  | cons t0 rest =>
    have h0 : (CCSql.cluster (CCSql.nodeRows n) (CCSql.edgeRows edges) (some (Val.int t0)) (CC.fuel n)).Perm
        ((MultiThreshold.ccAt geInt n (fun _ => true) edges t0).map pairRow) := by
      rw [Lemmas.MT.ccAt_true]
      exact Lemmas.CCSql.cluster_perm_model n edges (some t0) hE
    simp only [List.map_cons, MultiSql.multi]
    exact List.Forall₂.cons h0 (loop_perm_model n edges one hE rest _ _ t0 h0)

/-- Non-vacuity: one pass of the SQL pipeline on a concrete graph (path 0–1–2 with keys 9, 5; isolated node 3; from
threshold 2 to threshold 6, `one` = 10): the cluster {0,1,2} is not stable and is re-clustered, node 3 stays. -/
example : MultiSql.step (CCSql.nodeRows 4) (CCSql.edgeRows [(0, 1, 9), (1, 2, 5)])
      ([(0, 0), (1, 0), (2, 0), (3, 3)].map C05Sql.pairRow) (Val.int 2) (Val.int 6) (Val.int 10) (CC.fuel 4)
    = (MultiThreshold.next geInt 10 4 [(0, 1, 9), (1, 2, 5)] [(0, 0), (1, 0), (2, 0), (3, 3)] 2 6).map
        C05Sql.pairRow := by decide +kernel

end SplinkVerif.Lemmas.MultiSql
