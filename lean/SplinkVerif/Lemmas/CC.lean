import SplinkVerif.Model.CC
/-!
# Helper lemmas for C05 (connected components)

Invariants of the `solve_connected_components` model (`Model/CC.lean`), their
preservation by `firstIter`/`step`/`loop`, termination of the loop within
`fuel n` passes, and the corollaries used by `Properties/C05.lean`.
-/
namespace SplinkVerif.Lemmas
open SplinkVerif SplinkVerif.CC

/-- Adjacency of the thresholded graph on nodes `0..n-1` (edges are undirected).
Identical (definitionally) to `C05.Adj`. -/
def Adj (n : Nat) (edges : List Edge) (i j : Nat) : Prop :=
  i < n ∧ j < n ∧ ((i, j) ∈ edges ∨ (j, i) ∈ edges)

/-! ## `Reach` -/

theorem reach_trans {adj : Nat → Nat → Prop} {i j k : Nat}
    (h1 : Reach adj i j) (h2 : Reach adj j k) : Reach adj i k := by
  induction h2 with
  | refl => exact h1
  | tail _ hjk ih => exact Reach.tail ih hjk

theorem reach_single {adj : Nat → Nat → Prop} {i j : Nat} (h : adj i j) : Reach adj i j :=
  Reach.tail (Reach.refl i) h

theorem reach_symm {adj : Nat → Nat → Prop} (hs : ∀ a b, adj a b → adj b a) {i j : Nat}
    (h : Reach adj i j) : Reach adj j i := by
  induction h with
  | refl => exact Reach.refl _
  | tail _ hjk ih => exact reach_trans (reach_single (hs _ _ hjk)) ih

/-! ## `minOver` -/

theorem minOver_le_init (l : List Nat) (init : Nat) : minOver l init ≤ init := by
  unfold minOver
  induction l generalizing init with
  | nil => exact Nat.le_refl _
  | cons a l ih =>
    simp only [List.foldl_cons]
    exact Nat.le_trans (ih _) (Nat.min_le_left _ _)

theorem minOver_le_mem (l : List Nat) (init x : Nat) (h : x ∈ l) : minOver l init ≤ x := by
  induction l generalizing init with
  | nil => cases h
  | cons a l ih =>
    have hstep : minOver (a :: l) init = minOver l (min init a) := by
      simp [minOver]
    rw [hstep]
    rcases List.mem_cons.mp h with rfl | h
    · exact Nat.le_trans (minOver_le_init _ _) (Nat.min_le_right _ _)
    · exact ih _ h

theorem minOver_mem (l : List Nat) (init : Nat) : minOver l init = init ∨ minOver l init ∈ l := by
  induction l generalizing init with
  | nil => left; rfl
  | cons a l ih =>
    have hstep : minOver (a :: l) init = minOver l (min init a) := by
      simp [minOver]
    rw [hstep]
    rcases ih (min init a) with h | h
    · rw [h]
      by_cases hc : init ≤ a
      · left; exact Nat.min_eq_left hc
      · right
        have : min init a = a := Nat.min_eq_right (by omega)
        rw [this]; exact List.mem_cons_self
    · right; exact List.mem_cons_of_mem _ h

/-! ## Sums and filters -/

theorem sum_map_le (l : List Nat) (f g : Nat → Nat) (h : ∀ x ∈ l, f x ≤ g x) :
    (l.map f).sum ≤ (l.map g).sum := by
  induction l with
  | nil => simp
  | cons a l ih =>
    simp only [List.map_cons, List.sum_cons]
    have h1 := h a List.mem_cons_self
    have h2 := ih (fun x hx => h x (List.mem_cons_of_mem _ hx))
    omega

theorem sum_map_lt (l : List Nat) (f g : Nat → Nat) (h : ∀ x ∈ l, f x ≤ g x)
    (x : Nat) (hx : x ∈ l) (hlt : f x < g x) : (l.map f).sum < (l.map g).sum := by
  induction l with
  | nil => cases hx
  | cons a l ih =>
    simp only [List.map_cons, List.sum_cons]
    have h1 := h a List.mem_cons_self
    have hrest : ∀ y ∈ l, f y ≤ g y := fun y hy => h y (List.mem_cons_of_mem _ hy)
    rcases List.mem_cons.mp hx with rfl | hx
    · have h2 := sum_map_le l f g hrest
      omega
    · have h2 := ih hrest hx
      omega

theorem sum_map_bound (l : List Nat) (f : Nat → Nat) (b : Nat) (h : ∀ x ∈ l, f x ≤ b) :
    (l.map f).sum ≤ l.length * b := by
  induction l with
  | nil => simp
  | cons a l ih =>
    simp only [List.map_cons, List.sum_cons, List.length_cons]
    have h1 := h a List.mem_cons_self
    have h2 := ih (fun x hx => h x (List.mem_cons_of_mem _ hx))
    rw [Nat.add_mul]
    omega

theorem filter_split_perm {α : Type} (p q : α → Bool) (l : List α)
    (h : ∀ x ∈ l, q x = true → p x = true) :
    (l.filter (fun x => p x && !q x) ++ l.filter q).Perm (l.filter p) := by
  have h1 := List.filter_append_perm q (l.filter p)
  rw [List.filter_filter, List.filter_filter] at h1
  have e1 : l.filter (fun a => q a && p a) = l.filter q := by
    apply List.filter_congr
    intro x hx
    cases hq : q x
    · simp
    · simp [h x hx hq]
  have e2 : l.filter (fun a => (!q a) && p a) = l.filter (fun x => p x && !q x) := by
    apply List.filter_congr
    intro x _
    exact Bool.and_comm _ _
  rw [e1, e2] at h1
  exact List.perm_append_comm.trans h1

/-! ## Neighbours -/

/-- What the invariants need to know about the neighbour function. -/
structure NbOK (n : Nat) (adj : Nat → Nat → Prop) (nb : Nat → List Nat) : Prop where
  self : ∀ i, i < n → i ∈ nb i
  symm : ∀ i j, i < n → j ∈ nb i → i ∈ nb j
  lt : ∀ i j, i < n → j ∈ nb i → j < n
  toAdj : ∀ i j, i < n → j ∈ nb i → j ≠ i → adj i j
  ofAdj : ∀ i j, i < n → adj i j → j ∈ nb i

theorem mem_edgesWithSelfLoops (n : Nat) (edges : List Edge) (a b : Nat) :
    (a, b) ∈ edgesWithSelfLoops n edges ↔ (a, b) ∈ edges ∨ (a < n ∧ a = b) := by
  unfold edgesWithSelfLoops
  rw [List.mem_eraseDups, List.mem_append, List.mem_map]
  constructor
  · rintro (h | ⟨v, hv, hveq⟩)
    · exact Or.inl h
    · right
      have h1 : v = a := congrArg Prod.fst hveq
      have h2 : v = b := congrArg Prod.snd hveq
      exact ⟨by rw [← h1]; exact List.mem_range.mp hv, by rw [← h1, ← h2]⟩
  · rintro (h | ⟨h1, h2⟩)
    · exact Or.inl h
    · right
      exact ⟨a, List.mem_range.mpr h1, by rw [h2]⟩

theorem mem_neighboursOf (es : List Edge) (i j : Nat) :
    j ∈ neighboursOf es i ↔ (i, j) ∈ es ∨ (j, i) ∈ es := by
  unfold neighboursOf
  rw [List.mem_eraseDups, List.mem_append, List.mem_map, List.mem_map]
  constructor
  · rintro (⟨e, he, rfl⟩ | ⟨e, he, rfl⟩)
    · obtain ⟨hm, hk⟩ := List.mem_filter.mp he
      have : e.1 = i := by simpa using hk
      left; rw [← this]; exact hm
    · obtain ⟨hm, hk⟩ := List.mem_filter.mp he
      have : e.2 = i := by simpa using hk
      right; rw [← this]; exact hm
  · rintro (h | h)
    · exact Or.inl ⟨(i, j), List.mem_filter.mpr ⟨h, by simp⟩, rfl⟩
    · exact Or.inr ⟨(j, i), List.mem_filter.mpr ⟨h, by simp⟩, rfl⟩

theorem neighbours_get (n : Nat) (edges : List Edge) :
    (neighbours n edges).get = neighboursOf (edgesWithSelfLoops n edges) := by
  unfold neighbours
  exact Tab.get_build_fun _ _

theorem mem_nb (n : Nat) (edges : List Edge) (i j : Nat) :
    j ∈ (neighbours n edges).get i ↔
      ((i, j) ∈ edges ∨ (j, i) ∈ edges) ∨ (i < n ∧ i = j) := by
  rw [neighbours_get, mem_neighboursOf, mem_edgesWithSelfLoops, mem_edgesWithSelfLoops]
  constructor
  · rintro ((h | h) | (h | h))
    · exact Or.inl (Or.inl h)
    · exact Or.inr h
    · exact Or.inl (Or.inr h)
    · exact Or.inr ⟨by omega, by omega⟩
  · rintro ((h | h) | h)
    · exact Or.inl (Or.inl h)
    · exact Or.inr (Or.inl h)
    · exact Or.inl (Or.inr h)

theorem nbOK (n : Nat) (edges : List Edge) (hE : ∀ e ∈ edges, e.1 < n ∧ e.2 < n) :
    NbOK n (Adj n edges) (neighbours n edges).get where
  self := fun i hi => (mem_nb n edges i i).mpr (Or.inr ⟨hi, rfl⟩)
  symm := by
    intro i j hi hj
    rcases (mem_nb n edges i j).mp hj with (h | h) | ⟨_, h⟩
    · exact (mem_nb n edges j i).mpr (Or.inl (Or.inr h))
    · exact (mem_nb n edges j i).mpr (Or.inl (Or.inl h))
    · subst h; exact hj
  lt := by
    intro i j hi hj
    rcases (mem_nb n edges i j).mp hj with (h | h) | ⟨_, h⟩
    · exact (hE _ h).2
    · exact (hE _ h).1
    · omega
  toAdj := by
    intro i j hi hj hne
    rcases (mem_nb n edges i j).mp hj with (h | h) | ⟨_, h⟩
    · exact ⟨hi, (hE _ h).2, Or.inl h⟩
    · exact ⟨hi, (hE _ h).1, Or.inr h⟩
    · exact absurd h.symm hne
  ofAdj := by
    intro i j _ h
    exact (mem_nb n edges i j).mpr (Or.inl h.2.2)

theorem adj_symm (n : Nat) (edges : List Edge) (a b : Nat) (h : Adj n edges a b) :
    Adj n edges b a :=
  ⟨h.2.1, h.1, h.2.2.symm⟩

/-! ## `step` as plain functions -/

/-- `live` column after a pass. -/
def live' (n : Nat) (nb : Nat → List Nat) (s : St) (i : Nat) : Bool :=
  s.live i && nonStable n nb s (s.rep i)

/-- `rep` column after a pass. -/
def rep' (n : Nat) (nb : Nat → List Nat) (s : St) (i : Nat) : Nat :=
  if live' n nb s i then
    minOver (((nb i).filter fun j => live' n nb s j && s.upd j).map s.rep) (s.rep i)
  else s.rep i

theorem step_live (n : Nat) (nb : Nat → List Nat) (s : St) :
    (step n nb s).live = live' n nb s := by
  simp only [step, Tab.get_build_fun, Tab.get_build]
  rfl

theorem step_rep (n : Nat) (nb : Nat → List Nat) (s : St) :
    (step n nb s).rep = rep' n nb s := by
  simp only [step, Tab.get_build_fun, Tab.get_build]
  rfl

theorem step_upd (n : Nat) (nb : Nat → List Nat) (s : St) (i : Nat) :
    (step n nb s).upd i = (live' n nb s i && rep' n nb s i != s.rep i) := by
  simp only [step, Tab.get_build_fun, Tab.get_build]
  rfl

theorem step_out (n : Nat) (nb : Nat → List Nat) (s : St) :
    (step n nb s).out = s.out ++
      ((List.range n).filter fun i => s.live i && !live' n nb s i).map fun i => (i, s.rep i) := by
  simp only [step, Tab.get_build_fun, Tab.get_build]
  rfl

theorem live'_live {n : Nat} {nb : Nat → List Nat} {s : St} {i : Nat}
    (h : live' n nb s i = true) : s.live i = true := by
  unfold live' at h
  exact (Bool.and_eq_true _ _ ▸ h).1

theorem rep'_le (n : Nat) (nb : Nat → List Nat) (s : St) (i : Nat) :
    rep' n nb s i ≤ s.rep i := by
  unfold rep'
  split
  · exact minOver_le_init _ _
  · exact Nat.le_refl _

theorem rep'_of_not_live {n : Nat} {nb : Nat → List Nat} {s : St} {i : Nat}
    (h : live' n nb s i = false) : rep' n nb s i = s.rep i := by
  unfold rep'
  simp [h]

/-- The new representative is the old one, or the old one of a neighbour. -/
theorem rep'_cases (n : Nat) (nb : Nat → List Nat) (s : St) (i : Nat) :
    rep' n nb s i = s.rep i ∨ ∃ j, j ∈ nb i ∧ rep' n nb s i = s.rep j := by
  unfold rep'
  split
  · rcases minOver_mem (((nb i).filter fun j => live' n nb s j && s.upd j).map s.rep) (s.rep i)
      with h | h
    · exact Or.inl h
    · right
      obtain ⟨j, hj, hjeq⟩ := List.mem_map.mp h
      exact ⟨j, (List.mem_filter.mp hj).1, hjeq.symm⟩
  · exact Or.inl rfl

theorem nonStable_false {n : Nat} {nb : Nat → List Nat} {s : St} {g : Nat}
    (h : nonStable n nb s g = false) (k : Nat) (hk : k < n) (hl : s.live k = true)
    (hr : s.rep k = g) : hasForeign nb s k = false := by
  unfold nonStable at h
  rw [List.any_eq_false] at h
  have := h k (List.mem_range.mpr hk)
  simpa [hl, hr] using this

theorem hasForeign_false {nb : Nat → List Nat} {s : St} {k : Nat}
    (h : hasForeign nb s k = false) (j : Nat) (hj : j ∈ nb k) (hl : s.live j = true) :
    s.rep k = s.rep j := by
  unfold hasForeign at h
  rw [List.any_eq_false] at h
  have := h j hj
  simpa [hl] using this

/-! ## Invariants -/

structure Inv (n : Nat) (adj : Nat → Nat → Prop) (nb : Nat → List Nat) (s : St) : Prop where
  A : ∀ i, i < n → s.rep i ≤ i
  B : ∀ i, i < n → Reach adj i (s.rep i)
  C : ∀ i j, i < n → s.live i = true → j ∈ nb i → s.live j = true → s.upd j = false →
        s.rep i ≤ s.rep j
  D : ∀ i j, i < n → s.live i = false → j ∈ nb i → s.live j = false ∧ s.rep j = s.rep i
  P : (s.out.map (·.1) ++ (List.range n).filter s.live).Perm (List.range n)
  O : ∀ i c, (i, c) ∈ s.out → i < n ∧ s.live i = false ∧ c = s.rep i

section
variable {n : Nat} {adj : Nat → Nat → Prop} {nb : Nat → List Nat}

theorem reach_nb (hnb : NbOK n adj nb) {i j : Nat} (hi : i < n) (hj : j ∈ nb i) :
    Reach adj i j := by
  by_cases h : j = i
  · subst h; exact Reach.refl _
  · exact reach_single (hnb.toAdj i j hi hj h)

theorem initialRep_le (nb : Nat → List Nat) (i : Nat) : initialRep nb i ≤ i :=
  minOver_le_init _ _

theorem reach_initialRep (hnb : NbOK n adj nb) {i : Nat} (hi : i < n) :
    Reach adj i (initialRep nb i) := by
  unfold initialRep
  rcases minOver_mem (nb i) i with h | h
  · rw [h]; exact Reach.refl _
  · exact reach_nb hnb hi h

theorem firstIter_rep (n : Nat) (nb : Nat → List Nat) (i : Nat) :
    (firstIter n nb).rep i = minOver ((nb i).map (initialRep nb)) (initialRep nb i) := by
  simp only [firstIter, Tab.get_build_fun, Tab.get_build]

theorem firstIter_upd (n : Nat) (nb : Nat → List Nat) (i : Nat) :
    (firstIter n nb).upd i = ((firstIter n nb).rep i != initialRep nb i) := by
  simp only [firstIter, Tab.get_build_fun, Tab.get_build]

theorem firstIter_live (n : Nat) (nb : Nat → List Nat) (i : Nat) :
    (firstIter n nb).live i = true := rfl

theorem firstIter_out (n : Nat) (nb : Nat → List Nat) : (firstIter n nb).out = [] := rfl

theorem inv_firstIter (hnb : NbOK n adj nb) : Inv n adj nb (firstIter n nb) where
  A := by
    intro i _
    rw [firstIter_rep]
    exact Nat.le_trans (minOver_le_init _ _) (initialRep_le nb i)
  B := by
    intro i hi
    rw [firstIter_rep]
    rcases minOver_mem ((nb i).map (initialRep nb)) (initialRep nb i) with h | h
    · rw [h]; exact reach_initialRep hnb hi
    · obtain ⟨j, hj, hjeq⟩ := List.mem_map.mp h
      rw [← hjeq]
      exact reach_trans (reach_nb hnb hi hj) (reach_initialRep hnb (hnb.lt i j hi hj))
  C := by
    intro i j _ _ hj _ hu
    rw [firstIter_upd] at hu
    have hje : (firstIter n nb).rep j = initialRep nb j := by simpa using hu
    rw [hje, firstIter_rep]
    exact minOver_le_mem _ _ _ (List.mem_map.mpr ⟨j, hj, rfl⟩)
  D := by
    intro i j _ hl
    rw [firstIter_live] at hl
    cases hl
  P := by
    rw [firstIter_out]
    have : (List.range n).filter (firstIter n nb).live = List.range n :=
      List.filter_eq_self.mpr (fun a _ => firstIter_live n nb a)
    rw [this]
    exact List.Perm.refl _
  O := by
    intro i c h
    rw [firstIter_out] at h
    cases h

theorem inv_step (hnb : NbOK n adj nb) {s : St} (hs : Inv n adj nb s) :
    Inv n adj nb (step n nb s) where
  A := by
    intro i hi
    rw [step_rep]
    exact Nat.le_trans (rep'_le n nb s i) (hs.A i hi)
  B := by
    intro i hi
    rw [step_rep]
    rcases rep'_cases n nb s i with h | ⟨j, hj, h⟩
    · rw [h]; exact hs.B i hi
    · rw [h]
      exact reach_trans (reach_nb hnb hi hj) (hs.B j (hnb.lt i j hi hj))
  C := by
    intro i j hi hli hj hlj hu
    rw [step_live] at hli hlj
    rw [step_upd, hlj] at hu
    rw [step_rep]
    have hje : rep' n nb s j = s.rep j := by simpa using hu
    rw [hje]
    cases huj : s.upd j
    · exact Nat.le_trans (rep'_le n nb s i)
        (hs.C i j hi (live'_live hli) hj (live'_live hlj) huj)
    · unfold rep'
      rw [if_pos hli]
      apply minOver_le_mem
      exact List.mem_map.mpr ⟨j, List.mem_filter.mpr ⟨hj, by simp [hlj, huj]⟩, rfl⟩
  D := by
    intro i j hi hl hj
    rw [step_live] at hl
    rw [step_live, step_rep, rep'_of_not_live hl]
    have hjn : j < n := hnb.lt i j hi hj
    cases hli : s.live i
    · obtain ⟨h1, h2⟩ := hs.D i j hi hli hj
      have hlj' : live' n nb s j = false := by simp [live', h1]
      exact ⟨hlj', by rw [rep'_of_not_live hlj', h2]⟩
    · have hns : nonStable n nb s (s.rep i) = false := by
        simpa [live', hli] using hl
      have hlj : s.live j = true := by
        cases hlj : s.live j
        · have := (hs.D j i hjn hlj (hnb.symm i j hi hj)).1
          rw [hli] at this; cases this
        · rfl
      have hrep : s.rep i = s.rep j :=
        hasForeign_false (nonStable_false hns i hi hli rfl) j hj hlj
      have hlj' : live' n nb s j = false := by
        simp [live', ← hrep, hns]
      exact ⟨hlj', by rw [rep'_of_not_live hlj', hrep]⟩
  P := by
    rw [step_out, step_live, List.map_append, List.map_map, List.append_assoc]
    have hmap : List.map ((fun x : Nat × Nat => x.1) ∘ fun i => (i, s.rep i))
        ((List.range n).filter fun i => s.live i && !live' n nb s i)
        = (List.range n).filter fun i => s.live i && !live' n nb s i := by
      simp [Function.comp_def]
    rw [hmap]
    have hsplit := filter_split_perm s.live (live' n nb s) (List.range n)
      (fun x _ hx => live'_live hx)
    exact (List.Perm.append (List.Perm.refl _) hsplit).trans hs.P
  O := by
    intro i c h
    rw [step_out] at h
    rw [step_live, step_rep]
    rcases List.mem_append.mp h with h | h
    · obtain ⟨h1, h2, h3⟩ := hs.O i c h
      have hl : live' n nb s i = false := by simp [live', h2]
      exact ⟨h1, hl, by rw [rep'_of_not_live hl]; exact h3⟩
    · obtain ⟨k, hk, hkeq⟩ := List.mem_map.mp h
      have e1 : k = i := congrArg Prod.fst hkeq
      have e2 : s.rep k = c := congrArg Prod.snd hkeq
      subst e1
      obtain ⟨hm, hp⟩ := List.mem_filter.mp hk
      have hl : live' n nb s k = false := by
        have := (Bool.and_eq_true _ _ ▸ hp).2
        simpa using this
      exact ⟨List.mem_range.mp hm, hl, by rw [rep'_of_not_live hl]; exact e2.symm⟩

theorem inv_loop (hnb : NbOK n adj nb) (fuel : Nat) {s : St} (hs : Inv n adj nb s) :
    Inv n adj nb (loop n nb fuel s) := by
  induction fuel generalizing s with
  | zero => exact hs
  | succ f ih =>
    unfold loop
    split
    · exact ih (inv_step hnb hs)
    · exact hs

end

/-! ## Termination -/

def sumRep (n : Nat) (s : St) : Nat := ((List.range n).map s.rep).sum

theorem exists_of_updCount_pos {n : Nat} {s : St} (h : 0 < updCount n s) :
    ∃ i, i < n ∧ s.live i = true ∧ s.upd i = true := by
  unfold updCount at h
  obtain ⟨i, hi⟩ := List.exists_mem_of_length_pos h
  obtain ⟨hm, hp⟩ := List.mem_filter.mp hi
  have := Bool.and_eq_true _ _ ▸ hp
  exact ⟨i, List.mem_range.mp hm, this.1, this.2⟩

theorem updCount_zero {n : Nat} {s : St} (h : updCount n s = 0) (i : Nat) (hi : i < n)
    (hl : s.live i = true) : s.upd i = false := by
  unfold updCount at h
  have h1 := List.length_eq_zero_iff.mp h
  rw [List.filter_eq_nil_iff] at h1
  have := h1 i (List.mem_range.mpr hi)
  simpa [hl] using this

theorem sumRep_step_lt (n : Nat) (nb : Nat → List Nat) (s : St)
    (h : 0 < updCount n (step n nb s)) : sumRep n (step n nb s) < sumRep n s := by
  obtain ⟨i, hi, _, hu⟩ := exists_of_updCount_pos h
  rw [step_upd] at hu
  have hne : rep' n nb s i ≠ s.rep i := by
    have := (Bool.and_eq_true _ _ ▸ hu).2
    simpa using this
  unfold sumRep
  rw [step_rep]
  apply sum_map_lt _ _ _ (fun x _ => rep'_le n nb s x) i (List.mem_range.mpr hi)
  have := rep'_le n nb s i
  omega

theorem loop_of_zero (n : Nat) (nb : Nat → List Nat) (fuel : Nat) (s : St)
    (h : updCount n s = 0) : loop n nb fuel s = s := by
  cases fuel with
  | zero => rfl
  | succ f =>
    unfold loop
    rw [if_neg (by omega)]

theorem loop_updCount_zero (n : Nat) (nb : Nat → List Nat) (fuel : Nat) (s : St)
    (h : updCount n s = 0 ∨ sumRep n s < fuel) : updCount n (loop n nb fuel s) = 0 := by
  induction fuel generalizing s with
  | zero =>
    rcases h with h | h
    · exact h
    · omega
  | succ f ih =>
    by_cases hz : updCount n s = 0
    · rw [loop_of_zero n nb _ s hz]; exact hz
    · unfold loop
      rw [if_pos (by omega)]
      apply ih
      by_cases hz' : updCount n (step n nb s) = 0
      · exact Or.inl hz'
      · right
        have h1 := sumRep_step_lt n nb s (by omega)
        rcases h with h | h
        · exact absurd h hz
        · omega

theorem sumRep_le {n : Nat} {adj : Nat → Nat → Prop} {nb : Nat → List Nat} {s : St}
    (hs : Inv n adj nb s) : sumRep n s ≤ n * n := by
  unfold sumRep
  have := sum_map_bound (List.range n) s.rep n (fun x hx => by
    have hx' := List.mem_range.mp hx
    have := hs.A x hx'
    omega)
  simpa using this

/-! ## The run -/

theorem inv_run (n : Nat) (edges : List Edge) (hE : ∀ e ∈ edges, e.1 < n ∧ e.2 < n) :
    Inv n (Adj n edges) (neighbours n edges).get (run n edges) := by
  have hnb := nbOK n edges hE
  unfold run
  exact inv_loop hnb _ (inv_step hnb (inv_firstIter hnb))

theorem run_updCount_zero (n : Nat) (edges : List Edge) (hE : ∀ e ∈ edges, e.1 < n ∧ e.2 < n) :
    updCount n (run n edges) = 0 := by
  have hnb := nbOK n edges hE
  unfold run
  apply loop_updCount_zero
  right
  have := sumRep_le (inv_step hnb (inv_firstIter hnb))
  unfold fuel
  omega

/-- At exit, neighbours share their representative. -/
theorem run_rep_nb (n : Nat) (edges : List Edge) (hE : ∀ e ∈ edges, e.1 < n ∧ e.2 < n)
    (i j : Nat) (hi : i < n) (hj : j ∈ (neighbours n edges).get i) :
    (run n edges).rep i = (run n edges).rep j := by
  have hnb := nbOK n edges hE
  have hs := inv_run n edges hE
  have hz := run_updCount_zero n edges hE
  have hjn : j < n := hnb.lt i j hi hj
  have hji := hnb.symm i j hi hj
  cases hli : (run n edges).live i
  · exact ((hs.D i j hi hli hj).2).symm
  · have hlj : (run n edges).live j = true := by
      cases hlj : (run n edges).live j
      · have := (hs.D j i hjn hlj hji).1
        rw [hli] at this; cases this
      · rfl
    have h1 := hs.C i j hi hli hj hlj (updCount_zero hz j hjn hlj)
    have h2 := hs.C j i hjn hlj hji hli (updCount_zero hz i hi hli)
    omega

theorem run_rep_reach (n : Nat) (edges : List Edge) (hE : ∀ e ∈ edges, e.1 < n ∧ e.2 < n)
    (i j : Nat) (hi : i < n) (h : Reach (Adj n edges) i j) :
    j < n ∧ (run n edges).rep i = (run n edges).rep j := by
  have hnb := nbOK n edges hE
  induction h with
  | refl => exact ⟨hi, rfl⟩
  | tail _ hjk ih =>
    obtain ⟨hjn, heq⟩ := ih
    exact ⟨hjk.2.1, heq.trans (run_rep_nb n edges hE _ _ hjn (hnb.ofAdj _ _ hjn hjk))⟩

theorem mem_cluster (n : Nat) (edges : List Edge) (hE : ∀ e ∈ edges, e.1 < n ∧ e.2 < n)
    (i c : Nat) (h : (i, c) ∈ cluster n edges) : i < n ∧ c = (run n edges).rep i := by
  have hs := inv_run n edges hE
  unfold cluster output at h
  rcases List.mem_append.mp h with h | h
  · obtain ⟨h1, _, h3⟩ := hs.O i c h
    exact ⟨h1, h3⟩
  · obtain ⟨k, hk, hkeq⟩ := List.mem_map.mp h
    have e1 : k = i := congrArg Prod.fst hkeq
    have e2 : (run n edges).rep k = c := congrArg Prod.snd hkeq
    subst e1
    exact ⟨List.mem_range.mp (List.mem_filter.mp hk).1, e2.symm⟩

theorem cluster_nodes_perm (n : Nat) (edges : List Edge) (hE : ∀ e ∈ edges, e.1 < n ∧ e.2 < n) :
    ((cluster n edges).map (·.1)).Perm (List.range n) := by
  have hs := inv_run n edges hE
  unfold cluster output
  rw [List.map_append, List.map_map]
  have hmap : List.map ((fun x : Nat × Nat => x.1) ∘ fun i => (i, (run n edges).rep i))
      ((List.range n).filter (run n edges).live) = (List.range n).filter (run n edges).live := by
    simp [Function.comp_def]
  rw [hmap]
  exact hs.P

theorem cluster_is_min_reachable (n : Nat) (edges : List Edge)
    (hE : ∀ e ∈ edges, e.1 < n ∧ e.2 < n) :
    ∀ i c, (i, c) ∈ cluster n edges →
      Reach (Adj n edges) i c ∧ ∀ j, Reach (Adj n edges) i j → c ≤ j := by
  intro i c h
  have hs := inv_run n edges hE
  obtain ⟨hi, hc⟩ := mem_cluster n edges hE i c h
  subst hc
  refine ⟨hs.B i hi, ?_⟩
  intro j hj
  obtain ⟨hjn, heq⟩ := run_rep_reach n edges hE i j hi hj
  rw [heq]
  exact hs.A j hjn

theorem same_cluster_iff_reach (n : Nat) (edges : List Edge)
    (hE : ∀ e ∈ edges, e.1 < n ∧ e.2 < n) (i j ci cj : Nat)
    (hi : (i, ci) ∈ cluster n edges) (hj : (j, cj) ∈ cluster n edges) :
    ci = cj ↔ Reach (Adj n edges) i j := by
  have hs := inv_run n edges hE
  obtain ⟨hin, hci⟩ := mem_cluster n edges hE i ci hi
  obtain ⟨hjn, hcj⟩ := mem_cluster n edges hE j cj hj
  subst hci hcj
  constructor
  · intro heq
    have h1 := hs.B i hin
    have h2 := reach_symm (adj_symm n edges) (hs.B j hjn)
    rw [heq] at h1
    exact reach_trans h1 h2
  · intro h
    exact (run_rep_reach n edges hE i j hin h).2

theorem reach_isolated (n : Nat) (edges : List Edge) (i : Nat)
    (hiso : ∀ e ∈ edges, (e.1 = i ∨ e.2 = i) → e = (i, i)) (k : Nat)
    (h : Reach (Adj n edges) i k) : k = i := by
  induction h with
  | refl => rfl
  | tail _ hjk ih =>
    subst ih
    rcases hjk.2.2 with h | h
    · have := hiso _ h (Or.inl rfl)
      exact congrArg Prod.snd this
    · have := hiso _ h (Or.inr rfl)
      exact congrArg Prod.fst this

theorem isolated_is_singleton (n : Nat) (edges : List Edge)
    (hE : ∀ e ∈ edges, e.1 < n ∧ e.2 < n) (i : Nat)
    (hiso : ∀ e ∈ edges, (e.1 = i ∨ e.2 = i) → e = (i, i)) :
    ∀ j c, (j, c) ∈ cluster n edges → (c = i ↔ j = i) := by
  intro j c h
  have hs := inv_run n edges hE
  obtain ⟨hjn, hc⟩ := mem_cluster n edges hE j c h
  subst hc
  constructor
  · intro heq
    have h1 := hs.B j hjn
    rw [heq] at h1
    exact reach_isolated n edges i hiso j (reach_symm (adj_symm n edges) h1)
  · intro heq
    subst heq
    exact reach_isolated n edges j hiso _ (hs.B j hjn)

end SplinkVerif.Lemmas
