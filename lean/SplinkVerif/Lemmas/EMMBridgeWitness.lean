import SplinkVerif.Lemmas.EMMBridge
import Mathlib.Tactic.NormNum
import Mathlib.Tactic.IntervalCases
/-!
# Concrete instances for the M-step bridge (`Lemmas/EMMBridge.lean`)

* `Ex`  — a model with 2 comparisons (null / exact / else levels) and 4 rows that satisfies
  every hypothesis of `step_bridge_eq`, `step_bridge_positions` and `execLogLik_mono`
  (non-vacuity); the same instance shows that the *position-indexed* abstraction `absParams`
  differs from the abstract step in the never-read slot of a null level (`Ex.null_slot`).
* `Fix` — a level-level `fix_m_probability` flag: one `EM.step` **lowers** the log-likelihood.
* `Dup` — two levels of a comparison carrying the same value: the step differs from the
  abstract step.
* `Nul` — a non-null level carrying the value −1: one `EM.step` lowers the log-likelihood.
* `Sub` — a start that is not sub-normalised: one `EM.step` lowers the log-likelihood
  (finding K8 on the executable model).
* `Shp` — `states` not of the shape of `comps`: the step drops comparisons.
-/
namespace SplinkVerif.Lemmas.EMMBridge
open SplinkVerif SplinkVerif.Score SplinkVerif.Lemmas.Score
open SplinkVerif.Lemmas SplinkVerif.Lemmas.EMBridge SplinkVerif.Lemmas.EM

noncomputable section

/-- a row of a one-comparison model -/
def row1 (g : List B3) (n : ℕ) : EM.Row ℝ :=
  { pair := { guards := [g], tfl := fun _ => none, tfr := fun _ => none }, count := n }

/-- a row of a two-comparison model -/
def row2 (g0 g1 : List B3) (n : ℕ) : EM.Row ℝ :=
  { pair := { guards := [g0, g1], tfl := fun _ => none, tfr := fun _ => none }, count := n }

/-- the log-likelihood of two rows with count 1 -/
theorem execLogLik_pair (θ : EM.Params ℝ) (a b : EM.Row ℝ) (ha : a.count = 1) (hb : b.count = 1) :
    execLogLik θ [a, b] = Real.log (execLik θ a) + Real.log (execLik θ b) := by
  simp [execLogLik, ha, hb]

/-! ## `Ex`: all hypotheses hold -/
namespace Ex

def nullL : Level ℝ := { isNull := true, isElse := false, cvv := -1, m := 0, u := 0, tf := none }
def exactL (m u : ℝ) : Level ℝ :=
  { isNull := false, isElse := false, cvv := 1, m := m, u := u, tf := none }
def elseL (m u : ℝ) : Level ℝ :=
  { isNull := false, isElse := true, cvv := 0, m := m, u := u, tf := none }

/-- prior 1/10; comparison 0: m = (9/10, 1/10), u = (1/10, 9/10); comparison 1:
m = (8/10, 2/10), u = (2/10, 8/10); each with a null level first -/
def θ : EM.Params ℝ where
  prior := 1 / 10
  comps := [[nullL, exactL (9/10) (1/10), elseL (1/10) (9/10)],
            [nullL, exactL (8/10) (2/10), elseL (2/10) (8/10)]]
  states := [[{}, {}, {}], [{}, {}, {}]]

@[simp] theorem θ_comps : θ.comps =
    [[nullL, exactL (9/10) (1/10), elseL (1/10) (9/10)],
     [nullL, exactL (8/10) (2/10), elseL (2/10) (8/10)]] := rfl

def gNull : List B3 := [some true, none, none]
def gExact : List B3 := [some false, some true, none]
def gElse : List B3 := [some false, some false, none]

/-- patterns (1,0)×3, (null,1)×1, (0,0)×2, (1,1)×1 -/
def rows : List (EM.Row ℝ) :=
  [row2 gExact gElse 3, row2 gNull gExact 1, row2 gElse gElse 2, row2 gExact gExact 1]

theorem prior_pos : 0 < θ.prior := by norm_num [θ]
theorem prior_lt : θ.prior < 1 := by norm_num [θ]
theorem noTf : NoTf θ := by simp [NoTf, θ, hasTf, nullL, exactL, elseL]
theorem positive : PositiveMU θ := by simp [PositiveMU, θ, nullL, exactL, elseL]
theorem distinct : DistinctValues θ := by simp [DistinctValues, θ, nullL, exactL, elseL]
theorem nullMinusOne : NullIsMinusOne θ := by simp [NullIsMinusOne, θ, nullL, exactL, elseL]
theorem shape : SameShape θ := by simp [SameShape, θ]
theorem flags : LevelFlagsOff θ := by simp [LevelFlagsOff, θ]
theorem guards : GuardsMatch θ rows := by simp [GuardsMatch, θ, rows, row2]
theorem counts : ∀ r ∈ rows, 0 < r.count := by simp [rows, row2]

theorem total : EveryComparisonAssignsLevel θ rows := by
  intro r hr c hc
  have hc' : c < 2 := hc
  simp only [rows, List.mem_cons, List.not_mem_nil, or_false] at hr
  interval_cases c <;> rcases hr with rfl | rfl | rfl | rfl <;>
    simp [EM.gammaAt, θ, row2, gamma, gNull, gExact, gElse, B3.isTrue, nullL, exactL, elseL]

theorem obs0 : EM.observedValues θ rows 0 = [1, 0] := by
  simp [EM.observedValues, EM.gammaAt, θ, rows, row2, gamma, gNull, gExact, gElse, B3.isTrue,
    nullL, exactL, elseL, List.eraseDups_cons]

theorem obs1 : EM.observedValues θ rows 1 = [0, 1] := by
  simp [EM.observedValues, EM.gammaAt, θ, rows, row2, gamma, gNull, gExact, gElse, B3.isTrue,
    nullL, exactL, elseL, List.eraseDups_cons]

theorem subM : SubNormalisedM θ rows := by
  intro c hc
  have hc' : c < 2 := hc
  interval_cases c
  · rw [obs0]; simp [θ, nullL, exactL, elseL]; norm_num
  · rw [obs1]; simp [θ, nullL, exactL, elseL]; norm_num

theorem subU : SubNormalisedU θ rows := by
  intro c hc
  have hc' : c < 2 := hc
  interval_cases c
  · rw [obs0]; simp [θ, nullL, exactL, elseL]; norm_num
  · rw [obs1]; simp [θ, nullL, exactL, elseL]; norm_num

/-- On the position-indexed abstraction the literal equality fails in the slot of a null
level: `EM.step` keeps the stored 0, `EML.emStep` writes the placeholder. -/
theorem null_slot (sess : EM.Session) (hf : sess.fixM = false) :
    ∃ (c : Fin (EM.step sess θ rows).comps.length) (i : Fin (absL (EM.step sess θ rows) c)),
      (absParams (EM.step sess θ rows)).m c i ≠
        (castParams (step_comps_length sess θ rows shape flags)
          (step_absL sess θ rows shape flags) (absStep sess θ rows)).m c i := by
  have hC := step_comps_length sess θ rows shape flags
  have hL := step_absL sess θ rows shape flags
  let c0 : Fin (EM.step sess θ rows).comps.length := ⟨0, by rw [hC]; simp⟩
  let i0 : Fin (absL (EM.step sess θ rows) c0) := ⟨0, by rw [hL c0]; exact Nat.zero_lt_succ 2⟩
  refine ⟨c0, i0, ?_⟩
  have hE := eStepBridged_of θ rows prior_pos prior_lt noTf positive guards total
  have hA := absParams_step sess θ rows shape flags distinct nullMinusOne guards hE
  have hl := step_levelAt sess θ rows shape flags c0 i0
  have hlev : levelAt θ (Fin.cast hC c0) (Fin.cast (hL c0) i0) = nullL := rfl
  have hn : (levelAt (EM.step sess θ rows) c0 i0).isNull = true := by
    rw [hl, newLevel_isNull, hlev]; rfl
  rw [((hA.2 c0 i0).2 hn).1]
  have e1 : (castParams hC hL (absParams θ)).m c0 i0 = 0 := rfl
  have e2 : (castParams hC hL (absStep sess θ rows)).m c0 i0 = 1 / 1000000 :=
    absStep_m_null sess θ rows hf (Fin.cast hC c0) (Fin.cast (hL c0) i0) (by rw [hlev]; rfl)
  rw [e1, e2]
  norm_num

end Ex

/-! ## `Fix`: a level-level fix flag -/
namespace Fix

def lA : Level ℝ := { isNull := false, isElse := false, cvv := 1, m := 1/10, u := 1/10, tf := none }
def lB : Level ℝ := { isNull := false, isElse := true, cvv := 0, m := 9/10, u := 9/10, tf := none }

/-- one comparison, levels `A` (`m = u = 1/10`, `fix_m_probability`) and `B` (else,
`m = u = 9/10`); prior 1/2 -/
def θ : EM.Params ℝ where
  prior := 1 / 2
  comps := [[lA, lB]]
  states := [[{ fixM := true }, {}]]

/-- `u` and the prior fixed for the session, `m` trained -/
def sess : EM.Session := { fixM := false, fixU := true, fixLambda := true }
def rA : EM.Row ℝ := row1 [some true, none] 1
def rB : EM.Row ℝ := row1 [some false, none] 1
def rows : List (EM.Row ℝ) := [rA, rB]

@[simp] theorem θ_comps : θ.comps = [[lA, lB]] := rfl
@[simp] theorem θ_states : θ.states = [[{ fixM := true }, {}]] := rfl
@[simp] theorem θ_prior : θ.prior = 1 / 2 := rfl
@[simp] theorem rA_guards : rA.pair.guards = [[some true, none]] := rfl
@[simp] theorem rB_guards : rB.pair.guards = [[some false, none]] := rfl
@[simp] theorem rA_count : rA.count = 1 := rfl
@[simp] theorem rB_count : rB.count = 1 := rfl

theorem epA : EM.eProb θ rA = 1 / 2 := by
  simp [EM.eProb, score, allTerms, comparisonTerms, hasTf, bfColumn, gamma, B3.isTrue, levelBF,
    product, Fac.mul, probOf, Fac.isInf, θ, rA, row1, lA, lB]
  norm_num

theorem epB : EM.eProb θ rB = 1 / 2 := by
  simp [EM.eProb, score, allTerms, comparisonTerms, hasTf, bfColumn, gamma, B3.isTrue, levelBF,
    product, Fac.mul, probOf, Fac.isInf, θ, rB, row1, lA, lB]
  norm_num

theorem gA : EM.gammaAt θ rA 0 = some 1 := by simp [EM.gammaAt, gamma, B3.isTrue, lA]
theorem gB : EM.gammaAt θ rB 0 = some 0 := by simp [EM.gammaAt, gamma, B3.isTrue, lA, lB]

theorem obs : EM.observedValues θ rows 0 = [1, 0] := by
  simp [EM.observedValues, rows, gA, gB, List.eraseDups_cons]

theorem newM0 : EM.newM θ rows 0 0 = some (1 / 2) := by
  simp only [EM.newM, EM.denomM, obs]
  simp [EM.mCount, EM.sumBy, rows, gA, gB, epA, epB]
  norm_num

/-- `A` keeps `m = 1/10`; `B` receives its share `1/2` of the window sum that includes `A` -/
theorem step_comps' : (EM.step sess θ rows).comps = [[lA, { lB with m := 1 / 2 }]] := by
  simp [EM.step, EM.zipWith3Idx, EM.updateLevel, sess, newM0, List.range_succ, lA, lB]

theorem step_prior : (EM.step sess θ rows).prior = 1 / 2 := by simp [EM.step, sess]

theorem lik_old : execLik θ rA = 1 / 10 ∧ execLik θ rB = 9 / 10 := by
  constructor
  · simp [execLik, rowLevel, gA, mFactor, uFactor, lA, lB, List.range_succ]; norm_num
  · simp [execLik, rowLevel, gB, mFactor, uFactor, lA, lB, List.range_succ]; norm_num

theorem lik_new : execLik (EM.step sess θ rows) rA = 1 / 10 ∧
    execLik (EM.step sess θ rows) rB = 7 / 10 := by
  constructor
  · simp [execLik, rowLevel, EM.gammaAt, step_comps', step_prior, gamma, B3.isTrue, mFactor,
      uFactor, lA, lB, List.range_succ]
    norm_num
  · simp [execLik, rowLevel, EM.gammaAt, step_comps', step_prior, gamma, B3.isTrue, mFactor,
      uFactor, lA, lB, List.range_succ]
    norm_num

theorem decrease : execLogLik (EM.step sess θ rows) rows < execLogLik θ rows := by
  unfold rows
  rw [execLogLik_pair _ _ _ rA_count rB_count, execLogLik_pair _ _ _ rA_count rB_count]
  have e1 := lik_new
  unfold rows at e1
  rw [e1.1, e1.2, lik_old.1, lik_old.2]
  have : Real.log (7 / 10) < Real.log (9 / 10) := Real.log_lt_log (by norm_num) (by norm_num)
  linarith

theorem prior_pos : 0 < θ.prior := by norm_num
theorem prior_lt : θ.prior < 1 := by norm_num
theorem noTf : NoTf θ := by simp [NoTf, hasTf, lA, lB]
theorem positive : PositiveMU θ := by simp [PositiveMU, lA, lB]
theorem distinct : DistinctValues θ := by simp [DistinctValues, lA, lB]
theorem nullMinusOne : NullIsMinusOne θ := by simp [NullIsMinusOne, lA, lB]
theorem shape : SameShape θ := by simp [SameShape]
theorem guards : GuardsMatch θ rows := by simp [GuardsMatch, rows]
theorem counts : ∀ r ∈ rows, 0 < r.count := by simp [rows]
theorem flags_on : ¬ LevelFlagsOff θ := by simp [LevelFlagsOff]

theorem total : EveryComparisonAssignsLevel θ rows := by
  intro r hr c hc
  have hc' : c < 1 := hc
  simp only [rows, List.mem_cons, List.not_mem_nil, or_false] at hr
  interval_cases c
  rcases hr with rfl | rfl
  · rw [gA]; rfl
  · rw [gB]; rfl

theorem subM : SubNormalisedM θ rows := by
  intro c hc
  have hc' : c < 1 := hc
  interval_cases c
  rw [obs]; simp [lA, lB]; norm_num

theorem subU : SubNormalisedU θ rows := by
  intro c hc
  have hc' : c < 1 := hc
  interval_cases c
  rw [obs]; simp [lA, lB]; norm_num

end Fix

/-! ## `Dup`: two levels with the same value -/
namespace Dup

def lA : Level ℝ := { isNull := false, isElse := false, cvv := 1, m := 1/2, u := 1/2, tf := none }
def lB : Level ℝ := { isNull := false, isElse := false, cvv := 1, m := 1/4, u := 1/4, tf := none }
def lE : Level ℝ := { isNull := false, isElse := true, cvv := 0, m := 1/4, u := 1/4, tf := none }

/-- one comparison whose first two levels both carry the value 1 -/
def θ : EM.Params ℝ where
  prior := 1 / 2
  comps := [[lA, lB, lE]]
  states := [[{}, {}, {}]]

def sess : EM.Session := { fixM := false, fixU := false, fixLambda := false }
def r : EM.Row ℝ := row1 [some true, none, none] 1
def rows : List (EM.Row ℝ) := [r]

@[simp] theorem θ_comps : θ.comps = [[lA, lB, lE]] := rfl
@[simp] theorem θ_states : θ.states = [[{}, {}, {}]] := rfl
@[simp] theorem θ_prior : θ.prior = 1 / 2 := rfl
@[simp] theorem r_guards : r.pair.guards = [[some true, none, none]] := rfl
@[simp] theorem r_count : r.count = 1 := rfl

theorem ep : EM.eProb θ r = 1 / 2 := by
  simp [EM.eProb, score, allTerms, comparisonTerms, hasTf, bfColumn, gamma, B3.isTrue, levelBF,
    product, Fac.mul, probOf, Fac.isInf, θ, r, row1, lA, lB, lE]
  norm_num

theorem g : EM.gammaAt θ r 0 = some 1 := by simp [EM.gammaAt, gamma, B3.isTrue, lA]

theorem obs : EM.observedValues θ rows 0 = [1] := by
  simp [EM.observedValues, rows, g, List.eraseDups_cons]

/-- the look-up by value gives the second level the first level's estimate -/
theorem newM1 : EM.newM θ rows 0 1 = some 1 := by
  simp only [EM.newM, EM.denomM, obs]
  simp [EM.mCount, EM.sumBy, rows, g, ep]

theorem shape : SameShape θ := by simp [SameShape]
theorem flags : LevelFlagsOff θ := by simp [LevelFlagsOff]
theorem prior_pos : 0 < θ.prior := by norm_num
theorem prior_lt : θ.prior < 1 := by norm_num
theorem noTf : NoTf θ := by simp [NoTf, hasTf, lA, lB, lE]
theorem positive : PositiveMU θ := by simp [PositiveMU, lA, lB, lE]
theorem nullMinusOne : NullIsMinusOne θ := by simp [NullIsMinusOne, lA, lB, lE]
theorem guards : GuardsMatch θ rows := by simp [GuardsMatch, rows]
theorem not_distinct : ¬ DistinctValues θ := by simp [DistinctValues, lA, lB, lE]

theorem total : EveryComparisonAssignsLevel θ rows := by
  intro r' hr c hc
  have hc' : c < 1 := hc
  simp only [rows, List.mem_cons, List.not_mem_nil, or_false] at hr
  interval_cases c
  subst hr
  rw [g]; rfl

/-- no row's pattern points to the second level -/
theorem pat : ∀ r' ∈ rows, absPattern θ r' ⟨0, by simp⟩ ≠ some ⟨1, by simp [absL]⟩ := by
  intro r' hr
  simp only [rows, List.mem_singleton] at hr
  subst hr
  have h : patOf [lA, lB, lE] [some true, none, none] = some ⟨0, by simp⟩ := by
    simp [patOf, gamma, B3.isTrue, findLevel, lA]
  intro h'
  have h'' : patOf [lA, lB, lE] [some true, none, none] = some ⟨1, by simp⟩ := h'
  rw [h] at h''
  simp at h''

theorem deviates :
    absParamsC (EM.step sess θ rows) ≠
      castParams (step_comps_length sess θ rows shape flags)
        (step_absL sess θ rows shape flags)
        (EML.emStep sess.fixM sess.fixU sess.fixLambda (1 / 1000000) (rowPatterns θ rows)
          (rowWeights rows) (absParamsC θ)) := by
  have hC := step_comps_length sess θ rows shape flags
  have hL := step_absL sess θ rows shape flags
  let c0 : Fin (EM.step sess θ rows).comps.length := ⟨0, by rw [hC]; simp⟩
  let i0 : Fin (absL (EM.step sess θ rows) c0) := ⟨1, by rw [hL c0]; simp [absL, c0]⟩
  apply params_ne_of_m_ne _ _ c0 i0
  rw [absParamsC_step_m sess θ rows shape flags c0 i0 lB rfl rfl rfl]
  have e : (castParams hC hL (EML.emStep sess.fixM sess.fixU sess.fixLambda (1 / 1000000)
      (rowPatterns θ rows) (rowWeights rows) (absParamsC θ))).m c0 i0 =
      (absStepC sess θ rows).m ⟨0, by simp⟩ ⟨1, by simp [absL]⟩ := rfl
  rw [e, absStepC_m_unobserved sess θ rows rfl _ _ pat]
  show (EM.newM θ rows 0 lB.cvv).getD (1 / 1000000) ≠ 1 / 1000000
  have : lB.cvv = 1 := rfl
  rw [this, newM1]
  norm_num

end Dup

/-! ## `Nul`: a non-null level carrying −1 -/
namespace Nul

def lA : Level ℝ := { isNull := false, isElse := false, cvv := -1, m := 1/2, u := 1/2, tf := none }
def lE : Level ℝ := { isNull := false, isElse := true, cvv := 0, m := 1/2, u := 1/2, tf := none }

/-- one comparison; its first level is not flagged null but carries the value −1 -/
def θ : EM.Params ℝ where
  prior := 1 / 2
  comps := [[lA, lE]]
  states := [[{}, {}]]

def sess : EM.Session := { fixM := false, fixU := true, fixLambda := true }
def rA : EM.Row ℝ := row1 [some true, none] 1
def rE : EM.Row ℝ := row1 [some false, none] 1
def rows : List (EM.Row ℝ) := [rA, rE]

@[simp] theorem θ_comps : θ.comps = [[lA, lE]] := rfl
@[simp] theorem θ_states : θ.states = [[{}, {}]] := rfl
@[simp] theorem θ_prior : θ.prior = 1 / 2 := rfl
@[simp] theorem rA_guards : rA.pair.guards = [[some true, none]] := rfl
@[simp] theorem rE_guards : rE.pair.guards = [[some false, none]] := rfl
@[simp] theorem rA_count : rA.count = 1 := rfl
@[simp] theorem rE_count : rE.count = 1 := rfl

theorem epA : EM.eProb θ rA = 1 / 2 := by
  simp [EM.eProb, score, allTerms, comparisonTerms, hasTf, bfColumn, gamma, B3.isTrue, levelBF,
    product, Fac.mul, probOf, Fac.isInf, θ, rA, row1, lA, lE]
  norm_num

theorem epE : EM.eProb θ rE = 1 / 2 := by
  simp [EM.eProb, score, allTerms, comparisonTerms, hasTf, bfColumn, gamma, B3.isTrue, levelBF,
    product, Fac.mul, probOf, Fac.isInf, θ, rE, row1, lA, lE]
  norm_num

theorem gA : EM.gammaAt θ rA 0 = some (-1) := by simp [EM.gammaAt, gamma, B3.isTrue, lA]
theorem gE : EM.gammaAt θ rE 0 = some 0 := by simp [EM.gammaAt, gamma, B3.isTrue, lA, lE]

theorem obs : EM.observedValues θ rows 0 = [0] := by
  simp [EM.observedValues, rows, gA, gE, List.eraseDups_cons]

theorem newM0 : EM.newM θ rows 0 0 = some 1 := by
  simp only [EM.newM, EM.denomM, obs]
  simp [EM.mCount, EM.sumBy, rows, gA, gE, epE]

theorem newMm1 : EM.newM θ rows 0 (-1) = none := by
  simp only [EM.newM, obs]
  simp

/-- the level carrying −1 is dropped with the null rows and gets the placeholder -/
theorem step_comps' :
    (EM.step sess θ rows).comps = [[{ lA with m := 1 / 1000000 }, { lE with m := 1 }]] := by
  simp [EM.step, EM.zipWith3Idx, EM.updateLevel, sess, newM0, newMm1, notObservedValue_eq,
    List.range_succ, lA, lE]

theorem step_prior : (EM.step sess θ rows).prior = 1 / 2 := by simp [EM.step, sess]

theorem lik_old : execLik θ rA = 1 / 2 ∧ execLik θ rE = 1 / 2 := by
  constructor
  · simp [execLik, rowLevel, gA, mFactor, uFactor, lA, lE, List.range_succ]; norm_num
  · simp [execLik, rowLevel, gE, mFactor, uFactor, lA, lE, List.range_succ]; norm_num

theorem lik_new : execLik (EM.step sess θ rows) rA = 500001 / 2000000 ∧
    execLik (EM.step sess θ rows) rE = 3 / 4 := by
  constructor
  · simp [execLik, rowLevel, EM.gammaAt, step_comps', step_prior, gamma, B3.isTrue, mFactor,
      uFactor, lA, lE, List.range_succ]
    norm_num
  · simp [execLik, rowLevel, EM.gammaAt, step_comps', step_prior, gamma, B3.isTrue, mFactor,
      uFactor, lA, lE, List.range_succ]
    norm_num

theorem decrease : execLogLik (EM.step sess θ rows) rows < execLogLik θ rows := by
  unfold rows
  rw [execLogLik_pair _ _ _ rA_count rE_count, execLogLik_pair _ _ _ rA_count rE_count]
  have e1 := lik_new
  unfold rows at e1
  rw [e1.1, e1.2, lik_old.1, lik_old.2, ← Real.log_mul (by norm_num) (by norm_num),
    ← Real.log_mul (by norm_num) (by norm_num)]
  exact Real.log_lt_log (by norm_num) (by norm_num)

theorem prior_pos : 0 < θ.prior := by norm_num
theorem prior_lt : θ.prior < 1 := by norm_num
theorem noTf : NoTf θ := by simp [NoTf, hasTf, lA, lE]
theorem positive : PositiveMU θ := by simp [PositiveMU, lA, lE]
theorem distinct : DistinctValues θ := by simp [DistinctValues, lA, lE]
theorem not_nullMinusOne : ¬ NullIsMinusOne θ := by simp [NullIsMinusOne, lA, lE]
theorem shape : SameShape θ := by simp [SameShape]
theorem flags : LevelFlagsOff θ := by simp [LevelFlagsOff]
theorem guards : GuardsMatch θ rows := by simp [GuardsMatch, rows]
theorem counts : ∀ r ∈ rows, 0 < r.count := by simp [rows]

theorem total : EveryComparisonAssignsLevel θ rows := by
  intro r hr c hc
  have hc' : c < 1 := hc
  simp only [rows, List.mem_cons, List.not_mem_nil, or_false] at hr
  interval_cases c
  rcases hr with rfl | rfl
  · rw [gA]; rfl
  · rw [gE]; rfl

theorem subM : SubNormalisedM θ rows := by
  intro c hc
  have hc' : c < 1 := hc
  interval_cases c
  rw [obs]; simp [lA, lE]; norm_num

theorem subU : SubNormalisedU θ rows := by
  intro c hc
  have hc' : c < 1 := hc
  interval_cases c
  rw [obs]; simp [lA, lE]; norm_num

end Nul

/-! ## `Sub`: a start that is not sub-normalised (K8) -/
namespace Sub

def lA : Level ℝ := { isNull := false, isElse := false, cvv := 1, m := 2, u := 2, tf := none }
def lE : Level ℝ := { isNull := false, isElse := true, cvv := 0, m := 1/2, u := 1/2, tf := none }

/-- one comparison whose observed level starts at `m = u = 2` -/
def θ : EM.Params ℝ where
  prior := 1 / 2
  comps := [[lA, lE]]
  states := [[{}, {}]]

def sess : EM.Session := { fixM := false, fixU := false, fixLambda := false }
def r : EM.Row ℝ := row1 [some true, none] 1
def rows : List (EM.Row ℝ) := [r]

@[simp] theorem θ_comps : θ.comps = [[lA, lE]] := rfl
@[simp] theorem θ_states : θ.states = [[{}, {}]] := rfl
@[simp] theorem θ_prior : θ.prior = 1 / 2 := rfl
@[simp] theorem r_guards : r.pair.guards = [[some true, none]] := rfl
@[simp] theorem r_count : r.count = 1 := rfl

theorem ep : EM.eProb θ r = 1 / 2 := by
  simp [EM.eProb, score, allTerms, comparisonTerms, hasTf, bfColumn, gamma, B3.isTrue, levelBF,
    product, Fac.mul, probOf, Fac.isInf, θ, r, row1, lA, lE]
  norm_num

theorem g : EM.gammaAt θ r 0 = some 1 := by simp [EM.gammaAt, gamma, B3.isTrue, lA]

theorem obs : EM.observedValues θ rows 0 = [1] := by
  simp [EM.observedValues, rows, g, List.eraseDups_cons]

theorem newM1 : EM.newM θ rows 0 1 = some 1 := by
  simp only [EM.newM, EM.denomM, obs]
  simp [EM.mCount, EM.sumBy, rows, g, ep]

theorem newU1 : EM.newU θ rows 0 1 = some 1 := by
  simp only [EM.newU, EM.denomU, obs]
  simp [EM.uCount, EM.sumBy, rows, g, ep]
  norm_num

theorem newM0 : EM.newM θ rows 0 0 = none := by
  simp only [EM.newM, obs]
  simp

theorem newU0 : EM.newU θ rows 0 0 = none := by
  simp only [EM.newU, obs]
  simp

theorem step_comps' :
    (EM.step sess θ rows).comps =
      [[{ lA with m := 1, u := 1 }, { lE with m := 1 / 1000000, u := 1 / 1000000 }]] := by
  simp [EM.step, EM.zipWith3Idx, EM.updateLevel, sess, newM0, newM1, newU0, newU1,
    notObservedValue_eq, List.range_succ, lA, lE]

theorem step_prior : (EM.step sess θ rows).prior = 1 / 2 := by
  simp [EM.step, sess, EM.lambdaNew, EM.sumBy, rows, ep]

theorem lik_old : execLik θ r = 2 := by
  simp [execLik, rowLevel, g, mFactor, uFactor, lA, lE, List.range_succ]; norm_num

theorem lik_new : execLik (EM.step sess θ rows) r = 1 := by
  simp [execLik, rowLevel, EM.gammaAt, step_comps', step_prior, gamma, B3.isTrue, mFactor,
    uFactor, lA, lE, List.range_succ]

theorem decrease : execLogLik (EM.step sess θ rows) rows < execLogLik θ rows := by
  have e : ∀ θ' : EM.Params ℝ, execLogLik θ' [r] = Real.log (execLik θ' r) := by
    intro θ'; simp [execLogLik]
  have e1 := lik_new
  unfold rows at e1 ⊢
  rw [e, e, e1, lik_old, Real.log_one]
  exact Real.log_pos (by norm_num)

theorem prior_pos : 0 < θ.prior := by norm_num
theorem prior_lt : θ.prior < 1 := by norm_num
theorem noTf : NoTf θ := by simp [NoTf, hasTf, lA, lE]
theorem positive : PositiveMU θ := by simp [PositiveMU, lA, lE]
theorem distinct : DistinctValues θ := by simp [DistinctValues, lA, lE]
theorem nullMinusOne : NullIsMinusOne θ := by simp [NullIsMinusOne, lA, lE]
theorem shape : SameShape θ := by simp [SameShape]
theorem flags : LevelFlagsOff θ := by simp [LevelFlagsOff]
theorem guards : GuardsMatch θ rows := by simp [GuardsMatch, rows]
theorem counts : ∀ r' ∈ rows, 0 < r'.count := by simp [rows]

theorem total : EveryComparisonAssignsLevel θ rows := by
  intro r' hr c hc
  have hc' : c < 1 := hc
  simp only [rows, List.mem_cons, List.not_mem_nil, or_false] at hr
  interval_cases c
  subst hr
  rw [g]; rfl

theorem not_subM : ¬ SubNormalisedM θ rows := by
  intro h
  have := h 0 (by simp)
  rw [obs] at this
  simp [lA, lE] at this

end Sub

/-! ## `Shp`: `states` shorter than `comps` -/
namespace Shp

/-- the model of `Sub` with the `states` of its comparison missing -/
def θ : EM.Params ℝ where
  prior := 1 / 2
  comps := [[Sub.lA, Sub.lE]]
  states := []

theorem not_shape : ¬ SameShape θ := by simp [SameShape, θ]

/-- the step drops the comparison -/
theorem drops (sess : EM.Session) (rows : List (EM.Row ℝ)) :
    (EM.step sess θ rows).comps.length ≠ θ.comps.length := by
  simp [EM.step, EM.zipWith3Idx, θ]

end Shp

/-! ## The witnesses, packaged -/

/-- every hypothesis of `execLogLik_mono` except `LevelFlagsOff`, and a strict decrease -/
theorem witness_level_fix_flag :
    ∃ (sess : EM.Session) (θ : EM.Params ℝ) (rows : List (EM.Row ℝ)),
      0 < θ.prior ∧ θ.prior < 1 ∧ NoTf θ ∧ PositiveMU θ ∧ DistinctValues θ ∧ NullIsMinusOne θ ∧
      SameShape θ ∧ GuardsMatch θ rows ∧ EveryComparisonAssignsLevel θ rows ∧
      (∀ r ∈ rows, 0 < r.count) ∧ SubNormalisedM θ rows ∧ SubNormalisedU θ rows ∧
      ¬ LevelFlagsOff θ ∧
      execLogLik (EM.step sess θ rows) rows < execLogLik θ rows :=
  ⟨Fix.sess, Fix.θ, Fix.rows, Fix.prior_pos, Fix.prior_lt, Fix.noTf, Fix.positive, Fix.distinct,
    Fix.nullMinusOne, Fix.shape, Fix.guards, Fix.total, Fix.counts, Fix.subM, Fix.subU,
    Fix.flags_on, Fix.decrease⟩

/-- every hypothesis of `step_bridge_eq` except `DistinctValues`, and its conclusion fails -/
theorem witness_duplicate_value :
    ∃ (sess : EM.Session) (θ : EM.Params ℝ) (rows : List (EM.Row ℝ))
      (hshape : SameShape θ) (hflags : LevelFlagsOff θ),
      0 < θ.prior ∧ θ.prior < 1 ∧ NoTf θ ∧ PositiveMU θ ∧ NullIsMinusOne θ ∧
      GuardsMatch θ rows ∧ EveryComparisonAssignsLevel θ rows ∧
      ¬ DistinctValues θ ∧
      absParamsC (EM.step sess θ rows) ≠
        castParams (step_comps_length sess θ rows hshape hflags)
          (step_absL sess θ rows hshape hflags)
          (EML.emStep sess.fixM sess.fixU sess.fixLambda (1 / 1000000) (rowPatterns θ rows)
            (rowWeights rows) (absParamsC θ)) :=
  ⟨Dup.sess, Dup.θ, Dup.rows, Dup.shape, Dup.flags, Dup.prior_pos, Dup.prior_lt, Dup.noTf,
    Dup.positive, Dup.nullMinusOne, Dup.guards, Dup.total, Dup.not_distinct, Dup.deviates⟩

/-- every hypothesis of `execLogLik_mono` except `NullIsMinusOne`, and a strict decrease -/
theorem witness_null_flag_mismatch :
    ∃ (sess : EM.Session) (θ : EM.Params ℝ) (rows : List (EM.Row ℝ)),
      0 < θ.prior ∧ θ.prior < 1 ∧ NoTf θ ∧ PositiveMU θ ∧ DistinctValues θ ∧
      SameShape θ ∧ LevelFlagsOff θ ∧ GuardsMatch θ rows ∧ EveryComparisonAssignsLevel θ rows ∧
      (∀ r ∈ rows, 0 < r.count) ∧ SubNormalisedM θ rows ∧ SubNormalisedU θ rows ∧
      ¬ NullIsMinusOne θ ∧
      execLogLik (EM.step sess θ rows) rows < execLogLik θ rows :=
  ⟨Nul.sess, Nul.θ, Nul.rows, Nul.prior_pos, Nul.prior_lt, Nul.noTf, Nul.positive, Nul.distinct,
    Nul.shape, Nul.flags, Nul.guards, Nul.total, Nul.counts, Nul.subM, Nul.subU,
    Nul.not_nullMinusOne, Nul.decrease⟩

/-- every hypothesis of `execLogLik_mono` except `SubNormalisedM`, and a strict decrease -/
theorem witness_not_subnormalised :
    ∃ (sess : EM.Session) (θ : EM.Params ℝ) (rows : List (EM.Row ℝ)),
      0 < θ.prior ∧ θ.prior < 1 ∧ NoTf θ ∧ PositiveMU θ ∧ DistinctValues θ ∧ NullIsMinusOne θ ∧
      SameShape θ ∧ LevelFlagsOff θ ∧ GuardsMatch θ rows ∧ EveryComparisonAssignsLevel θ rows ∧
      (∀ r ∈ rows, 0 < r.count) ∧
      ¬ SubNormalisedM θ rows ∧
      execLogLik (EM.step sess θ rows) rows < execLogLik θ rows :=
  ⟨Sub.sess, Sub.θ, Sub.rows, Sub.prior_pos, Sub.prior_lt, Sub.noTf, Sub.positive, Sub.distinct,
    Sub.nullMinusOne, Sub.shape, Sub.flags, Sub.guards, Sub.total, Sub.counts, Sub.not_subM,
    Sub.decrease⟩

/-- every hypothesis of `step_bridge_positions`, and yet the position-indexed abstraction
differs from the abstract step (in the slot of a null level) -/
theorem witness_null_slot :
    ∃ (sess : EM.Session) (θ : EM.Params ℝ) (rows : List (EM.Row ℝ))
      (hshape : SameShape θ) (hflags : LevelFlagsOff θ),
      0 < θ.prior ∧ θ.prior < 1 ∧ NoTf θ ∧ PositiveMU θ ∧ DistinctValues θ ∧ NullIsMinusOne θ ∧
      GuardsMatch θ rows ∧ EveryComparisonAssignsLevel θ rows ∧
      ∃ (c : Fin (EM.step sess θ rows).comps.length) (i : Fin (absL (EM.step sess θ rows) c)),
        (absParams (EM.step sess θ rows)).m c i ≠
          (castParams (step_comps_length sess θ rows hshape hflags)
            (step_absL sess θ rows hshape hflags) (absStep sess θ rows)).m c i :=
  ⟨⟨false, false, false⟩, Ex.θ, Ex.rows, Ex.shape, Ex.flags, Ex.prior_pos, Ex.prior_lt, Ex.noTf,
    Ex.positive, Ex.distinct, Ex.nullMinusOne, Ex.guards, Ex.total,
    Ex.null_slot ⟨false, false, false⟩ rfl⟩

/-- without `SameShape` the step changes the number of comparisons -/
theorem witness_shape :
    ∃ (θ : EM.Params ℝ), LevelFlagsOff θ ∧ ¬ SameShape θ ∧
      ∀ (sess : EM.Session) (rows : List (EM.Row ℝ)),
        (EM.step sess θ rows).comps.length ≠ θ.comps.length :=
  ⟨Shp.θ, by simp [LevelFlagsOff, Shp.θ], Shp.not_shape, Shp.drops⟩

end

end SplinkVerif.Lemmas.EMMBridge
