import SplinkVerif.Model.Cache
/-!
# Helper lemmas for C07 (cache soundness)

The state invariant of the table cache model (`Model/Cache.lean`), its preservation by every
operation except the silent `mutate` (the salt change `resalt` and the re-registration `reregister`
included), and the corollaries used by `Properties/C07.lean`;
soundness of the realtime SQL cache; explicit counterexamples.
-/
namespace SplinkVerif.Lemmas.CacheL
open SplinkVerif SplinkVerif.Cache

/-- the hash separates different SQL texts and different cache uids -/
def HashInj (hash : Nat → Nat → Nat) : Prop :=
  ∀ t u t' u', hash t u = hash t' u' → t = t' ∧ u = u'

/-- Tables kept under a templated name (`__splink__df_concat_with_tf`, `__splink__df_tf_<col>`, …) are
served to *every* request for that templated name, whatever its SQL text. This is sound as long as
all requests for such a name mean the same query (`namedText templ`) — true for one linker over
fixed settings, its training copies included. -/
def NamedDiscipline (namedText : Nat → Nat) (ops : List Op) : Prop :=
  ∀ r, (Op.req r ∈ ops ∨ Op.computeNamed r ∈ ops) →
    (∃ r', Op.computeNamed r' ∈ ops ∧ r'.templ = r.templ) → r.text = namedText r.templ

/-- input data never change without `invalidate_cache()` -/
def NoSilentMutation (ops : List Op) : Prop := Op.mutate ∉ ops

/-! ## Dictionary / catalog lookups -/

theorem cacheGet_mem {k : Key} {c : List (Key × Entry)} {e : Entry}
    (h : cacheGet k c = some e) : (k, e) ∈ c := by
  unfold cacheGet at h
  rw [Option.map_eq_some_iff] at h
  obtain ⟨⟨k', e'⟩, hf, he⟩ := h
  have h1 := List.find?_some hf
  have h2 := List.mem_of_find?_eq_some hf
  simp at h1 he
  subst h1; subst he; exact h2

theorem dbGet_mem {p : Phys} {db : List (Phys × Nat)} {v : Nat}
    (h : dbGet p db = some v) : (p, v) ∈ db := by
  unfold dbGet at h
  rw [Option.map_eq_some_iff] at h
  obtain ⟨⟨p', v'⟩, hf, he⟩ := h
  have h1 := List.find?_some hf
  have h2 := List.mem_of_find?_eq_some hf
  simp at h1 he
  subst h1; subst he; exact h2

theorem mem_cacheSet {k : Key} {e : Entry} {c : List (Key × Entry)} {x : Key × Entry}
    (h : x ∈ cacheSet k e c) : x = (k, e) ∨ x ∈ c := by
  unfold cacheSet at h
  rcases List.mem_cons.1 h with h | h
  · exact Or.inl h
  · exact Or.inr (List.mem_filter.1 h).1

theorem mem_dbSet {p : Phys} {v : Nat} {db : List (Phys × Nat)} {x : Phys × Nat}
    (h : x ∈ dbSet p v db) : x = (p, v) ∨ x ∈ db := by
  unfold dbSet at h
  rcases List.mem_cons.1 h with h | h
  · exact Or.inl h
  · exact Or.inr (List.mem_filter.1 h).1

/-! ## Dropping tables -/

theorem mem_dbDel {p : Phys} {db : List (Phys × Nat)} {x : Phys × Nat}
    (h : x ∈ dbDel p db) : x ∈ db ∧ x.1 ≠ p := by
  unfold dbDel at h
  obtain ⟨h1, h2⟩ := List.mem_filter.1 h
  exact ⟨h1, bne_iff_ne.1 h2⟩

theorem foldl_dropTable_uid (l : List Phys) (s : State) : (l.foldl dropTable s).uid = s.uid := by
  induction l generalizing s with
  | nil => rfl
  | cons p l ih => exact (ih (dropTable s p)).trans rfl

theorem foldl_dropTable_data (l : List Phys) (s : State) : (l.foldl dropTable s).data = s.data := by
  induction l generalizing s with
  | nil => rfl
  | cons p l ih => exact (ih (dropTable s p)).trans rfl

/-- what is left in the catalog after dropping the tables `l` was there before and is none of `l` -/
theorem mem_foldl_dropTable_db (l : List Phys) (s : State) {x : Phys × Nat}
    (h : x ∈ (l.foldl dropTable s).db) : x ∈ s.db ∧ x.1 ∉ l := by
  induction l generalizing s with
  | nil => exact ⟨h, by simp⟩
  | cons p l ih =>
    obtain ⟨h1, h2⟩ := ih (dropTable s p) h
    obtain ⟨h3, h4⟩ := mem_dbDel h1
    refine ⟨h3, ?_⟩
    intro hm
    rcases List.mem_cons.1 hm with hm | hm
    · exact h4 hm
    · exact h2 hm

theorem foldl_dropTable_db_sub (l : List Phys) (s : State) {x : Phys × Nat}
    (h : x ∈ (l.foldl dropTable s).db) : x ∈ s.db := (mem_foldl_dropTable_db l s h).1

theorem deleteCreated_uid (s : State) : (deleteCreated s).uid = s.uid := foldl_dropTable_uid _ s
theorem deleteCreated_data (s : State) : (deleteCreated s).data = s.data := foldl_dropTable_data _ s

theorem invalidate_uid (s : State) : (invalidate s).uid = s.uid := deleteCreated_uid s
theorem invalidate_data (s : State) : (invalidate s).data = s.data := deleteCreated_data s
theorem mutateInvalidate_uid (s : State) : (mutateInvalidate s).uid = s.uid :=
  invalidate_uid { s with data := s.data + 1 }
theorem mutateInvalidate_data (s : State) : (mutateInvalidate s).data = s.data + 1 :=
  invalidate_data { s with data := s.data + 1 }
theorem reregister_uid (s : State) : (reregister s).uid = s.uid + 1 := rfl
theorem reregister_data (s : State) : (reregister s).data = s.data + 1 := rfl
theorem reregister_db (s : State) : (reregister s).db = s.db := rfl

/-- `delete_tables_created_by_splink_from_db` drops every table that the dict tracks under its own
physical name as created by Splink. -/
theorem mem_deleteCreated_db {s : State} {x : Phys × Nat} (h : x ∈ (deleteCreated s).db) :
    x ∈ s.db ∧ ∀ v, (Key.phys x.1, (⟨x.1, v, true⟩ : Entry)) ∉ s.cache := by
  unfold deleteCreated at h
  obtain ⟨h1, h2⟩ := mem_foldl_dropTable_db _ s h
  refine ⟨h1, ?_⟩
  intro v hm
  apply h2
  refine List.mem_map.2 ⟨(Key.phys x.1, ⟨x.1, v, true⟩), List.mem_filter.2 ⟨hm, ?_⟩, rfl⟩
  simp

/-! ## The invariant -/

section
variable (hash eval : Nat → Nat → Nat) (namedText : Nat → Nat) (D : Nat → Prop)

/-- Every catalog table whose name is the hash of some SQL text under the CURRENT uid (salt) is tracked by
the dictionary under its own physical name as created by Splink, with the same contents — so
`invalidate_cache()` drops it; no catalog table is named by a hash under a salt that has not been drawn yet
(`dbOld`); every hashed entry of the dictionary was hashed under a salt drawn so far, and those hashed under
the current salt hold the current contents of their query (those hashed under an older salt may be stale:
no request can reach them any more); every named entry holds the current contents of its query.
`D templ` : the templated name is one that the history computes under its name. -/
structure Inv (s : State) : Prop where
  db : ∀ p v, (p, v) ∈ s.db → ∀ text, p.hash = hash text s.uid →
    (Key.phys p, (⟨p, v, true⟩ : Entry)) ∈ s.cache
  dbOld : ∀ p v, (p, v) ∈ s.db → ∀ text u, p.hash = hash text u → u ≤ s.uid
  phys : ∀ p e, (Key.phys p, e) ∈ s.cache →
    ∃ text u, p.hash = hash text u ∧ u ≤ s.uid ∧ (u = s.uid → e.val = eval text s.data)
  named : ∀ t e, (Key.named t, e) ∈ s.cache → D t ∧ e.val = eval (namedText t) s.data

theorem inv_init : Inv hash eval namedText D init := by
  constructor <;> simp [init]

variable {hash eval namedText D}

theorem execute_val (s : State) (r : Req) : (execute hash eval s r).val = eval r.text s.data := rfl

theorem inv_execute (hinj : HashInj hash) {s : State} (hI : Inv hash eval namedText D s) (r : Req) :
    Inv hash eval namedText D (execute hash eval s r).state := by
  constructor
  · intro p v h text hh
    show (Key.phys p, (⟨p, v, true⟩ : Entry)) ∈
      cacheSet (.phys ⟨r.templ, hash r.text s.uid⟩) ⟨⟨r.templ, hash r.text s.uid⟩, eval r.text s.data, true⟩ s.cache
    have h : (p, v) ∈ dbSet ⟨r.templ, hash r.text s.uid⟩ (eval r.text s.data) s.db := h
    unfold dbSet at h
    unfold cacheSet
    rcases List.mem_cons.1 h with h | h
    · injection h with hp hv
      subst hp hv
      exact List.mem_cons_self
    · obtain ⟨h1, h2⟩ := List.mem_filter.1 h
      have hne : p ≠ ⟨r.templ, hash r.text s.uid⟩ := bne_iff_ne.1 h2
      refine List.mem_cons_of_mem _ (List.mem_filter.2 ⟨hI.db p v h1 text hh, ?_⟩)
      exact bne_iff_ne.2 (fun hk => hne (Key.phys.inj hk))
  · intro p v h text u hh
    have h : (p, v) ∈ dbSet ⟨r.templ, hash r.text s.uid⟩ (eval r.text s.data) s.db := h
    rcases mem_dbSet h with h | h
    · injection h with hp _
      subst hp
      exact Nat.le_of_eq (hinj _ _ _ _ hh).2.symm
    · exact hI.dbOld p v h text u hh
  · intro p e h
    rcases mem_cacheSet h with h | h
    · injection h with hk he
      injection hk with hk
      subst hk he
      exact ⟨r.text, s.uid, rfl, Nat.le_refl _, fun _ => rfl⟩
    · exact hI.phys p e h
  · intro t e h
    rcases mem_cacheSet h with h | h
    · injection h with hk he
      cases hk
    · exact hI.named t e h

theorem request_state (s : State) (r : Req) :
    (request hash eval s r).state = s ∨
      (request hash eval s r).state = (execute hash eval s r).state := by
  unfold request
  dsimp only
  split
  · split
    · exact Or.inl rfl
    · split
      · exact Or.inl rfl
      · split
        · exact Or.inl rfl
        · exact Or.inr rfl
  · exact Or.inr rfl

theorem request_uid (s : State) (r : Req) : (request hash eval s r).state.uid = s.uid := by
  rcases request_state (hash := hash) (eval := eval) s r with h | h <;> rw [h] <;> rfl

theorem request_data (s : State) (r : Req) : (request hash eval s r).state.data = s.data := by
  rcases request_state (hash := hash) (eval := eval) s r with h | h <;> rw [h] <;> rfl

theorem inv_request (hinj : HashInj hash) {s : State} (hI : Inv hash eval namedText D s) (r : Req) :
    Inv hash eval namedText D (request hash eval s r).state := by
  rcases request_state (hash := hash) (eval := eval) s r with h | h <;> rw [h]
  · exact hI
  · exact inv_execute hinj hI r

/-- The heart of C07: in a state satisfying the invariant, a request returns the current contents
of its SQL. (A catalog table named by the current hash is always tracked by the dict, so the
catalog-hit branch returns the value of a hashed dict entry.) -/
theorem request_val_of_inv (hinj : HashInj hash) {s : State} (hI : Inv hash eval namedText D s)
    (r : Req) (hr : D r.templ → r.text = namedText r.templ) :
    (request hash eval s r).val = eval r.text s.data := by
  unfold request
  dsimp only
  split
  · split
    · next e h1 =>
      obtain ⟨hd, hv⟩ := hI.named _ _ (cacheGet_mem h1)
      show e.val = _
      rw [hv, hr hd]
    · split
      · next e h2 =>
        obtain ⟨text, u, hh, _, hv⟩ := hI.phys _ _ (cacheGet_mem h2)
        show e.val = _
        obtain ⟨h1, hu⟩ := hinj _ _ _ _ hh
        rw [hv hu.symm, h1]
      · split
        · next v h3 =>
          show v = _
          obtain ⟨text, u, hh, _, hv⟩ := hI.phys _ _ (hI.db _ _ (dbGet_mem h3) r.text rfl)
          obtain ⟨h1, hu⟩ := hinj _ _ _ _ hh
          rw [h1]; exact hv hu.symm
        · rfl
  · rfl

theorem inv_computeNamed (hinj : HashInj hash) {s : State} (hI : Inv hash eval namedText D s)
    (r : Req) (hD : D r.templ) (hr : r.text = namedText r.templ) :
    Inv hash eval namedText D (applyOp hash eval s (.computeNamed r)) := by
  have hI' := inv_request hinj hI r
  have hv := request_val_of_inv hinj hI r (fun _ => hr)
  have hdat := request_data (hash := hash) (eval := eval) s r
  show Inv hash eval namedText D
    { (request hash eval s r).state with
      cache := cacheSet (.named r.templ) ⟨⟨r.templ, hash r.text s.uid⟩, (request hash eval s r).val, true⟩
        (request hash eval s r).state.cache }
  constructor
  · intro p v h text hh
    have h0 := hI'.db p v h text hh
    unfold cacheSet
    refine List.mem_cons_of_mem _ (List.mem_filter.2 ⟨h0, ?_⟩)
    exact bne_iff_ne.2 (fun hk => by cases hk)
  · exact hI'.dbOld
  · intro p e h
    rcases mem_cacheSet h with h | h
    · injection h with hk he
      cases hk
    · exact hI'.phys p e h
  · intro t e h
    rcases mem_cacheSet h with h | h
    · injection h with hk he
      injection hk with hk
      subst hk he
      refine ⟨hD, ?_⟩
      show (request hash eval s r).val = eval (namedText r.templ) (request hash eval s r).state.data
      rw [hv, hdat, hr]
    · exact hI'.named t e h

theorem inv_dropTable {s : State} (hI : Inv hash eval namedText D s) (p : Phys) :
    Inv hash eval namedText D (dropTable s p) := by
  constructor
  · intro p' v h text hh
    obtain ⟨h1, h2⟩ := mem_dbDel (show (p', v) ∈ dbDel p s.db from h)
    show _ ∈ s.cache.filter fun q => q.2.phys != p
    refine List.mem_filter.2 ⟨hI.db p' v h1 text hh, ?_⟩
    exact bne_iff_ne.2 h2
  · intro p' v h text u hh
    exact hI.dbOld p' v (mem_dbDel (show (p', v) ∈ dbDel p s.db from h)).1 text u hh
  · intro p' e h; exact hI.phys p' e (List.mem_filter.1 h).1
  · intro t e h; exact hI.named t e (List.mem_filter.1 h).1

theorem inv_forgetNamed {s : State} (hI : Inv hash eval namedText D s) (t : Nat) :
    Inv hash eval namedText D (forgetNamed s t) := by
  constructor
  · intro p v h text hh
    show _ ∈ s.cache.filter fun q => q.1 != .named t
    refine List.mem_filter.2 ⟨hI.db p v h text hh, ?_⟩
    exact bne_iff_ne.2 (fun hk => by cases hk)
  · exact hI.dbOld
  · intro p e h; exact hI.phys p e (List.mem_filter.1 h).1
  · intro t' e h; exact hI.named t' e (List.mem_filter.1 h).1

theorem inv_foldl_dropTable (l : List Phys) {s : State} (hI : Inv hash eval namedText D s) :
    Inv hash eval namedText D (l.foldl dropTable s) := by
  induction l generalizing s with
  | nil => exact hI
  | cons p l ih => exact ih (inv_dropTable hI p)

theorem inv_deleteCreated {s : State} (hI : Inv hash eval namedText D s) :
    Inv hash eval namedText D (deleteCreated s) := by
  unfold deleteCreated
  exact inv_foldl_dropTable _ hI

/-- Only the catalog clause of the invariant is needed for `invalidate_cache()` to restore the whole
invariant, whatever happened to the data: all tables named by a hash are tracked, hence dropped. -/
theorem inv_invalidate_of_db {s : State}
    (hdb : ∀ p v, (p, v) ∈ s.db → ∀ text, p.hash = hash text s.uid →
      (Key.phys p, (⟨p, v, true⟩ : Entry)) ∈ s.cache)
    (hold : ∀ p v, (p, v) ∈ s.db → ∀ text u, p.hash = hash text u → u ≤ s.uid) :
    Inv hash eval namedText D (invalidate s) := by
  constructor
  · intro p v h text hh
    exfalso
    rw [invalidate_uid] at hh
    obtain ⟨h1, h2⟩ := mem_deleteCreated_db (show (p, v) ∈ (deleteCreated s).db from h)
    exact h2 v (hdb p v h1 text hh)
  · intro p v h text u hh
    rw [invalidate_uid]
    exact hold p v (mem_deleteCreated_db (show (p, v) ∈ (deleteCreated s).db from h)).1 text u hh
  · intro p e h; cases h
  · intro t e h; cases h

theorem inv_invalidate {s : State} (hI : Inv hash eval namedText D s) :
    Inv hash eval namedText D (invalidate s) :=
  inv_invalidate_of_db hI.db hI.dbOld

theorem inv_mutateInvalidate {s : State} (hI : Inv hash eval namedText D s) :
    Inv hash eval namedText D (mutateInvalidate s) :=
  inv_invalidate_of_db (s := { s with data := s.data + 1 }) hI.db hI.dbOld

/-- Re-drawing the salt keeps the invariant: no catalog table is named by a hash under the new salt, the
hashed dict entries all become unreachable (none is hashed under the new salt), the named ones are untouched. -/
theorem inv_resalt {s : State} (hI : Inv hash eval namedText D s) :
    Inv hash eval namedText D (resalt s) := by
  constructor
  · intro p v h text hh
    exfalso
    have := hI.dbOld p v h text (s.uid + 1) hh
    omega
  · intro p v h text u hh
    exact Nat.le_succ_of_le (hI.dbOld p v h text u hh)
  · intro p e h
    obtain ⟨text, u, hh, hu, _⟩ := hI.phys p e h
    refine ⟨text, u, hh, Nat.le_succ_of_le hu, ?_⟩
    intro he
    exfalso
    have he : u = s.uid + 1 := he
    omega
  · exact hI.named

/-- Only the two bounds on the salts in use are needed for a re-registration to restore the whole invariant,
whatever happened to the data: after it nothing in the catalog or the dict is reachable by a request. -/
theorem inv_reregister_of_bounds {s : State}
    (hold : ∀ p v, (p, v) ∈ s.db → ∀ text u, p.hash = hash text u → u ≤ s.uid)
    (hphys : ∀ p e, (Key.phys p, e) ∈ s.cache → ∃ text u, p.hash = hash text u ∧ u ≤ s.uid) :
    Inv hash eval namedText D (reregister s) := by
  constructor
  · intro p v h text hh
    exfalso
    have := hold p v h text (s.uid + 1) hh
    omega
  · intro p v h text u hh
    exact Nat.le_succ_of_le (hold p v h text u hh)
  · intro p e h
    have h : (Key.phys p, e) ∈ s.cache.filter fun q => match q.1 with | .named _ => false | .phys _ => true := h
    obtain ⟨text, u, hh, hu⟩ := hphys p e (List.mem_filter.1 h).1
    refine ⟨text, u, hh, Nat.le_succ_of_le hu, ?_⟩
    intro he
    exfalso
    have he : u = s.uid + 1 := he
    omega
  · intro t e h
    have h : (Key.named t, e) ∈ s.cache.filter fun q => match q.1 with | .named _ => false | .phys _ => true := h
    have := (List.mem_filter.1 h).2
    simp at this

theorem inv_reregister {s : State} (hI : Inv hash eval namedText D s) :
    Inv hash eval namedText D (reregister s) :=
  inv_reregister_of_bounds hI.dbOld (fun p e h => by
    obtain ⟨text, u, hh, hu, _⟩ := hI.phys p e h
    exact ⟨text, u, hh, hu⟩)

theorem inv_applyOp (hinj : HashInj hash) {s : State} (hI : Inv hash eval namedText D s) (op : Op)
    (hmut : op ≠ .mutate)
    (hD : ∀ r, op = .computeNamed r → D r.templ ∧ r.text = namedText r.templ) :
    Inv hash eval namedText D (applyOp hash eval s op) := by
  cases op with
  | req r => exact inv_request hinj hI r
  | computeNamed r => exact inv_computeNamed hinj hI r (hD r rfl).1 (hD r rfl).2
  | drop p => exact inv_dropTable hI p
  | forgetNamed t => exact inv_forgetNamed hI t
  | invalidate => exact inv_invalidate hI
  | mutateInvalidate => exact inv_mutateInvalidate hI
  | mutate => exact absurd rfl hmut
  | deleteCreated => exact inv_deleteCreated hI
  | resalt => exact inv_resalt hI
  | reregister => exact inv_reregister hI

theorem inv_run (hinj : HashInj hash) (ops : List Op) {s : State} (hI : Inv hash eval namedText D s)
    (hmut : Op.mutate ∉ ops)
    (hD : ∀ r, Op.computeNamed r ∈ ops → D r.templ ∧ r.text = namedText r.templ) :
    Inv hash eval namedText D (run hash eval s ops) := by
  induction ops generalizing s with
  | nil => exact hI
  | cons op ops ih =>
    show Inv hash eval namedText D (run hash eval (applyOp hash eval s op) ops)
    apply ih
    · apply inv_applyOp hinj hI op
      · intro h; exact hmut (h ▸ List.mem_cons_self)
      · intro r h; exact hD r (h ▸ List.mem_cons_self)
    · intro h; exact hmut (List.mem_cons_of_mem _ h)
    · intro r h; exact hD r (List.mem_cons_of_mem _ h)

end

/-! ## The statements used by `Properties/C07.lean` -/

theorem request_val (hash eval : Nat → Nat → Nat) (namedText : Nat → Nat)
    (hinj : HashInj hash) (pre post : List Op) (r : Req)
    (hnamed : NamedDiscipline namedText (pre ++ Op.req r :: post))
    (hmut : NoSilentMutation pre) :
    (request hash eval (run hash eval init pre) r).val = eval r.text (run hash eval init pre).data := by
  let D : Nat → Prop := fun t => ∃ r', Op.computeNamed r' ∈ pre ++ Op.req r :: post ∧ r'.templ = t
  have hI : Inv hash eval namedText D (run hash eval init pre) := by
    apply inv_run hinj pre (inv_init hash eval namedText D) hmut
    intro r' h
    have hm : Op.computeNamed r' ∈ pre ++ Op.req r :: post := List.mem_append_left _ h
    have hd : D r'.templ := ⟨r', hm, rfl⟩
    exact ⟨hd, hnamed r' (Or.inr hm) hd⟩
  apply request_val_of_inv hinj hI r
  intro hd
  exact hnamed r (Or.inl (List.mem_append_right _ List.mem_cons_self)) hd

theorem run_append (hash eval : Nat → Nat → Nat) (s : State) (a b : List Op) :
    run hash eval s (a ++ b) = run hash eval (run hash eval s a) b := by
  simp [run, List.foldl_append]

theorem request_after_mutateInvalidate (hash eval : Nat → Nat → Nat) (namedText : Nat → Nat)
    (hinj : HashInj hash) (pre post : List Op) (r : Req)
    (hnamed : NamedDiscipline namedText (pre ++ Op.mutateInvalidate :: Op.req r :: post))
    (hmut : NoSilentMutation pre) :
    (request hash eval (run hash eval init (pre ++ [Op.mutateInvalidate])) r).val =
      eval r.text ((run hash eval init pre).data + 1) := by
  have hnamed' : NamedDiscipline namedText ((pre ++ [Op.mutateInvalidate]) ++ Op.req r :: post) := by
    rw [List.append_assoc]; exact hnamed
  have hmut' : NoSilentMutation (pre ++ [Op.mutateInvalidate]) := by
    intro h
    rcases List.mem_append.1 h with h | h
    · exact hmut h
    · simp at h
  have h := request_val hash eval namedText hinj _ post r hnamed' hmut'
  rw [h, run_append]
  exact congrArg (eval r.text) (mutateInvalidate_data _)

theorem request_after_reregister (hash eval : Nat → Nat → Nat) (namedText : Nat → Nat)
    (hinj : HashInj hash) (pre post : List Op) (r : Req)
    (hnamed : NamedDiscipline namedText (pre ++ Op.reregister :: Op.req r :: post))
    (hmut : NoSilentMutation pre) :
    (request hash eval (run hash eval init (pre ++ [Op.reregister])) r).val =
      eval r.text ((run hash eval init pre).data + 1) := by
  have hnamed' : NamedDiscipline namedText ((pre ++ [Op.reregister]) ++ Op.req r :: post) := by
    rw [List.append_assoc]; exact hnamed
  have hmut' : NoSilentMutation (pre ++ [Op.reregister]) := by
    intro h
    rcases List.mem_append.1 h with h | h
    · exact hmut h
    · simp at h
  have h := request_val hash eval namedText hinj _ post r hnamed' hmut'
  rw [h, run_append]
  rfl

/-- the data version never decreases -/
theorem applyOp_data_le (hash eval : Nat → Nat → Nat) (s : State) (op : Op) :
    s.data ≤ (applyOp hash eval s op).data := by
  cases op with
  | req r => exact Nat.le_of_eq (request_data (hash := hash) (eval := eval) s r).symm
  | computeNamed r =>
    show s.data ≤ (request hash eval s r).state.data
    exact Nat.le_of_eq (request_data (hash := hash) (eval := eval) s r).symm
  | drop p => exact Nat.le_refl _
  | forgetNamed t => exact Nat.le_refl _
  | invalidate => exact Nat.le_of_eq (invalidate_data s).symm
  | mutateInvalidate => rw [show applyOp hash eval s .mutateInvalidate = mutateInvalidate s from rfl, mutateInvalidate_data]; omega
  | mutate => show s.data ≤ s.data + 1; omega
  | deleteCreated => exact Nat.le_of_eq (deleteCreated_data s).symm
  | resalt => exact Nat.le_refl _
  | reregister => show s.data ≤ s.data + 1; omega

theorem run_data_le (hash eval : Nat → Nat → Nat) (ops : List Op) (s : State) :
    s.data ≤ (run hash eval s ops).data := by
  induction ops generalizing s with
  | nil => exact Nat.le_refl _
  | cons op ops ih =>
    exact Nat.le_trans (applyOp_data_le hash eval s op) (ih (applyOp hash eval s op))

/-- after a re-registration EVERY later request (whatever ran in between, silent mutations excepted)
returns what its SQL denotes on the data of its own time, which are newer than the replaced ones -/
theorem request_later_after_reregister (hash eval : Nat → Nat → Nat) (namedText : Nat → Nat)
    (hinj : HashInj hash) (pre mid post : List Op) (r : Req)
    (hnamed : NamedDiscipline namedText ((pre ++ Op.reregister :: mid) ++ Op.req r :: post))
    (hmut : NoSilentMutation (pre ++ Op.reregister :: mid)) :
    (request hash eval (run hash eval init (pre ++ Op.reregister :: mid)) r).val =
        eval r.text (run hash eval init (pre ++ Op.reregister :: mid)).data ∧
      (run hash eval init pre).data < (run hash eval init (pre ++ Op.reregister :: mid)).data := by
  refine ⟨request_val hash eval namedText hinj _ post r hnamed hmut, ?_⟩
  rw [run_append]
  show _ < (run hash eval (reregister (run hash eval init pre)) mid).data
  have := run_data_le hash eval mid (reregister (run hash eval init pre))
  rw [reregister_data] at this
  omega

theorem hit_equals_miss (hash eval : Nat → Nat → Nat) (namedText : Nat → Nat)
    (hinj : HashInj hash) (pre post : List Op) (r : Req)
    (hnamed : NamedDiscipline namedText (pre ++ Op.req r :: post))
    (hmut : NoSilentMutation pre) :
    (request hash eval (run hash eval init pre) r).val =
      (execute hash eval (run hash eval init pre) r).val := by
  rw [request_val hash eval namedText hinj pre post r hnamed hmut]
  rfl

theorem phys_ne (hash : Nat → Nat → Nat) (hinj : HashInj hash) (templ t t' u u' : Nat)
    (h : t ≠ t' ∨ u ≠ u') : (⟨templ, hash t u⟩ : Phys) ≠ ⟨templ, hash t' u'⟩ := by
  intro he
  injection he with _ hh
  obtain ⟨h1, h2⟩ := hinj _ _ _ _ hh
  rcases h with h | h
  · exact h h1
  · exact h h2

/-! ## Counterexamples -/

/-- triangular numbers -/
def tri : Nat → Nat
  | 0 => 0
  | n + 1 => tri n + n + 1

/-- Cantor pairing: a provably injective witness for the hash -/
def pairHash (t u : Nat) : Nat := tri (t + u) + u

theorem tri_lt {a b : Nat} (h : a < b) : tri a + a < tri b := by
  induction b with
  | zero => omega
  | succ b ih =>
    show tri a + a < tri b + b + 1
    rcases Nat.lt_succ_iff_lt_or_eq.1 h with h | h
    · have := ih h; omega
    · subst h; omega

theorem pairHash_inj : HashInj pairHash := by
  intro t u t' u' h
  unfold pairHash at h
  rcases Nat.lt_trichotomy (t + u) (t' + u') with hlt | heq | hgt
  · have := tri_lt hlt; omega
  · rw [heq] at h; omega
  · have := tri_lt hgt; omega

theorem silent_mutation_counter :
    ∃ (hash eval : Nat → Nat → Nat) (pre : List Op) (r : Req), HashInj hash ∧
      (request hash eval (run hash eval init pre) r).val ≠ eval r.text (run hash eval init pre).data :=
  ⟨pairHash, fun t d => t + d, [Op.req ⟨0, 0, true⟩, Op.mutate], ⟨0, 0, true⟩, pairHash_inj, by decide⟩

theorem named_entry_counter :
    ∃ (hash eval : Nat → Nat → Nat) (pre : List Op) (r : Req), HashInj hash ∧ NoSilentMutation pre ∧
      (request hash eval (run hash eval init pre) r).val ≠ eval r.text (run hash eval init pre).data :=
  ⟨pairHash, fun t _ => t, [Op.computeNamed ⟨0, 0, true⟩], ⟨0, 1, true⟩, pairHash_inj,
    by simp [NoSilentMutation], by decide⟩

/-! ## Realtime SQL cache -/

theorem rtRun_sound_aux {κ : Type} [DecidableEq κ] (key : RtCall → κ) (sqlOf : RtCall → Nat)
    (hkey : ∀ x y, key x = key y → sqlOf x = sqlOf y) (calls : List RtCall) (c : List (κ × Nat))
    (hc : ∀ p, p ∈ c → ∀ x, key x = p.1 → sqlOf x = p.2) :
    rtRun key sqlOf c calls = calls.map sqlOf := by
  induction calls generalizing c with
  | nil => rfl
  | cons x xs ih =>
    unfold rtRun
    split
    · next p hf =>
      have h1 := List.find?_some hf
      have h2 := List.mem_of_find?_eq_some hf
      simp at h1
      rw [ih c hc, List.map_cons, hc p h2 x h1.symm]
    · rw [List.map_cons, ih]
      intro p hp y hy
      rcases List.mem_cons.1 hp with hp | hp
      · subst hp; exact hkey y x hy
      · exact hc p hp y hy

theorem rtRun_sound {κ : Type} [DecidableEq κ] (key : RtCall → κ) (sqlOf : RtCall → Nat)
    (hkey : ∀ x y, key x = key y → sqlOf x = sqlOf y) (calls : List RtCall) :
    rtRun key sqlOf [] calls = calls.map sqlOf :=
  rtRun_sound_aux key sqlOf hkey calls [] (by intro p hp; cases hp)

theorem rt_counter :
    ∃ (sqlOf : RtCall → Nat) (calls : List RtCall),
      rtRun (fun c => c.settings) sqlOf [] calls ≠ calls.map sqlOf :=
  ⟨fun c => if c.includeFoundByBlockingRules then 1 else 0, [⟨0, 0, false⟩, ⟨0, 0, true⟩], by decide⟩

end SplinkVerif.Lemmas.CacheL
