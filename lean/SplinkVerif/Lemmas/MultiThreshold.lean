import SplinkVerif.Model.MultiThreshold
import SplinkVerif.Lemmas.CC
/-!
# Helper lemmas for C11 (multi-threshold clustering)

* sorting (`insertSorted`/`sortAsc` give an ascending permutation);
* `Good n E cc`: the rows of `cc` are exactly `(i, least node reachable from i in E)`,
  one per node — the invariant carried through `loop`;
* `next_good`: one pass of the loop re-establishes `Good` at the new threshold;
* `stats` is invariant under permutation of the rows.
-/
namespace SplinkVerif.Lemmas.MT
open SplinkVerif SplinkVerif.CC SplinkVerif.MultiThreshold SplinkVerif.Lemmas

variable {α : Type}

/-! ## Sorting -/

theorem insertSorted_perm (ge : α → α → Bool) (x : α) (l : List α) :
    (insertSorted ge x l).Perm (x :: l) := by
  induction l with
  | nil => exact List.Perm.refl _
  | cons y ys ih =>
    unfold insertSorted
    split
    · exact List.Perm.refl _
    · exact (List.Perm.cons y ih).trans (List.Perm.swap x y ys)

theorem sortAsc_cons (ge : α → α → Bool) (a : α) (l : List α) :
    sortAsc ge (a :: l) = insertSorted ge a (sortAsc ge l) := rfl

theorem sortAsc_perm (ge : α → α → Bool) (l : List α) : (sortAsc ge l).Perm l := by
  induction l with
  | nil => exact List.Perm.refl _
  | cons a l ih =>
    rw [sortAsc_cons]
    exact (insertSorted_perm ge a _).trans (List.Perm.cons a ih)

/-- `l` is ascending and every element is `ge a`. -/
def AscFrom (ge : α → α → Bool) : α → List α → Prop
  | _, [] => True
  | a, b :: l => ge b a = true ∧ AscFrom ge b l

def Sorted (ge : α → α → Bool) : List α → Prop
  | [] => True
  | a :: l => AscFrom ge a l

theorem ascFrom_insert (ge : α → α → Bool) (htotal : ∀ a b, ge a b = true ∨ ge b a = true)
    (x : α) (l : List α) (a : α) (h : AscFrom ge a l) (hx : ge x a = true) :
    AscFrom ge a (insertSorted ge x l) := by
  induction l generalizing a with
  | nil => exact ⟨hx, trivial⟩
  | cons y ys ih =>
    obtain ⟨hya, hys⟩ := h
    unfold insertSorted
    by_cases hyx : ge y x = true
    · rw [if_pos hyx]
      exact ⟨hx, hyx, hys⟩
    · rw [if_neg hyx]
      have hxy : ge x y = true := by
        rcases htotal x y with h | h
        · exact h
        · exact absurd h hyx
      exact ⟨hya, ih y hys hxy⟩

theorem sorted_insert (ge : α → α → Bool) (htotal : ∀ a b, ge a b = true ∨ ge b a = true)
    (x : α) (l : List α) (h : Sorted ge l) : Sorted ge (insertSorted ge x l) := by
  cases l with
  | nil => exact trivial
  | cons y ys =>
    unfold insertSorted
    by_cases hyx : ge y x = true
    · rw [if_pos hyx]
      exact ⟨hyx, h⟩
    · rw [if_neg hyx]
      have hxy : ge x y = true := by
        rcases htotal x y with h | h
        · exact h
        · exact absurd h hyx
      exact ascFrom_insert ge htotal x ys y h hxy

theorem sorted_sortAsc (ge : α → α → Bool) (htotal : ∀ a b, ge a b = true ∨ ge b a = true)
    (l : List α) : Sorted ge (sortAsc ge l) := by
  induction l with
  | nil => exact trivial
  | cons a l ih =>
    rw [sortAsc_cons]
    exact sorted_insert ge htotal a _ ih

/-! ## Thresholds of `multi` -/

theorem loop_map_fst (ge : α → α → Bool) (one : α) (n : Nat) (edges : List (PEdge α))
    (cc : Clustering) (tPrev : α) (ts : List α) :
    (loop ge one n edges cc tPrev ts).map (·.1) = ts := by
  induction ts generalizing cc tPrev with
  | nil => rfl
  | cons t ts ih =>
    simp only [MultiThreshold.loop, List.map_cons]
    rw [ih]

theorem multi_map_fst (ge : α → α → Bool) (one : α) (n : Nat) (edges : List (PEdge α))
    (ts : List α) : (multi ge one n edges ts).map (·.1) = sortAsc ge ts := by
  unfold multi
  cases sortAsc ge ts with
  | nil => rfl
  | cons t0 rest =>
    simp only [List.map_cons]
    rw [loop_map_fst]

theorem multi_thresholds_perm (ge : α → α → Bool) (one : α) (n : Nat) (edges : List (PEdge α))
    (ts : List α) : ((multi ge one n edges ts).map (·.1)).Perm ts := by
  rw [multi_map_fst]
  exact sortAsc_perm ge ts

/-! ## Thresholded edges -/

theorem mem_thresholdEdges (ge : α → α → Bool) (t : α) (edges : List (PEdge α)) (a b : Nat) :
    (a, b) ∈ thresholdEdges ge (some t) edges ↔ ∃ p, (a, b, p) ∈ edges ∧ ge p t = true := by
  unfold thresholdEdges
  simp only [List.mem_map, List.mem_filter]
  constructor
  · rintro ⟨⟨l, r, p⟩, ⟨hm, hg⟩, heq⟩
    have h1 : l = a := congrArg Prod.fst heq
    have h2 : r = b := congrArg Prod.snd heq
    subst h1 h2
    exact ⟨p, hm, hg⟩
  · rintro ⟨p, hm, hg⟩
    exact ⟨(a, b, p), ⟨hm, hg⟩, rfl⟩

theorem thresholdEdges_lt (ge : α → α → Bool) (thr : Option α) (n : Nat) (edges : List (PEdge α))
    (hE : ∀ e ∈ edges, e.1 < n ∧ e.2.1 < n) :
    ∀ e ∈ thresholdEdges ge thr edges, e.1 < n ∧ e.2 < n := by
  intro e he
  unfold thresholdEdges at he
  obtain ⟨x, hx, rfl⟩ := List.mem_map.mp he
  exact hE x (List.mem_filter.mp hx).1

theorem edgesInPlay_lt (ip : Nat → Bool) (n : Nat) (edges : List (PEdge α))
    (hE : ∀ e ∈ edges, e.1 < n ∧ e.2.1 < n) :
    ∀ e ∈ edgesInPlay ip edges, e.1 < n ∧ e.2.1 < n := by
  intro e he
  exact hE e (List.mem_filter.mp he).1

theorem reach_mono {adj adj' : Nat → Nat → Prop} (h : ∀ a b, adj a b → adj' a b) {i j : Nat}
    (hr : Reach adj i j) : Reach adj' i j := by
  induction hr with
  | refl => exact Reach.refl _
  | tail _ hjk ih => exact Reach.tail ih (h _ _ hjk)

/-! ## The representative is the least reachable node -/

theorem rep_reach (n : Nat) (E : List Edge) (hE : ∀ e ∈ E, e.1 < n ∧ e.2 < n) (i : Nat)
    (hi : i < n) : Reach (Adj n E) i ((run n E).rep i) :=
  (inv_run n E hE).B i hi

theorem rep_least (n : Nat) (E : List Edge) (hE : ∀ e ∈ E, e.1 < n ∧ e.2 < n) (i j : Nat)
    (hi : i < n) (h : Reach (Adj n E) i j) : (run n E).rep i ≤ j := by
  obtain ⟨hjn, heq⟩ := run_rep_reach n E hE i j hi h
  rw [heq]
  exact (inv_run n E hE).A j hjn

theorem rep_eq_of_reach_iff (n : Nat) (E E' : List Edge) (hE : ∀ e ∈ E, e.1 < n ∧ e.2 < n)
    (hE' : ∀ e ∈ E', e.1 < n ∧ e.2 < n) (i : Nat) (hi : i < n)
    (h : ∀ j, Reach (Adj n E) i j ↔ Reach (Adj n E') i j) :
    (run n E).rep i = (run n E').rep i := by
  apply Nat.le_antisymm
  · exact rep_least n E hE i _ hi ((h _).mpr (rep_reach n E' hE' i hi))
  · exact rep_least n E' hE' i _ hi ((h _).mp (rep_reach n E hE i hi))

/-! ## `Good` clusterings -/

/-- One row per node, and every row is `(i, representative of i in E)`. -/
def Good (n : Nat) (E : List Edge) (cc : Clustering) : Prop :=
  (cc.map (·.1)).Perm (List.range n) ∧ ∀ r ∈ cc, r.2 = (run n E).rep r.1

theorem good_cluster (n : Nat) (E : List Edge) (hE : ∀ e ∈ E, e.1 < n ∧ e.2 < n) :
    Good n E (cluster n E) :=
  ⟨cluster_nodes_perm n E hE, fun r hr => (mem_cluster n E hE r.1 r.2 hr).2⟩

theorem good_eq {n : Nat} {E : List Edge} {cc : Clustering} (h : Good n E cc) :
    cc = (cc.map (·.1)).map (fun i => (i, (run n E).rep i)) := by
  rw [List.map_map]
  conv => lhs; rw [← List.map_id cc]
  apply List.map_congr_left
  intro r hr
  exact Prod.ext rfl (h.2 r hr)

theorem good_perm {n : Nat} {E : List Edge} {cc cc' : Clustering} (h : Good n E cc)
    (h' : Good n E cc') : cc.Perm cc' := by
  rw [good_eq h, good_eq h']
  exact (h.1.trans h'.1.symm).map _

theorem good_lt {n : Nat} {E : List Edge} {cc : Clustering} (h : Good n E cc) {i c : Nat}
    (hm : (i, c) ∈ cc) : i < n ∧ c = (run n E).rep i := by
  refine ⟨?_, h.2 (i, c) hm⟩
  have : i ∈ cc.map (·.1) := List.mem_map.mpr ⟨(i, c), hm, rfl⟩
  exact List.mem_range.mp (h.1.mem_iff.mp this)

theorem good_mem {n : Nat} {E : List Edge} {cc : Clustering} (h : Good n E cc) {i : Nat}
    (hi : i < n) : (i, (run n E).rep i) ∈ cc := by
  have : i ∈ cc.map (·.1) := h.1.mem_iff.mpr (List.mem_range.mpr hi)
  obtain ⟨r, hr, hri⟩ := List.mem_map.mp this
  have h2 := h.2 r hr
  have : r = (i, (run n E).rep i) := by
    apply Prod.ext
    · exact hri
    · rw [h2]; show (run n E).rep r.1 = (run n E).rep i; rw [hri]
  rw [← this]; exact hr

theorem ccAt_true (ge : α → α → Bool) (n : Nat) (edges : List (PEdge α)) (t : α) :
    ccAt ge n (fun _ => true) edges t = cluster n (thresholdEdges ge (some t) edges) := by
  unfold ccAt
  exact List.filter_eq_self.mpr (fun _ _ => rfl)

/-! ## Stability -/

theorem isStable_spec (ge : α → α → Bool) (one : α) (cc : Clustering) (edges : List (PEdge α))
    (tPrev tNew : α) (c : Nat) (h : isStable ge one cc edges tPrev tNew c = true) :
    ∀ p ∈ clusterEdgeProbs ge cc edges tPrev c, ge p tNew = true := by
  unfold isStable at h
  generalize clusterEdgeProbs ge cc edges tPrev c = ps at h
  cases ps with
  | nil => intro p hp; cases hp
  | cons a l =>
    simp only at h
    exact fun p hp => (List.all_eq_true.mp h) p hp

theorem mem_clusterEdgeProbs (ge : α → α → Bool) (cc : Clustering) (edges : List (PEdge α))
    (tPrev : α) (c l r : Nat) (p : α) (hm : (l, r, p) ∈ edges) (hg : ge p tPrev = true)
    (hc : (l, c) ∈ cc ∨ (r, c) ∈ cc) : p ∈ clusterEdgeProbs ge cc edges tPrev c := by
  have hmem : ∀ x, (x, c) ∈ cc →
      ((cc.filter fun r => r.2 == c).map (·.1)).contains x = true := by
    intro x hx
    rw [List.contains_iff_mem]
    exact List.mem_map.mpr ⟨(x, c), List.mem_filter.mpr ⟨hx, by simp⟩, rfl⟩
  unfold clusterEdgeProbs
  simp only [List.mem_append, List.mem_map, List.mem_filter]
  rcases hc with hc | hc
  · exact Or.inl ⟨(l, r, p), ⟨⟨hm, hg⟩, hmem l hc⟩, rfl⟩
  · exact Or.inr ⟨(l, r, p), ⟨⟨hm, hg⟩, hmem r hc⟩, rfl⟩

theorem stable_edge (ge : α → α → Bool) (one : α) (cc : Clustering) (edges : List (PEdge α))
    (tPrev tNew : α) (c l r : Nat) (p : α)
    (h : isStable ge one cc edges tPrev tNew c = true)
    (hm : (l, r, p) ∈ edges) (hg : ge p tPrev = true)
    (hc : (l, c) ∈ cc ∨ (r, c) ∈ cc) : ge p tNew = true :=
  isStable_spec ge one cc edges tPrev tNew c h p
    (mem_clusterEdgeProbs ge cc edges tPrev c l r p hm hg hc)

theorem stableNodes_eq (ge : α → α → Bool) (one : α) (n : Nat) (edges : List (PEdge α))
    (cc : Clustering) (tPrev tNew : α) :
    stableNodes ge one n edges cc tPrev tNew =
      cc.filter fun r => isStable ge one cc edges tPrev tNew r.2 := by
  unfold stableNodes
  simp only [Tab.get_build]

/-! ## One pass of the loop -/

section Step
variable (ge : α → α → Bool) (one : α) (n : Nat) (edges : List (PEdge α)) (cc : Clustering)
  (tPrev tNew : α)
  (htrans : ∀ a b c, ge a b = true → ge b c = true → ge a c = true)
  (hle : ge tNew tPrev = true)
  (hE : ∀ e ∈ edges, e.1 < n ∧ e.2.1 < n)
  (hG : Good n (thresholdEdges ge (some tPrev) edges) cc)

include htrans hle in
theorem adj_new_prev (a b : Nat) (h : Adj n (thresholdEdges ge (some tNew) edges) a b) :
    Adj n (thresholdEdges ge (some tPrev) edges) a b := by
  obtain ⟨ha, hb, hab⟩ := h
  refine ⟨ha, hb, ?_⟩
  rcases hab with h | h
  · obtain ⟨p, hm, hg⟩ := (mem_thresholdEdges ge tNew edges a b).mp h
    exact Or.inl ((mem_thresholdEdges ge tPrev edges a b).mpr ⟨p, hm, htrans _ _ _ hg hle⟩)
  · obtain ⟨p, hm, hg⟩ := (mem_thresholdEdges ge tNew edges b a).mp h
    exact Or.inr ((mem_thresholdEdges ge tPrev edges b a).mpr ⟨p, hm, htrans _ _ _ hg hle⟩)

include hE hG in
/-- Inside a stable cluster, reachability at the old threshold survives at the new one. -/
theorem stable_reach (i c j : Nat) (hm : (i, c) ∈ cc)
    (hs : isStable ge one cc edges tPrev tNew c = true)
    (hr : Reach (Adj n (thresholdEdges ge (some tPrev) edges)) i j) :
    Reach (Adj n (thresholdEdges ge (some tNew) edges)) i j := by
  have hEp := thresholdEdges_lt ge (some tPrev) n edges hE
  obtain ⟨hi, hc⟩ := good_lt hG hm
  induction hr with
  | refl => exact Reach.refl _
  | @tail j k hij hjk ih =>
    obtain ⟨hjn, hrep⟩ := run_rep_reach n _ hEp i j hi hij
    have hjc : (j, c) ∈ cc := by
      have := good_mem hG hjn
      rw [← hrep, ← hc] at this
      exact this
    obtain ⟨_, hkn, hjk'⟩ := hjk
    refine Reach.tail ih ⟨hjn, hkn, ?_⟩
    rcases hjk' with h | h
    · obtain ⟨p, hpm, hg⟩ := (mem_thresholdEdges ge tPrev edges j k).mp h
      have := stable_edge ge one cc edges tPrev tNew c j k p hs hpm hg (Or.inl hjc)
      exact Or.inl ((mem_thresholdEdges ge tNew edges j k).mpr ⟨p, hpm, this⟩)
    · obtain ⟨p, hpm, hg⟩ := (mem_thresholdEdges ge tPrev edges k j).mp h
      have := stable_edge ge one cc edges tPrev tNew c k j p hs hpm hg (Or.inr hjc)
      exact Or.inr ((mem_thresholdEdges ge tNew edges k j).mpr ⟨p, hpm, this⟩)

include htrans hle hE hG in
/-- A row of a stable cluster is a row of the clustering at the new threshold. -/
theorem stable_row (i c : Nat) (hm : (i, c) ∈ cc)
    (hs : isStable ge one cc edges tPrev tNew c = true) :
    c = (run n (thresholdEdges ge (some tNew) edges)).rep i := by
  have hEp := thresholdEdges_lt ge (some tPrev) n edges hE
  have hEn := thresholdEdges_lt ge (some tNew) n edges hE
  obtain ⟨hi, hc⟩ := good_lt hG hm
  rw [hc]
  apply rep_eq_of_reach_iff n _ _ hEp hEn i hi
  intro j
  constructor
  · exact stable_reach ge one n edges cc tPrev tNew hE hG i c j hm hs
  · exact reach_mono (adj_new_prev ge n edges tPrev tNew htrans hle)

include hG in
/-- A node is in play iff its cluster is not stable. -/
theorem inPlay_spec (i : Nat) (hi : i < n) :
    (inPlay n (cc.filter fun r => isStable ge one cc edges tPrev tNew r.2)).get i =
      !isStable ge one cc edges tPrev tNew
        ((run n (thresholdEdges ge (some tPrev) edges)).rep i) := by
  unfold inPlay
  rw [Tab.get_build]
  congr 1
  cases hs : isStable ge one cc edges tPrev tNew
      ((run n (thresholdEdges ge (some tPrev) edges)).rep i)
  · rw [List.any_eq_false]
    intro r hr
    obtain ⟨hrm, hrs⟩ := List.mem_filter.mp hr
    intro heq
    have hri : r.1 = i := by simpa using heq
    have h2 := hG.2 r hrm
    rw [hri] at h2
    rw [h2, hs] at hrs
    cases hrs
  · rw [List.any_eq_true]
    exact ⟨_, List.mem_filter.mpr ⟨good_mem hG hi, hs⟩, by simp⟩

include htrans hle hE hG in
/-- From a node in play, reachability at the new threshold only uses edges in play. -/
theorem inPlay_reach (i j : Nat) (hi : i < n)
    (hs : isStable ge one cc edges tPrev tNew
      ((run n (thresholdEdges ge (some tPrev) edges)).rep i) = false)
    (hr : Reach (Adj n (thresholdEdges ge (some tNew) edges)) i j) :
    Reach (Adj n (thresholdEdges ge (some tNew)
      (edgesInPlay (inPlay n (cc.filter fun r => isStable ge one cc edges tPrev tNew r.2)).get
        edges))) i j := by
  have hEp := thresholdEdges_lt ge (some tPrev) n edges hE
  have hip : ∀ k, Reach (Adj n (thresholdEdges ge (some tNew) edges)) i k →
      k < n ∧ (inPlay n (cc.filter fun r => isStable ge one cc edges tPrev tNew r.2)).get k
        = true := by
    intro k hk
    have hk' := reach_mono (adj_new_prev ge n edges tPrev tNew htrans hle) hk
    obtain ⟨hkn, hrep⟩ := run_rep_reach n _ hEp i k hi hk'
    refine ⟨hkn, ?_⟩
    rw [inPlay_spec ge one n edges cc tPrev tNew hG k hkn, ← hrep, hs]
    rfl
  induction hr with
  | refl => exact Reach.refl _
  | @tail j k hij hjk ih =>
    obtain ⟨hjn, hipj⟩ := hip j hij
    obtain ⟨hkn, hipk⟩ := hip k (Reach.tail hij hjk)
    refine Reach.tail ih ⟨hjn, hkn, ?_⟩
    rcases hjk.2.2 with h | h
    · obtain ⟨p, hpm, hg⟩ := (mem_thresholdEdges ge tNew edges j k).mp h
      refine Or.inl ((mem_thresholdEdges ge tNew _ j k).mpr ⟨p, ?_, hg⟩)
      exact List.mem_filter.mpr ⟨hpm, by simp [hipj, hipk]⟩
    · obtain ⟨p, hpm, hg⟩ := (mem_thresholdEdges ge tNew edges k j).mp h
      refine Or.inr ((mem_thresholdEdges ge tNew _ k j).mpr ⟨p, ?_, hg⟩)
      exact List.mem_filter.mpr ⟨hpm, by simp [hipj, hipk]⟩

theorem adj_inPlay_new (ip : Nat → Bool) (a b : Nat)
    (h : Adj n (thresholdEdges ge (some tNew) (edgesInPlay ip edges)) a b) :
    Adj n (thresholdEdges ge (some tNew) edges) a b := by
  obtain ⟨ha, hb, hab⟩ := h
  refine ⟨ha, hb, ?_⟩
  rcases hab with h | h
  · obtain ⟨p, hm, hg⟩ := (mem_thresholdEdges ge tNew _ a b).mp h
    exact Or.inl ((mem_thresholdEdges ge tNew edges a b).mpr ⟨p, (List.mem_filter.mp hm).1, hg⟩)
  · obtain ⟨p, hm, hg⟩ := (mem_thresholdEdges ge tNew _ b a).mp h
    exact Or.inr ((mem_thresholdEdges ge tNew edges b a).mpr ⟨p, (List.mem_filter.mp hm).1, hg⟩)

include htrans hle hE hG in
/-- For a node in play the marginal clustering finds the representative at the new threshold. -/
theorem inPlay_rep (i : Nat) (hi : i < n)
    (hs : isStable ge one cc edges tPrev tNew
      ((run n (thresholdEdges ge (some tPrev) edges)).rep i) = false) :
    (run n (thresholdEdges ge (some tNew)
      (edgesInPlay (inPlay n (cc.filter fun r => isStable ge one cc edges tPrev tNew r.2)).get
        edges))).rep i =
    (run n (thresholdEdges ge (some tNew) edges)).rep i := by
  have hEn := thresholdEdges_lt ge (some tNew) n edges hE
  have hEi := thresholdEdges_lt ge (some tNew) n _
    (edgesInPlay_lt (inPlay n (cc.filter fun r => isStable ge one cc edges tPrev tNew r.2)).get
      n edges hE)
  apply rep_eq_of_reach_iff n _ _ hEi hEn i hi
  intro j
  constructor
  · exact reach_mono (adj_inPlay_new ge n edges tNew _)
  · exact inPlay_reach ge one n edges cc tPrev tNew htrans hle hE hG i j hi hs

theorem next_eq :
    next ge one n edges cc tPrev tNew =
      (cc.filter fun r => isStable ge one cc edges tPrev tNew r.2) ++
      (cluster n (thresholdEdges ge (some tNew)
        (edgesInPlay (inPlay n (cc.filter fun r => isStable ge one cc edges tPrev tNew r.2)).get
          edges))).filter
        fun r => (inPlay n (cc.filter fun r => isStable ge one cc edges tPrev tNew r.2)).get r.1 := by
  unfold next ccAt
  simp only [stableNodes_eq]

include htrans hle hE hG in
theorem next_good :
    Good n (thresholdEdges ge (some tNew) edges) (next ge one n edges cc tPrev tNew) := by
  rw [next_eq]
  generalize hipf :
    (inPlay n (cc.filter fun r => isStable ge one cc edges tPrev tNew r.2)).get = ipf
  have hspec : ∀ i, i < n → ipf i = !isStable ge one cc edges tPrev tNew
      ((run n (thresholdEdges ge (some tPrev) edges)).rep i) := by
    intro i hi
    rw [← hipf]
    exact inPlay_spec ge one n edges cc tPrev tNew hG i hi
  have hEi := thresholdEdges_lt ge (some tNew) n _ (edgesInPlay_lt ipf n edges hE)
  have hGi := good_cluster n _ hEi
  constructor
  · rw [List.map_append]
    have e1 : (cc.filter fun r => isStable ge one cc edges tPrev tNew r.2) =
        cc.filter ((fun i => !ipf i) ∘ (·.1)) := by
      apply List.filter_congr
      intro r hr
      obtain ⟨hrn, hrc⟩ := good_lt hG (i := r.1) (c := r.2) hr
      show _ = !ipf r.1
      rw [hspec r.1 hrn, ← hrc]
      simp
    have e2 : ((cluster n (thresholdEdges ge (some tNew) (edgesInPlay ipf edges))).filter
        fun r => ipf r.1) = (cluster n (thresholdEdges ge (some tNew)
          (edgesInPlay ipf edges))).filter (ipf ∘ (·.1)) := rfl
    rw [e1, e2, ← List.filter_map, ← List.filter_map]
    have p1 := hG.1.filter (fun i => !ipf i)
    have p2 := hGi.1.filter ipf
    exact (p1.append p2).trans
      (List.perm_append_comm.trans (List.filter_append_perm ipf (List.range n)))
  · intro r hr
    rcases List.mem_append.mp hr with hr | hr
    · obtain ⟨hrm, hrs⟩ := List.mem_filter.mp hr
      exact stable_row ge one n edges cc tPrev tNew htrans hle hE hG r.1 r.2 hrm hrs
    · obtain ⟨hrm, hrp⟩ := List.mem_filter.mp hr
      obtain ⟨hrn, hrc⟩ := good_lt hGi (i := r.1) (c := r.2) hrm
      have hs : isStable ge one cc edges tPrev tNew
          ((run n (thresholdEdges ge (some tPrev) edges)).rep r.1) = false := by
        have := hspec r.1 hrn
        rw [hrp] at this
        simpa using this.symm
      have := inPlay_rep ge one n edges cc tPrev tNew htrans hle hE hG r.1 hrn hs
      rw [hipf] at this
      rw [← this]
      exact hrc

end Step

/-! ## The loop -/

theorem loop_good (ge : α → α → Bool) (one : α) (n : Nat) (edges : List (PEdge α))
    (htrans : ∀ a b c, ge a b = true → ge b c = true → ge a c = true)
    (hE : ∀ e ∈ edges, e.1 < n ∧ e.2.1 < n)
    (cc : Clustering) (tPrev : α) (ts : List α)
    (hG : Good n (thresholdEdges ge (some tPrev) edges) cc) (hs : AscFrom ge tPrev ts) :
    ∀ t cc', (t, cc') ∈ loop ge one n edges cc tPrev ts →
      Good n (thresholdEdges ge (some t) edges) cc' := by
  induction ts generalizing cc tPrev with
  | nil => intro t cc' h; cases h
  | cons t0 ts ih =>
    intro t cc' h
    obtain ⟨hle, hs'⟩ := hs
    have hG' := next_good ge one n edges cc tPrev t0 htrans hle hE hG
    simp only [MultiThreshold.loop] at h
    rcases List.mem_cons.mp h with h | h
    · have h1 : t = t0 := congrArg Prod.fst h
      have h2 : cc' = next ge one n edges cc tPrev t0 := congrArg Prod.snd h
      rw [h1, h2]
      exact hG'
    · exact ih _ _ hG' hs' t cc' h

theorem multi_good (ge : α → α → Bool) (one : α) (n : Nat) (edges : List (PEdge α))
    (ts : List α)
    (htrans : ∀ a b c, ge a b = true → ge b c = true → ge a c = true)
    (htotal : ∀ a b, ge a b = true ∨ ge b a = true)
    (hE : ∀ e ∈ edges, e.1 < n ∧ e.2.1 < n) :
    ∀ t cc, (t, cc) ∈ multi ge one n edges ts →
      Good n (thresholdEdges ge (some t) edges) cc := by
  intro t cc h
  have hsorted := sorted_sortAsc ge htotal ts
  unfold multi at h
  generalize sortAsc ge ts = s at h hsorted
  cases s with
  | nil => cases h
  | cons t0 rest =>
    simp only at h
    have hG0 : Good n (thresholdEdges ge (some t0) edges) (ccAt ge n (fun _ => true) edges t0) := by
      rw [ccAt_true]
      exact good_cluster n _ (thresholdEdges_lt ge (some t0) n edges hE)
    rcases List.mem_cons.mp h with h | h
    · have h1 : t = t0 := congrArg Prod.fst h
      have h2 : cc = ccAt ge n (fun _ => true) edges t0 := congrArg Prod.snd h
      rw [h1, h2]
      exact hG0
    · exact loop_good ge one n edges htrans hE _ t0 rest hG0 hsorted t cc h

theorem multi_perm_single (ge : α → α → Bool) (one : α) (n : Nat) (edges : List (PEdge α))
    (ts : List α)
    (htrans : ∀ a b c, ge a b = true → ge b c = true → ge a c = true)
    (htotal : ∀ a b, ge a b = true ∨ ge b a = true)
    (hE : ∀ e ∈ edges, e.1 < n ∧ e.2.1 < n) :
    ∀ t cc, (t, cc) ∈ multi ge one n edges ts →
      cc.Perm (ccAt ge n (fun _ => true) edges t) := by
  intro t cc h
  rw [ccAt_true]
  exact good_perm (multi_good ge one n edges ts htrans htotal hE t cc h)
    (good_cluster n _ (thresholdEdges_lt ge (some t) n edges hE))

theorem stable_rows_in_single (ge : α → α → Bool) (one : α) (n : Nat) (edges : List (PEdge α))
    (tPrev tNew : α)
    (htrans : ∀ a b c, ge a b = true → ge b c = true → ge a c = true)
    (hle : ge tNew tPrev = true)
    (hE : ∀ e ∈ edges, e.1 < n ∧ e.2.1 < n) :
    ∀ r ∈ stableNodes ge one n edges (ccAt ge n (fun _ => true) edges tPrev) tPrev tNew,
      r ∈ ccAt ge n (fun _ => true) edges tNew := by
  intro r hr
  rw [stableNodes_eq] at hr
  rw [ccAt_true] at hr ⊢
  have hGp := good_cluster n _ (thresholdEdges_lt ge (some tPrev) n edges hE)
  have hGn := good_cluster n _ (thresholdEdges_lt ge (some tNew) n edges hE)
  obtain ⟨hrm, hrs⟩ := List.mem_filter.mp hr
  have hc := stable_row ge one n edges _ tPrev tNew htrans hle hE hGp r.1 r.2 hrm hrs
  obtain ⟨hrn, _⟩ := good_lt hGp (i := r.1) (c := r.2) hrm
  have := good_mem hGn hrn
  rw [← hc] at this
  exact this

/-! ## Statistics -/

theorem nodup_eraseDups : ∀ (k : Nat) (l : List Nat), l.length ≤ k → l.eraseDups.Nodup
  | _, [], _ => by simp
  | 0, _ :: _, h => by simp at h
  | k + 1, a :: as, h => by
    rw [List.eraseDups_cons, List.nodup_cons]
    refine ⟨?_, nodup_eraseDups k _ ?_⟩
    · rw [List.mem_eraseDups, List.mem_filter]
      simp
    · have := List.length_filter_le (fun b => !b == a) as
      simp only [List.length_cons] at h
      omega

theorem eraseDups_perm {l l' : List Nat} (p : l.Perm l') : l.eraseDups.Perm l'.eraseDups := by
  apply (List.perm_ext_iff_of_nodup (nodup_eraseDups _ l (Nat.le_refl _))
    (nodup_eraseDups _ l' (Nat.le_refl _))).mpr
  intro a
  rw [List.mem_eraseDups, List.mem_eraseDups]
  exact p.mem_iff

theorem clusterSizes_perm {cc cc' : Clustering} (p : cc.Perm cc') :
    (clusterSizes cc).Perm (clusterSizes cc') := by
  unfold clusterSizes
  have hf : (fun c => (cc.filter fun r => r.2 == c).length) =
      (fun c => (cc'.filter fun r => r.2 == c).length) :=
    funext fun c => (p.filter _).length_eq
  rw [hf]
  exact (eraseDups_perm (p.map _)).map _

theorem sum_counts : ∀ (k : Nat) (ids : List Nat) (cc : Clustering), ids.length ≤ k →
    (∀ r ∈ cc, r.2 ∈ ids) →
    ((ids.eraseDups).map fun c => (cc.filter fun r => r.2 == c).length).sum = cc.length
  | _, [], cc, _, h => by
    cases cc with
    | nil => rfl
    | cons r rs => exact absurd (h r List.mem_cons_self) (by simp)
  | 0, _ :: _, _, hk, _ => by simp at hk
  | k + 1, a :: as, cc, hk, h => by
    rw [List.eraseDups_cons, List.map_cons, List.sum_cons]
    have ih := sum_counts k (as.filter fun b => !b == a) (cc.filter fun r => !(r.2 == a))
      (by
        have := List.length_filter_le (fun b => !b == a) as
        simp only [List.length_cons] at hk
        omega)
      (by
        intro r hr
        obtain ⟨hrm, hrp⟩ := List.mem_filter.mp hr
        rcases List.mem_cons.mp (h r hrm) with h1 | h1
        · rw [h1] at hrp; simp at hrp
        · exact List.mem_filter.mpr ⟨h1, by simpa using hrp⟩)
    have hcongr : ((as.filter fun b => !b == a).eraseDups.map
          fun c => (cc.filter fun r => r.2 == c).length) =
        ((as.filter fun b => !b == a).eraseDups.map
          fun c => ((cc.filter fun r => !(r.2 == a)).filter fun r => r.2 == c).length) := by
      apply List.map_congr_left
      intro c hc
      rw [List.mem_eraseDups] at hc
      have hca : c ≠ a := by
        have := (List.mem_filter.mp hc).2
        simpa using this
      rw [List.filter_filter]
      congr 1
      apply List.filter_congr
      intro r _
      by_cases hrc : r.2 = c
      · simp [hrc, hca]
      · simp [hrc]
    rw [hcongr, ih]
    have := (List.filter_append_perm (fun r : Nat × Nat => r.2 == a) cc).length_eq
    rw [List.length_append] at this
    exact this

theorem stats_total (cc : Clustering) : (stats cc).totalSize = cc.length := by
  show (clusterSizes cc).sum = cc.length
  unfold clusterSizes
  exact sum_counts _ (cc.map (·.2)) cc (Nat.le_refl _)
    (fun r hr => List.mem_map.mpr ⟨r, hr, rfl⟩)

theorem stats_perm {cc cc' : Clustering} (p : cc.Perm cc') : stats cc = stats cc' := by
  have hp := clusterSizes_perm p
  have h1 : (stats cc).totalSize = (stats cc').totalSize := by
    rw [stats_total, stats_total]; exact p.length_eq
  have h2 : (clusterSizes cc).foldl max 0 = (clusterSizes cc').foldl max 0 := by
    apply hp.foldl_eq'
    intro x _ y _ z
    omega
  unfold stats at h1 ⊢
  simp only [Stats.mk.injEq]
  exact ⟨hp.length_eq, h2, h1⟩

theorem multi_stats_single (ge : α → α → Bool) (one : α) (n : Nat) (edges : List (PEdge α))
    (ts : List α)
    (htrans : ∀ a b c, ge a b = true → ge b c = true → ge a c = true)
    (htotal : ∀ a b, ge a b = true ∨ ge b a = true)
    (hE : ∀ e ∈ edges, e.1 < n ∧ e.2.1 < n) :
    ∀ t cc, (t, cc) ∈ multi ge one n edges ts →
      stats cc = stats (ccAt ge n (fun _ => true) edges t) :=
  fun t cc h => stats_perm (multi_perm_single ge one n edges ts htrans htotal hE t cc h)

end SplinkVerif.Lemmas.MT
