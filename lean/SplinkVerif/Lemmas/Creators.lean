import SplinkVerif.Model.Creators
/-! Lemmas for C17 (creators as state machines). -/
namespace SplinkVerif.Lemmas.Creators
open SplinkVerif.Creators

theorem written_indep (d : Dialect) (w : Write) (h : w.kind ≠ .selfDependent) (v1 v2 : Val) :
    written d w v1 = written d w v2 := by
  unfold written
  cases hk : w.kind <;> simp_all

theorem written_pure (d : Dialect) (w : Write) (h : w.kind ≠ .selfDependent) (v : Val) :
    (written d w v).isPure = true := by
  unfold written
  cases hk : w.kind <;> simp_all [Val.isPure]

theorem written_slot (d : Dialect) (w : Write) (h : w.kind = .dialectSlot) (v : Val) :
    written d w v = .dial d := by
  unfold written
  simp [h]

/-- Attributes not written keep their value. -/
theorem run_frame (fires : Dialect → Write → Bool) (d : Dialect) :
    ∀ (ws : List Write) (s : State) (a : Attr), a ∉ ws.map (·.attr) → runWrites fires d ws s a = s a
  | [], s, a, _ => rfl
  | w :: ws, s, a, h => by
    have hne : a ≠ w.attr := fun e => h (by simp [e])
    have hrest : a ∉ ws.map (·.attr) := fun e => h (by simp only [List.map_cons, List.mem_cons]; exact Or.inr e)
    have ih := run_frame fires d ws (applyWrite fires d s w) a hrest
    simp only [runWrites, List.foldl_cons] at ih ⊢
    rw [ih]
    simp [applyWrite, hne]

/-- Two runs of stateless writes agree on an attribute as soon as the start states agree on it or it is
assigned during the run. -/
theorem run_agree (fires : Dialect → Write → Bool) (d : Dialect) :
    ∀ (ws : List Write) (s1 s2 : State) (a : Attr), Stateless ws →
      (s1 a = s2 a ∨ ∃ w ∈ ws, w.attr = a ∧ fires d w = true) →
      runWrites fires d ws s1 a = runWrites fires d ws s2 a
  | [], s1, s2, a, _, h => by
    rcases h with h | ⟨w, hw, _⟩
    · simpa [runWrites] using h
    · cases hw
  | w :: ws, s1, s2, a, hst, h => by
    have ih := run_agree fires d ws (applyWrite fires d s1 w) (applyWrite fires d s2 w) a
      (fun w' hw' => hst w' (List.mem_cons_of_mem _ hw'))
    simp only [runWrites, List.foldl_cons] at ih ⊢
    apply ih
    by_cases hf : fires d w = true ∧ a = w.attr
    · left
      simp only [applyWrite, hf, and_self, if_true]
      exact written_indep d w (hst w (List.mem_cons_self ..)) _ _
    · rcases h with h | ⟨w', hw', ha, hfw⟩
      · left
        simp only [applyWrite, hf, if_false]
        exact h
      · rcases List.mem_cons.mp hw' with e | hin
        · subst e
          exact absurd ⟨hfw, ha.symm⟩ hf
        · right
          exact ⟨w', hin, ha, hfw⟩

/-- After a run of stateless writes an attribute is untouched or holds a pure value. -/
theorem run_pure (fires : Dialect → Write → Bool) (d : Dialect) :
    ∀ (ws : List Write) (s : State) (a : Attr), Stateless ws →
      runWrites fires d ws s a = s a ∨ (runWrites fires d ws s a).isPure = true
  | [], s, a, _ => Or.inl rfl
  | w :: ws, s, a, hst => by
    have ih := run_pure fires d ws (applyWrite fires d s w) a (fun w' hw' => hst w' (List.mem_cons_of_mem _ hw'))
    simp only [runWrites, List.foldl_cons] at ih ⊢
    rcases ih with ih | ih
    · by_cases hf : fires d w = true ∧ a = w.attr
      · right
        rw [ih]
        simp only [applyWrite, hf, and_self, if_true]
        exact written_pure d w (hst w (List.mem_cons_self ..)) _
      · left
        rw [ih]
        simp only [applyWrite, hf, if_false]
    · exact Or.inr ih

/-- After a run of dialect-slot writes an attribute is untouched or holds the dialect of the call. -/
theorem run_slots (fires : Dialect → Write → Bool) (d : Dialect) :
    ∀ (ws : List Write) (s : State) (a : Attr), OnlySlots ws →
      runWrites fires d ws s a = s a ∨ runWrites fires d ws s a = .dial d
  | [], s, a, _ => Or.inl rfl
  | w :: ws, s, a, hst => by
    have ih := run_slots fires d ws (applyWrite fires d s w) a (fun w' hw' => hst w' (List.mem_cons_of_mem _ hw'))
    simp only [runWrites, List.foldl_cons] at ih ⊢
    rcases ih with ih | ih
    · by_cases hf : fires d w = true ∧ a = w.attr
      · right
        rw [ih]
        simp only [applyWrite, hf, and_self, if_true]
        exact written_slot d w (hst w (List.mem_cons_self ..)) _
      · left
        rw [ih]
        simp only [applyWrite, hf, if_false]
    · exact Or.inr ih

theorem callSeq_frame {β : Type} (c : Creator) (obs : Dialect → State → β) :
    ∀ (ds : List Dialect) (s : State) (a : Attr), a ∉ c.attrs → (c.callSeq obs s ds).1 a = s a
  | [], _, _, _ => rfl
  | d :: ds, s, a, h => by
    simp only [Creator.callSeq]
    rw [callSeq_frame c obs ds (c.call s d) a h]
    exact run_frame c.fires d c.writes s a h

/-- Outputs of any call sequence started in a state that agrees with the fresh state on the configuration. -/
theorem callSeq_outputs {β : Type} (c : Creator) (obs : Dialect → State → β)
    (hs : Stateless c.writes) (hl : Local c obs) :
    ∀ (ds : List Dialect) (s : State), (∀ a, a ∉ c.attrs → s a = fresh a) →
      (c.callSeq obs s ds).2 = ds.map (fun d => obs d (c.call fresh d))
  | [], _, _ => rfl
  | d :: ds, s, hinv => by
    have hinv' : ∀ a, a ∉ c.attrs → c.call s d a = fresh a := fun a ha => by
      have := run_frame c.fires d c.writes s a ha
      simp only [Creator.call]
      rw [this]
      exact hinv a ha
    simp only [Creator.callSeq, List.map_cons]
    rw [callSeq_outputs c obs hs hl ds (c.call s d) hinv']
    congr 1
    apply hl
    intro a ha
    apply run_agree c.fires d c.writes s fresh a hs
    rcases ha with ha | ha
    · exact Or.inl (hinv a ha)
    · exact Or.inr ha

theorem callSeq_pure {β : Type} (c : Creator) (obs : Dialect → State → β) (hs : Stateless c.writes) :
    ∀ (ds : List Dialect) (s : State) (a : Attr),
      (c.callSeq obs s ds).1 a = s a ∨ ((c.callSeq obs s ds).1 a).isPure = true
  | [], _, _ => Or.inl rfl
  | d :: ds, s, a => by
    simp only [Creator.callSeq]
    rcases callSeq_pure c obs hs ds (c.call s d) a with h | h
    · rw [h]
      exact run_pure c.fires d c.writes s a hs
    · exact Or.inr h

theorem callSeq_slots {β : Type} (c : Creator) (obs : Dialect → State → β) (hs : OnlySlots c.writes) :
    ∀ (ds : List Dialect) (s : State) (a : Attr),
      (c.callSeq obs s ds).1 a = s a ∨ ∃ d ∈ ds, (c.callSeq obs s ds).1 a = .dial d
  | [], _, _ => Or.inl rfl
  | d :: ds, s, a => by
    simp only [Creator.callSeq]
    rcases callSeq_slots c obs hs ds (c.call s d) a with h | ⟨d', hd', h⟩
    · rw [h]
      rcases run_slots c.fires d c.writes s a hs with h2 | h2
      · exact Or.inl h2
      · exact Or.inr ⟨d, List.mem_cons_self .., h2⟩
    · exact Or.inr ⟨d', List.mem_cons_of_mem _ hd', h⟩

theorem wrap_ne (m : String) : ∀ v : Val, Val.wrap m v ≠ v
  | .init _ => by simp
  | .dial _ => by simp
  | .const _ _ _ => by simp
  | .wrap m' v => by
    intro h
    injection h with h1 h2
    subst h1
    exact wrap_ne m v h2

/-- A single firing self-dependent write: the second call leaves a different value than the first. -/
theorem single_self_dependent (w : Write) (hk : w.kind = .selfDependent) (d1 d2 : Dialect) :
    let c : Creator := ⟨[w], fun _ _ => true⟩
    c.call (c.call fresh d1) d2 w.attr ≠ c.call fresh d2 w.attr := by
  simp only [Creator.call, runWrites, List.foldl_cons, List.foldl_nil, applyWrite, and_self, if_true, written, hk, fresh]
  intro h
  injection h with _ h2
  exact wrap_ne _ _ h2

theorem stateless_rowsOf (table : List Write) (cls : String)
    (h : ∀ w ∈ table, w.kind = .selfDependent → w.cls ≠ cls) : Stateless (rowsOf table cls) := by
  intro w hw hk
  simp only [rowsOf, List.mem_filter, decide_eq_true_eq] at hw
  exact h w hw.1 hk hw.2

end SplinkVerif.Lemmas.Creators
