import SplinkVerif.Model.Descriptive
import SplinkVerif.Lemmas.BlockingAnalysisCount
/-!
# Lemmas for C20 (descriptive outputs) — core Lean only

* `GROUP BY` with `count(*)`: distinct keys, exact multiplicities, counts add up to the number of rows
  (`groupCount_nodup`, `mem_groupCount`, `groupCount_sum`);
* TF table = relative frequencies, numerators sum to the denominator, the `LEFT JOIN` returns exactly one row
  per record with the table's entry for its value (`leftJoinTf_tfTable`);
* completeness rows are recounts per dataset; comparison-vector groups and histogram bins partition the
  scored pairs; integer bins contain their weights and are the only such bins; `_bins` picks a closest width;
* unlinkables: the windowed sum over the groups is the number of self-link rows at or below the listed value;
  half-away-from-zero rounding is within half a unit.
-/
namespace SplinkVerif.Lemmas.Desc
open SplinkVerif SplinkVerif.Descriptive SplinkVerif.Lemmas

/-! ## Lists -/

theorem sum_map_one {α : Type} (l : List α) : (l.map fun _ => 1).sum = l.length := by
  induction l with
  | nil => rfl
  | cons a l ih => simp only [List.map_cons, List.sum_cons, ih, List.length_cons]; omega

theorem flatMap_singleton {α β : Type} (l : List α) (F : α → List β) (g : α → β)
    (h : ∀ x ∈ l, F x = [g x]) : l.flatMap F = l.map g := by
  induction l with
  | nil => rfl
  | cons a l ih =>
    rw [List.flatMap_cons, List.map_cons, h a (List.mem_cons_self ..),
      ih fun x hx => h x (List.mem_cons_of_mem _ hx)]
    rfl

/-- In a table keyed by a duplicate-free list, an equality filter on the key returns at most the one row. -/
theorem filter_key_nodup {α K : Type} [BEq K] [LawfulBEq K] (ks : List K) (f : K → α) (key : α → K)
    (hk : ∀ k, key (f k) = k) (hn : ks.Nodup) (x : K) :
    (ks.map f).filter (fun r => key r == x) = if x ∈ ks then [f x] else [] := by
  induction ks with
  | nil => simp
  | cons k ks ih =>
    rw [List.nodup_cons] at hn
    rw [List.map_cons, List.filter_cons, hk k, ih hn.2]
    by_cases hkx : k = x
    · subst hkx
      simp [hn.1]
    · have h1 : (k == x) = false := by simpa using hkx
      have h2 : ¬ x = k := fun e => hkx e.symm
      simp [h1, h2]

/-! ## GROUP BY / count(*) -/

section group
variable {K : Type} [BEq K] [LawfulBEq K]

theorem nodup_eraseDups' (ks : List K) : ks.eraseDups.Nodup :=
  Blk.nodup_eraseDups _ _ (Nat.le_refl _)

omit [LawfulBEq K] in
theorem groupCount_keys (ks : List K) : (groupCount ks).map (·.1) = ks.eraseDups := by
  simp [groupCount, Function.comp_def]

theorem groupCount_nodup (ks : List K) : ((groupCount ks).map (·.1)).Nodup := by
  rw [groupCount_keys]
  exact nodup_eraseDups' ks

theorem mem_groupCount (ks : List K) (k : K) (c : Nat) :
    (k, c) ∈ groupCount ks ↔ k ∈ ks ∧ c = (ks.filter fun x => x == k).length := by
  simp only [groupCount, List.mem_map, List.mem_eraseDups, Prod.mk.injEq]
  constructor
  · rintro ⟨a, ha, rfl, rfl⟩
    exact ⟨ha, rfl⟩
  · rintro ⟨hk, rfl⟩
    exact ⟨k, hk, rfl, rfl⟩

theorem groupCount_sum (ks : List K) : ((groupCount ks).map (·.2)).sum = ks.length := by
  have h := BA.sum_by_key ks id (fun _ => 1) ks.eraseDups (nodup_eraseDups' ks)
    (fun l hl => by simpa [List.mem_eraseDups] using hl)
  simp only [id, Nat.mul_one] at h
  rw [sum_map_one] at h
  simp only [groupCount, List.map_map, Function.comp_def]
  exact h.symm

theorem count_pos_of_mem (ks : List K) (k : K) (h : k ∈ ks) : 0 < (ks.filter fun x => x == k).length := by
  apply List.length_pos_of_mem (a := k)
  simp [List.mem_filter, h]

end group

/-! ## Term frequencies -/

theorem countNonNull_eq (col : List Val) : countNonNull col = (nonNull col).length := by
  induction col with
  | nil => rfl
  | cons v col ih =>
    cases v with
    | none => simpa [countNonNull, nonNull] using ih
    | some x =>
      simp only [countNonNull, nonNull] at ih ⊢
      simp [ih]

theorem mem_nonNull (col : List Val) (x : Nat) : x ∈ nonNull col ↔ some x ∈ col := by
  simp [nonNull]

theorem count_nonNull (col : List Val) (x : Nat) :
    ((nonNull col).filter fun y => y == x).length = (col.filter fun v => v == some x).length := by
  induction col with
  | nil => rfl
  | cons v col ih =>
    cases v with
    | none =>
      have : ((none : Val) == some x) = false := rfl
      simpa [nonNull, List.filter_cons, this] using ih
    | some y =>
      simp only [nonNull] at ih ⊢
      by_cases hyx : y = x
      · subst hyx
        simp [ih]
      · have h1 : (y == x) = false := by simpa using hyx
        have h2 : ((some y : Val) == some x) = false := by simpa using hyx
        simp [h1, h2, ih]

theorem mem_tfTable (col : List Val) (r : TfRow) :
    r ∈ tfTable col ↔
      some r.value ∈ col ∧ r.num = (col.filter fun v => v == some r.value).length ∧
      r.den = countNonNull col := by
  simp only [tfTable, List.mem_map]
  constructor
  · rintro ⟨⟨k, c⟩, hg, rfl⟩
    rw [mem_groupCount] at hg
    refine ⟨(mem_nonNull col k).1 hg.1, ?_, rfl⟩
    simp only [hg.2, count_nonNull]
  · rintro ⟨hv, hn, hd⟩
    refine ⟨(r.value, r.num), ?_, ?_⟩
    · rw [mem_groupCount]
      exact ⟨(mem_nonNull col _).2 hv, by rw [hn, count_nonNull]⟩
    · cases r
      simp_all

theorem tfTable_den_pos (col : List Val) (r : TfRow) (h : r ∈ tfTable col) : 0 < r.num ∧ 0 < r.den := by
  rw [mem_tfTable] at h
  obtain ⟨hv, hn, hd⟩ := h
  have h1 : 0 < (col.filter fun v => v == some r.value).length := count_pos_of_mem col _ hv
  refine ⟨by omega, ?_⟩
  rw [hd, countNonNull]
  apply List.length_pos_of_mem (a := some r.value)
  simp [List.mem_filter, hv]

theorem tfTable_sum (col : List Val) : ((tfTable col).map (·.num)).sum = countNonNull col := by
  have h := groupCount_sum (nonNull col)
  rw [countNonNull_eq]
  simpa [tfTable, Function.comp_def] using h

theorem tfTable_values (col : List Val) : (tfTable col).map (·.value) = (nonNull col).eraseDups := by
  simp [tfTable, groupCount, Function.comp_def]

theorem tfTable_nodup (col : List Val) : ((tfTable col).map (·.value)).Nodup := by
  rw [tfTable_values]
  exact nodup_eraseDups' _

/-- The TF table as a map over its (duplicate-free) key list. -/
theorem tfTable_as_map (col : List Val) :
    tfTable col = (nonNull col).eraseDups.map fun k =>
      ({ value := k, num := ((nonNull col).filter fun x => x == k).length, den := countNonNull col } : TfRow) := by
  simp [tfTable, groupCount, Function.comp_def]

theorem leftJoinTf_tfTable (col : List Val) :
    leftJoinTf col (tfTable col) =
      col.map fun v => (v, v.map fun x => ((col.filter fun y => y == some x).length, countNonNull col)) := by
  unfold leftJoinTf
  apply flatMap_singleton
  intro v hv
  cases v with
  | none => rfl
  | some x =>
    have hx : x ∈ (nonNull col).eraseDups := by
      rw [List.mem_eraseDups]
      exact (mem_nonNull col x).2 hv
    have hf := filter_key_nodup (nonNull col).eraseDups
      (fun k => ({ value := k, num := ((nonNull col).filter fun y => y == k).length, den := countNonNull col } : TfRow))
      (fun r => r.value) (fun _ => rfl) (nodup_eraseDups' _) x
    rw [if_pos hx] at hf
    dsimp only
    rw [tfTable_as_map, hf]
    simp only [List.map_cons, List.map_nil, Option.map_some, count_nonNull]

/-! ## Completeness -/

theorem countNonNull_group (rows : List (Nat × Val)) (p : Nat × Val → Bool) :
    countNonNull ((rows.filter p).map (·.2)) = (rows.filter fun r => p r && r.2.isSome).length := by
  unfold countNonNull
  rw [List.filter_map, List.length_map, List.filter_filter]
  congr 1
  apply List.filter_congr
  intro r _
  simp [Bool.and_comm]

theorem countNonNull_le (g : List Val) : countNonNull g ≤ g.length := List.length_filter_le _ _

theorem mem_completenessCol (sd : List Nat) (col : List Val) (row : ComplRow)
    (h : row ∈ completenessCol sd col) :
    row.totalRows = ((sd.zip col).filter fun r => r.1 == row.sd).length ∧
    row.nonNullRows = ((sd.zip col).filter fun r => r.1 == row.sd && r.2.isSome).length ∧
    row.nullRows + row.nonNullRows = row.totalRows ∧ 0 < row.totalRows := by
  simp only [completenessCol, List.mem_map, List.mem_eraseDups] at h
  obtain ⟨d, ⟨r, hr, hrd⟩, rfl⟩ := h
  refine ⟨by simp, ?_, ?_, ?_⟩
  · simp only [countNonNull_group]
  · have := countNonNull_le (((sd.zip col).filter fun r => r.1 == d).map (·.2))
    simp only at this ⊢
    omega
  · simp only [List.length_map]
    apply List.length_pos_of_mem (a := r)
    simp [List.mem_filter, hr, hrd]

theorem completenessCol_groups (sd : List Nat) (col : List Val) :
    ((completenessCol sd col).map (·.sd)).Nodup ∧
    (∀ r ∈ sd.zip col, ∃ row ∈ completenessCol sd col, row.sd = r.1) ∧
    ((completenessCol sd col).map (·.totalRows)).sum = (sd.zip col).length := by
  refine ⟨?_, ?_, ?_⟩
  · have : (completenessCol sd col).map (·.sd) = ((sd.zip col).map (·.1)).eraseDups := by
      simp [completenessCol, Function.comp_def]
    rw [this]
    exact nodup_eraseDups' _
  · intro r hr
    simp only [completenessCol, List.mem_map, List.mem_eraseDups]
    exact ⟨_, ⟨r.1, ⟨r, hr, rfl⟩, rfl⟩, rfl⟩
  · have h := BA.sum_by_key (sd.zip col) (·.1) (fun _ => 1) ((sd.zip col).map (·.1)).eraseDups
      (nodup_eraseDups' _) (fun l hl => by
        rw [List.mem_eraseDups]
        exact List.mem_map_of_mem hl)
    simp only [Nat.mul_one] at h
    rw [sum_map_one] at h
    simp only [completenessCol, List.map_map, Function.comp_def, List.length_map]
    exact h.symm

/-! ## Comparison-vector distribution -/

theorem cvd_spec (pairs : List (List Int)) :
    ((cvd pairs).map (·.count)).sum = pairs.length ∧
    ((cvd pairs).map (·.gammas)).Nodup ∧
    (∀ p ∈ pairs, ∃ row ∈ cvd pairs, row.gammas = p) ∧
    ∀ row ∈ cvd pairs, row.gammas ∈ pairs ∧
      row.count = (pairs.filter fun p => p == row.gammas).length ∧ 0 < row.count ∧
      row.total = pairs.length ∧ row.sumGam = (row.gammas.map sumGamTerm).sum := by
  refine ⟨?_, ?_, ?_, ?_⟩
  · have h := groupCount_sum pairs
    simpa [cvd, Function.comp_def] using h
  · have h := groupCount_nodup pairs
    simpa [cvd, Function.comp_def] using h
  · intro p hp
    refine ⟨_, List.mem_map_of_mem ((mem_groupCount pairs p _).2 ⟨hp, rfl⟩), rfl⟩
  · intro row hrow
    simp only [cvd, List.mem_map] at hrow
    obtain ⟨⟨k, c⟩, hg, rfl⟩ := hrow
    rw [mem_groupCount] at hg
    refine ⟨hg.1, hg.2, ?_, rfl, rfl⟩
    simp only [hg.2]
    exact count_pos_of_mem pairs k hg.1

/-! ## Histogram -/

theorem histogram_spec {W K : Type} [BEq K] [LawfulBEq K] (binLow : W → K) (ws : List W) :
    ((histogram binLow ws).map (·.2)).sum = ws.length ∧
    ((histogram binLow ws).map (·.1)).Nodup ∧
    (∀ w ∈ ws, (binLow w, (ws.filter fun w' => binLow w' == binLow w).length) ∈ histogram binLow ws) ∧
    ∀ b ∈ histogram binLow ws, 0 < b.2 ∧ b.2 = (ws.filter fun w' => binLow w' == b.1).length ∧
      ∃ w ∈ ws, binLow w = b.1 := by
  have hcnt : ∀ k, ((ws.map binLow).filter fun x => x == k).length =
      (ws.filter fun w' => binLow w' == k).length := by
    intro k
    rw [List.filter_map, List.length_map]
    rfl
  refine ⟨?_, groupCount_nodup _, ?_, ?_⟩
  · have h := groupCount_sum (ws.map binLow)
    simpa [histogram] using h
  · intro w hw
    unfold histogram
    rw [mem_groupCount]
    exact ⟨List.mem_map_of_mem hw, (hcnt _).symm⟩
  · rintro ⟨k, c⟩ hb
    unfold histogram at hb
    rw [mem_groupCount] at hb
    obtain ⟨hk, hc⟩ := hb
    refine ⟨?_, ?_, ?_⟩
    · simp only [hc]
      exact count_pos_of_mem _ k hk
    · simp only [hc, hcnt]
    · simpa [List.mem_map] using hk

theorem binLowInt_contains (bw w : Int) (h : 0 < bw) :
    binLowInt bw w ≤ w ∧ w < binLowInt bw w + bw := by
  unfold binLowInt
  have h1 := Int.mul_ediv_add_emod w bw
  have h2 := Int.emod_nonneg w (Int.ne_of_gt h)
  have h3 := Int.emod_lt_of_pos w h
  omega

theorem binLowInt_unique (bw w k : Int) (h : 0 < bw) (h1 : bw * k ≤ w) (h2 : w < bw * k + bw) :
    bw * k = binLowInt bw w := by
  unfold binLowInt
  have hk : k = w / bw := by
    apply Int.le_antisymm
    · rw [Int.le_ediv_iff_mul_le h, Int.mul_comm]
      exact h1
    · have : w / bw < k + 1 := by
        rw [Int.ediv_lt_iff_lt_mul h, Int.add_mul, Int.one_mul, Int.mul_comm k bw]
        exact h2
      omega
  rw [hk]

theorem bestBin_spec {W : Type} (dist : W → Nat) (first : W) (ws : List W) :
    (bestBin dist (fun a b => decide (a < b)) first ws ∈ first :: ws) ∧
    ∀ w ∈ first :: ws, dist (bestBin dist (fun a b => decide (a < b)) first ws) ≤ dist w := by
  unfold bestBin
  simp only [decide_eq_true_eq]
  induction ws generalizing first with
  | nil => simp
  | cons a ws ih =>
    simp only [List.foldl_cons]
    by_cases hlt : dist a < dist first
    · simp only [hlt, if_true]
      obtain ⟨hm, hle⟩ := ih a
      refine ⟨?_, ?_⟩
      · simp only [List.mem_cons] at hm ⊢
        rcases hm with hm | hm
        · exact Or.inr (Or.inl hm)
        · exact Or.inr (Or.inr hm)
      · intro w hw
        simp only [List.mem_cons] at hw
        rcases hw with rfl | rfl | hw
        · have := hle a (List.mem_cons_self ..)
          omega
        · exact hle _ (List.mem_cons_self ..)
        · exact hle w (List.mem_cons_of_mem _ hw)
    · simp only [hlt, if_false]
      obtain ⟨hm, hle⟩ := ih first
      refine ⟨?_, ?_⟩
      · simp only [List.mem_cons] at hm ⊢
        rcases hm with hm | hm
        · exact Or.inl hm
        · exact Or.inr (Or.inr hm)
      · intro w hw
        simp only [List.mem_cons] at hw
        rcases hw with rfl | rfl | hw
        · exact hle _ (List.mem_cons_self ..)
        · have := hle first (List.mem_cons_self ..)
          omega
        · exact hle w (List.mem_cons_of_mem _ hw)

/-! ## Unlinkables -/

theorem mem_unlProportions (rows : List (Int × Int)) (r : PropRow) (h : r ∈ unlProportions rows) :
    r.prob ∈ rows.map (·.2) ∧ r.count = (rows.filter fun x => x.2 == r.prob).length ∧
    r.total = rows.length ∧ r.weight = maxOver ((rows.filter fun x => x.2 == r.prob).map (·.1)) := by
  simp only [unlProportions, List.mem_map, List.mem_eraseDups] at h
  obtain ⟨p, hp, rfl⟩ := h
  exact ⟨List.mem_map.2 hp, rfl, rfl, rfl⟩

theorem unlProportions_as_map (rows : List (Int × Int)) :
    (unlProportions rows).map (·.prob) = (rows.map (·.2)).eraseDups := by
  simp [unlProportions, Function.comp_def]

/-- Sum of the group sizes over the groups whose key passes `q` = number of rows whose key passes `q`. -/
theorem sum_counts_filter (rows : List (Int × Int)) (q : Int → Bool) :
    (((unlProportions rows).filter fun r => q r.prob).map (·.count)).sum =
      (rows.filter fun x => q x.2).length := by
  have h := BA.sum_by_key (rows.filter fun x => q x.2) (·.2) (fun _ => 1) (rows.map (·.2)).eraseDups
    (nodup_eraseDups' _) (fun l hl => by
      rw [List.mem_eraseDups]
      exact List.mem_map_of_mem (List.mem_filter.1 hl).1)
  simp only [Nat.mul_one] at h
  rw [sum_map_one] at h
  rw [h, BA.sum_map_filter]
  simp only [unlProportions, List.map_map, Function.comp_def]
  apply congrArg
  apply List.map_congr_left
  intro k _
  rw [List.filter_filter]
  by_cases hq : q k = true
  · simp only [hq, if_true]
    congr 1
    apply List.filter_congr
    intro x _
    by_cases hx : x.2 = k
    · simp [hx, hq]
    · have : (x.2 == k) = false := by simpa using hx
      simp [this]
  · have hq' : q k = false := by simpa using hq
    simp only [hq', Bool.false_eq_true, if_false]
    symm
    rw [List.length_eq_zero_iff, List.filter_eq_nil_iff]
    intro x _
    by_cases hx : x.2 = k
    · simp [hx, hq']
    · have : (x.2 == k) = false := by simpa using hx
      simp [this]

theorem mem_unlinkables (one : Int) (rows : List (Int × Int)) (row : UnlRow)
    (h : row ∈ unlinkables one rows) :
    row.prob < one ∧ row.prob ∈ rows.map (·.2) ∧
    row.count = (rows.filter fun x => x.2 == row.prob).length ∧
    row.cumCount = (rows.filter fun x => decide (x.2 ≤ row.prob)).length ∧
    row.total = rows.length ∧ 0 < row.count := by
  simp only [unlinkables, List.mem_map, List.mem_filter] at h
  obtain ⟨r, ⟨hr, hlt⟩, rfl⟩ := h
  have hlt' : r.prob < one := by simpa using hlt
  obtain ⟨hp, hc, ht, _⟩ := mem_unlProportions rows r hr
  refine ⟨hlt', hp, hc, ?_, ht, ?_⟩
  · simp only
    rw [List.filter_filter]
    have hq : ∀ r' : PropRow, (decide (r'.prob ≤ r.prob) && decide (r'.prob < one)) = decide (r'.prob ≤ r.prob) := by
      intro r'
      by_cases hle : r'.prob ≤ r.prob
      · have : r'.prob < one := by omega
        simp [hle, this]
      · simp [hle]
    rw [List.filter_congr (fun r' _ => hq r')]
    exact sum_counts_filter rows (fun k => decide (k ≤ r.prob))
  · simp only [hc]
    obtain ⟨x, hx, hxe⟩ := List.mem_map.1 hp
    apply List.length_pos_of_mem (a := x)
    simp [List.mem_filter, hx, hxe]

theorem unlinkables_listed (one : Int) (rows : List (Int × Int)) :
    ((unlinkables one rows).map (·.prob)).Nodup ∧
    ∀ x ∈ rows, x.2 < one → ∃ row ∈ unlinkables one rows, row.prob = x.2 := by
  refine ⟨?_, ?_⟩
  · have h1 : (unlinkables one rows).map (·.prob) =
        (((unlProportions rows).filter fun r => decide (r.prob < one)).map (·.prob)) := by
      simp [unlinkables, Function.comp_def]
    rw [h1]
    have h2 : ((unlProportions rows).map (·.prob)).Nodup := by
      rw [unlProportions_as_map]
      exact nodup_eraseDups' _
    exact (List.Nodup.sublist (List.Sublist.map _ List.filter_sublist) h2)
  · intro x hx hlt
    let r : PropRow :=
      { weight := maxOver ((rows.filter fun r => r.2 == x.2).map (·.1)), prob := x.2,
        count := (rows.filter fun r => r.2 == x.2).length, total := rows.length }
    have hr : r ∈ unlProportions rows := by
      simp only [unlProportions, List.mem_map, List.mem_eraseDups]
      exact ⟨x.2, ⟨x, hx, rfl⟩, rfl⟩
    have hk : r ∈ (unlProportions rows).filter fun r => decide (r.prob < one) :=
      List.mem_filter.2 ⟨hr, by simpa using hlt⟩
    exact ⟨_, List.mem_map_of_mem hk, rfl⟩

theorem foldl_max_ge (l : List Int) (a : Int) : a ≤ l.foldl max a ∧ ∀ x ∈ l, x ≤ l.foldl max a := by
  induction l generalizing a with
  | nil => simp
  | cons b l ih =>
    simp only [List.foldl_cons]
    obtain ⟨h1, h2⟩ := ih (max a b)
    refine ⟨by omega, ?_⟩
    intro x hx
    simp only [List.mem_cons] at hx
    rcases hx with rfl | hx
    · omega
    · exact h2 x hx

theorem foldl_max_mem (l : List Int) (a : Int) : l.foldl max a ∈ a :: l := by
  induction l generalizing a with
  | nil => simp
  | cons b l ih =>
    simp only [List.foldl_cons]
    have := ih (max a b)
    simp only [List.mem_cons] at this ⊢
    rcases this with h | h
    · rw [h]
      by_cases hab : a ≤ b
      · right; left; omega
      · left; omega
    · exact Or.inr (Or.inr h)

theorem maxOver_spec (l : List Int) (hne : l ≠ []) : maxOver l ∈ l ∧ ∀ x ∈ l, x ≤ maxOver l := by
  cases l with
  | nil => exact absurd rfl hne
  | cons a l =>
    simp only [maxOver]
    refine ⟨foldl_max_mem l a, ?_⟩
    intro x hx
    simp only [List.mem_cons] at hx
    rcases hx with rfl | hx
    · exact (foldl_max_ge l _).1
    · exact (foldl_max_ge l a).2 x hx

theorem unlinkables_weight (one : Int) (rows : List (Int × Int)) (row : UnlRow)
    (h : row ∈ unlinkables one rows) :
    (row.weight, row.prob) ∈ rows ∧ ∀ x ∈ rows, x.2 = row.prob → x.1 ≤ row.weight := by
  simp only [unlinkables, List.mem_map, List.mem_filter] at h
  obtain ⟨r, ⟨hr, _⟩, rfl⟩ := h
  obtain ⟨hp, _, _, hw⟩ := mem_unlProportions rows r hr
  obtain ⟨x0, hx0, hx0e⟩ := List.mem_map.1 hp
  have hne : ((rows.filter fun x => x.2 == r.prob).map (·.1)) ≠ [] := by
    intro he
    have : x0.1 ∈ ((rows.filter fun x => x.2 == r.prob).map (·.1)) :=
      List.mem_map_of_mem (List.mem_filter.2 ⟨hx0, by simpa using hx0e⟩)
    rw [he] at this
    exact absurd this List.not_mem_nil
  obtain ⟨hm, hle⟩ := maxOver_spec _ hne
  simp only
  rw [hw]
  refine ⟨?_, ?_⟩
  · obtain ⟨y, hy, hye⟩ := List.mem_map.1 hm
    rw [List.mem_filter] at hy
    have : y.2 = r.prob := by simpa using hy.2
    rw [← hye, ← this]
    exact hy.1
  · intro x hx hxe
    apply hle
    exact List.mem_map_of_mem (List.mem_filter.2 ⟨hx, by simpa using hxe⟩)

/-- Half-away-from-zero rounding is within half a unit: `|round(n/d · s) − n/d · s| ≤ 1/2`, cleared of denominators. -/
theorem roundHalfAway_error (n : Int) (d scale : Nat) (hd : 0 < d) :
    2 * (d : Int) * roundHalfAway n d scale - 2 * n * scale ≤ d ∧
    2 * n * scale - 2 * (d : Int) * roundHalfAway n d scale ≤ d := by
  have hd' : (0 : Int) < 2 * (d : Int) := by omega
  unfold roundHalfAway
  by_cases hn : 0 ≤ n
  · simp only [hn, if_true]
    have h1 := Int.mul_ediv_add_emod (2 * n * scale + d) (2 * (d : Int))
    have h2 := Int.emod_nonneg (2 * n * scale + d) (Int.ne_of_gt hd')
    have h3 := Int.emod_lt_of_pos (2 * n * scale + d) hd'
    generalize (2 * n * scale + d) / (2 * (d : Int)) = q at *
    generalize (2 * n * (scale : Int) + d) % (2 * (d : Int)) = r at *
    generalize 2 * n * (scale : Int) = X at *
    generalize hY : 2 * (d : Int) * q = Y at *
    omega
  · simp only [hn, if_false]
    have h1 := Int.mul_ediv_add_emod (2 * (-n) * scale + d) (2 * (d : Int))
    have h2 := Int.emod_nonneg (2 * (-n) * scale + d) (Int.ne_of_gt hd')
    have h3 := Int.emod_lt_of_pos (2 * (-n) * scale + d) hd'
    have hx : 2 * (-n) * (scale : Int) = -(2 * n * scale) := by
      rw [Int.mul_neg, Int.neg_mul]
    rw [hx] at h1 h2 h3 ⊢
    have hy : 2 * (d : Int) * -((-(2 * n * (scale : Int)) + d) / (2 * (d : Int))) =
        -(2 * (d : Int) * ((-(2 * n * (scale : Int)) + d) / (2 * (d : Int)))) := Int.mul_neg _ _
    rw [hy]
    generalize (-(2 * n * (scale : Int)) + d) / (2 * (d : Int)) = q at *
    generalize (-(2 * n * (scale : Int)) + d) % (2 * (d : Int)) = r at *
    generalize 2 * n * (scale : Int) = X at *
    generalize hY : 2 * (d : Int) * q = Y at *
    omega

end SplinkVerif.Lemmas.Desc
