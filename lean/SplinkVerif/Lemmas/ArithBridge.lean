import SplinkVerif.Generated.Arith
import SplinkVerif.Lemmas.Estimators
import SplinkVerif.Lemmas.Score
import SplinkVerif.Model.EM
/-!
# Bridge: hand-written model arithmetic = translated Python helpers

`Generated/Arith.lean` is regenerated from `splink/internals/misc.py` on every run (number interface
`ANum`, real instance `Lemmas.Est.instANumReal`).  The hand-written models (`Score.priorOdds`,
`EM.startPrior`) use the interface `Score.Num` (real instance `Lemmas.Score.instNumReal`).  The lemmas here
state, at `ℝ`, that the model pieces are what the translated helpers compute, so a change of the Python
helper breaks a proof obligation.
-/
namespace SplinkVerif.Lemmas.ArithBridge
open SplinkVerif SplinkVerif.Score SplinkVerif.Lemmas.Est SplinkVerif.Lemmas.Score

/-- `prob_to_bayes_factor` at `ℝ`, for a probability other than 1. -/
theorem prob_to_bayes_factor_real (p : ℝ) (hp : p ≠ 1) :
    Gen.prob_to_bayes_factor p = some (p / (1 - p)) := by
  have h : decide (p = ((1 : ℕ) : ℝ)) = false := by simpa using hp
  simp only [Gen.prob_to_bayes_factor, anum_eq, anum_ofNat, anum_div, anum_sub, h]
  simp

theorem prior_factor_translated (p : ℝ) (hp : p ≠ 1) :
    Gen.prob_to_bayes_factor p = some (Score.priorOdds p) := by
  rw [prob_to_bayes_factor_real p hp, priorOdds_eq]

theorem prob_to_match_weight_translated (p : ℝ) (hp : p ≠ 1) :
    Gen.prob_to_match_weight p = some (Real.logb 2 (p / (1 - p))) := by
  unfold Gen.prob_to_match_weight
  rw [prob_to_bayes_factor_real p hp]
  rfl

theorem weight_to_prob_translated (w : ℝ) :
    (Gen.match_weight_to_bayes_factor w).bind Gen.bayes_factor_to_prob
      = some ((2 : ℝ) ^ w / (1 + (2 : ℝ) ^ w)) := by
  show some (((2 : ℝ) ^ w) / (((1 : ℕ) : ℝ) + (2 : ℝ) ^ w)) = _
  simp

/-- `x ↦ x / (1 + x)` composed with the strictly increasing positive `w ↦ 2^w`. -/
theorem weight_to_prob_strictMono : StrictMono fun w : ℝ => (2 : ℝ) ^ w / (1 + (2 : ℝ) ^ w) := by
  intro a b hab
  have ha : 0 < (2 : ℝ) ^ a := Real.rpow_pos_of_pos (by norm_num) a
  have hb : 0 < (2 : ℝ) ^ b := Real.rpow_pos_of_pos (by norm_num) b
  have hlt : (2 : ℝ) ^ a < (2 : ℝ) ^ b := Real.rpow_lt_rpow_of_exponent_lt (by norm_num) hab
  show (2 : ℝ) ^ a / (1 + (2 : ℝ) ^ a) < (2 : ℝ) ^ b / (1 + (2 : ℝ) ^ b)
  rw [div_lt_div_iff₀ (by linarith) (by linarith)]
  nlinarith

theorem weight_to_prob_pos_lt_one (w : ℝ) :
    0 < (2 : ℝ) ^ w / (1 + (2 : ℝ) ^ w) ∧ (2 : ℝ) ^ w / (1 + (2 : ℝ) ^ w) < 1 := by
  have hw : 0 < (2 : ℝ) ^ w := Real.rpow_pos_of_pos (by norm_num) w
  refine ⟨div_pos hw (by linarith), ?_⟩
  rw [div_lt_one (by linarith)]
  linarith

theorem start_prior_translated (prior : ℝ) (bfs : List ℝ) (hp : prior ≠ 1) :
    (Gen.prob_to_bayes_factor prior).bind
        (fun b0 => Gen.bayes_factor_to_prob (bfs.foldl (fun acc b => b * acc) b0))
      = some (EM.startPrior prior bfs) := by
  rw [prior_factor_translated prior hp]
  show some ((bfs.foldl (fun acc b => b * acc) (priorOdds prior)) /
      (((1 : ℕ) : ℝ) + bfs.foldl (fun acc b => b * acc) (priorOdds prior))) = some (_ / ((1 : ℝ) + _))
  simp

end SplinkVerif.Lemmas.ArithBridge
