import Mathlib.Data.List.Nodup
import Mathlib.Data.String.Basic
import Std.Data.String.ToNat
import SplinkVerif.Lemmas.Rel
import SplinkVerif.Lemmas.Blocking
import SplinkVerif.Model.BlockSql
/-!
# Semantics of the regenerated blocking SQL (`Generated/BlockSql.lean` under `Model/BlockSql.lean`)

1. *Form*: every regenerated per-rule statement is `shape …` — projection of `(mk, id_l, id_r)` over the rows of the inner
   join on the rule that pass the link type's `WHERE` clause and the exclusion of the preceding rules (`first_eq`,
   `later_eq`, by `rfl`: any change of the emitted SQL breaks them).
2. *Row level*: on rows of the declared width the identity expressions compute `rowId`, the `WHERE` clause computes
   `admissible`, and `AND NOT (coalesce(p₀,false) OR …)` keeps a row iff no preceding rule is TRUE on it (`stmt_eval`).
3. *Pipeline*: `block` is the concatenation over the rules (`block_eq_spec`); membership, first-rule attribution,
   multiplicity, orientation.
4. *Refinement*: for the self-joining link types the rows are those of the functional model `Blocking.block`
   (`block_eq_model`), in the same order.
-/
namespace SplinkVerif.Lemmas.BlockSql
open SplinkVerif SplinkVerif.Rel SplinkVerif.BlockSql

/-! ## 1. Form of the regenerated statements -/

/-- `source_dataset || '-__-' || unique_id` over the columns `sd`, `uid` of the joined row. -/
def compId (sd uid : Nat) : Expr :=
  Expr.concat (Expr.concat (Expr.col sd) (Expr.lit (Val.str "-__-"))) (Expr.col uid)

def idLE : LinkType → Expr
  | .dedupeOnly => Expr.col 0
  | _ => compId 0 1

def idRE (w : Nat) : LinkType → Expr
  | .dedupeOnly => Expr.col w
  | _ => compId w (w + 1)

/-- `_sql_gen_where_condition` -/
def whE (w : Nat) : LinkType → Expr
  | .dedupeOnly => Expr.cmp .lt (idLE .dedupeOnly) (idRE w .dedupeOnly)
  | .linkAndDedupe => Expr.cmp .lt (idLE .linkAndDedupe) (idRE w .linkAndDedupe)
  | .linkOnly => Expr.and (Expr.cmp .lt (idLE .linkOnly) (idRE w .linkOnly)) (Expr.cmp .ne (Expr.col 0) (Expr.col w))
  | .twoDatasetLinkOnly => Expr.cmp .eq (Expr.lit (Val.int 1)) (Expr.lit (Val.int 1))

def condE (lt : LinkType) (w : Nat) : Option Expr → Expr
  | none => whE w lt
  | some e => Expr.and (whE w lt) (Expr.not e)

/-- `BlockingRule.create_blocked_pairs_sql` -/
def shape (lt : LinkType) (w : Nat) (mk : Val) (rule : Expr) (excl : Option Expr) : Rel :=
  Rel.project [Expr.lit mk, idLE lt, idRE w lt]
    (Rel.filter (condE lt w excl)
      (Rel.join false rule (Rel.table (tables lt).1) (Rel.table (tables lt).2) w))

theorem first_eq (lt : LinkType) (w : Nat) (mk : Val) (rule : Expr) :
    first lt w mk rule = shape lt w mk rule none := by
  cases lt <;> rfl

theorem later_eq (lt : LinkType) (w : Nat) (mk : Val) (rule e : Expr) :
    later lt w mk rule e = shape lt w mk rule (some e) := by
  cases lt <;> rfl

theorem exclOne_eq (p : Expr) : Gen.BlockSql.exclOne p = Expr.coalesce p (Expr.lit (Val.bool false)) := rfl

theorem noRulesRule_holds (row : Row) : Gen.BlockSql.noRulesRule.holds row = true := by
  simp [Gen.BlockSql.noRulesRule, Expr.holds, Expr.eval, Cmp.eval]

theorem noRulesRule_isB3 (row : Row) : isB3 (Gen.BlockSql.noRulesRule.eval row) = true := by
  simp [Gen.BlockSql.noRulesRule, Expr.eval, Cmp.eval, isB3]

/-- Self-joining link types read one table. -/
theorem tables_selfJoin {lt : LinkType} (h : lt ≠ .twoDatasetLinkOnly) : (tables lt).2 = (tables lt).1 := by
  cases lt <;> first | rfl | exact absurd rfl h

/-! ## 2. Row level -/

theorem getD_append_left' (a b : Row) (i : Nat) (h : i < a.length) : (a ++ b).getD i .null = a.getD i .null := by
  simp [List.getD_eq_getElem?_getD, List.getElem?_append_left h]

theorem getD_append_right' (a b : Row) (i : Nat) : (a ++ b).getD (a.length + i) .null = b.getD i .null := by
  simp [List.getD_eq_getElem?_getD, List.getElem?_append_right]

theorem idLE_eval (lt : LinkType) (ra rb : Row) (h : idWidth lt ≤ ra.length) :
    (idLE lt).eval (ra ++ rb) = rowId lt ra := by
  cases lt
  · simp only [idWidth] at h
    simp only [idLE, rowId, Expr.eval]
    rw [getD_append_left' ra rb 0 (by omega)]
  all_goals
    simp only [idWidth] at h
    simp only [idLE, compId, rowId, Expr.eval]
    rw [getD_append_left' ra rb 0 (by omega), getD_append_left' ra rb 1 (by omega)]

theorem idRE_eval (lt : LinkType) (ra rb : Row) :
    (idRE ra.length lt).eval (ra ++ rb) = rowId lt rb := by
  have h0 := getD_append_right' ra rb 0
  have h1 := getD_append_right' ra rb 1
  rw [Nat.add_zero] at h0
  cases lt
  · simp only [idRE, rowId, Expr.eval]; rw [h0]
  all_goals
    simp only [idRE, compId, rowId, Expr.eval]
    rw [h0, h1]

theorem and3_eq_true_iff (a b : Val) : and3 a b = .bool true ↔ a = .bool true ∧ b = .bool true := by
  rcases a with _ | _ | (_ | _) | _ | _ <;> rcases b with _ | _ | (_ | _) | _ | _ <;> simp [and3]

theorem and3_beq_true (a b : Val) : (and3 a b == .bool true) = ((a == .bool true) && (b == .bool true)) := by
  rw [Bool.eq_iff_iff]
  simp [and3_eq_true_iff]

theorem whE_holds (lt : LinkType) (ra rb : Row) (h : idWidth lt ≤ ra.length) :
    (whE ra.length lt).holds (ra ++ rb) = admissible lt ra rb := by
  have hl := fun lt' (h' : idWidth lt' ≤ ra.length) => idLE_eval lt' ra rb h'
  have hr := fun lt' => idRE_eval lt' ra rb
  have h0 : (ra ++ rb).getD 0 .null = ra.getD 0 .null :=
    getD_append_left' ra rb 0 (by cases lt <;> simp only [idWidth] at h <;> omega)
  have h0r := getD_append_right' ra rb 0
  rw [Nat.add_zero] at h0r
  cases lt
  · simp only [whE, Expr.holds, admissible]
    rw [Expr.eval, hl _ h, hr]
  · simp only [whE, Expr.holds, admissible]
    rw [Expr.eval, Expr.eval, hl _ h, hr, and3_beq_true]
    simp only [Expr.eval]
    rw [h0, h0r]
  · simp only [whE, Expr.holds, admissible]
    rw [Expr.eval, hl _ h, hr]
  · simp [whE, Expr.holds, Expr.eval, admissible, Cmp.eval]

/-! ### The exclusion of the preceding rules -/

theorem not3_beq_true (v : Val) : (not3 v == .bool true) = (v == .bool false) := by
  rcases v with _ | _ | (_ | _) | _ | _ <;> simp [not3]

theorem exclOne_eval (p : Expr) (row : Row) (h : isB3 (p.eval row) = true) :
    (Gen.BlockSql.exclOne p).eval row = .bool (p.holds row) := by
  rw [exclOne_eq]
  simp only [Expr.eval, Expr.holds]
  generalize p.eval row = v at h ⊢
  rcases v with _ | _ | (_ | _) | _ | _ <;> simp_all [isB3]

theorem or3_bool (a b : Bool) : or3 (.bool a) (.bool b) = .bool (a || b) := by
  cases a <;> cases b <;> rfl

theorem foldl_excl_eval (row : Row) (ps : List Expr) :
    ∀ (acc : Expr) (b : Bool), acc.eval row = .bool b → (∀ p ∈ ps, isB3 (p.eval row) = true) →
      (ps.foldl (fun acc q => Expr.or acc (Gen.BlockSql.exclOne q)) acc).eval row
        = .bool (b || ps.any fun p => p.holds row) := by
  induction ps with
  | nil => intro acc b h _; simp [h]
  | cons q qs ih =>
    intro acc b h hq
    rw [List.foldl_cons]
    have hstep : (Expr.or acc (Gen.BlockSql.exclOne q)).eval row = .bool (b || q.holds row) := by
      rw [Expr.eval, h, exclOne_eval q row (hq q (by simp)), or3_bool]
    rw [ih _ _ hstep (fun p hp => hq p (by simp [hp])), List.any_cons, Bool.or_assoc]

theorem exclAll_eval (row : Row) (p : Expr) (ps : List Expr) (hB : ∀ q ∈ p :: ps, isB3 (q.eval row) = true) :
    ∃ e, exclAll (p :: ps) = some e ∧ e.eval row = .bool ((p :: ps).any fun q => q.holds row) := by
  refine ⟨_, rfl, ?_⟩
  rw [foldl_excl_eval row ps _ _ (exclOne_eval p row (hB p (by simp))) (fun q hq => hB q (by simp [hq]))]
  simp

theorem cond_holds (lt : LinkType) (pre : List Expr) (ra rb : Row) (h : idWidth lt ≤ ra.length)
    (hB : ∀ p ∈ pre, isB3 (p.eval (ra ++ rb)) = true) :
    (condE lt ra.length (exclAll pre)).holds (ra ++ rb)
      = (admissible lt ra rb && !(pre.any fun p => p.holds (ra ++ rb))) := by
  cases pre with
  | nil => simp [exclAll, condE, whE_holds lt ra rb h]
  | cons p ps =>
    obtain ⟨e, he, hev⟩ := exclAll_eval (ra ++ rb) p ps hB
    rw [he]
    have hw := whE_holds lt ra rb h
    have hc : (condE lt ra.length (some e)).holds (ra ++ rb)
        = ((whE ra.length lt).holds (ra ++ rb) && (e.eval (ra ++ rb) == .bool false)) := by
      simp only [condE, Expr.holds]
      rw [Expr.eval, and3_beq_true, Expr.eval, not3_beq_true]
    rw [hc, hw, hev]
    generalize (List.any (p :: ps) fun q => q.holds (ra ++ rb)) = t
    cases t <;> simp

/-! ### One statement -/

/-- Rule `rule` with preceding rules `pre` selects the ordered pair `(ra, rb)`. -/
def sel (lt : LinkType) (pre : List Expr) (rule : Expr) (ra rb : Row) : Bool :=
  rule.holds (ra ++ rb) && admissible lt ra rb && !(pre.any fun p => p.holds (ra ++ rb))

/-- The rows one rule contributes, in join order. -/
def pairsOf (lt : LinkType) (L R : List Row) (pre : List Expr) (rule : Expr) : List Row :=
  L.flatMap fun ra => (R.filter (sel lt pre rule ra)).map fun rb => [mkVal pre.length, rowId lt ra, rowId lt rb]

theorem stmt_eq_shape (lt : LinkType) (w : Nat) (pre : List Expr) (rule : Expr) :
    stmt lt w pre rule = shape lt w (mkVal pre.length) rule (exclAll pre) := by
  unfold stmt
  cases exclAll pre with
  | none => exact first_eq ..
  | some e => exact later_eq ..

theorem join_filter_map (L R : List Row) (on c : Row → Bool) (proj : Row → Row) :
    ((L.flatMap fun ra => (R.filter fun x => on (ra ++ x)).map (ra ++ ·)).filter c).map proj
      = L.flatMap fun ra => (R.filter fun rb => on (ra ++ rb) && c (ra ++ rb)).map fun rb => proj (ra ++ rb) := by
  rw [List.filter_flatMap, List.map_flatMap]
  apply List.flatMap_congr
  intro ra _
  rw [List.filter_map, List.map_map, List.filter_filter]
  congr 1
  apply List.filter_congr
  intro x _
  simp [Bool.and_comm]

theorem flatMap_filter_map_congr {α β γ : Type} (L : List α) (R : List β) (p p' : α → β → Bool) (f f' : α → β → γ)
    (hp : ∀ a ∈ L, ∀ b ∈ R, p a b = p' a b) (hf : ∀ a ∈ L, ∀ b ∈ R, p' a b = true → f a b = f' a b) :
    (L.flatMap fun a => (R.filter (p a)).map (f a)) = L.flatMap fun a => (R.filter (p' a)).map (f' a) := by
  apply List.flatMap_congr
  intro a ha
  have hfl : R.filter (p a) = R.filter (p' a) := List.filter_congr (fun b hb => hp a ha b hb)
  rw [hfl]
  apply List.map_congr_left
  intro b hb
  rw [List.mem_filter] at hb
  exact hf a ha b hb.1 hb.2

/-- **One regenerated statement**, on tables whose left rows have the declared width and on which the preceding rules
are three-valued: its rows are `pairsOf`, in join order. -/
theorem stmt_eval (lt : LinkType) (w : Nat) (db : Db) (pre : List Expr) (rule : Expr)
    (hw : idWidth lt ≤ w) (hL : ∀ ra ∈ db (tables lt).1, ra.length = w)
    (hB : ∀ p ∈ pre, ∀ ra ∈ db (tables lt).1, ∀ rb ∈ db (tables lt).2, isB3 (p.eval (ra ++ rb)) = true) :
    (stmt lt w pre rule).eval db = pairsOf lt (db (tables lt).1) (db (tables lt).2) pre rule := by
  rw [stmt_eq_shape]
  simp only [shape, Lemmas.Rel.eval_project, Lemmas.Rel.eval_filter, Lemmas.Rel.eval_join,
    Lemmas.Rel.eval_table, Lemmas.Rel.joinRows, Bool.false_and, Bool.false_eq_true, if_false]
  rw [join_filter_map]
  unfold pairsOf
  apply flatMap_filter_map_congr
  · intro ra hra rb hrb
    have hlen := hL ra hra
    have hc := cond_holds lt pre ra rb (by omega) (fun p hp => hB p hp ra hra rb hrb)
    rw [hlen] at hc
    simp only [sel, hc, Bool.and_assoc]
  · intro ra hra rb _ _
    have hlen := hL ra hra
    have h1 := idLE_eval lt ra rb (by omega)
    have h2 := idRE_eval lt ra rb
    rw [hlen] at h2
    simp [Expr.eval, h1, h2]

/-! ## 3. The pipeline -/

theorem foldl_union_eval (db : Db) (ss : List Rel) :
    ∀ s : Rel, (ss.foldl (Rel.union true) s).eval db = s.eval db ++ ss.flatMap (·.eval db) := by
  induction ss with
  | nil => intro s; simp
  | cons t ts ih => intro s; rw [List.foldl_cons, ih, Lemmas.Rel.eval_union_all]; simp

theorem stmtsFrom_ne_nil (lt : LinkType) (w : Nat) (pre rules : List Expr) (h : rules ≠ []) :
    stmtsFrom lt w pre rules ≠ [] := by
  cases rules with
  | nil => exact absurd rfl h
  | cons r rest => simp [stmtsFrom]

theorem block_eq_flatMap (lt : LinkType) (w : Nat) (db : Db) (rules : List Expr) :
    block lt w db rules = (stmtsFrom lt w [] (rulesOrDefault rules)).flatMap (·.eval db) := by
  unfold block blockRel
  cases h : stmtsFrom lt w [] (rulesOrDefault rules) with
  | nil => simp [unionAll]
  | cons s ss => simp [unionAll, foldl_union_eval]

/-- The rows of the whole statement, rule by rule. -/
def specFrom (lt : LinkType) (L R : List Row) : List Expr → List Expr → List Row
  | _, [] => []
  | pre, r :: rest => pairsOf lt L R pre r ++ specFrom lt L R (pre ++ [r]) rest

/-- Every rule evaluates to TRUE, FALSE or NULL on every pair of rows of the two tables (the engines' type check). -/
def RulesB3 (rules : List Expr) (L R : List Row) : Prop :=
  ∀ p ∈ rules, ∀ ra ∈ L, ∀ rb ∈ R, isB3 (p.eval (ra ++ rb)) = true

theorem stmtsFrom_eval (lt : LinkType) (w : Nat) (db : Db)
    (hw : idWidth lt ≤ w) (hL : ∀ ra ∈ db (tables lt).1, ra.length = w) :
    ∀ (rules pre : List Expr), RulesB3 (pre ++ rules) (db (tables lt).1) (db (tables lt).2) →
      (stmtsFrom lt w pre rules).flatMap (·.eval db)
        = specFrom lt (db (tables lt).1) (db (tables lt).2) pre rules := by
  intro rules
  induction rules with
  | nil => intro pre _; simp [stmtsFrom, specFrom]
  | cons r rest ih =>
    intro pre hB
    simp only [stmtsFrom, specFrom, List.flatMap_cons]
    rw [stmt_eval lt w db pre r hw hL (fun p hp => hB p (by simp [hp]))]
    rw [ih (pre ++ [r]) (by simpa using hB)]

theorem rulesB3_default {rules : List Expr} {L R : List Row} (h : RulesB3 rules L R) :
    RulesB3 (rulesOrDefault rules) L R := by
  unfold rulesOrDefault
  split
  · intro p hp ra _ rb _
    rw [List.mem_singleton] at hp
    subst hp
    exact noRulesRule_isB3 _
  · exact h

/-- A syntactic sufficient condition for `RulesB3`: the expression is a comparison, `IS NULL`, a boolean / NULL literal, or
`AND` / `OR` / `NOT` / `coalesce` of such (every rule of the harness's grammar is). -/
def isPred : Expr → Bool
  | .cmp _ _ _ => true
  | .isNull _ => true
  | .lit (.bool _) => true
  | .lit .null => true
  | .and a b => isPred a && isPred b
  | .or a b => isPred a && isPred b
  | .not a => isPred a
  | .coalesce a b => isPred a && isPred b
  | _ => false

theorem isB3_cmp (c : Cmp) (a b : Val) : isB3 (c.eval a b) = true := by
  cases a <;> cases b <;> simp [Cmp.eval, isB3]

theorem isB3_and3 {a b : Val} (ha : isB3 a = true) (hb : isB3 b = true) : isB3 (and3 a b) = true := by
  rcases a with _ | _ | (_ | _) | _ | _ <;> rcases b with _ | _ | (_ | _) | _ | _ <;> simp_all [isB3, and3]

theorem isB3_or3 {a b : Val} (ha : isB3 a = true) (hb : isB3 b = true) : isB3 (or3 a b) = true := by
  rcases a with _ | _ | (_ | _) | _ | _ <;> rcases b with _ | _ | (_ | _) | _ | _ <;> simp_all [isB3, or3]

theorem isB3_not3 {a : Val} (ha : isB3 a = true) : isB3 (not3 a) = true := by
  rcases a with _ | _ | (_ | _) | _ | _ <;> simp_all [isB3, not3]

theorem isB3_of_isPred : ∀ (e : Expr), isPred e = true → ∀ row : Row, isB3 (e.eval row) = true
  | .cmp c a b, _, row => by simp only [Expr.eval]; exact isB3_cmp ..
  | .isNull a, _, row => by simp [Expr.eval, isB3]
  | .lit (.bool b), _, row => by simp [Expr.eval, isB3]
  | .lit .null, _, row => by simp [Expr.eval, isB3]
  | .and a b, h, row => by
    simp only [isPred, Bool.and_eq_true] at h
    simp only [Expr.eval]
    exact isB3_and3 (isB3_of_isPred a h.1 row) (isB3_of_isPred b h.2 row)
  | .or a b, h, row => by
    simp only [isPred, Bool.and_eq_true] at h
    simp only [Expr.eval]
    exact isB3_or3 (isB3_of_isPred a h.1 row) (isB3_of_isPred b h.2 row)
  | .not a, h, row => by
    simp only [isPred] at h
    simp only [Expr.eval]
    exact isB3_not3 (isB3_of_isPred a h row)
  | .coalesce a b, h, row => by
    simp only [isPred, Bool.and_eq_true] at h
    have ha := isB3_of_isPred a h.1 row
    have hb := isB3_of_isPred b h.2 row
    simp only [Expr.eval]
    generalize a.eval row = va at ha ⊢
    rcases va with _ | _ | (_ | _) | _ | _ <;> simp_all [isB3]
  | .col _, h, _ => by simp [isPred] at h
  | .lit (.int _), h, _ => by simp [isPred] at h
  | .lit (.str _), h, _ => by simp [isPred] at h
  | .lit (.rat _), h, _ => by simp [isPred] at h
  | .arith _ _ _, h, _ => by simp [isPred] at h
  | .case _ _ _, h, _ => by simp [isPred] at h
  | .toRat _, h, _ => by simp [isPred] at h
  | .concat _ _, h, _ => by simp [isPred] at h

theorem rulesB3_of_isPred {rules : List Expr} (h : ∀ p ∈ rules, isPred p = true) (L R : List Row) :
    RulesB3 rules L R :=
  fun p hp _ _ _ _ => isB3_of_isPred p (h p hp) _

/-- **The pipeline**: the rows of `__splink__blocked_id_pairs`, in the order the statement produces them. -/
theorem block_eq_spec (lt : LinkType) (w : Nat) (db : Db) (rules : List Expr)
    (hw : idWidth lt ≤ w) (hL : ∀ ra ∈ db (tables lt).1, ra.length = w)
    (hB : RulesB3 rules (db (tables lt).1) (db (tables lt).2)) :
    block lt w db rules = specFrom lt (db (tables lt).1) (db (tables lt).2) [] (rulesOrDefault rules) := by
  rw [block_eq_flatMap, stmtsFrom_eval lt w db hw hL _ [] (by simpa using rulesB3_default hB)]

/-! ### Membership -/

theorem mem_pairsOf {lt : LinkType} {L R : List Row} {pre : List Expr} {rule : Expr} {row : Row} :
    row ∈ pairsOf lt L R pre rule ↔
      ∃ ra ∈ L, ∃ rb ∈ R, sel lt pre rule ra rb = true ∧ row = [mkVal pre.length, rowId lt ra, rowId lt rb] := by
  simp only [pairsOf, List.mem_flatMap, List.mem_map, List.mem_filter]
  constructor
  · rintro ⟨ra, hra, rb, ⟨hrb, hs⟩, rfl⟩; exact ⟨ra, hra, rb, hrb, hs, rfl⟩
  · rintro ⟨ra, hra, rb, hrb, hs, rfl⟩; exact ⟨ra, hra, rb, ⟨hrb, hs⟩, rfl⟩

theorem sel_iff {lt : LinkType} {pre : List Expr} {rule : Expr} {ra rb : Row} :
    sel lt pre rule ra rb = true ↔
      rule.holds (ra ++ rb) = true ∧ admissible lt ra rb = true ∧ ∀ p ∈ pre, p.holds (ra ++ rb) = false := by
  simp [sel, and_assoc]

/-- Rule `i` of the list is TRUE on the row and no earlier rule is (FALSE and NULL both count as not TRUE). -/
def FirstAt (rules : List Expr) (i : Nat) (row : Row) : Prop :=
  (∃ e, rules[i]? = some e ∧ e.holds row = true) ∧ ∀ j, j < i → ∀ q, rules[j]? = some q → q.holds row = false

theorem firstAt_zero (r : Expr) (rest : List Expr) (row : Row) :
    FirstAt (r :: rest) 0 row ↔ r.holds row = true := by
  simp [FirstAt]

theorem firstAt_succ (r : Expr) (rest : List Expr) (i : Nat) (row : Row) :
    FirstAt (r :: rest) (i + 1) row ↔ r.holds row = false ∧ FirstAt rest i row := by
  unfold FirstAt
  constructor
  · rintro ⟨⟨e, he, hh⟩, hpre⟩
    refine ⟨hpre 0 (by omega) r rfl, ⟨e, by simpa using he, hh⟩, ?_⟩
    intro j hj q hq
    exact hpre (j + 1) (by omega) q (by simpa using hq)
  · rintro ⟨h0, ⟨e, he, hh⟩, hpre⟩
    refine ⟨⟨e, by simpa using he, hh⟩, ?_⟩
    intro j hj q hq
    cases j with
    | zero => simp at hq; subst hq; exact h0
    | succ j => exact hpre j (by omega) q (by simpa using hq)

theorem mem_specFrom (lt : LinkType) (L R : List Row) :
    ∀ (rules pre : List Expr) (row : Row), row ∈ specFrom lt L R pre rules ↔
      ∃ i, ∃ ra ∈ L, ∃ rb ∈ R, row = [mkVal (pre.length + i), rowId lt ra, rowId lt rb] ∧
        admissible lt ra rb = true ∧ (∀ p ∈ pre, p.holds (ra ++ rb) = false) ∧ FirstAt rules i (ra ++ rb) := by
  intro rules
  induction rules with
  | nil =>
    intro pre row
    simp [specFrom, FirstAt]
  | cons r rest ih =>
    intro pre row
    simp only [specFrom, List.mem_append, mem_pairsOf, sel_iff, ih]
    constructor
    · rintro (⟨ra, hra, rb, hrb, ⟨hr, hadm, hpre⟩, rfl⟩ | ⟨i, ra, hra, rb, hrb, rfl, hadm, hpre, hfirst⟩)
      · exact ⟨0, ra, hra, rb, hrb, rfl, hadm, hpre, (firstAt_zero ..).2 hr⟩
      · refine ⟨i + 1, ra, hra, rb, hrb, ?_, hadm, fun p hp => hpre p (by simp [hp]), ?_⟩
        · simp [Nat.add_assoc, Nat.add_comm 1 i]
        · exact (firstAt_succ ..).2 ⟨hpre r (by simp), hfirst⟩
    · rintro ⟨i, ra, hra, rb, hrb, rfl, hadm, hpre, hfirst⟩
      cases i with
      | zero => exact Or.inl ⟨ra, hra, rb, hrb, ⟨(firstAt_zero ..).1 hfirst, hadm, hpre⟩, rfl⟩
      | succ i =>
        obtain ⟨h0, hrest⟩ := (firstAt_succ ..).1 hfirst
        refine Or.inr ⟨i, ra, hra, rb, hrb, ?_, hadm, ?_, hrest⟩
        · simp [Nat.add_assoc, Nat.add_comm 1 i]
        · intro p hp
          rw [List.mem_singleton] at hp
          rcases hp with hp | rfl
          · exact hpre p hp
          · exact h0

theorem mkVal_inj {i j : Nat} (h : mkVal i = mkVal j) : i = j := by
  simp only [mkVal, Val.str.injEq] at h
  exact Nat.repr_inj.mp h

/-- **Exactness and first-rule attribution** for the regenerated SQL. -/
theorem mem_block (lt : LinkType) (w : Nat) (db : Db) (rules : List Expr)
    (hw : idWidth lt ≤ w) (hL : ∀ ra ∈ db (tables lt).1, ra.length = w)
    (hB : RulesB3 rules (db (tables lt).1) (db (tables lt).2)) (row : Row) :
    row ∈ block lt w db rules ↔
      ∃ i, ∃ ra ∈ db (tables lt).1, ∃ rb ∈ db (tables lt).2, row = [mkVal i, rowId lt ra, rowId lt rb] ∧
        admissible lt ra rb = true ∧ FirstAt (rulesOrDefault rules) i (ra ++ rb) := by
  rw [block_eq_spec lt w db rules hw hL hB, mem_specFrom]
  simp

theorem mem_block_key (lt : LinkType) (w : Nat) (db : Db) (rules : List Expr)
    (hw : idWidth lt ≤ w) (hL : ∀ ra ∈ db (tables lt).1, ra.length = w)
    (hB : RulesB3 rules (db (tables lt).1) (db (tables lt).2)) (k : Nat) (a b : Val) :
    [mkVal k, a, b] ∈ block lt w db rules ↔
      ∃ ra ∈ db (tables lt).1, ∃ rb ∈ db (tables lt).2, rowId lt ra = a ∧ rowId lt rb = b ∧
        admissible lt ra rb = true ∧ FirstAt (rulesOrDefault rules) k (ra ++ rb) := by
  rw [mem_block lt w db rules hw hL hB]
  constructor
  · rintro ⟨i, ra, hra, rb, hrb, heq, hadm, hf⟩
    simp only [List.cons.injEq, and_true] at heq
    obtain ⟨hk, rfl, rfl⟩ := heq
    have := mkVal_inj hk
    subst this
    exact ⟨ra, hra, rb, hrb, rfl, rfl, hadm, hf⟩
  · rintro ⟨ra, hra, rb, hrb, rfl, rfl, hadm, hf⟩
    exact ⟨k, ra, hra, rb, hrb, rfl, hadm, hf⟩

theorem firstAt_default_nil (i : Nat) (row : Row) : FirstAt (rulesOrDefault []) i row ↔ i = 0 := by
  simp only [rulesOrDefault, List.isEmpty_nil, if_true]
  cases i with
  | zero => simp [firstAt_zero, noRulesRule_holds]
  | succ i => simp [firstAt_succ, noRulesRule_holds]

/-! ### Multiplicity -/

/-- The identity pair of an emitted row. -/
def idPair (row : Row) : List Val := row.drop 1

theorem nodup_idPairs_pairsOf (lt : LinkType) (L R : List Row) (pre : List Expr) (rule : Expr)
    (hLid : (L.map (rowId lt)).Nodup) (hRid : (R.map (rowId lt)).Nodup) :
    ((pairsOf lt L R pre rule).map idPair).Nodup := by
  unfold pairsOf
  rw [List.map_flatMap, List.nodup_flatMap]
  constructor
  · intro ra _
    rw [List.map_map]
    apply List.Nodup.map_on
    · intro x hx y hy hxy
      simp only [Function.comp, idPair, List.drop_succ_cons, List.drop_zero, List.cons.injEq, true_and,
        and_true] at hxy
      exact List.inj_on_of_nodup_map hRid (List.mem_filter.1 hx).1 (List.mem_filter.1 hy).1 hxy
    · exact (List.Nodup.of_map _ hRid).filter _
  · have hpw : List.Pairwise (fun a b => rowId lt a ≠ rowId lt b) L := by
      rw [List.Nodup, List.pairwise_map] at hLid
      exact hLid
    refine hpw.imp ?_
    intro a b hab
    simp only [Function.onFun, List.map_map]
    rw [List.disjoint_left]
    intro x hxa hxb
    simp only [List.mem_map, List.mem_filter, Function.comp, idPair, List.drop_succ_cons, List.drop_zero] at hxa hxb
    obtain ⟨ya, _, rfl⟩ := hxa
    obtain ⟨yb, _, hyb⟩ := hxb
    simp only [List.cons.injEq, and_true] at hyb
    exact hab hyb.1.symm

theorem nodup_idPairs_specFrom (lt : LinkType) (L R : List Row)
    (hLid : (L.map (rowId lt)).Nodup) (hRid : (R.map (rowId lt)).Nodup) :
    ∀ (rules pre : List Expr), ((specFrom lt L R pre rules).map idPair).Nodup := by
  intro rules
  induction rules with
  | nil => intro pre; simp [specFrom]
  | cons r rest ih =>
    intro pre
    simp only [specFrom, List.map_append]
    rw [List.nodup_append]
    refine ⟨nodup_idPairs_pairsOf lt L R pre r hLid hRid, ih _, ?_⟩
    intro x hx y hy hxy
    subst hxy
    rw [List.mem_map] at hx hy
    obtain ⟨row1, h1, rfl⟩ := hx
    obtain ⟨row2, h2, h12⟩ := hy
    rw [mem_pairsOf] at h1
    rw [mem_specFrom] at h2
    obtain ⟨ra, hra, rb, hrb, hsel, rfl⟩ := h1
    obtain ⟨i, ra', hra', rb', hrb', rfl, _, hpre, _⟩ := h2
    simp only [idPair, List.drop_succ_cons, List.drop_zero, List.cons.injEq, and_true] at h12
    have e1 : ra' = ra := List.inj_on_of_nodup_map hLid hra' hra h12.1
    have e2 : rb' = rb := List.inj_on_of_nodup_map hRid hrb' hrb h12.2
    subst e1 e2
    have hr := (sel_iff.1 hsel).1
    have := hpre r (by simp)
    rw [hr] at this
    exact Bool.noConfusion this

/-- **Multiplicity 1**: no identity pair is emitted twice — neither by one rule nor by two rules. -/
theorem nodup_idPairs_block (lt : LinkType) (w : Nat) (db : Db) (rules : List Expr)
    (hw : idWidth lt ≤ w) (hL : ∀ ra ∈ db (tables lt).1, ra.length = w)
    (hB : RulesB3 rules (db (tables lt).1) (db (tables lt).2))
    (hLid : ((db (tables lt).1).map (rowId lt)).Nodup) (hRid : ((db (tables lt).2).map (rowId lt)).Nodup) :
    ((block lt w db rules).map idPair).Nodup := by
  rw [block_eq_spec lt w db rules hw hL hB]
  exact nodup_idPairs_specFrom lt _ _ hLid hRid _ _

/-! ### Orientation -/

theorem val_lt_asymm {a b : Val} (h : Val.lt a b = true) : Val.lt b a = false := by
  cases a with
  | null => simp [Val.lt] at h
  | int x => cases b with
    | int y =>
      have h' : x < y := of_decide_eq_true h
      exact decide_eq_false (by omega)
    | _ => simp [Val.lt] at h
  | bool x => cases b with
    | bool y => cases x <;> cases y <;> simp_all [Val.lt]
    | _ => simp [Val.lt] at h
  | str x => cases b with
    | str y =>
      have h' : x < y := of_decide_eq_true h
      exact decide_eq_false (lt_asymm h')
    | _ => simp [Val.lt] at h
  | rat x => cases b with
    | rat y =>
      have h' : x < y := of_decide_eq_true h
      exact decide_eq_false (Rat.not_lt.2 (Rat.le_of_lt h'))
    | _ => simp [Val.lt] at h

theorem cmp_lt_asymm {a b : Val} (h : Cmp.lt.eval a b = .bool true) : Cmp.lt.eval b a ≠ .bool true := by
  intro h'
  cases a <;> cases b <;> simp [Cmp.eval] at h h'
  all_goals (have := val_lt_asymm h; simp_all)

theorem admissible_lt {lt : LinkType} (hlt : lt ≠ .twoDatasetLinkOnly) {ra rb : Row}
    (h : admissible lt ra rb = true) : Cmp.lt.eval (rowId lt ra) (rowId lt rb) = .bool true := by
  cases lt
  · simpa [admissible] using h
  · simp only [admissible, Bool.and_eq_true, beq_iff_eq] at h; exact h.1
  · simpa [admissible] using h
  · exact absurd rfl hlt

/-- **One orientation, never a record with itself** (self-joining link types): the `WHERE` clause orders the identities. -/
theorem block_one_orientation (lt : LinkType) (hlt : lt ≠ .twoDatasetLinkOnly) (w : Nat) (db : Db) (rules : List Expr)
    (hw : idWidth lt ≤ w) (hL : ∀ ra ∈ db (tables lt).1, ra.length = w)
    (hB : RulesB3 rules (db (tables lt).1) (db (tables lt).2)) (x y a b : Val)
    (h : [x, a, b] ∈ block lt w db rules) : [y, b, a] ∉ block lt w db rules ∧ a ≠ b := by
  rw [mem_block lt w db rules hw hL hB] at h
  obtain ⟨i, ra, _, rb, _, heq, hadm, _⟩ := h
  simp only [List.cons.injEq, and_true] at heq
  obtain ⟨_, rfl, rfl⟩ := heq
  have hlt1 := admissible_lt hlt hadm
  constructor
  · intro h'
    rw [mem_block lt w db rules hw hL hB] at h'
    obtain ⟨j, ra', _, rb', _, heq', hadm', _⟩ := h'
    simp only [List.cons.injEq, and_true] at heq'
    obtain ⟨_, e1, e2⟩ := heq'
    have hlt2 := admissible_lt hlt hadm'
    rw [← e1, ← e2] at hlt2
    exact cmp_lt_asymm hlt1 hlt2
  · intro hab
    rw [hab] at hlt1
    exact cmp_lt_asymm hlt1 hlt1

/-! ## 4. Refinement: the functional model `Blocking.block` -/

/-- SQL value of a predicate → the model's three-valued logic. -/
def toB3 : Val → B3
  | .bool b => some b
  | _ => none

/-- The outcome function of a rule on record indices of the table `T`. -/
def toRule (T : List Row) (e : Expr) : Blocking.Rule :=
  { kind := .plain, eval := fun l r => toB3 (e.eval (T.getD l [] ++ T.getD r [])) }

/-- The SQL row of a model row `(match_key, l, r)`. -/
def emit (lt : LinkType) (T : List Row) (x : Blocking.Row) : Row :=
  [mkVal x.1, rowId lt (T.getD x.2.1 []), rowId lt (T.getD x.2.2 [])]

/-- The model's table corresponds to the SQL table: same number of records, `key` orders records as the engine orders
their identities, `sd` separates records as the engine separates their source datasets (ranks do; read by `link_only` only). -/
structure Corr (lt : LinkType) (T : List Row) (t : Blocking.Table) : Prop where
  m : t.m = T.length
  key : ∀ l, l < T.length → ∀ r, r < T.length →
    decide (t.key l < t.key r) = (Cmp.lt.eval (rowId lt (T.getD l [])) (rowId lt (T.getD r [])) == .bool true)
  sd : lt = .linkOnly → ∀ l, l < T.length → ∀ r, r < T.length →
    (t.sd l != t.sd r) = (Cmp.ne.eval ((T.getD l []).getD 0 .null) ((T.getD r []).getD 0 .null) == .bool true)

theorem isTrue_toB3 (v : Val) : B3.isTrue (toB3 v) = (v == .bool true) := by
  rcases v with _ | _ | (_ | _) | _ | _ <;> simp [toB3, B3.isTrue]

theorem coalesceF_toB3 (v : Val) : B3.coalesceF (toB3 v) = (v == .bool true) := by
  rcases v with _ | _ | (_ | _) | _ | _ <;> simp [toB3, B3.coalesceF]

theorem index_list (T : List Row) : (List.range T.length).map (fun i => T.getD i []) = T := by
  apply List.ext_getElem
  · simp
  · intro i h1 h2
    simp [List.getD_eq_getElem?_getD, List.getElem?_eq_getElem (by simpa using h2 : i < T.length)]

theorem pairsOf_map {ι : Type} (lt : LinkType) (f : ι → Row) (I J : List ι) (pre : List Expr) (rule : Expr) :
    pairsOf lt (I.map f) (J.map f) pre rule
      = I.flatMap fun i => (J.filter fun j => sel lt pre rule (f i) (f j)).map fun j =>
          [mkVal pre.length, rowId lt (f i), rowId lt (f j)] := by
  simp only [pairsOf, List.flatMap_map, List.filter_map, List.map_map]
  rfl

theorem whereCond_corr {lt : LinkType} (hlt : lt ≠ .twoDatasetLinkOnly) {T : List Row} {t : Blocking.Table}
    (hc : Corr lt T t) (l r : Nat) (hl : l < T.length) (hr : r < T.length) :
    Blocking.whereCond lt t l r = admissible lt (T.getD l []) (T.getD r []) := by
  have hk := hc.key l hl r hr
  cases lt
  · simp only [Blocking.whereCond, admissible]; exact hk
  · simp only [Blocking.whereCond, admissible]; rw [hk, hc.sd rfl l hl r hr]
  · simp only [Blocking.whereCond, admissible]; exact hk
  · exact absurd rfl hlt

theorem excluded_corr (T : List Row) (l r : Nat) :
    ∀ (preD : List Blocking.Done) (pre : List Expr), List.Forall₂ (fun d p => d.1 = toRule T p) preD pre →
      Blocking.excluded preD l r = pre.any fun p => p.holds (T.getD l [] ++ T.getD r []) := by
  intro preD pre h
  induction h with
  | nil => simp [Blocking.excluded]
  | cons hd _ ih =>
    rename_i d p ds ps
    simp only [Blocking.excluded, List.any_cons] at ih ⊢
    rw [ih]
    congr 1
    simp only [Blocking.excludedBy, hd, toRule, coalesceF_toB3, Expr.holds]

theorem tag_emit (lt : LinkType) (T : List Row) (k : Nat) (I : List Nat) (P : Nat → Nat → Bool) :
    ((Blocking.joinFilter I I P).map (fun p => ((k, p.1, p.2) : Blocking.Row))).map (emit lt T)
      = I.flatMap fun l => (I.filter (P l)).map fun r =>
          [mkVal k, rowId lt (T.getD l []), rowId lt (T.getD r [])] := by
  simp only [Blocking.joinFilter, List.map_flatMap, List.map_map]
  rfl

theorem leftTable_selfJoin {lt : LinkType} (hlt : lt ≠ .twoDatasetLinkOnly) (t : Blocking.Table) :
    Blocking.leftTable lt t = List.range t.m ∧ Blocking.rightTable lt t = List.range t.m := by
  cases lt <;> first | exact ⟨rfl, rfl⟩ | exact absurd rfl hlt

theorem specFrom_eq_model (lt : LinkType) (hlt : lt ≠ .twoDatasetLinkOnly) (T : List Row) (t : Blocking.Table)
    (hc : Corr lt T t) :
    ∀ (rules pre : List Expr) (preD : List Blocking.Done), List.Forall₂ (fun d p => d.1 = toRule T p) preD pre →
      specFrom lt T T pre rules = (Blocking.blockFrom lt t preD (rules.map (toRule T))).map (emit lt T) := by
  intro rules
  induction rules with
  | nil => intro pre preD _; simp [specFrom, Blocking.blockFrom]
  | cons r rest ih =>
    intro pre preD hpre
    have hlen : preD.length = pre.length := hpre.length_eq
    simp only [specFrom, List.map_cons, Blocking.blockFrom, List.map_append]
    congr 1
    · -- the pairs of this rule
      have hT := index_list T
      have hrp : Blocking.rulePairs lt t preD (toRule T r)
          = Blocking.joinFilter (List.range T.length) (List.range T.length) fun l r' =>
              B3.isTrue ((toRule T r).eval l r') && Blocking.whereCond lt t l r' && !Blocking.excluded preD l r' := by
        simp only [Blocking.rulePairs, toRule, (leftTable_selfJoin hlt t).1, (leftTable_selfJoin hlt t).2, hc.m]
      rw [hrp, tag_emit, hlen]
      calc pairsOf lt T T pre r
          = pairsOf lt ((List.range T.length).map fun i => T.getD i [])
              ((List.range T.length).map fun i => T.getD i []) pre r := by rw [hT]
        _ = _ := by
          rw [pairsOf_map]
          apply flatMap_filter_map_congr
          · intro l hl r' hr'
            rw [List.mem_range] at hl hr'
            simp only [sel, toRule, isTrue_toB3, whereCond_corr hlt hc l r' hl hr', excluded_corr T l r' preD pre hpre,
              Expr.holds]
          · intro _ _ _ _ _; rfl
    · exact ih (pre ++ [r]) (preD ++ [(toRule T r, Blocking.rulePairs lt t preD (toRule T r))])
        (List.rel_append hpre (List.Forall₂.cons rfl List.Forall₂.nil))

theorem toRule_noRules (T : List Row) : toRule T Gen.BlockSql.noRulesRule = Blocking.trueRule := by
  simp only [toRule, Blocking.trueRule, Blocking.Rule.mk.injEq, true_and]
  funext l r
  have := noRulesRule_holds (T.getD l [] ++ T.getD r [])
  simp only [Expr.holds, beq_iff_eq] at this
  rw [this]; rfl

/-- **Refinement**: for the self-joining link types the regenerated SQL returns exactly the rows of the functional model
`Blocking.block` (all C01 theorems are about it), in the same order. -/
theorem block_eq_model (lt : LinkType) (hlt : lt ≠ .twoDatasetLinkOnly) (w : Nat) (db : Db) (rules : List Expr)
    (hw : idWidth lt ≤ w) (hL : ∀ ra ∈ db (tables lt).1, ra.length = w)
    (hB : RulesB3 rules (db (tables lt).1) (db (tables lt).2))
    (t : Blocking.Table) (hc : Corr lt (db (tables lt).1) t) :
    block lt w db rules
      = (Blocking.block lt t (rules.map (toRule (db (tables lt).1)))).map (emit lt (db (tables lt).1)) := by
  rw [block_eq_spec lt w db rules hw hL hB, tables_selfJoin hlt,
    specFrom_eq_model lt hlt _ t hc _ [] [] List.Forall₂.nil]
  unfold Blocking.block rulesOrDefault
  cases rules with
  | nil => simp [toRule_noRules]
  | cons r rest => simp

end SplinkVerif.Lemmas.BlockSql
