import Mathlib.Analysis.SpecialFunctions.Pow.Real
import Mathlib.Analysis.SpecialFunctions.Log.Base
import Mathlib.Analysis.SpecialFunctions.Sqrt
import Mathlib.Tactic.Ring
import Mathlib.Tactic.Linarith
import Mathlib.Tactic.NormNum
import Mathlib.Tactic.Positivity
import Mathlib.Tactic.FieldSimp
import SplinkVerif.Model.Estimators
import SplinkVerif.Lemmas.BlockingAnalysisCount
/-!
# Lemmas for C04 (direct estimators)

* counting lemmas about `levelFreq` (core Lean lists);
* the number interface of the *generated* arithmetic at `ℝ` (`sqrt = Real.sqrt`) and the sampling
  arithmetic of `estimate_u_values` (`sampleDedupe`, `sampleLinkOnly`);
* the recall guard/formula of `priorEstimate`;
* `lowerIdLeft`.
-/
namespace SplinkVerif.Lemmas.Est
open SplinkVerif SplinkVerif.Estimators

/-! ## `levelFreq` -/

/-- The predicate of `nonNullCount`. -/
def nonNull (g : Option Int) : Bool := match g with | some w => w != -1 | none => false

theorem nonNullCount_eq (gammas : List (Option Int)) :
    nonNullCount gammas = (gammas.filter nonNull).length := rfl

theorem levelCount_le_nonNullCount (gammas : List (Option Int)) (v : Int) (hv : v ≠ -1) :
    levelCount gammas v ≤ nonNullCount gammas := by
  unfold levelCount nonNullCount
  rw [← List.countP_eq_length_filter, ← List.countP_eq_length_filter]
  apply List.countP_mono_left
  intro g _ hg
  have : g = some v := by simpa using hg
  subst this
  simpa using hv

theorem levelCount_eq_zero_iff (gammas : List (Option Int)) (v : Int) :
    levelCount gammas v = 0 ↔ ∀ g ∈ gammas, g ≠ some v := by
  unfold levelCount
  rw [List.length_eq_zero_iff, List.filter_eq_nil_iff]
  constructor
  · intro h g hg e
    exact h g hg (by simp [e])
  · intro h g hg e
    exact h g hg (by simpa using e)

theorem levelFreq_eq (gammas : List (Option Int)) (v : Int) :
    levelFreq gammas v =
      if v = -1 then none else if levelCount gammas v = 0 then none
      else some (levelCount gammas v, nonNullCount gammas) := by
  unfold levelFreq
  by_cases hv : v = -1
  · simp [hv]
  · by_cases hc : levelCount gammas v = 0
    · simp [hv, hc]
    · simp [hv, hc]

theorem levelFreq_spec (gammas : List (Option Int)) (v : Int) (n d : Nat)
    (h : levelFreq gammas v = some (n, d)) :
    n = (gammas.filter fun g => g == some v).length ∧
    d = (gammas.filter fun g => match g with | some w => w != -1 | none => false).length ∧
    0 < n ∧ n ≤ d ∧ v ≠ -1 := by
  rw [levelFreq_eq] at h
  by_cases hv : v = -1
  · rw [if_pos hv] at h; cases h
  · rw [if_neg hv] at h
    by_cases hc : levelCount gammas v = 0
    · rw [if_pos hc] at h; cases h
    · rw [if_neg hc] at h
      have h' := Option.some.inj h
      have hn : levelCount gammas v = n := congrArg Prod.fst h'
      have hd : nonNullCount gammas = d := congrArg Prod.snd h'
      refine ⟨hn.symm, hd.symm, ?_, ?_, hv⟩
      · rw [← hn]; exact Nat.pos_of_ne_zero hc
      · rw [← hn, ← hd]; exact levelCount_le_nonNullCount gammas v hv

theorem levelFreq_none_iff (gammas : List (Option Int)) (v : Int) :
    levelFreq gammas v = none ↔ (v = -1 ∨ ∀ g ∈ gammas, g ≠ some v) := by
  rw [levelFreq_eq, ← levelCount_eq_zero_iff]
  by_cases hv : v = -1
  · simp [hv]
  · by_cases hc : levelCount gammas v = 0
    · simp [hc]
    · simp [hv, hc]

/-- The numerator of the estimate (0 when there is none) is the level count. -/
theorem numerator_eq (gammas : List (Option Int)) (v : Int) (hv : v ≠ -1) :
    (match levelFreq gammas v with | some (n, _) => n | none => 0) = levelCount gammas v := by
  rw [levelFreq_eq, if_neg hv]
  by_cases hc : levelCount gammas v = 0
  · rw [if_pos hc, hc]
  · rw [if_neg hc]

theorem levelCount_cons (g : Option Int) (gs : List (Option Int)) (v : Int) :
    levelCount (g :: gs) v = (if v == g.getD (-1) && g.isSome then 1 else 0) + levelCount gs v := by
  unfold levelCount
  rw [List.filter_cons]
  cases g with
  | none => simp
  | some w =>
    by_cases h : w = v
    · subst h; simp; omega
    · have h2 : ¬ v = w := fun e => h e.symm
      simp [h, h2]

theorem sum_levelCount (gammas : List (Option Int)) (levels : List Int)
    (hnd : levels.Nodup) (hneg : ∀ v ∈ levels, v ≠ -1)
    (hcover : ∀ g ∈ gammas, ∀ w, g = some w → w ≠ -1 → w ∈ levels) :
    (levels.map fun v => levelCount gammas v).sum = nonNullCount gammas := by
  induction gammas with
  | nil => simp [levelCount, nonNullCount]
  | cons g gs ih =>
    have ih' := ih (fun g hg => hcover g (List.mem_cons_of_mem _ hg))
    rw [List.map_congr_left (fun v _ => levelCount_cons g gs v), BA.sum_map_add, ih']
    cases g with
    | none =>
      simp [nonNullCount]
    | some w =>
      have hk : ∀ v : Int, (if v == (some w).getD (-1) && (some w).isSome then 1 else 0) =
          (if v == w then (fun _ => 1) v else 0) := by
        intro v; simp
      rw [List.map_congr_left (fun v _ => hk v), BA.sum_indicator levels hnd w]
      by_cases hw : w = -1
      · have : w ∉ levels := fun hm => hneg w hm hw
        rw [if_neg this]
        simp [nonNullCount, hw]
      · have : w ∈ levels := hcover (some w) (List.mem_cons_self ..) w rfl hw
        rw [if_pos this]
        simp [nonNullCount, hw]
        omega

theorem levelFreq_numerators_sum (gammas : List (Option Int)) (levels : List Int)
    (hnd : levels.Nodup) (hneg : ∀ v ∈ levels, v ≠ -1)
    (hcover : ∀ g ∈ gammas, ∀ w, g = some w → w ≠ -1 → w ∈ levels) :
    (levels.map fun v => match levelFreq gammas v with | some (n, _) => n | none => 0).sum =
      (gammas.filter fun g => match g with | some w => w != -1 | none => false).length := by
  rw [List.map_congr_left (fun v hv => numerator_eq gammas v (hneg v hv))]
  exact sum_levelCount gammas levels hnd hneg hcover

/-! ## The number interface at `ℝ` -/

/-- The number interface at `ℝ` (`inf` is junk: it is not used by the sampling arithmetic). -/
noncomputable instance instANumReal : SplinkVerif.ANum ℝ where
  ofNat n := (n : ℝ)
  add a b := a + b
  sub a b := a - b
  mul a b := a * b
  div a b := a / b
  sqrt := Real.sqrt
  pow2 x := (2 : ℝ) ^ x
  log2 := Real.logb 2
  inf := 0
  le a b := decide (a ≤ b)
  lt a b := decide (a < b)
  eq a b := decide (a = b)

theorem anum_ofNat (n : ℕ) : (ANum.ofNat n : ℝ) = (n : ℝ) := rfl
theorem anum_add (a b : ℝ) : ANum.add a b = a + b := rfl
theorem anum_sub (a b : ℝ) : ANum.sub a b = a - b := rfl
theorem anum_mul (a b : ℝ) : ANum.mul a b = a * b := rfl
theorem anum_div (a b : ℝ) : ANum.div a b = a / b := rfl
theorem anum_sqrt (a : ℝ) : ANum.sqrt a = Real.sqrt a := rfl
theorem anum_le (a b : ℝ) : ANum.le a b = decide (a ≤ b) := rfl
theorem anum_lt (a b : ℝ) : ANum.lt a b = decide (a < b) := rfl
theorem anum_eq (a b : ℝ) : ANum.eq a b = decide (a = b) := rfl

theorem foldl_add_eq (xs : List ℝ) : ∀ a : ℝ, xs.foldl ANum.add a = a + xs.sum := by
  induction xs with
  | nil => intro a; simp
  | cons x xs ih =>
    intro a
    rw [List.foldl_cons, ih, List.sum_cons]
    show a + x + xs.sum = a + (x + xs.sum)
    ring

theorem ANum_sum_eq (xs : List ℝ) : ANum.sum xs = xs.sum := by
  unfold ANum.sum
  rw [foldl_add_eq]
  show ((0 : ℕ) : ℝ) + xs.sum = xs.sum
  simp

theorem sum_cast_nonneg (cs : List ℕ) : 0 ≤ (cs.map fun (c : ℕ) => (c : ℝ)).sum := by
  induction cs with
  | nil => simp
  | cons c cs ih =>
    simp only [List.map_cons, List.sum_cons]
    have : (0 : ℝ) ≤ (c : ℝ) := Nat.cast_nonneg c
    linarith

/-! ## Sampling arithmetic -/

/-- `_rows_needed_for_n_pairs` at `ℝ`. -/
noncomputable def rowsNeeded (p : ℝ) : ℝ := 1 / 2 * (Real.sqrt (8 * p + 1) + 1)

theorem sampleDedupe_eq (p t : ℝ) :
    sampleDedupe p t =
      some (if 1 ≤ rowsNeeded p / t then 1 else rowsNeeded p / t,
            if t < rowsNeeded p then t else rowsNeeded p) := by
  simp [sampleDedupe, Gen._rows_needed_for_n_pairs, rowsNeeded, anum_ofNat, anum_add, anum_mul,
    anum_div, anum_sqrt, anum_le, anum_lt]

theorem rowsNeeded_ge (n : ℕ) (hn : 1 ≤ n) (p : ℝ)
    (h : ((n : ℝ) * ((n : ℝ) - 1)) / 2 ≤ p) : (n : ℝ) ≤ rowsNeeded p := by
  have hn' : (1 : ℝ) ≤ (n : ℝ) := by exact_mod_cast hn
  have h1 : (2 * (n : ℝ) - 1) ≤ Real.sqrt (8 * p + 1) := by
    apply Real.le_sqrt_of_sq_le
    nlinarith
  unfold rowsNeeded
  linarith

theorem rowsNeeded_lt (n : ℕ) (hn : 1 ≤ n) (p : ℝ) (_h0 : 0 ≤ p)
    (h : p < ((n : ℝ) * ((n : ℝ) - 1)) / 2) : rowsNeeded p < (n : ℝ) := by
  have hn' : (1 : ℝ) ≤ (n : ℝ) := by exact_mod_cast hn
  have h1 : Real.sqrt (8 * p + 1) < 2 * (n : ℝ) - 1 := by
    rw [Real.sqrt_lt' (by linarith)]
    nlinarith
  unfold rowsNeeded
  linarith

theorem rowsNeeded_pos (p : ℝ) : 0 < rowsNeeded p := by
  unfold rowsNeeded
  have := Real.sqrt_nonneg (8 * p + 1)
  linarith

theorem sampleDedupe_full (n : ℕ) (hn : 1 ≤ n) (maxPairs : ℝ)
    (h : ((n : ℝ) * ((n : ℝ) - 1)) / 2 ≤ maxPairs) :
    sampleDedupe maxPairs (n : ℝ) = some (1, (n : ℝ)) := by
  have hn' : (0 : ℝ) < (n : ℝ) := by exact_mod_cast hn
  have hge := rowsNeeded_ge n hn maxPairs h
  rw [sampleDedupe_eq]
  have h1 : 1 ≤ rowsNeeded maxPairs / (n : ℝ) := by
    rw [le_div_iff₀ hn']; linarith
  rw [if_pos h1]
  by_cases hlt : (n : ℝ) < rowsNeeded maxPairs
  · rw [if_pos hlt]
  · rw [if_neg hlt]
    have : rowsNeeded maxPairs = (n : ℝ) := le_antisymm (not_lt.mp hlt) hge
    rw [this]

theorem sampleDedupe_partial (n : ℕ) (hn : 1 ≤ n) (maxPairs : ℝ) (h0 : 0 ≤ maxPairs)
    (h : maxPairs < ((n : ℝ) * ((n : ℝ) - 1)) / 2) :
    ∃ p s, sampleDedupe maxPairs (n : ℝ) = some (p, s) ∧ p < 1 ∧ s < (n : ℝ) := by
  have hn' : (0 : ℝ) < (n : ℝ) := by exact_mod_cast hn
  have hlt := rowsNeeded_lt n hn maxPairs h0 h
  have h1 : rowsNeeded maxPairs / (n : ℝ) < 1 := by
    rw [div_lt_one hn']; exact hlt
  refine ⟨rowsNeeded maxPairs / (n : ℝ), rowsNeeded maxPairs, ?_, h1, hlt⟩
  rw [sampleDedupe_eq, if_neg (not_le.mpr h1), if_neg (not_lt.mpr hlt.le)]

/-- `total_links` of `_proportion_sample_size_link_only` at `ℝ`. -/
theorem sampleLinkOnly_eq (xs : List ℝ) (p : ℝ) :
    sampleLinkOnly xs p =
      some (if 1 ≤ Real.sqrt (p / ((xs.sum * xs.sum - (xs.map fun c => c * c).sum) / 2)) then 1
              else Real.sqrt (p / ((xs.sum * xs.sum - (xs.map fun c => c * c).sum) / 2)),
            if xs.sum < Real.sqrt (p / ((xs.sum * xs.sum - (xs.map fun c => c * c).sum) / 2)) * xs.sum
              then xs.sum
              else Real.sqrt (p / ((xs.sum * xs.sum - (xs.map fun c => c * c).sum) / 2)) * xs.sum) := by
  simp [sampleLinkOnly, Gen._proportion_sample_size_link_only, ANum_sum_eq, anum_ofNat,
    anum_sub, anum_mul, anum_div, anum_sqrt, anum_le, anum_lt]

theorem sampleLinkOnly_full (cs : List ℕ) (maxPairs : ℝ)
    (hpos : 0 < (((cs.map fun (c : ℕ) => (c : ℝ)).sum) ^ 2 - ((cs.map fun (c : ℕ) => (c : ℝ) ^ 2).sum)) / 2)
    (h : (((cs.map fun (c : ℕ) => (c : ℝ)).sum) ^ 2 - ((cs.map fun (c : ℕ) => (c : ℝ) ^ 2).sum)) / 2 ≤ maxPairs) :
    sampleLinkOnly (cs.map fun (c : ℕ) => (c : ℝ)) maxPairs =
      some (1, (cs.map fun (c : ℕ) => (c : ℝ)).sum) := by
  rw [sampleLinkOnly_eq]
  have hsq : ((cs.map fun (c : ℕ) => (c : ℝ)).map fun c => c * c) =
      cs.map fun (c : ℕ) => (c : ℝ) ^ 2 := by
    rw [List.map_map]
    apply List.map_congr_left
    intro c _
    simp [sq]
  rw [hsq, ← sq]
  generalize hS : (cs.map fun (c : ℕ) => (c : ℝ)).sum = S at *
  generalize hT : (S ^ 2 - (cs.map fun (c : ℕ) => (c : ℝ) ^ 2).sum) / 2 = T at *
  have hS0 : 0 ≤ S := by rw [← hS]; exact sum_cast_nonneg cs
  have h1 : 1 ≤ Real.sqrt (maxPairs / T) := by
    rw [Real.one_le_sqrt, le_div_iff₀ hpos]; linarith
  rw [if_pos h1]
  by_cases hlt : S < Real.sqrt (maxPairs / T) * S
  · rw [if_pos hlt]
  · rw [if_neg hlt]
    have hge : S ≤ Real.sqrt (maxPairs / T) * S := by nlinarith
    have : Real.sqrt (maxPairs / T) * S = S := le_antisymm (not_lt.mp hlt) hge
    rw [this]

/-! ## The prior -/

theorem priorEstimate_eq (observed cartesian recall : ℝ) :
    priorEstimate observed cartesian recall =
      if cartesian * recall < observed then none else some (observed / recall / cartesian) := by
  simp [priorEstimate, anum_mul, anum_div, anum_lt]

theorem priorEstimate_spec (observed cartesian recall : ℝ) :
    (cartesian * recall < observed → priorEstimate observed cartesian recall = none) ∧
    (observed ≤ cartesian * recall →
      priorEstimate observed cartesian recall = some (observed / recall / cartesian)) := by
  rw [priorEstimate_eq]
  exact ⟨fun h => if_pos h, fun h => if_neg (not_lt.mpr h)⟩

theorem priorEstimate_unit (observed cartesian recall p : ℝ) (ho : 0 ≤ observed) (hc : 0 < cartesian)
    (hr : 0 < recall) (h : priorEstimate observed cartesian recall = some p) : 0 ≤ p ∧ p ≤ 1 := by
  rw [priorEstimate_eq] at h
  by_cases hlt : cartesian * recall < observed
  · rw [if_pos hlt] at h; cases h
  · rw [if_neg hlt] at h
    have hp : observed / recall / cartesian = p := Option.some.inj h
    have hle : observed ≤ cartesian * recall := not_lt.mp hlt
    rw [← hp]
    constructor
    · exact div_nonneg (div_nonneg ho hr.le) hc.le
    · rw [div_le_one hc, div_le_iff₀ hr]
      exact hle

/-! ## `lowerIdLeft` -/

theorem lowerIdLeft_spec (key : Nat → Nat) (a b : Nat) (hne : key a ≠ key b) :
    lowerIdLeft key (a, b) = lowerIdLeft key (b, a) ∧
    key (lowerIdLeft key (a, b)).1 < key (lowerIdLeft key (a, b)).2 ∧
    lowerIdLeft key (lowerIdLeft key (a, b)) = lowerIdLeft key (a, b) := by
  rcases Nat.lt_or_gt_of_ne hne with hlt | hgt
  · have h2 : ¬ key b < key a := Nat.lt_asymm hlt
    simp [lowerIdLeft, hlt, h2]
  · have h2 : ¬ key a < key b := Nat.lt_asymm hgt
    simp [lowerIdLeft, hgt, h2]

end SplinkVerif.Lemmas.Est
