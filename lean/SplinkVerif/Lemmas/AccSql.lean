import Mathlib.Data.List.Nodup
import Mathlib.Data.List.Perm.Basic
import SplinkVerif.Lemmas.Rel
import SplinkVerif.Lemmas.Accuracy
import SplinkVerif.Model.AccSql
/-!
# The regenerated truth-space SQL of `accuracy.py` computes `Accuracy.truthRows`

Statement by statement, the relational-algebra terms of `Generated/AccSql.lean` (evaluated with `Rel.eval`) compute the
tables of `Model/Accuracy.lean` (labels from a table, not-found option on):

| statement                                   | lemma                     | model                              |
|---------------------------------------------|---------------------------|------------------------------------|
| `labelsWithPosNeg thr`                      | `posNeg_eval/_model`      | `Accuracy.labelsWithPosNeg`        |
| `labelsWithPosNegTtAdj sentinel`            | `ttAdj_eval/_model`       | `Accuracy.labelsWithPosNegTtAdj`   |
| `labelsWithPosNegGrouped`                   | `grouped_eval`, `groupedSql_perm` | `Accuracy.grouped` (up to row order) |
| `labelsWithPosNegGroupedWithStats`          | `stats_eval`              | `Accuracy.groupedWithStats`        |
| `labelsWithPosNegGroupedWithStatsAdj`       | `statsAdj_eval`           | `Accuracy.statsAdj none`           |
| `labelsWithPosNegGroupedWithTruthStats`     | `truthStats_eval`         | `Accuracy.truthStats`              |

The only place where the SQL and the model differ is the *order* of the groups: `GROUP BY` (`List.eraseDups`) keeps the
first occurrence of a key, the model's `distinct` the last one.  Every later statement is computed exactly on the SQL's
order (`groupedSql`), and the model's later tables are invariant under permutations of the grouped table.
-/
namespace SplinkVerif.Lemmas.AccSql
open SplinkVerif SplinkVerif.Rel SplinkVerif.Lemmas.Rel
open SplinkVerif.Accuracy (Scored Cfg PosNeg PosNegAdj Grouped Stats TruthRow adjScore isPos)
open SplinkVerif.Lemmas.Acc (adjRow ind)

/-! ## Generic facts -/

/-- `eraseDups` commutes with an injective map. -/
theorem eraseDups_map_inj_aux {α β : Type} [BEq α] [LawfulBEq α] [BEq β] [LawfulBEq β] (f : α → β)
    (hf : ∀ a b, f a = f b → a = b) :
    ∀ (k : Nat) (l : List α), l.length ≤ k → (l.map f).eraseDups = l.eraseDups.map f
  | _, [], _ => by simp
  | 0, _ :: _, h => by simp at h
  | k + 1, a :: as, h => by
    rw [List.map_cons, List.eraseDups_cons, List.eraseDups_cons, List.map_cons, List.filter_map]
    have hfil : as.filter ((fun b => !b == f a) ∘ f) = as.filter (fun b => !b == a) := by
      apply List.filter_congr
      intro x _
      simp only [Function.comp]
      by_cases hx : x = a
      · subst hx; simp
      · have : f x ≠ f a := fun h' => hx (hf _ _ h')
        simp [hx, this]
    rw [hfil]
    congr 1
    apply eraseDups_map_inj_aux f hf k
    have := List.length_filter_le (fun b => !b == a) as
    simp only [List.length_cons] at h
    omega

theorem eraseDups_map_inj {α β : Type} [BEq α] [LawfulBEq α] [BEq β] [LawfulBEq β] (f : α → β)
    (hf : ∀ a b, f a = f b → a = b) (l : List α) : (l.map f).eraseDups = l.eraseDups.map f :=
  eraseDups_map_inj_aux f hf l.length l (Nat.le_refl _)

/-- The sum of an integer list does not depend on the order. -/
theorem sum_perm {l l' : List Int} (p : l.Perm l') : l.sum = l'.sum := by
  induction p with
  | nil => rfl
  | cons x _ ih => simp only [List.sum_cons, ih]
  | swap x y l => simp only [List.sum_cons]; omega
  | trans _ _ ih₁ ih₂ => rw [ih₁, ih₂]

@[simp] theorem cmp_le_int (a b : Int) : Cmp.le.eval (.int a) (.int b) = .bool (decide (a ≤ b)) := by
  simp only [Cmp.eval, Val.lt]
  congr 1
  by_cases h : a ≤ b
  · rcases Int.lt_or_eq_of_le h with h' | h'
    · simp [h, h']
    · subst h'; simp
  · have h1 : ¬ a < b := fun h' => h (Int.le_of_lt h')
    have h2 : ¬ a = b := fun h' => h (by omega)
    simp [h, h1, h2]

/-- SQL `sum` over a non-empty list of integers is the integer sum (`sum` of no row is NULL). -/
theorem sumVals_map_int {α : Type} (f : α → Int) : ∀ l : List α, l ≠ [] →
    sumVals (l.map fun a => Val.int (f a)) = Val.int ((l.map f).sum)
  | [], h => absurd rfl h
  | [a], _ => by simp [sumVals]
  | a :: b :: l, _ => by
    have ih := sumVals_map_int f (b :: l) (by simp)
    rw [List.map_cons, sumVals_cons, ih]
    simp [sumStep, Arith.eval]

theorem sumVals_nil : sumVals [] = Val.null := rfl

/-- A scalar subquery: the cross join with a one-row table appends its columns to every row. -/
theorem joinRows_scalar (A : List Row) (v : Row) (bw : Nat) :
    joinRows false (Expr.lit (Val.bool true)) A [v] bw = A.map (· ++ v) := by
  induction A with
  | nil => rfl
  | cons a A ih =>
    simp only [joinRows, List.flatMap_cons, List.map_cons] at ih ⊢
    rw [ih]
    simp [Expr.holds, Expr.eval]

/-- `sum(e) over (order by key desc)` with the default frame on a table of encoded rows with integer key and integer
summand: the integer sum over the rows whose key is `≥` the current one (never empty: the row itself is in its frame). -/
theorem windowCum_desc_sum_map {α : Type} (db : Db) (r : Rel) (key e : Expr) (L : List α)
    (enc : α → Row) (kf vf : α → Int) (hr : r.eval db = L.map enc)
    (hk : ∀ a, key.eval (enc a) = .int (kf a)) (hv : ∀ a, e.eval (enc a) = .int (vf a)) :
    (Rel.windowCum key true (Agg.sum e) r).eval db = L.map fun a => enc a ++
      [Val.int (((L.filter fun b => decide (kf b ≥ kf a)).map vf).sum)] := by
  rw [eval_windowCum, hr, List.map_map]
  apply List.map_congr_left
  intro a ha
  simp only [Function.comp, if_true]
  congr 2
  show sumVals (((L.map enc).filter _).map e.eval) = _
  rw [List.filter_map, List.map_map]
  have hfil : L.filter ((fun x => Cmp.ge.eval (key.eval x) (key.eval (enc a)) == Val.bool true) ∘ enc)
      = L.filter fun b => decide (kf b ≥ kf a) := by
    apply List.filter_congr
    intro b _
    simp only [Function.comp, hk, cmp_ge_int]
    by_cases h : kf a ≤ kf b <;> simp [h]
  have hmap : (e.eval ∘ enc) = fun b => Val.int (vf b) := funext fun b => hv b
  rw [hfil, hmap]
  apply sumVals_map_int
  intro hnil
  have : a ∈ L.filter fun b => decide (kf b ≥ kf a) := List.mem_filter.mpr ⟨ha, by simp⟩
  rw [hnil] at this
  cases this

/-- `sum(e) over (order by key)`: the integer sum over the rows whose key is `≤` the current one. -/
theorem windowCum_asc_sum_map {α : Type} (db : Db) (r : Rel) (key e : Expr) (L : List α)
    (enc : α → Row) (kf vf : α → Int) (hr : r.eval db = L.map enc)
    (hk : ∀ a, key.eval (enc a) = .int (kf a)) (hv : ∀ a, e.eval (enc a) = .int (vf a)) :
    (Rel.windowCum key false (Agg.sum e) r).eval db = L.map fun a => enc a ++
      [Val.int (((L.filter fun b => decide (kf b ≤ kf a)).map vf).sum)] := by
  rw [eval_windowCum, hr, List.map_map]
  apply List.map_congr_left
  intro a ha
  simp only [Function.comp, Bool.false_eq_true, if_false]
  congr 2
  show sumVals (((L.map enc).filter _).map e.eval) = _
  rw [List.filter_map, List.map_map]
  have hfil : L.filter ((fun x => Cmp.le.eval (key.eval x) (key.eval (enc a)) == Val.bool true) ∘ enc)
      = L.filter fun b => decide (kf b ≤ kf a) := by
    apply List.filter_congr
    intro b _
    simp only [Function.comp, hk, cmp_le_int]
    by_cases h : kf b ≤ kf a <;> simp [h]
  have hmap : (e.eval ∘ enc) = fun b => Val.int (vf b) := funext fun b => hv b
  rw [hfil, hmap]
  apply sumVals_map_int
  intro hnil
  have : a ∈ L.filter fun b => decide (kf b ≤ kf a) := List.mem_filter.mpr ⟨ha, by simp⟩
  rw [hnil] at this
  cases this

/-- `select sum(e) from t` (no GROUP BY) on a non-empty table of encoded rows with integer summand. -/
theorem globalSum_map {α : Type} (db : Db) (r : Rel) (e : Expr) (L : List α) (enc : α → Row) (vf : α → Int)
    (hr : r.eval db = L.map enc) (hv : ∀ a, e.eval (enc a) = .int (vf a)) (hne : L ≠ []) :
    (Rel.groupBy [] [Agg.sum e] r).eval db = [[Val.int ((L.map vf).sum)]] := by
  rw [eval_groupBy, hr]
  show [[sumVals ((L.map enc).map e.eval)]] = _
  rw [List.map_map]
  have hmap : (e.eval ∘ enc) = fun b => Val.int (vf b) := funext fun b => hv b
  rw [hmap, sumVals_map_int vf L hne]

/-! ## Encodings of the model's tables in the SQL's column order -/

/-- A row of `lwp_in`: (match_weight rounded to the grid, clerical_match_score, found_by_blocking_rules). -/
def encIn (cfg : Cfg) (x : Scored) : Row :=
  [Val.int (cfg.bucket x.weight), Val.int x.score, Val.bool x.found]

/-- `__splink__labels_with_pos_neg`: (match_weight, clerical_match_score, found_by_blocking_rules, truth_threshold,
clerical_positive, clerical_negative). -/
def row1 (cfg : Cfg) (x : Scored) : Row :=
  [Val.int (cfg.bucket x.weight), Val.int x.score, Val.bool x.found, Val.int (cfg.bucket x.weight),
   Val.int (ind (isPos cfg x)), Val.int (ind (!isPos cfg x))]

/-- `__splink__labels_with_pos_neg_tt_adj`: one more column, truth_threshold_adj. -/
def row2 (cfg : Cfg) (x : Scored) : Row :=
  [Val.int (cfg.bucket x.weight), Val.int x.score, Val.bool x.found, Val.int (cfg.bucket x.weight),
   Val.int (ind (isPos cfg x)), Val.int (ind (!isPos cfg x)), Val.int (adjScore cfg x)]

/-- Columns of a row by position. -/
def cols (is : List Nat) (r : Row) : Row := is.map fun i => r.getD i Val.null

/-- `PosNeg` as (truth_threshold, found_by_blocking_rules, clerical_positive, clerical_negative). -/
def encPosNeg (p : PosNeg) : Row :=
  [Val.int p.truthThreshold, Val.bool p.found, Val.int p.clericalPositive, Val.int p.clericalNegative]

/-- `PosNegAdj` as (truth_threshold_adj, clerical_positive, clerical_negative). -/
def encAdj (p : PosNegAdj) : Row :=
  [Val.int p.truthThresholdAdj, Val.int p.clericalPositive, Val.int p.clericalNegative]

/-- `Grouped` in the column order of `__splink__labels_with_pos_neg_grouped`. -/
def encG (g : Grouped) : Row :=
  [Val.int g.truthThreshold, Val.int g.numRecordsInRow, Val.int g.clericalPositive, Val.int g.clericalNegative]

/-- `Stats` in the column order of `__splink__labels_with_pos_neg_grouped_with_stats`. -/
def encS (s : Stats) : Row :=
  [Val.int s.truthThreshold, Val.int s.cumPosAtOrAbove, Val.int s.cumNegBelow, Val.int s.totalPos,
   Val.int s.totalNeg, Val.int s.totalLabels, Val.int s.numBelow, Val.int s.numAtOrAbove]

/-- `TruthRow` in the column order of `__splink__labels_with_pos_neg_grouped_with_truth_stats`:
(truth_threshold, total_clerical_labels, P, N, FP, TP, FN, TN). -/
def encT (r : TruthRow) : Row :=
  [Val.int r.truthThreshold, Val.int r.total, Val.int r.p, Val.int r.n, Val.int r.fp, Val.int r.tp,
   Val.int r.fn, Val.int r.tn]

theorem encT_inj (a b : TruthRow) (h : encT a = encT b) : a = b := by
  cases a; cases b
  simp only [encT, List.cons.injEq, Val.int.injEq, and_true] at h
  obtain ⟨h1, h2, h3, h4, h5, h6, h7, h8⟩ := h
  subst h1 h2 h3 h4 h5 h6 h7 h8
  rfl

theorem ind_decide (p : Prop) [Decidable p] : ind (decide p) = if p then 1 else 0 := by
  by_cases h : p <;> simp [ind, h]

theorem ind_not_decide (p : Prop) [Decidable p] : ind (!decide p) = if p then 0 else 1 := by
  by_cases h : p <;> simp [ind, h]

/-! ## Statement 1: `__splink__labels_with_pos_neg` -/

theorem posNeg_eval (cfg : Cfg) (xs : List Scored) (db : Db) (hin : db "lwp_in" = xs.map (encIn cfg)) :
    (Gen.AccSql.labelsWithPosNeg (Val.int cfg.thresholdActual)).eval db = xs.map (row1 cfg) := by
  unfold Gen.AccSql.labelsWithPosNeg
  rw [eval_project, eval_table, hin, List.map_map]
  apply List.map_congr_left
  intro x _
  simp only [Function.comp, encIn, row1, List.map_cons, List.map_nil, Expr.eval, List.getD_cons_zero,
    List.getD_cons_succ, cmp_ge_int, isPos]
  by_cases h : cfg.thresholdActual ≤ x.score <;> simp [h, ind]

/-- The columns (truth_threshold, found_by_blocking_rules, clerical_positive, clerical_negative) of the SQL table are
the model's `labelsWithPosNeg`. -/
theorem posNeg_model (cfg : Cfg) (xs : List Scored) :
    (xs.map (row1 cfg)).map (cols [3, 2, 4, 5]) = (Accuracy.labelsWithPosNeg cfg xs).map encPosNeg := by
  unfold Accuracy.labelsWithPosNeg
  rw [List.map_map, List.map_map]
  apply List.map_congr_left
  intro x _
  simp only [Function.comp, cols, row1, encPosNeg, List.map_cons, List.map_nil, List.getD_cons_zero,
    List.getD_cons_succ, isPos, ind_decide, ind_not_decide]

/-! ## Statement 2: `__splink__labels_with_pos_neg_tt_adj` -/

theorem ttAdj_eval (cfg : Cfg) (xs : List Scored) (hopt : cfg.scoreNotFoundAsZero = true) (db : Db)
    (hin : db "__splink__labels_with_pos_neg" = xs.map (row1 cfg)) :
    (Gen.AccSql.labelsWithPosNegTtAdj (Val.int cfg.sentinel)).eval db = xs.map (row2 cfg) := by
  unfold Gen.AccSql.labelsWithPosNegTtAdj
  rw [eval_project, eval_table, hin, List.map_map]
  apply List.map_congr_left
  intro x _
  simp only [Function.comp, row1, row2, List.map_cons, List.map_nil, Expr.eval, List.getD_cons_zero,
    List.getD_cons_succ, adjScore, hopt, if_true]
  cases x.found <;> simp

/-- The columns (truth_threshold_adj, clerical_positive, clerical_negative) of the SQL table are the model's
`labelsWithPosNegTtAdj ∘ labelsWithPosNeg`. -/
theorem ttAdj_model (cfg : Cfg) (xs : List Scored) :
    (xs.map (row2 cfg)).map (cols [6, 4, 5])
      = (Accuracy.labelsWithPosNegTtAdj cfg (Accuracy.labelsWithPosNeg cfg xs)).map encAdj := by
  rw [Lemmas.Acc.adj_eq, List.map_map, List.map_map]
  rfl

/-! ## Statement 3: `__splink__labels_with_pos_neg_grouped` -/

/-- One group of the model's `grouped`. -/
def groupOf (ys : List PosNegAdj) (k : Int) : Grouped :=
  { truthThreshold := k
    numRecordsInRow := (ys.filter (fun x => x.truthThresholdAdj == k)).length
    clericalPositive := ((ys.filter (fun x => x.truthThresholdAdj == k)).map (·.clericalPositive)).sum
    clericalNegative := ((ys.filter (fun x => x.truthThresholdAdj == k)).map (·.clericalNegative)).sum }

theorem grouped_eq (ys : List PosNegAdj) :
    Accuracy.grouped ys = (Accuracy.distinct (ys.map (·.truthThresholdAdj))).map (groupOf ys) := rfl

/-- The grouped table in the order SQL's `GROUP BY` (first occurrences, `List.eraseDups`) produces it. -/
def groupedSql (ys : List PosNegAdj) : List Grouped :=
  ((ys.map (·.truthThresholdAdj)).eraseDups).map (groupOf ys)

/-- Same groups as the model, possibly in another order. -/
theorem groupedSql_perm (ys : List PosNegAdj) : (groupedSql ys).Perm (Accuracy.grouped ys) := by
  rw [grouped_eq]
  unfold groupedSql
  apply List.Perm.map
  apply perm_of_nodup_of_mem (nodup_eraseDups _) (Lemmas.Acc.distinct_nodup _)
  intro a
  rw [List.mem_eraseDups, Lemmas.Acc.mem_distinct]

theorem singleton_int_beq (a b : Int) : ([Val.int a] == [Val.int b]) = (a == b) := by
  by_cases h : a = b
  · subst h; simp
  · simp [h]

theorem grouped_eval (cfg : Cfg) (xs : List Scored) (db : Db)
    (hin : db "__splink__labels_with_pos_neg_tt_adj" = xs.map (row2 cfg)) :
    Gen.AccSql.labelsWithPosNegGrouped.eval db = (groupedSql (xs.map (adjRow cfg))).map encG := by
  unfold Gen.AccSql.labelsWithPosNegGrouped
  rw [eval_groupBy, eval_table, hin]
  unfold groupRows
  simp only [List.isEmpty_cons, Bool.false_eq_true, if_false]
  have hkeys : (xs.map (row2 cfg)).map (fun row => [Expr.col 6].map (·.eval row))
      = ((xs.map (adjRow cfg)).map (·.truthThresholdAdj)).map (fun k => [Val.int k]) := by
    rw [List.map_map, List.map_map, List.map_map]
    rfl
  rw [hkeys, eraseDups_map_inj (fun k => [Val.int k]) (fun a b h => by simpa using h)]
  unfold groupedSql
  simp only [List.map_map]
  apply List.map_congr_left
  intro k hk
  rw [List.mem_eraseDups, List.mem_map] at hk
  obtain ⟨x0, hx0, hk0⟩ := hk
  simp only [Function.comp]
  -- the rows of the group
  have hF : ((xs.map (row2 cfg)).filter fun row => ([Expr.col 6].map (·.eval row)) == [Val.int k])
      = (xs.filter fun x => adjScore cfg x == k).map (row2 cfg) := by
    rw [List.filter_map]
    congr 1
    apply List.filter_congr
    intro x _
    show ([Val.int (adjScore cfg x)] == [Val.int k]) = _
    exact singleton_int_beq _ _
  have hG : ((xs.map (adjRow cfg)).filter fun y => y.truthThresholdAdj == k)
      = (xs.filter fun x => adjScore cfg x == k).map (adjRow cfg) := by
    rw [List.filter_map]
    rfl
  have hne : (xs.filter fun x => adjScore cfg x == k) ≠ [] := by
    intro hnil
    have : x0 ∈ xs.filter fun x => adjScore cfg x == k :=
      List.mem_filter.mpr ⟨hx0, by simpa [adjRow] using hk0⟩
    rw [hnil] at this
    cases this
  rw [hF]
  unfold groupOf
  rw [hG]
  generalize (xs.filter fun x => adjScore cfg x == k) = F at hne
  have c2 : (Agg.sum (Expr.col 4)).eval (F.map (row2 cfg))
      = Val.int ((F.map fun x => (adjRow cfg x).clericalPositive).sum) := by
    show sumVals ((F.map (row2 cfg)).map (Expr.col 4).eval) = _
    rw [List.map_map]
    exact sumVals_map_int (fun x => (adjRow cfg x).clericalPositive) F hne
  have c3 : (Agg.sum (Expr.col 5)).eval (F.map (row2 cfg))
      = Val.int ((F.map fun x => (adjRow cfg x).clericalNegative).sum) := by
    show sumVals ((F.map (row2 cfg)).map (Expr.col 5).eval) = _
    rw [List.map_map]
    exact sumVals_map_int (fun x => (adjRow cfg x).clericalNegative) F hne
  simp only [List.map_cons, List.map_nil, c2, c3]
  simp only [Agg.eval, List.length_map, List.map_map, encG, List.cons_append, List.nil_append]
  rfl

/-! ## Statement 4: `__splink__labels_with_pos_neg_grouped_with_stats` -/

open SplinkVerif.Accuracy (windowDesc windowAsc) in
/-- The two cumulative windows (`order by truth_threshold desc` / `asc`, default RANGE frame — the model's `windowDesc` /
`windowAsc` are RANGE frames too, so ties need no side condition), the three scalar subqueries (cross joins with
one-row global sums) and the final projection compute `Accuracy.groupedWithStats`, for **every** grouped table `gs`
(the empty one included: no row on either side, the NULL of `sum` over no row is never looked at). -/
theorem stats_eval (gs : List Grouped) (db : Db)
    (hin : db "__splink__labels_with_pos_neg_grouped" = gs.map encG) :
    Gen.AccSql.labelsWithPosNegGroupedWithStats.eval db = (Accuracy.groupedWithStats gs).map encS := by
  by_cases hne : gs = []
  · subst hne
    simp [Gen.AccSql.labelsWithPosNegGroupedWithStats, Rel.eval, hin, Accuracy.groupedWithStats]
  unfold Gen.AccSql.labelsWithPosNegGroupedWithStats
  have hT : (Rel.table "__splink__labels_with_pos_neg_grouped").eval db = gs.map encG := hin
  -- sum(clerical_positive) over (order by truth_threshold desc)
  have e1 := windowCum_desc_sum_map db _ (Expr.col 0) (Expr.col 2) gs encG (·.truthThreshold)
    (·.clericalPositive) hT (fun _ => rfl) (fun _ => rfl)
  -- sum(clerical_negative) over (order by truth_threshold)
  have e2 := windowCum_asc_sum_map db _ (Expr.col 0) (Expr.col 3) gs _ (·.truthThreshold)
    (·.clericalNegative) e1 (fun _ => rfl) (fun _ => rfl)
  -- the three scalar subqueries
  have g1 := globalSum_map db _ (Expr.col 2) gs encG (·.clericalPositive) hT (fun _ => rfl) hne
  have g2 := globalSum_map db _ (Expr.col 3) gs encG (·.clericalNegative) hT (fun _ => rfl) hne
  have g3 := globalSum_map db _ (Expr.col 1) gs encG (·.numRecordsInRow) hT (fun _ => rfl) hne
  have e3 := (eval_join db false (Expr.lit (Val.bool true))
    (Rel.windowCum (Expr.col 0) false (Agg.sum (Expr.col 3))
      (Rel.windowCum (Expr.col 0) true (Agg.sum (Expr.col 2)) (Rel.table "__splink__labels_with_pos_neg_grouped")))
    (Rel.groupBy [] [Agg.sum (Expr.col 2)] (Rel.table "__splink__labels_with_pos_neg_grouped")) 1)
  rw [e2, g1, joinRows_scalar, List.map_map] at e3
  have e4 := (eval_join db false (Expr.lit (Val.bool true)) _
    (Rel.groupBy [] [Agg.sum (Expr.col 3)] (Rel.table "__splink__labels_with_pos_neg_grouped")) 1).trans
    (congrArg (fun A => joinRows false (Expr.lit (Val.bool true)) A _ 1) e3)
  rw [g2, joinRows_scalar, List.map_map] at e4
  have e5 := (eval_join db false (Expr.lit (Val.bool true)) _
    (Rel.groupBy [] [Agg.sum (Expr.col 1)] (Rel.table "__splink__labels_with_pos_neg_grouped")) 1).trans
    (congrArg (fun A => joinRows false (Expr.lit (Val.bool true)) A _ 1) e4)
  rw [g3, joinRows_scalar, List.map_map] at e5
  -- sum(num_records_in_row) over (order by truth_threshold)
  have e6 := windowCum_asc_sum_map db _ (Expr.col 0) (Expr.col 1) gs _ (·.truthThreshold)
    (·.numRecordsInRow) e5 (fun _ => rfl) (fun _ => rfl)
  -- sum(num_records_in_row) over (order by truth_threshold desc)
  have e7 := windowCum_desc_sum_map db _ (Expr.col 0) (Expr.col 1) gs _ (·.truthThreshold)
    (·.numRecordsInRow) e6 (fun _ => rfl) (fun _ => rfl)
  rw [eval_project, e7]
  unfold Accuracy.groupedWithStats
  rw [List.map_map, List.map_map]
  apply List.map_congr_left
  intro g _
  simp [encG, encS, Expr.eval, Arith.eval, windowDesc, windowAsc]

/-! ## Statement 5: `__splink__labels_with_pos_neg_grouped_with_stats_adj` (labels from a table: `select *`) -/

theorem statsAdj_eval (ss : List Stats) (db : Db)
    (hin : db "__splink__labels_with_pos_neg_grouped_with_stats" = ss.map encS) :
    Gen.AccSql.labelsWithPosNegGroupedWithStatsAdj.eval db = (Accuracy.statsAdj none ss).map encS := hin

/-! ## Statement 6: `__splink__labels_with_pos_neg_grouped_with_truth_stats` -/

theorem truthStats_eval (ss : List Stats) (db : Db)
    (hin : db "__splink__labels_with_pos_neg_grouped_with_stats_adj" = ss.map encS) :
    Gen.AccSql.labelsWithPosNegGroupedWithTruthStats.eval db = (Accuracy.truthStats ss).map encT := by
  unfold Gen.AccSql.labelsWithPosNegGroupedWithTruthStats Accuracy.truthStats
  rw [eval_project, eval_table, hin, List.map_map, List.map_map]
  apply List.map_congr_left
  intro s _
  simp [encS, encT, Expr.eval, Arith.eval]

/-! ## The model's later tables do not depend on the order of the grouped table -/

theorem groupedWithStats_perm {gs gs' : List Grouped} (p : gs.Perm gs') :
    (Accuracy.groupedWithStats gs).Perm (Accuracy.groupedWithStats gs') := by
  have h1 : ∀ (col : Grouped → Int) (g : Grouped),
      Accuracy.windowDesc gs col g = Accuracy.windowDesc gs' col g :=
    fun col g => sum_perm ((p.filter _).map _)
  have h2 : ∀ (col : Grouped → Int) (g : Grouped),
      Accuracy.windowAsc gs col g = Accuracy.windowAsc gs' col g :=
    fun col g => sum_perm ((p.filter _).map _)
  have h3 : ∀ (col : Grouped → Int), (gs.map col).sum = (gs'.map col).sum :=
    fun col => sum_perm (p.map _)
  unfold Accuracy.groupedWithStats
  refine (p.map _).trans (List.Perm.of_eq ?_)
  apply List.map_congr_left
  intro g _
  rw [h1, h1, h2, h2, h3 (·.clericalPositive), h3 (·.clericalNegative), h3 (·.numRecordsInRow)]

/-! ## The pipeline -/

/-- **Exact form.**  The SQL pipeline returns the model's truth rows computed on the grouped table in `GROUP BY`'s
order — row for row. -/
theorem truthStats_eq (cfg : Cfg) (xs : List Scored) (hopt : cfg.scoreNotFoundAsZero = true) :
    SplinkVerif.AccSql.truthStats (xs.map (encIn cfg)) (Val.int cfg.thresholdActual) (Val.int cfg.sentinel)
      = (Accuracy.truthStats (Accuracy.statsAdj none (Accuracy.groupedWithStats
          (groupedSql (xs.map (adjRow cfg)))))).map encT := by
  obtain ⟨db0, hdb0⟩ : ∃ d : Db, d = Db.set (fun _ => []) "lwp_in" (xs.map (encIn cfg)) := ⟨_, rfl⟩
  obtain ⟨db1, hdb1⟩ : ∃ d : Db, d = Db.set db0 "__splink__labels_with_pos_neg"
    ((Gen.AccSql.labelsWithPosNeg (Val.int cfg.thresholdActual)).eval db0) := ⟨_, rfl⟩
  obtain ⟨db2, hdb2⟩ : ∃ d : Db, d = Db.set db1 "__splink__labels_with_pos_neg_tt_adj"
    ((Gen.AccSql.labelsWithPosNegTtAdj (Val.int cfg.sentinel)).eval db1) := ⟨_, rfl⟩
  obtain ⟨db3, hdb3⟩ : ∃ d : Db, d = Db.set db2 "__splink__labels_with_pos_neg_grouped"
    (Gen.AccSql.labelsWithPosNegGrouped.eval db2) := ⟨_, rfl⟩
  obtain ⟨db4, hdb4⟩ : ∃ d : Db, d = Db.set db3 "__splink__labels_with_pos_neg_grouped_with_stats"
    (Gen.AccSql.labelsWithPosNegGroupedWithStats.eval db3) := ⟨_, rfl⟩
  obtain ⟨db5, hdb5⟩ : ∃ d : Db, d = Db.set db4 "__splink__labels_with_pos_neg_grouped_with_stats_adj"
    (Gen.AccSql.labelsWithPosNegGroupedWithStatsAdj.eval db4) := ⟨_, rfl⟩
  have hrun : SplinkVerif.AccSql.truthStats (xs.map (encIn cfg)) (Val.int cfg.thresholdActual)
      (Val.int cfg.sentinel) = Gen.AccSql.labelsWithPosNegGroupedWithTruthStats.eval db5 := by
    rw [hdb5, hdb4, hdb3, hdb2, hdb1, hdb0]
    unfold SplinkVerif.AccSql.truthStats Gen.AccSql.stmts
    simp only [runStmts]
    rw [set_same]
  rw [hrun]
  have h1 : db1 "__splink__labels_with_pos_neg" = xs.map (row1 cfg) := by
    rw [hdb1, set_same]
    exact posNeg_eval cfg xs db0 (by rw [hdb0, set_same])
  have h2 : db2 "__splink__labels_with_pos_neg_tt_adj" = xs.map (row2 cfg) := by
    rw [hdb2, set_same]
    exact ttAdj_eval cfg xs hopt db1 h1
  have h3 : db3 "__splink__labels_with_pos_neg_grouped" = (groupedSql (xs.map (adjRow cfg))).map encG := by
    rw [hdb3, set_same]
    exact grouped_eval cfg xs db2 h2
  have h4 := stats_eval _ db3 h3
  rw [← set_same db3 "__splink__labels_with_pos_neg_grouped_with_stats"
    (Gen.AccSql.labelsWithPosNegGroupedWithStats.eval db3), ← hdb4] at h4
  have h5 := statsAdj_eval _ db4 h4
  rw [← set_same db4 "__splink__labels_with_pos_neg_grouped_with_stats_adj"
    (Gen.AccSql.labelsWithPosNegGroupedWithStatsAdj.eval db4), ← hdb5] at h5
  exact truthStats_eval _ db5 h5

/-- **Refinement.**  Labels from a table, not-found option on: the SQL pipeline returns a permutation of the rows of
`Accuracy.truthRows` (no hypothesis on `xs`: ties, duplicates and the empty input included). -/
theorem truthStats_perm_model (cfg : Cfg) (xs : List Scored) (hopt : cfg.scoreNotFoundAsZero = true)
    (htot : cfg.totalLabels = none) :
    (SplinkVerif.AccSql.truthStats (xs.map (encIn cfg)) (Val.int cfg.thresholdActual)
        (Val.int cfg.sentinel)).Perm ((Accuracy.truthRows cfg xs).map encT) := by
  rw [truthStats_eq cfg xs hopt]
  unfold Accuracy.truthRows
  rw [htot, Lemmas.Acc.adj_eq]
  apply List.Perm.map
  unfold Accuracy.truthStats
  apply List.Perm.map
  exact groupedWithStats_perm (groupedSql_perm _)

/-- No label, no row — on both sides (the NULL of `sum` over no row is never returned). -/
theorem truthStats_nil (thr sentinel : Val) : SplinkVerif.AccSql.truthStats [] thr sentinel = [] := by
  unfold SplinkVerif.AccSql.truthStats Gen.AccSql.stmts
  simp [runStmts, Db.set, Rel.eval, Gen.AccSql.labelsWithPosNeg, Gen.AccSql.labelsWithPosNegTtAdj,
    Gen.AccSql.labelsWithPosNegGrouped, Gen.AccSql.labelsWithPosNegGroupedWithStats,
    Gen.AccSql.labelsWithPosNegGroupedWithStatsAdj, Gen.AccSql.labelsWithPosNegGroupedWithTruthStats]

/-- Every row the SQL returns is the encoding of a row of the model. -/
theorem mem_truthStats (cfg : Cfg) (xs : List Scored) (hopt : cfg.scoreNotFoundAsZero = true)
    (htot : cfg.totalLabels = none) (row : Row) :
    row ∈ SplinkVerif.AccSql.truthStats (xs.map (encIn cfg)) (Val.int cfg.thresholdActual) (Val.int cfg.sentinel)
      ↔ ∃ r ∈ Accuracy.truthRows cfg xs, row = encT r := by
  rw [(truthStats_perm_model cfg xs hopt htot).mem_iff, List.mem_map]
  constructor
  · rintro ⟨r, hr, rfl⟩; exact ⟨r, hr, rfl⟩
  · rintro ⟨r, hr, rfl⟩; exact ⟨r, hr, rfl⟩

/-! ## The C15 theorems at the level of the SQL -/

open SplinkVerif.Lemmas.Acc (cnt ghosts)

theorem ghosts_none (cfg : Cfg) (xs : List Scored) (htot : cfg.totalLabels = none) : ghosts cfg xs = 0 := by
  unfold ghosts
  rw [htot]

/-- The SQL result of the labels-table / not-found-option variant. -/
abbrev sqlRows (cfg : Cfg) (xs : List Scored) : List Row :=
  SplinkVerif.AccSql.truthStats (xs.map (encIn cfg)) (Val.int cfg.thresholdActual) (Val.int cfg.sentinel)

/-- Every returned row is eight integers obeying the counting identities. -/
theorem conservation_sql (cfg : Cfg) (xs : List Scored) (hopt : cfg.scoreNotFoundAsZero = true)
    (htot : cfg.totalLabels = none) :
    ∀ row ∈ sqlRows cfg xs, ∃ t total p n fp tp fn tn : Int,
      row = [Val.int t, Val.int total, Val.int p, Val.int n, Val.int fp, Val.int tp, Val.int fn, Val.int tn] ∧
      tp + fn = p ∧ tn + fp = n ∧ p + n = total := by
  intro row hrow
  obtain ⟨r, hr, rfl⟩ := (mem_truthStats cfg xs hopt htot row).mp hrow
  exact ⟨r.truthThreshold, r.total, r.p, r.n, r.fp, r.tp, r.fn, r.tn, rfl,
    Lemmas.Acc.conservation_rows cfg xs hr⟩

/-- Every returned row is the direct recount of the labelled pairs at its threshold. -/
theorem recount_sql (cfg : Cfg) (xs : List Scored) (hopt : cfg.scoreNotFoundAsZero = true)
    (htot : cfg.totalLabels = none) :
    ∀ row ∈ sqlRows cfg xs, ∃ t : Int,
      (∃ x ∈ xs, adjScore cfg x = t) ∧
      row = [Val.int t, Val.int (xs.length : Int),
        Val.int (cnt xs (fun x => isPos cfg x)),
        Val.int (cnt xs (fun x => !isPos cfg x)),
        Val.int (cnt xs (fun x => !isPos cfg x && decide (adjScore cfg x ≥ t))),
        Val.int (cnt xs (fun x => isPos cfg x && decide (adjScore cfg x ≥ t))),
        Val.int (cnt xs (fun x => isPos cfg x && decide (adjScore cfg x < t))),
        Val.int (cnt xs (fun x => !isPos cfg x && decide (adjScore cfg x < t)))] := by
  intro row hrow
  obtain ⟨r, hr, rfl⟩ := (mem_truthStats cfg xs hopt htot row).mp hrow
  obtain ⟨h1, h2, h3, h4, h5, h6, h7⟩ := Lemmas.Acc.recount_rows cfg xs hr
  rw [ghosts_none cfg xs htot, Int.add_zero] at h4 h6 h7
  refine ⟨r.truthThreshold, (Lemmas.Acc.row_S cfg xs hr).1, ?_⟩
  unfold encT
  rw [h1, h2, h3, h4, h5, h6, h7]

/-- Not found = predicted negative, at the level of the SQL: at every threshold above the sentinel TP and FP count only
pairs found by the blocking rules. -/
theorem not_found_sql (cfg : Cfg) (xs : List Scored) (hopt : cfg.scoreNotFoundAsZero = true)
    (htot : cfg.totalLabels = none) :
    ∀ r : TruthRow, encT r ∈ sqlRows cfg xs → cfg.sentinel < r.truthThreshold →
      r.tp = cnt xs (fun x => isPos cfg x && (x.found && decide (cfg.bucket x.weight ≥ r.truthThreshold))) ∧
      r.fp = cnt xs (fun x => !isPos cfg x && (x.found && decide (cfg.bucket x.weight ≥ r.truthThreshold))) := by
  intro r hrow hs
  obtain ⟨r', hr, he⟩ := (mem_truthStats cfg xs hopt htot _).mp hrow
  have := encT_inj _ _ he
  subst this
  obtain ⟨h1, h2, _⟩ := Lemmas.Acc.recount_rows cfg xs hr
  have key : ∀ x : Scored, decide (adjScore cfg x ≥ r.truthThreshold)
      = (x.found && decide (cfg.bucket x.weight ≥ r.truthThreshold)) := by
    intro x
    unfold adjScore
    rw [hopt]
    cases hf : x.found
    · have : ¬ cfg.sentinel ≥ r.truthThreshold := by omega
      simp [this]
    · simp
  rw [h1, h2]
  constructor
  · exact Lemmas.Acc.cnt_congr xs _ _ (fun x _ => by rw [key])
  · exact Lemmas.Acc.cnt_congr xs _ _ (fun x _ => by rw [key])

/-- TP and FP are non-increasing in the threshold, TN and FN non-decreasing — between any two returned rows. -/
theorem monotone_sql (cfg : Cfg) (xs : List Scored) (hopt : cfg.scoreNotFoundAsZero = true)
    (htot : cfg.totalLabels = none) (r₁ r₂ : TruthRow) (h₁ : encT r₁ ∈ sqlRows cfg xs)
    (h₂ : encT r₂ ∈ sqlRows cfg xs) (hle : r₁.truthThreshold ≤ r₂.truthThreshold) :
    r₂.tp ≤ r₁.tp ∧ r₂.fp ≤ r₁.fp ∧ r₁.tn ≤ r₂.tn ∧ r₁.fn ≤ r₂.fn := by
  obtain ⟨a, ha, ea⟩ := (mem_truthStats cfg xs hopt htot _).mp h₁
  obtain ⟨b, hb, eb⟩ := (mem_truthStats cfg xs hopt htot _).mp h₂
  have := encT_inj _ _ ea
  subst this
  have := encT_inj _ _ eb
  subst this
  exact Lemmas.Acc.monotone_rows cfg xs ha hb hle

/-- One row per distinct adjusted score: the `truth_threshold` column of the SQL result is duplicate-free and holds
exactly the adjusted scores of the labelled pairs (the sentinel included: the final `where` is a later statement). -/
theorem thresholds_sql (cfg : Cfg) (xs : List Scored) (hopt : cfg.scoreNotFoundAsZero = true)
    (htot : cfg.totalLabels = none) :
    ((sqlRows cfg xs).map fun row => row.getD 0 Val.null).Perm
      ((Accuracy.distinct (xs.map (adjScore cfg))).map Val.int) := by
  refine ((truthStats_perm_model cfg xs hopt htot).map _).trans (List.Perm.of_eq ?_)
  rw [← Lemmas.Acc.thresholds_eq, List.map_map, List.map_map]
  rfl

theorem thresholds_sql_exact (cfg : Cfg) (xs : List Scored) (hopt : cfg.scoreNotFoundAsZero = true)
    (htot : cfg.totalLabels = none) :
    ((sqlRows cfg xs).map fun row => row.getD 0 Val.null).Nodup ∧
    ∀ t : Int, Val.int t ∈ ((sqlRows cfg xs).map fun row => row.getD 0 Val.null) ↔
      ∃ x ∈ xs, adjScore cfg x = t := by
  have p := thresholds_sql cfg xs hopt htot
  constructor
  · apply p.symm.nodup
    exact (Lemmas.Acc.distinct_nodup _).map (fun a b h => by simpa using h)
  · intro t
    rw [p.mem_iff, List.mem_map]
    constructor
    · rintro ⟨k, hk, hkt⟩
      have : k = t := by simpa using hkt
      subst this
      rw [Lemmas.Acc.mem_distinct, List.mem_map] at hk
      exact hk
    · rintro ⟨x, hx, rfl⟩
      exact ⟨_, (Lemmas.Acc.mem_distinct _ _).mpr (List.mem_map.mpr ⟨x, hx, rfl⟩), rfl⟩

/-! ## Row order of the input table -/

/-- A permutation of a mapped list is the map of a permutation. -/
theorem perm_map_inv {α β : Type} (f : α → β) {l m : List β} (p : l.Perm m) :
    ∀ xs : List α, xs.map f = m → ∃ xs' : List α, xs'.Perm xs ∧ l = xs'.map f := by
  induction p with
  | nil =>
    intro xs h
    exact ⟨[], by rw [List.map_eq_nil_iff.mp h], rfl⟩
  | cons x _ ih =>
    intro xs h
    cases xs with
    | nil => cases h
    | cons a xs =>
      rw [List.map_cons, List.cons.injEq] at h
      obtain ⟨xs', p', e⟩ := ih xs h.2
      exact ⟨a :: xs', p'.cons a, by rw [List.map_cons, h.1, e]⟩
  | swap x y l =>
    intro xs h
    cases xs with
    | nil => cases h
    | cons a xs =>
      cases xs with
      | nil => cases h
      | cons b xs =>
        simp only [List.map_cons, List.cons.injEq] at h
        obtain ⟨h1, h2, h3⟩ := h
        exact ⟨b :: a :: xs, List.Perm.swap a b xs, by simp [h1, h2, h3]⟩
  | trans _ _ ih₁ ih₂ =>
    intro xs h
    obtain ⟨xs₂, p₂, e₂⟩ := ih₂ xs h
    obtain ⟨xs₁, p₁, e₁⟩ := ih₁ xs₂ e₂.symm
    exact ⟨xs₁, p₁.trans p₂, e₁⟩

theorem grouped_perm {ys ys' : List PosNegAdj} (p : ys.Perm ys') :
    (Accuracy.grouped ys).Perm (Accuracy.grouped ys') := by
  rw [grouped_eq, grouped_eq]
  have hk : (Accuracy.distinct (ys.map (·.truthThresholdAdj))).Perm
      (Accuracy.distinct (ys'.map (·.truthThresholdAdj))) := by
    apply perm_of_nodup_of_mem (Lemmas.Acc.distinct_nodup _) (Lemmas.Acc.distinct_nodup _)
    intro a
    rw [Lemmas.Acc.mem_distinct, Lemmas.Acc.mem_distinct]
    exact (p.map _).mem_iff
  refine (hk.map _).trans (List.Perm.of_eq ?_)
  apply List.map_congr_left
  intro k _
  unfold groupOf
  rw [(p.filter _).length_eq, sum_perm ((p.filter _).map (·.clericalPositive)),
    sum_perm ((p.filter _).map (·.clericalNegative))]

/-- The model's truth rows do not depend on the order of the labelled pairs (up to row order). -/
theorem truthRows_perm (cfg : Cfg) {xs xs' : List Scored} (p : xs.Perm xs') :
    (Accuracy.truthRows cfg xs).Perm (Accuracy.truthRows cfg xs') := by
  unfold Accuracy.truthRows
  rw [Lemmas.Acc.adj_eq, Lemmas.Acc.adj_eq]
  unfold Accuracy.truthStats
  apply List.Perm.map
  have hg := groupedWithStats_perm (grouped_perm (p.map (adjRow cfg)))
  cases cfg.totalLabels with
  | none => exact hg
  | some t => exact hg.map _

/-- **Row order of `lwp_in` is irrelevant**: on any permutation of the encoded input the SQL pipeline returns a
permutation of the model's rows. -/
theorem truthStats_perm_model_any_order (cfg : Cfg) (xs : List Scored) (hopt : cfg.scoreNotFoundAsZero = true)
    (htot : cfg.totalLabels = none) (lwp : List Row) (hl : lwp.Perm (xs.map (encIn cfg))) :
    (SplinkVerif.AccSql.truthStats lwp (Val.int cfg.thresholdActual) (Val.int cfg.sentinel)).Perm
      ((Accuracy.truthRows cfg xs).map encT) := by
  obtain ⟨xs', p', rfl⟩ := perm_map_inv (encIn cfg) hl xs rfl
  exact (truthStats_perm_model cfg xs' hopt htot).trans ((truthRows_perm cfg p').map _)

end SplinkVerif.Lemmas.AccSql
