import SplinkVerif.Model.Levels
/-! Lemmas for C16 (core Lean only). -/
namespace SplinkVerif.Levels
open SplinkVerif SplinkVerif.B3

/-! ### Three-valued logic -/

theorem b3_cases (P : B3 → Prop) (h0 : P none) (h1 : P (some true)) (h2 : P (some false)) : ∀ a, P a
  | none => h0
  | some true => h1
  | some false => h2

theorem and3_comm (a b : B3) : and3 a b = and3 b a := by
  revert a b
  refine b3_cases _ ?_ ?_ ?_ <;> refine b3_cases _ ?_ ?_ ?_ <;> rfl

theorem or3_comm (a b : B3) : or3 a b = or3 b a := by
  revert a b
  refine b3_cases _ ?_ ?_ ?_ <;> refine b3_cases _ ?_ ?_ ?_ <;> rfl

theorem and3_assoc (a b c : B3) : and3 (and3 a b) c = and3 a (and3 b c) := by
  revert a b c
  refine b3_cases _ ?_ ?_ ?_ <;> refine b3_cases _ ?_ ?_ ?_ <;> refine b3_cases _ ?_ ?_ ?_ <;> rfl

theorem or3_assoc (a b c : B3) : or3 (or3 a b) c = or3 a (or3 b c) := by
  revert a b c
  refine b3_cases _ ?_ ?_ ?_ <;> refine b3_cases _ ?_ ?_ ?_ <;> refine b3_cases _ ?_ ?_ ?_ <;> rfl

theorem not3_and3 (a b : B3) : not3 (and3 a b) = or3 (not3 a) (not3 b) := by
  revert a b
  refine b3_cases _ ?_ ?_ ?_ <;> refine b3_cases _ ?_ ?_ ?_ <;> rfl

theorem not3_or3 (a b : B3) : not3 (or3 a b) = and3 (not3 a) (not3 b) := by
  revert a b
  refine b3_cases _ ?_ ?_ ?_ <;> refine b3_cases _ ?_ ?_ ?_ <;> rfl

theorem not3_not3 (a : B3) : not3 (not3 a) = a := by
  revert a; refine b3_cases _ ?_ ?_ ?_ <;> rfl

theorem isTrue_and3 (a b : B3) : isTrue (and3 a b) = (isTrue a && isTrue b) := by
  revert a b
  refine b3_cases _ ?_ ?_ ?_ <;> refine b3_cases _ ?_ ?_ ?_ <;> rfl

theorem isTrue_or3 (a b : B3) : isTrue (or3 a b) = (isTrue a || isTrue b) := by
  revert a b
  refine b3_cases _ ?_ ?_ ?_ <;> refine b3_cases _ ?_ ?_ ?_ <;> rfl

theorem and3_ne_none' : ∀ (a b : B3), a ≠ none → b ≠ none → and3 a b ≠ none := by
  refine b3_cases _ ?_ ?_ ?_ <;> refine b3_cases _ ?_ ?_ ?_ <;> simp [and3]

theorem and3_ne_none {a b : B3} (ha : a ≠ none) (hb : b ≠ none) : and3 a b ≠ none := and3_ne_none' a b ha hb

theorem or3_ne_none' : ∀ (a b : B3), a ≠ none → b ≠ none → or3 a b ≠ none := by
  refine b3_cases _ ?_ ?_ ?_ <;> refine b3_cases _ ?_ ?_ ?_ <;> simp [or3]

theorem or3_ne_none {a b : B3} (ha : a ≠ none) (hb : b ≠ none) : or3 a b ≠ none := or3_ne_none' a b ha hb

/-! ### Null levels -/

theorem Val.isNull_iff (v : Val) : v.isNull = true ↔ v = .null := by
  cases v <;> simp [Val.isNull]

theorem sat_null (M : Metrics) (c : ColExpr) (l r : Env) :
    sat M (.null c) l r ≠ none ∧ (sat M (.null c) l r = some true ↔ (l c = .null ∨ r c = .null)) := by
  constructor
  · simp [sat]
  · simp [sat, Val.isNull_iff]

theorem null_levels_two_valued (M : Metrics) (l r : Env) :
    ∀ k : LevelKind, isNullLevel k = true → sat M k l r ≠ none := by
  intro k
  induction k with
  | null c => intro _; simp [sat]
  | and a b iha ihb =>
    intro h
    simp [isNullLevel] at h
    simpa [sat] using and3_ne_none (iha h.1) (ihb h.2)
  | or a b iha ihb =>
    intro h
    simp [isNullLevel] at h
    simpa [sat] using or3_ne_none (iha h.1) (ihb h.2)
  | _ => intro h; simp [isNullLevel] at h

theorem sat_not_null (M : Metrics) (c : ColExpr) (l r : Env) :
    sat M (.not (.null c)) l r = some true ↔ (l c ≠ .null ∧ r c ≠ .null) := by
  simp [sat, not3, ← Val.isNull_iff]

/-! ### Threshold monotonicity -/

theorem cmpLe_mono {d : Option Rat} {t₁ t₂ : Rat} (h : t₁ ≤ t₂) :
    isTrue (cmpLe d t₁) = true → isTrue (cmpLe d t₂) = true := by
  cases d with
  | none => simp [cmpLe, B3.isTrue]
  | some x =>
    by_cases h1 : x ≤ t₁
    · have h2 : x ≤ t₂ := Rat.le_trans h1 h
      simp [cmpLe, B3.isTrue, h1, h2]
    · simp [cmpLe, B3.isTrue, h1]

theorem cmpGe_mono {d : Option Rat} {t₁ t₂ : Rat} (h : t₂ ≤ t₁) :
    isTrue (cmpGe d t₁) = true → isTrue (cmpGe d t₂) = true := by
  cases d with
  | none => simp [cmpGe, B3.isTrue]
  | some x =>
    by_cases h1 : t₁ ≤ x
    · have h2 : t₂ ≤ x := Rat.le_trans h h1
      simp [cmpGe, B3.isTrue, h1, h2]
    · simp [cmpGe, B3.isTrue, h1]

theorem cmpLt_mono {d : Option Rat} {t₁ t₂ : Rat} (h : t₁ ≤ t₂) :
    isTrue (cmpLt d t₁) = true → isTrue (cmpLt d t₂) = true := by
  cases d with
  | none => simp [cmpLt, B3.isTrue]
  | some x =>
    by_cases h1 : x < t₁
    · have h2 : x < t₂ := by
        apply Rat.not_le.mp
        intro h3
        exact (Rat.not_le.mpr h1) (Rat.le_trans h h3)
      simp [cmpLt, B3.isTrue, h1, h2]
    · simp [cmpLt, B3.isTrue, h1]

theorem seconds_nonneg (u : TimeUnit) : (0 : Rat) ≤ u.seconds := by
  cases u <;> decide

theorem mul_seconds_mono {a b : Rat} (u : TimeUnit) (h : a ≤ b) : a * u.seconds ≤ b * u.seconds := by
  rw [Rat.mul_comm a, Rat.mul_comm b]
  exact Rat.mul_le_mul_of_nonneg_left h (seconds_nonneg u)

theorem family_nested' (M : Metrics) (f : Family) (k₁ k₂ : Q) (l r : Env)
    (h : if f.ascending = true then k₁.toRat ≤ k₂.toRat else k₂.toRat ≤ k₁.toRat) :
    isTrue (sat M (f.level k₁) l r) = true → isTrue (sat M (f.level k₂) l r) = true := by
  cases f with
  | levenshtein c => simp [Family.ascending] at h; simpa [Family.level, sat] using cmpLe_mono h
  | damerauLevenshtein c => simp [Family.ascending] at h; simpa [Family.level, sat] using cmpLe_mono h
  | dlOrLev c => simp [Family.ascending] at h; simpa [Family.level, sat] using cmpLe_mono h
  | jaroWinkler c => simp [Family.ascending] at h; simpa [Family.level, sat] using cmpGe_mono h
  | jaro c => simp [Family.ascending] at h; simpa [Family.level, sat] using cmpGe_mono h
  | jaccard c => simp [Family.ascending] at h; simpa [Family.level, sat] using cmpGe_mono h
  | distanceFunction c fn hi =>
    cases hi
    · simp [Family.ascending] at h; simpa [Family.level, sat] using cmpLe_mono h
    · simp [Family.ascending] at h; simpa [Family.level, sat] using cmpGe_mono h
  | pairwise c m =>
    cases hm : m.higherIsMoreSimilar
    · simp [Family.ascending, hm] at h; simpa [Family.level, sat, hm] using cmpLe_mono h
    · simp [Family.ascending, hm] at h; simpa [Family.level, sat, hm] using cmpGe_mono h
  | absoluteTimeDifference c s u fmt =>
    simp [Family.ascending] at h
    simpa [Family.level, sat] using cmpLe_mono (mul_seconds_mono u h)
  | absoluteDateDifference c s u fmt =>
    simp [Family.ascending] at h
    simpa [Family.level, sat] using cmpLe_mono (mul_seconds_mono u h)
  | distanceInKm la lo nn =>
    simp [Family.ascending] at h
    cases nn
    · simpa [Family.level, sat] using cmpLe_mono h
    · simp only [Family.level, sat, if_true, isTrue_and3, Bool.and_eq_true]
      intro hh
      exact ⟨hh.1, cmpLe_mono h hh.2⟩
  | cosineSimilarity c =>
    simp [Family.ascending] at h
    simp only [Family.level, sat]
    split
    · exact cmpGe_mono h
    · simp [B3.isTrue]
  | arrayIntersect c =>
    simp [Family.ascending] at h
    simp only [Family.level, sat]
    split
    · exact cmpGe_mono h
    · simp [B3.isTrue]
  | percentageDifference c => simp [Family.ascending] at h; simpa [Family.level, sat] using cmpLt_mono h
  | absoluteDifference c => simp [Family.ascending] at h; simpa [Family.level, sat] using cmpLe_mono h

/-! ### Exactly one level -/

theorem firstTrue_assigned (M : Metrics) (l r : Env) :
    ∀ (levels : List LevelKind) (i : Nat), firstTrue M l r levels = some i → AssignedAt M levels l r i := by
  intro levels
  induction levels with
  | nil => intro i h; simp [firstTrue] at h
  | cons x xs ih =>
    intro i h
    by_cases hx : isTrue (sat M x l r) = true
    · simp [firstTrue, hx] at h
      subst h
      exact ⟨⟨x, by simp, hx⟩, by intro j y hj; omega⟩
    · simp [firstTrue, hx] at h
      obtain ⟨i', hi', rfl⟩ := h
      obtain ⟨⟨y, hy, hyt⟩, hbefore⟩ := ih i' hi'
      refine ⟨⟨y, by simpa using hy, hyt⟩, ?_⟩
      intro j z hj hz
      cases j with
      | zero => simp at hz; subst hz; simpa using hx
      | succ j' => exact hbefore j' z (by omega) (by simpa using hz)

theorem assigned_unique (M : Metrics) (levels : List LevelKind) (l r : Env) (i k : Nat)
    (hi : AssignedAt M levels l r i) (hk : AssignedAt M levels l r k) : k = i := by
  obtain ⟨⟨x, hx, hxt⟩, hbi⟩ := hi
  obtain ⟨⟨y, hy, hyt⟩, hbk⟩ := hk
  rcases Nat.lt_trichotomy i k with h | h | h
  · have := hbk i x h hx; rw [hxt] at this; cases this
  · exact h.symm
  · have := hbi k y h hy; rw [hyt] at this; cases this

theorem firstTrue_none (M : Metrics) (l r : Env) :
    ∀ levels : List LevelKind, firstTrue M l r levels = none → ∀ x ∈ levels, isTrue (sat M x l r) = false := by
  intro levels
  induction levels with
  | nil => intro _ x hx; cases hx
  | cons y ys ih =>
    intro h x hx
    by_cases hy : isTrue (sat M y l r) = true
    · simp [firstTrue, hy] at h
    · simp [firstTrue, hy] at h
      rcases List.mem_cons.mp hx with rfl | hx'
      · simpa using hy
      · exact ih h x hx'

theorem firstTrue_some_of_else (M : Metrics) (levels : List LevelKind) (l r : Env)
    (h : levels.getLast? = some .else_) : ∃ i, firstTrue M l r levels = some i := by
  cases hf : firstTrue M l r levels with
  | some i => exact ⟨i, rfl⟩
  | none =>
    have hmem : LevelKind.else_ ∈ levels := List.mem_of_getLast? h
    have := firstTrue_none M l r levels hf _ hmem
    simp [sat, B3.isTrue] at this

theorem exactly_one_level' (M : Metrics) (levels : List LevelKind) (l r : Env)
    (h : levels.getLast? = some .else_) :
    ∃ i, firstTrue M l r levels = some i ∧ AssignedAt M levels l r i ∧
      ∀ k, AssignedAt M levels l r k → k = i := by
  obtain ⟨i, hi⟩ := firstTrue_some_of_else M levels l r h
  have ha := firstTrue_assigned M l r levels i hi
  exact ⟨i, hi, ha, fun k hk => assigned_unique M levels l r i k ha hk⟩

theorem wf_getLast {levels : List LevelKind} (h : WellFormed levels) : levels.getLast? = some .else_ := by
  unfold WellFormed wfB elseLastB at h
  simp only [Bool.and_eq_true, beq_iff_eq] at h
  exact h.1.2.1

/-! ### Clipping -/

theorem clip_bounds (x : Rat) : (-1 : Rat) ≤ clip x ∧ clip x ≤ 1 := by
  unfold clip
  by_cases h1 : x > 1
  · simp [h1]; decide
  · by_cases h2 : x < -1
    · simp [h1, h2]; decide
    · simp [h1, h2]
      exact ⟨Rat.not_lt.mp h2, Rat.not_lt.mp h1⟩

/-! ### Well-formedness of every library comparison -/

theorem orderedB_iff (levels : List LevelKind) : orderedB levels = true ↔
    levels.Pairwise (fun a b => stricterOrUnrelated a b = true ∧ notFuzzyBeforeExact a b = true) := by
  simp [orderedB]

theorem elseLastB_concat (ys : List LevelKind) (h : ∀ y ∈ ys, y ≠ .else_) : elseLastB (ys ++ [.else_]) = true := by
  simp only [elseLastB, List.getLast?_concat, List.dropLast_concat, Bool.and_eq_true, beq_self_eq_true, true_and,
    List.all_eq_true, bne_iff_ne]
  exact h

theorem elseLastB_of_eq {levels : List LevelKind} (ys : List LevelKind) (he : levels = ys ++ [.else_])
    (h : ∀ y ∈ ys, y ≠ .else_) : elseLastB levels = true := he ▸ elseLastB_concat ys h

/-- Simp set that evaluates the ordering relation on concrete constructors. -/
macro "wf_ordered" : tactic => `(tactic|
  (rw [orderedB_iff]
   simp [List.pairwise_append, List.pairwise_map, stricterOrUnrelated, notFuzzyBeforeExact, fuzzyOn, or_imp, forall_and]))

macro "wf_split" : tactic => `(tactic|
  (simp only [wfB, Bool.and_eq_true, levelsOf, stdLevels, timeLevels]
   refine ⟨⟨?_, ?_⟩, ?_⟩))

theorem comparison_well_formed' (k : ComparisonKind) (h : ArgsOrdered k) : WellFormed (levelsOf k) := by
  unfold ArgsOrdered at h
  unfold WellFormed
  cases k with
  | exactMatch c =>
    wf_split
    · simp [nullFirstB, isNullLevel]
    · exact elseLastB_of_eq [.null c, .exact c] rfl (by simp)
    · wf_ordered
  | levenshteinAtThresholds c ts =>
    simp only [argsOrderedB, ascendingB, decide_eq_true_eq] at h
    wf_split
    · simp [nullFirstB, isNullLevel]
    · apply elseLastB_concat; simp
    · wf_ordered; exact h
  | damerauLevenshteinAtThresholds c ts =>
    simp only [argsOrderedB, ascendingB, decide_eq_true_eq] at h
    wf_split
    · simp [nullFirstB, isNullLevel]
    · apply elseLastB_concat; simp
    · wf_ordered; exact h
  | jaccardAtThresholds c ts =>
    simp only [argsOrderedB, descendingB, decide_eq_true_eq] at h
    wf_split
    · simp [nullFirstB, isNullLevel]
    · apply elseLastB_concat; simp
    · wf_ordered; exact h
  | jaroAtThresholds c ts =>
    simp only [argsOrderedB, descendingB, decide_eq_true_eq] at h
    wf_split
    · simp [nullFirstB, isNullLevel]
    · apply elseLastB_concat; simp
    · wf_ordered; exact h
  | jaroWinklerAtThresholds c ts =>
    simp only [argsOrderedB, descendingB, decide_eq_true_eq] at h
    wf_split
    · simp [nullFirstB, isNullLevel]
    · apply elseLastB_concat; simp
    · wf_ordered; exact h
  | distanceFunctionAtThresholds c fn ts hi =>
    cases hi <;>
    · simp only [argsOrderedB, ascendingB, descendingB, decide_eq_true_eq, if_true, if_false, Bool.false_eq_true] at h
      wf_split
      · simp [nullFirstB, isNullLevel]
      · apply elseLastB_concat; simp
      · wf_ordered; exact h
  | pairwiseStringDistanceFunctionAtThresholds c m ts =>
    cases hm : m.higherIsMoreSimilar <;>
    · simp only [argsOrderedB, hm, ascendingB, descendingB, decide_eq_true_eq, if_true, if_false, Bool.false_eq_true] at h
      wf_split
      · simp [nullFirstB, isNullLevel]
      · apply elseLastB_concat; simp
      · wf_ordered; simp [hm]; exact h
  | absoluteTimeDifferenceAtThresholds c isStr units ts fmt inv =>
    simp only [argsOrderedB, ascendingSecondsB, decide_eq_true_eq] at h
    wf_split
    · simp [nullFirstB, isNullLevel]
    · apply elseLastB_concat; simp
      intro a x x1 _ ha; subst ha; simp
    · wf_ordered
      refine ⟨?_, h, ?_⟩ <;> (intro a x x1 _ ha; subst ha; simp [stricterOrUnrelated])
  | absoluteDateDifferenceAtThresholds c isStr units ts fmt inv =>
    simp only [argsOrderedB, ascendingSecondsB, decide_eq_true_eq] at h
    wf_split
    · simp [nullFirstB, isNullLevel]
    · apply elseLastB_concat; simp
      intro a x x1 _ ha; subst ha; simp
    · wf_ordered
      refine ⟨?_, h, ?_⟩ <;> (intro a x x1 _ ha; subst ha; simp [stricterOrUnrelated])
  | arrayIntersectAtSizes c ts =>
    simp only [argsOrderedB, descendingB, decide_eq_true_eq] at h
    wf_split
    · simp [nullFirstB, isNullLevel]
    · apply elseLastB_concat; simp
    · wf_ordered; exact h
  | distanceInKMAtThresholds lat long ts =>
    simp only [argsOrderedB, ascendingB, decide_eq_true_eq] at h
    wf_split
    · simp [nullFirstB, isNullLevel]
    · apply elseLastB_concat; simp
    · wf_ordered; exact h
  | cosineSimilarityAtThresholds c ts =>
    simp only [argsOrderedB, descendingB, decide_eq_true_eq] at h
    wf_split
    · simp [nullFirstB, isNullLevel]
    · apply elseLastB_concat; simp
    · wf_ordered; exact h
  | dateOfBirthComparison c isStr ts units fmt inv =>
    simp only [argsOrderedB, ascendingSecondsB, decide_eq_true_eq] at h
    wf_split
    · simp [nullFirstB, isNullLevel]
    · apply elseLastB_concat; simp
      intro a x x1 _ ha; subst ha; simp
    · wf_ordered
      refine ⟨?_, ?_, h, ?_⟩ <;> (intro a x x1 _ ha; subst ha; simp [stricterOrUnrelated])
  | postcodeComparison c inv latLong kms =>
    simp only [argsOrderedB, ascendingB, decide_eq_true_eq] at h
    rcases latLong with _ | ⟨lat, long⟩ <;> rcases kms with _ | ⟨k, ks⟩ <;>
    · wf_split
      · simp [nullFirstB, isNullLevel]
      · first
          | (apply elseLastB_concat; simp)
          | exact elseLastB_of_eq [_, _, _, _, _] rfl (by simp)
      · wf_ordered
        all_goals (try simpa [List.pairwise_cons] using h)
  | emailComparison c =>
    wf_split
    · simp [nullFirstB, isNullLevel]
    · exact elseLastB_of_eq [_, _, _, _, _] rfl (by simp)
    · wf_ordered
  | nameComparison c ts dmeta =>
    simp only [argsOrderedB, descendingB, decide_eq_true_eq] at h
    have hhi := List.Pairwise.filter (fun t : Q => decide ((22 : Rat) / 25 ≤ t.toRat)) h
    have hlo := List.Pairwise.filter (fun t : Q => !decide ((22 : Rat) / 25 ≤ t.toRat)) h
    have hx : ∀ a ∈ ts.filter (fun t : Q => decide ((22 : Rat) / 25 ≤ t.toRat)),
        ∀ b ∈ ts.filter (fun t : Q => !decide ((22 : Rat) / 25 ≤ t.toRat)), b.toRat ≤ a.toRat := by
      intro a ha b hb
      simp only [List.mem_filter, decide_eq_true_eq, Bool.not_eq_eq_eq_not, Bool.not_true, decide_eq_false_iff_not] at ha hb
      exact Rat.le_trans (Rat.le_of_lt (Rat.not_le.mp hb.2)) ha.2
    simp only [levelsOf]
    generalize ts.filter (fun t : Q => decide ((22 : Rat) / 25 ≤ t.toRat)) = hi at *
    generalize ts.filter (fun t : Q => !decide ((22 : Rat) / 25 ≤ t.toRat)) = lo at *
    cases dmeta <;>
    · wf_split
      · simp [nullFirstB, isNullLevel]
      · apply elseLastB_concat; simp [or_imp, forall_and]
      · wf_ordered
        exact ⟨hhi, hlo, hx⟩
  | forenameSurnameComparison f s ts concat =>
    simp only [argsOrderedB, descendingB, decide_eq_true_eq] at h
    cases concat with
    | none =>
      wf_split
      · simp [nullFirstB, isNullLevel]
      · exact elseLastB_of_eq ([.and (.null f) (.null s), .and (.exact f) (.exact s), .columnsReversed f s true]
          ++ ts.map (fun t => .and (.jaroWinkler f t) (.jaroWinkler s t)) ++ [.exact s, .exact f])
          (by simp) (by simp [or_imp, forall_and])
      · wf_ordered
        exact h
    | some cc =>
      wf_split
      · simp [nullFirstB, isNullLevel]
      · exact elseLastB_of_eq ([.and (.null f) (.null s), .exact cc, .columnsReversed f s true]
          ++ ts.map (fun t => .and (.jaroWinkler f t) (.jaroWinkler s t)) ++ [.exact s, .exact f])
          (by simp) (by simp [or_imp, forall_and])
      · wf_ordered
        exact h
  | customComparison levels => simpa [argsOrderedB, levelsOf] using h

end SplinkVerif.Levels
