import Mathlib.Data.List.Nodup
import Mathlib.Data.List.Perm.Basic
import SplinkVerif.Lemmas.Rel
import SplinkVerif.Lemmas.CC
import SplinkVerif.Properties.C05
import SplinkVerif.Model.CCSql
/-!
# The regenerated SQL of `solve_connected_components` refines the functional model

Statement by statement, the relational-algebra terms of `Generated/CCSql.lean` (evaluated with `Rel.eval`) compute the
tables of `Model/CC.lean`; the control flow of `Model/CCSql.lean` follows `CC.loop`.
-/
namespace SplinkVerif.Lemmas.CCSql
open SplinkVerif SplinkVerif.Rel SplinkVerif.Lemmas.Rel SplinkVerif.Gen.CCSql

/-- A node id as a SQL value. -/
abbrev iv (i : Nat) : Val := Val.int (i : Int)

/-- A result row `(node_id, cluster_id)` (same as `C05Sql.pairRow`). -/
def pairRow (p : Nat × Nat) : Row := [Val.int (p.1 : Int), Val.int (p.2 : Int)]

/-- The edges the functional model keeps (same as `C05Sql.kept`). -/
def kept (thr : Option Int) (edges : List (Nat × Nat × Int)) : List CC.Edge :=
  CC.thresholdEdges (fun (a b : Int) => decide (a ≥ b)) thr edges

/-- Evaluate scalar expressions on concrete rows. -/
macro "ev_simp" : tactic =>
  `(tactic| simp [Expr.holds, Expr.eval, List.getD_cons_zero, List.getD_cons_succ])
macro "ev_simp" "at" h:ident : tactic =>
  `(tactic| simp [Expr.holds, Expr.eval, List.getD_cons_zero, List.getD_cons_succ] at $h:ident)

/-- Look a table up in a database built with `Db.set`. -/
macro "db_get" : tactic =>
  `(tactic| (repeat (first | rw [set_same] | rw [set_ne _ _ _ _ (by decide)])))

theorem ne_cast (a b : Nat) : decide ((a : Int) ≠ (b : Int)) = (a != b) := by
  have hc : ((a : Int) = (b : Int)) ↔ a = b := by omega
  by_cases h : a = b
  · simp [h]
  · simp [h, hc]

theorem eq_cast (a b : Nat) : decide ((a : Int) = (b : Int)) = !(a != b) := by
  have hc : ((a : Int) = (b : Int)) ↔ a = b := by omega
  by_cases h : a = b
  · simp [h]
  · simp [h, hc]

theorem iv_inj {a b : Nat} : iv a = iv b ↔ a = b := by
  constructor
  · intro h
    have h' : (a : Int) = (b : Int) := by injection h
    omega
  · rintro rfl; rfl

/-! ## Input encodings -/

/-- The nodes table of a node subset `S` (in any order); `CCSql.nodeRows n = nodeRowsS (List.range n)`. -/
def nodeRowsS (S : List Nat) : List Row := S.map fun (i : Nat) => [Val.int (i : Int)]

theorem nodeRows_eq (n : Nat) : CCSql.nodeRows n = nodeRowsS (List.range n) := rfl

theorem mem_nodeRowsS {S : List Nat} {row : Row} : row ∈ nodeRowsS S ↔ ∃ i, i ∈ S ∧ row = [iv i] := by
  unfold nodeRowsS
  rw [List.mem_map]
  constructor
  · rintro ⟨i, hi, rfl⟩; exact ⟨i, hi, rfl⟩
  · rintro ⟨i, hi, rfl⟩; exact ⟨i, hi, rfl⟩

theorem mem_edgeRows {edges : List (Nat × Nat × Int)} {row : Row} :
    row ∈ CCSql.edgeRows edges ↔ ∃ a b k, (a, b, k) ∈ edges ∧ row = [iv a, iv b, Val.int k] := by
  unfold CCSql.edgeRows
  rw [List.mem_map]
  constructor
  · rintro ⟨⟨a, b, k⟩, he, rfl⟩; exact ⟨a, b, k, he, rfl⟩
  · rintro ⟨a, b, k, he, rfl⟩; exact ⟨(a, b, k), he, rfl⟩

theorem mem_kept {thr : Option Int} {edges : List (Nat × Nat × Int)} {a b : Nat} :
    (a, b) ∈ kept thr edges ↔ ∃ k, (a, b, k) ∈ edges ∧ ∀ t, thr = some t → t ≤ k := by
  unfold kept
  rw [C05.threshold_filter]
  constructor
  · rintro ⟨k, hk, h⟩; exact ⟨k, hk, fun t ht => by simpa using h t ht⟩
  · rintro ⟨k, hk, h⟩; exact ⟨k, hk, fun t ht => by simpa using h t ht⟩

theorem kept_mem_S {S : List Nat} {thr : Option Int} {edges : List (Nat × Nat × Int)}
    (hE : ∀ e ∈ edges, e.1 ∈ S ∧ e.2.1 ∈ S) : ∀ e ∈ kept thr edges, e.1 ∈ S ∧ e.2 ∈ S := by
  rintro ⟨a, b⟩ he
  obtain ⟨k, hk, _⟩ := mem_kept.mp he
  exact hE _ hk

/-! ## The preamble -/

/-- `__splink__df_edges_with_self_loops` (with or without threshold): kept edges and a self loop per node. -/
theorem edgesStmt_mem (S : List Nat) (edges : List (Nat × Nat × Int)) (thr : Option Int) (db : Db)
    (hN : (db "nodes_in").Perm (nodeRowsS S)) (hE : (db "edges_in").Perm (CCSql.edgeRows edges))
    (row : Row) :
    row ∈ (match thr.map Val.int with
        | some t => dfEdgesWithSelfLoops t
        | none => dfEdgesWithSelfLoopsNoThr).eval db ↔
      ∃ a b, ((a, b) ∈ kept thr edges ∨ (a ∈ S ∧ a = b)) ∧ row = [iv a, iv b] := by
  cases thr with
  | none =>
    simp only [Option.map_none, dfEdgesWithSelfLoopsNoThr, mem_union, mem_project, eval_table,
      hN.mem_iff, hE.mem_iff, mem_nodeRowsS, mem_edgeRows]
    constructor
    · rintro (⟨x, ⟨a, b, k, he, rfl⟩, rfl⟩ | ⟨x, ⟨i, hi, rfl⟩, rfl⟩)
      · refine ⟨a, b, Or.inl ?_, by ev_simp⟩
        exact mem_kept.mpr ⟨k, he, fun t ht => by cases ht⟩
      · exact ⟨i, i, Or.inr ⟨hi, rfl⟩, by ev_simp⟩
    · rintro ⟨a, b, hab, rfl⟩
      rcases hab with h | ⟨h1, h2⟩
      · obtain ⟨k, hk, _⟩ := mem_kept.mp h
        exact Or.inl ⟨_, ⟨a, b, k, hk, rfl⟩, by ev_simp⟩
      · subst h2
        exact Or.inr ⟨_, ⟨a, h1, rfl⟩, by ev_simp⟩
  | some t =>
    simp only [Option.map_some, dfEdgesWithSelfLoops, mem_union, mem_project, mem_filter, eval_table,
      hN.mem_iff, hE.mem_iff, mem_nodeRowsS, mem_edgeRows]
    constructor
    · rintro (⟨x, ⟨⟨a, b, k, he, rfl⟩, hh⟩, rfl⟩ | ⟨x, ⟨i, hi, rfl⟩, rfl⟩)
      · refine ⟨a, b, Or.inl ?_, by ev_simp⟩
        refine mem_kept.mpr ⟨k, he, fun t' ht => ?_⟩
        cases ht
        ev_simp at hh
        exact hh
      · exact ⟨i, i, Or.inr ⟨hi, rfl⟩, by ev_simp⟩
    · rintro ⟨a, b, hab, rfl⟩
      rcases hab with h | ⟨h1, h2⟩
      · obtain ⟨k, hk, hle⟩ := mem_kept.mp h
        refine Or.inl ⟨_, ⟨⟨a, b, k, hk, rfl⟩, ?_⟩, by ev_simp⟩
        ev_simp
        exact hle t rfl
      · subst h2
        exact Or.inr ⟨_, ⟨a, h1, rfl⟩, by ev_simp⟩

/-- `nodes_ids_only` is the nodes table. -/
theorem nodesIdsOnly_eval (S : List Nat) (db : Db) (hN : (db "nodes_in").Perm (nodeRowsS S)) :
    (nodesIdsOnly.eval db).Perm (nodeRowsS S) := by
  unfold nodesIdsOnly
  rw [eval_project, eval_table]
  refine (hN.map _).trans (List.Perm.of_eq ?_)
  unfold nodeRowsS
  rw [List.map_map]
  apply List.map_congr_left
  intro i _
  ev_simp

/-- The neighbour function of the model for the kept edges. -/
def nbOf (n : Nat) (thr : Option Int) (edges : List (Nat × Nat × Int)) : Nat → List Nat :=
  CC.neighboursOf (CC.edgesWithSelfLoops n (kept thr edges))

theorem mem_nbOf {n : Nat} {thr : Option Int} {edges : List (Nat × Nat × Int)} {i j : Nat} :
    j ∈ nbOf n thr edges i ↔
      ((i, j) ∈ kept thr edges ∨ (j, i) ∈ kept thr edges) ∨ (i < n ∧ i = j) := by
  unfold nbOf
  rw [← neighbours_get]
  exact mem_nb n _ i j

/-- `__splink__df_neighbours` ↔ `CC.neighboursOf` on the nodes of the subset. -/
theorem dfNeighbours_mem (n : Nat) (S : List Nat) (edges : List (Nat × Nat × Int)) (thr : Option Int)
    (hSn : ∀ i ∈ S, i < n) (db : Db)
    (hN : (db "nodes_ids_only").Perm (nodeRowsS S))
    (hEs : ∀ row, row ∈ db "__splink__df_edges_with_self_loops" ↔
      ∃ a b, ((a, b) ∈ kept thr edges ∨ (a ∈ S ∧ a = b)) ∧ row = [iv a, iv b])
    (row : Row) :
    row ∈ dfNeighbours.eval db ↔ ∃ i j, i ∈ S ∧ j ∈ nbOf n thr edges i ∧ row = [iv i, iv j] := by
  have hmatch1 : ∀ ra ∈ db "nodes_ids_only", ∃ rb ∈ db "__splink__df_edges_with_self_loops",
      (Expr.cmp Cmp.eq (Expr.col 0) (Expr.col 1)).holds (ra ++ rb) = true := by
    intro ra hra
    obtain ⟨i, hi, rfl⟩ := mem_nodeRowsS.mp (hN.mem_iff.mp hra)
    exact ⟨[iv i, iv i], (hEs _).mpr ⟨i, i, Or.inr ⟨hi, rfl⟩, rfl⟩, by ev_simp⟩
  have hmatch2 : ∀ ra ∈ db "nodes_ids_only", ∃ rb ∈ db "__splink__df_edges_with_self_loops",
      (Expr.cmp Cmp.eq (Expr.col 0) (Expr.col 2)).holds (ra ++ rb) = true := by
    intro ra hra
    obtain ⟨i, hi, rfl⟩ := mem_nodeRowsS.mp (hN.mem_iff.mp hra)
    exact ⟨[iv i, iv i], (hEs _).mpr ⟨i, i, Or.inr ⟨hi, rfl⟩, rfl⟩, by ev_simp⟩
  simp only [dfNeighbours, mem_union, mem_project, eval_join, eval_table,
    mem_joinRows_left_of_match hmatch1, mem_joinRows_left_of_match hmatch2]
  constructor
  · rintro (⟨x, ⟨ra, hra, rb, hrb, hon, rfl⟩, rfl⟩ | ⟨x, ⟨ra, hra, rb, hrb, hon, rfl⟩, rfl⟩)
    · obtain ⟨i, hi, rfl⟩ := mem_nodeRowsS.mp (hN.mem_iff.mp hra)
      obtain ⟨a, b, hab, rfl⟩ := (hEs _).mp hrb
      ev_simp at hon
      have hia : i = a := by omega
      subst hia
      refine ⟨i, b, hi, mem_nbOf.mpr ?_, by ev_simp⟩
      rcases hab with h | ⟨_, h⟩
      · exact Or.inl (Or.inl h)
      · exact Or.inr ⟨hSn i hi, h⟩
    · obtain ⟨i, hi, rfl⟩ := mem_nodeRowsS.mp (hN.mem_iff.mp hra)
      obtain ⟨a, b, hab, rfl⟩ := (hEs _).mp hrb
      ev_simp at hon
      have hib : i = b := by omega
      subst hib
      refine ⟨i, a, hi, mem_nbOf.mpr ?_, by ev_simp⟩
      rcases hab with h | ⟨_, h⟩
      · exact Or.inl (Or.inr h)
      · exact Or.inr ⟨hSn i hi, h.symm⟩
  · rintro ⟨i, j, hi, hj, rfl⟩
    have hnode : [iv i] ∈ db "nodes_ids_only" := hN.mem_iff.mpr (mem_nodeRowsS.mpr ⟨i, hi, rfl⟩)
    rcases mem_nbOf.mp hj with (h | h) | ⟨_, h⟩
    · left
      exact ⟨_, ⟨[iv i], hnode, [iv i, iv j], (hEs _).mpr ⟨i, j, Or.inl h, rfl⟩, by ev_simp, rfl⟩,
        by ev_simp⟩
    · right
      exact ⟨_, ⟨[iv i], hnode, [iv j, iv i], (hEs _).mpr ⟨j, i, Or.inl h, rfl⟩, by ev_simp, rfl⟩,
        by ev_simp⟩
    · subst h
      left
      exact ⟨_, ⟨[iv i], hnode, [iv i, iv i], (hEs _).mpr ⟨i, i, Or.inr ⟨hi, rfl⟩, rfl⟩, by ev_simp,
        rfl⟩, by ev_simp⟩


/-- `SELECT key, min(c) … GROUP BY key` on integer-coded naturals: if the keys are the members of the duplicate-free
`L` and the `c`-values in the group of `i` are `init i` and the members of `g i`, the result has one row
`(i, minOver (g i) (init i))` per `i ∈ L`. -/
theorem groupMin_perm (rows : List Row) (c : Nat) (L : List Nat) (hL : L.Nodup) (g : Nat → List Nat)
    (init : Nat → Nat)
    (hrows : ∀ row ∈ rows, ∃ i ∈ L, row.getD 0 .null = iv i)
    (hvals : ∀ i ∈ L, ∀ v, (∃ row ∈ rows, row.getD 0 .null = iv i ∧ row.getD c .null = v) ↔
      (v = iv (init i) ∨ ∃ x ∈ g i, v = iv x)) :
    (groupRows [Expr.col 0] [Agg.min (Expr.col c)] rows).Perm
      (L.map fun i => [iv i, iv (minOver (g i) (init i))]) := by
  have hinj : ∀ x ∈ L, ∀ y ∈ L,
      [iv x, iv (minOver (g x) (init x))] = [iv y, iv (minOver (g y) (init y))] → x = y := by
    intro x _ y _ h
    have h' : iv x = iv y := by injection h
    exact iv_inj.mp h'
  apply perm_of_nodup_of_mem (nodup_groupRows (by simp)) (List.Nodup.map_on hinj hL)
  intro row
  rw [mem_groupRows (by simp), List.mem_map]
  have key : ∀ x ∈ rows, ∀ i ∈ L, x.getD 0 .null = iv i →
      [Expr.col 0].map (·.eval x) ++ [Agg.min (Expr.col c)].map
        (·.eval (rows.filter fun y => [Expr.col 0].map (·.eval y) == [Expr.col 0].map (·.eval x)))
      = [iv i, iv (minOver (g i) (init i))] := by
    intro x _ i hi hxi
    simp only [List.map_cons, List.map_nil, Expr.eval, hxi, Agg.eval, List.cons_append,
      List.nil_append]
    congr 2
    unfold minOver
    apply minVals_eq_foldl_min
    intro v
    rw [← hvals i hi v, List.mem_map]
    constructor
    · rintro ⟨y, hy, rfl⟩
      obtain ⟨hy1, hy2⟩ := List.mem_filter.mp hy
      refine ⟨y, hy1, ?_, rfl⟩
      simpa using hy2
    · rintro ⟨y, hy, hyi, rfl⟩
      refine ⟨y, List.mem_filter.mpr ⟨hy, ?_⟩, rfl⟩
      rw [hyi]
      exact beq_self_eq_true _
  constructor
  · rintro ⟨x, hx, rfl⟩
    obtain ⟨i, hi, hxi⟩ := hrows x hx
    exact ⟨i, hi, (key x hx i hi hxi).symm⟩
  · rintro ⟨i, hi, rfl⟩
    obtain ⟨x, hx, hxi, _⟩ := (hvals i hi (iv (init i))).mpr (Or.inl rfl)
    exact ⟨x, hx, (key x hx i hi hxi).symm⟩

/-- What the bridging needs to know about the node subset `S` and the neighbour function. -/
structure SubOK (n : Nat) (S : List Nat) (nb : Nat → List Nat) : Prop where
  nodup : S.Nodup
  lt : ∀ i ∈ S, i < n
  self : ∀ i ∈ S, i ∈ nb i
  closed : ∀ i ∈ S, ∀ j ∈ nb i, j ∈ S
  outside : ∀ i, i ∉ S → ∀ j ∈ nb i, j = i

theorem subOK_nbOf (n : Nat) (S : List Nat) (edges : List (Nat × Nat × Int)) (thr : Option Int)
    (hS : S.Nodup) (hSn : ∀ i ∈ S, i < n) (hE : ∀ e ∈ edges, e.1 ∈ S ∧ e.2.1 ∈ S) :
    SubOK n S (nbOf n thr edges) where
  nodup := hS
  lt := hSn
  self := fun i hi => mem_nbOf.mpr (Or.inr ⟨hSn i hi, rfl⟩)
  closed := by
    intro i hi j hj
    rcases mem_nbOf.mp hj with (h | h) | ⟨_, h⟩
    · exact (kept_mem_S hE _ h).2
    · exact (kept_mem_S hE _ h).1
    · exact h ▸ hi
  outside := by
    intro i hi j hj
    rcases mem_nbOf.mp hj with (h | h) | ⟨_, h⟩
    · exact absurd (kept_mem_S hE _ h).1 hi
    · exact absurd (kept_mem_S hE _ h).2 hi
    · exact h.symm

/-- `representatives` ↔ `CC.initialRep`. -/
theorem representatives_eval {n : Nat} {S : List Nat} {nb : Nat → List Nat} (hok : SubOK n S nb) (db : Db)
    (hNb : ∀ row, row ∈ db "__splink__df_neighbours" ↔ ∃ i j, i ∈ S ∧ j ∈ nb i ∧ row = [iv i, iv j]) :
    (representatives.eval db).Perm (S.map fun i => [iv i, iv (CC.initialRep nb i)]) := by
  unfold representatives CC.initialRep
  rw [eval_groupBy, eval_table]
  apply groupMin_perm _ 1 S hok.nodup nb (fun i => i)
  · intro row hrow
    obtain ⟨i, j, hi, _, rfl⟩ := (hNb row).mp hrow
    exact ⟨i, hi, by ev_simp⟩
  · intro i hi v
    constructor
    · rintro ⟨row, hrow, h0, rfl⟩
      obtain ⟨i', j, _, hj, rfl⟩ := (hNb row).mp hrow
      ev_simp at h0
      have : i' = i := by omega
      subst this
      exact Or.inr ⟨j, hj, by ev_simp⟩
    · rintro (rfl | ⟨x, hx, rfl⟩)
      · exact ⟨[iv i, iv i], (hNb _).mpr ⟨i, i, hi, hok.self i hi, rfl⟩, by ev_simp, by ev_simp⟩
      · exact ⟨[iv i, iv x], (hNb _).mpr ⟨i, x, hi, hx, rfl⟩, by ev_simp, by ev_simp⟩

/-- The `representative` column of `neighbours_first_iter`. -/
def rep1 (nb : Nat → List Nat) (i : Nat) : Nat :=
  minOver ((nb i).map (CC.initialRep nb)) (CC.initialRep nb i)

/-- `neighbours_first_iter` ↔ the `rep` column of `CC.firstIter`. -/
theorem neighboursFirstIter_eval {n : Nat} {S : List Nat} {nb : Nat → List Nat} (hok : SubOK n S nb)
    (db : Db)
    (hNb : ∀ row, row ∈ db "__splink__df_neighbours" ↔ ∃ i j, i ∈ S ∧ j ∈ nb i ∧ row = [iv i, iv j])
    (hR : (db "representatives").Perm (S.map fun i => [iv i, iv (CC.initialRep nb i)])) :
    (neighboursFirstIter.eval db).Perm (S.map fun i => [iv i, iv (rep1 nb i)]) := by
  have hRm : ∀ row, row ∈ db "representatives" ↔ ∃ i, i ∈ S ∧ row = [iv i, iv (CC.initialRep nb i)] := by
    intro row
    rw [hR.mem_iff, List.mem_map]
    constructor
    · rintro ⟨i, hi, rfl⟩; exact ⟨i, hi, rfl⟩
    · rintro ⟨i, hi, rfl⟩; exact ⟨i, hi, rfl⟩
  have hmatch : ∀ ra ∈ db "__splink__df_neighbours", ∃ rb ∈ db "representatives",
      (Expr.cmp Cmp.eq (Expr.col 1) (Expr.col 2)).holds (ra ++ rb) = true := by
    intro ra hra
    obtain ⟨i, j, hi, hj, rfl⟩ := (hNb ra).mp hra
    exact ⟨_, (hRm _).mpr ⟨j, hok.closed i hi j hj, rfl⟩, by ev_simp⟩
  have hJ : ∀ row, row ∈ joinRows true (Expr.cmp Cmp.eq (Expr.col 1) (Expr.col 2))
      (db "__splink__df_neighbours") (db "representatives") 2 ↔
      ∃ i j, i ∈ S ∧ j ∈ nb i ∧ row = [iv i, iv j, iv j, iv (CC.initialRep nb j)] := by
    intro row
    rw [mem_joinRows_left_of_match hmatch]
    constructor
    · rintro ⟨ra, hra, rb, hrb, hon, rfl⟩
      obtain ⟨i, j, hi, hj, rfl⟩ := (hNb ra).mp hra
      obtain ⟨k, hk, rfl⟩ := (hRm rb).mp hrb
      ev_simp at hon
      have : j = k := by omega
      subst this
      exact ⟨i, j, hi, hj, rfl⟩
    · rintro ⟨i, j, hi, hj, rfl⟩
      exact ⟨[iv i, iv j], (hNb _).mpr ⟨i, j, hi, hj, rfl⟩, [iv j, iv (CC.initialRep nb j)],
        (hRm _).mpr ⟨j, hok.closed i hi j hj, rfl⟩, by ev_simp, rfl⟩
  unfold neighboursFirstIter rep1
  rw [eval_groupBy, eval_join, eval_table, eval_table]
  apply groupMin_perm _ 3 S hok.nodup (fun i => (nb i).map (CC.initialRep nb)) (CC.initialRep nb)
  · intro row hrow
    obtain ⟨i, j, hi, _, rfl⟩ := (hJ row).mp hrow
    exact ⟨i, hi, by ev_simp⟩
  · intro i hi v
    constructor
    · rintro ⟨row, hrow, h0, rfl⟩
      obtain ⟨i', j, _, hj, rfl⟩ := (hJ row).mp hrow
      ev_simp at h0
      have : i' = i := by omega
      subst this
      exact Or.inr ⟨_, List.mem_map.mpr ⟨j, hj, rfl⟩, by ev_simp⟩
    · rintro (rfl | ⟨x, hx, rfl⟩)
      · exact ⟨_, (hJ _).mpr ⟨i, i, hi, hok.self i hi, rfl⟩, by ev_simp, by ev_simp⟩
      · obtain ⟨j, hj, rfl⟩ := List.mem_map.mp hx
        exact ⟨_, (hJ _).mpr ⟨i, j, hi, hj, rfl⟩, by ev_simp, by ev_simp⟩

/-- A row of the representatives table of the loop. -/
def reprRow (s : CC.St) (i : Nat) : Row := [iv i, iv (s.rep i), Val.bool (s.upd i)]

/-- The representatives table of the loop, restricted to the nodes of `S`. -/
def canonRepr (S : List Nat) (s : CC.St) : List Row := (S.filter s.live).map (reprRow s)

theorem nodup_map_rows {L : List Nat} (hL : L.Nodup) (f : Nat → Row)
    (hf : ∀ i, (f i).getD 0 .null = iv i) : (L.map f).Nodup := by
  apply List.Nodup.map_on _ hL
  intro x _ y _ h
  have := hf x
  rw [h, hf y] at this
  exact (iv_inj.mp this).symm

/-- `__splink__df_representatives` ↔ `CC.firstIter`. -/
theorem dfRepresentatives_eval {n : Nat} {S : List Nat} {nb : Nat → List Nat} (hok : SubOK n S nb)
    (db : Db)
    (hF : (db "neighbours_first_iter").Perm (S.map fun i => [iv i, iv (rep1 nb i)]))
    (hR : (db "representatives").Perm (S.map fun i => [iv i, iv (CC.initialRep nb i)])) :
    (dfRepresentatives.eval db).Perm (canonRepr S (CC.firstIter n nb)) := by
  have hRnd : (db "representatives").Nodup :=
    hR.nodup_iff.mpr (nodup_map_rows hok.nodup _ (fun i => by ev_simp))
  have hRm : ∀ row, row ∈ db "representatives" ↔ ∃ i, i ∈ S ∧ row = [iv i, iv (CC.initialRep nb i)] := by
    intro row
    rw [hR.mem_iff, List.mem_map]
    constructor
    · rintro ⟨i, hi, rfl⟩; exact ⟨i, hi, rfl⟩
    · rintro ⟨i, hi, rfl⟩; exact ⟨i, hi, rfl⟩
  unfold dfRepresentatives
  rw [eval_project, eval_join, eval_table, eval_table]
  have hJ := joinRows_lookup S (fun i => [iv i, iv (rep1 nb i)])
    (fun i => [iv i, iv (CC.initialRep nb i)]) false (Expr.cmp Cmp.eq (Expr.col 0) (Expr.col 2))
    _ _ 2 hF hRnd (by
      intro i hi
      refine ⟨(hRm _).mpr ⟨i, hi, rfl⟩, by ev_simp, ?_⟩
      intro y hy hon
      obtain ⟨k, _, rfl⟩ := (hRm y).mp hy
      ev_simp at hon
      have : i = k := by omega
      subst this
      rfl)
  refine (hJ.map _).trans (List.Perm.of_eq ?_)
  unfold canonRepr
  have hlive : S.filter (CC.firstIter n nb).live = S :=
    List.filter_eq_self.mpr (fun a _ => firstIter_live n nb a)
  rw [hlive, List.map_map]
  apply List.map_congr_left
  intro i _
  simp only [Function.comp, reprRow, firstIter_upd, firstIter_rep, rep1]
  ev_simp
  exact eq_cast _ _


/-! ## One pass of the loop -/

theorem mem_canonRepr {S : List Nat} {s : CC.St} {row : Row} :
    row ∈ canonRepr S s ↔ ∃ i, i ∈ S ∧ s.live i = true ∧ row = reprRow s i := by
  unfold canonRepr
  rw [List.mem_map]
  constructor
  · rintro ⟨i, hi, rfl⟩
    obtain ⟨h1, h2⟩ := List.mem_filter.mp hi
    exact ⟨i, h1, h2, rfl⟩
  · rintro ⟨i, h1, h2, rfl⟩
    exact ⟨i, List.mem_filter.mpr ⟨h1, h2⟩, rfl⟩

theorem nodup_canonRepr {S : List Nat} (hS : S.Nodup) (s : CC.St) : (canonRepr S s).Nodup :=
  nodup_map_rows (hS.filter _) _ (fun i => by simp [reprRow])

theorem hasForeign_iff {nb : Nat → List Nat} {s : CC.St} {i : Nat} :
    CC.hasForeign nb s i = true ↔ ∃ j, j ∈ nb i ∧ s.live j = true ∧ s.rep i ≠ s.rep j := by
  unfold CC.hasForeign
  rw [List.any_eq_true]
  constructor
  · rintro ⟨j, hj, h⟩
    simp only [Bool.and_eq_true, bne_iff_ne] at h
    exact ⟨j, hj, h.1, h.2⟩
  · rintro ⟨j, hj, h1, h2⟩
    exact ⟨j, hj, by simp [h1, h2]⟩

theorem hasForeign_outside {n : Nat} {S : List Nat} {nb : Nat → List Nat} (hok : SubOK n S nb) (s : CC.St)
    {i : Nat} (hi : i ∉ S) : CC.hasForeign nb s i = false := by
  rw [← Bool.not_eq_true, hasForeign_iff]
  rintro ⟨j, hj, _, hne⟩
  rw [hok.outside i hi j hj] at hne
  exact hne rfl

/-- `non_stable_representatives` of the model only depends on the nodes of `S`. -/
theorem nonStable_iff {n : Nat} {S : List Nat} {nb : Nat → List Nat} (hok : SubOK n S nb) {s : CC.St}
    {g : Nat} :
    CC.nonStable n nb s g = true ↔
      ∃ i, i ∈ S ∧ s.live i = true ∧ s.rep i = g ∧ CC.hasForeign nb s i = true := by
  unfold CC.nonStable
  rw [List.any_eq_true]
  constructor
  · rintro ⟨i, _, h⟩
    simp only [Bool.and_eq_true, beq_iff_eq] at h
    obtain ⟨⟨h1, h2⟩, h3⟩ := h
    have hiS : i ∈ S := by
      by_contra hc
      rw [hasForeign_outside hok s hc] at h3
      cases h3
    exact ⟨i, hiS, h1, h2, h3⟩
  · rintro ⟨i, hi, h1, h2, h3⟩
    exact ⟨i, List.mem_range.mpr (hok.lt i hi), by simp [h1, h2, h3]⟩

/-- Membership of the neighbours table restricted to the live nodes of `S`. -/
def NbrsSpec (S : List Nat) (nb : Nat → List Nat) (live : Nat → Bool) (T : List Row) : Prop :=
  ∀ row, row ∈ T ↔ ∃ i j, i ∈ S ∧ live i = true ∧ j ∈ nb i ∧ row = [iv i, iv j]

/-- `non_stable_representatives` ↔ `CC.nonStable`. -/
theorem nonStable_mem {n : Nat} {S : List Nat} {nb : Nat → List Nat} (hok : SubOK n S nb) (s : CC.St)
    (db : Db) (hR : (db "reprPrev").Perm (canonRepr S s)) (hNb : NbrsSpec S nb s.live (db "nbrsPrev"))
    (row : Row) :
    row ∈ bodyNonStableRepresentatives.eval db ↔ ∃ g, CC.nonStable n nb s g = true ∧ row = [iv g] := by
  simp only [bodyNonStableRepresentatives, mem_distinct, mem_project, mem_filter, eval_join, eval_table,
    mem_joinRows_inner, hR.mem_iff, mem_canonRepr]
  constructor
  · rintro ⟨x, ⟨⟨ra, ⟨ra1, ⟨i, hi, hli, rfl⟩, rb1, hrb1, hon1, rfl⟩, rc, ⟨j', hj', hlj', rfl⟩, hon2, rfl⟩,
      hne⟩, rfl⟩
    obtain ⟨i', j, _, _, hj, rfl⟩ := (hNb rb1).mp hrb1
    simp only [reprRow] at hon1 hon2 hne ⊢
    ev_simp at hon1
    ev_simp at hon2
    ev_simp at hne
    have e1 : i = i' := by omega
    have e2 : j = j' := by omega
    subst e1 e2
    refine ⟨s.rep i, (nonStable_iff hok).mpr ⟨i, hi, hli, rfl, hasForeign_iff.mpr ⟨j, hj, hlj', ?_⟩⟩,
      by ev_simp⟩
    intro h
    exact hne (by rw [h])
  · rintro ⟨g, hg, rfl⟩
    obtain ⟨i, hi, hli, rfl, hf⟩ := (nonStable_iff hok).mp hg
    obtain ⟨j, hj, hlj, hne⟩ := hasForeign_iff.mp hf
    have hjS : j ∈ S := hok.closed i hi j hj
    refine ⟨_, ⟨⟨_, ⟨reprRow s i, ⟨i, hi, hli, rfl⟩, [iv i, iv j], (hNb _).mpr ⟨i, j, hi, hli, hj, rfl⟩,
      by simp only [reprRow]; ev_simp, rfl⟩, reprRow s j, ⟨j, hjS, hlj, rfl⟩,
      by simp only [reprRow]; ev_simp, rfl⟩, ?_⟩, by simp only [reprRow]; ev_simp⟩
    simp only [reprRow]
    ev_simp
    intro h
    exact hne (by omega)

/-- The values of `SELECT col c FROM T`, as used by `[NOT] IN`. -/
theorem mem_subVals {T : List Row} {c : Nat} {v : Val} :
    v ∈ ((T.map fun row => [Expr.col c].map (·.eval row)).map fun row => row.getD 0 .null) ↔
      ∃ row ∈ T, row.getD c .null = v := by
  rw [List.map_map, List.mem_map]
  constructor
  · rintro ⟨row, hrow, rfl⟩; exact ⟨row, hrow, by simp [Expr.eval]⟩
  · rintro ⟨row, hrow, rfl⟩; exact ⟨row, hrow, by simp [Expr.eval]⟩

/-- Filtering the canonical representatives table by a predicate on rows. -/
theorem canonRepr_filter (S : List Nat) (s : CC.St) (P : Row → Bool) (q : Nat → Bool)
    (h : ∀ i ∈ S, s.live i = true → P (reprRow s i) = q i) :
    (canonRepr S s).filter P = (S.filter fun i => s.live i && q i).map (reprRow s) := by
  unfold canonRepr
  rw [List.filter_map, List.filter_filter]
  congr 1
  apply List.filter_congr
  intro i hi
  cases hl : s.live i
  · simp
  · simp [h i hi hl]

/-- `stable` ↔ the rows the model moves to `out`. -/
theorem stable_eval {n : Nat} {S : List Nat} {nb : Nat → List Nat} (s : CC.St)
    (db : Db) (hR : (db "reprPrev").Perm (canonRepr S s))
    (hNS : ∀ row, row ∈ db "non_stable_representatives" ↔
      ∃ g, CC.nonStable n nb s g = true ∧ row = [iv g]) :
    (bodyStable.eval db).Perm
      ((S.filter fun i => s.live i && !CC.nonStable n nb s (s.rep i)).map (reprRow s)) := by
  unfold bodyStable
  rw [eval_whereIn, eval_project, eval_table, eval_table]
  unfold whereInRows
  refine (hR.filter _).trans (List.Perm.of_eq ?_)
  apply canonRepr_filter
  intro i _ _
  have hx : (Expr.col 1).eval (reprRow s i) = iv (s.rep i) := by simp [reprRow, Expr.eval]
  simp only [hx, if_true]
  rw [inVals_neg _ _ (by simp)]
  · congr 1
    apply contains_eq_of_mem_iff
    rw [mem_subVals]
    constructor
    · rintro ⟨row, hrow, h⟩
      obtain ⟨g, hg, rfl⟩ := (hNS row).mp hrow
      ev_simp at h
      have : g = s.rep i := by omega
      rw [← this]; exact hg
    · intro h
      exact ⟨[iv (s.rep i)], (hNS _).mpr ⟨_, h, rfl⟩, by ev_simp⟩
  · rw [mem_subVals]
    rintro ⟨row, hrow, h⟩
    obtain ⟨g, _, rfl⟩ := (hNS row).mp hrow
    ev_simp at h

theorem live'_eq (n : Nat) (nb : Nat → List Nat) (s : CC.St) (i : Nat) :
    live' n nb s i = (s.live i && CC.nonStable n nb s (s.rep i)) := rfl

/-- `unstable` ↔ the nodes that stay live. -/
theorem unstable_eval {n : Nat} {S : List Nat} {nb : Nat → List Nat} (s : CC.St)
    (db : Db) (hR : (db "reprPrev").Perm (canonRepr S s))
    (hSt : (db "stable").Perm
      ((S.filter fun i => s.live i && !CC.nonStable n nb s (s.rep i)).map (reprRow s))) :
    (bodyUnstable.eval db).Perm ((S.filter (live' n nb s)).map (reprRow s)) := by
  have hStm : ∀ row, row ∈ db "stable" ↔
      ∃ k, k ∈ S ∧ s.live k = true ∧ CC.nonStable n nb s (s.rep k) = false ∧ row = reprRow s k := by
    intro row
    rw [hSt.mem_iff, List.mem_map]
    constructor
    · rintro ⟨k, hk, rfl⟩
      obtain ⟨h1, h2⟩ := List.mem_filter.mp hk
      simp only [Bool.and_eq_true, Bool.not_eq_true'] at h2
      exact ⟨k, h1, h2.1, h2.2, rfl⟩
    · rintro ⟨k, h1, h2, h3, rfl⟩
      exact ⟨k, List.mem_filter.mpr ⟨h1, by simp [h2, h3]⟩, rfl⟩
  unfold bodyUnstable
  rw [eval_whereIn, eval_project, eval_table, eval_table]
  unfold whereInRows
  refine (hR.filter _).trans (List.Perm.of_eq ?_)
  have hfun : live' n nb s = fun i => s.live i && CC.nonStable n nb s (s.rep i) := rfl
  rw [hfun]
  apply canonRepr_filter
  intro i hi hli
  have hx : (Expr.col 1).eval (reprRow s i) = iv (s.rep i) := by simp [reprRow, Expr.eval]
  simp only [hx, if_true]
  rw [inVals_neg _ _ (by simp)]
  · rw [← Bool.not_not (b := CC.nonStable n nb s (s.rep i))]
    congr 1
    apply contains_eq_of_mem_iff
    rw [mem_subVals]
    constructor
    · rintro ⟨row, hrow, h⟩
      obtain ⟨k, _, _, hk, rfl⟩ := (hStm row).mp hrow
      simp only [reprRow] at h
      ev_simp at h
      have : s.rep k = s.rep i := by omega
      rw [← this, hk]; rfl
    · intro h
      refine ⟨reprRow s i, (hStm _).mpr ⟨i, hi, hli, by simpa using h, rfl⟩, ?_⟩
      simp [reprRow]
  · rw [mem_subVals]
    rintro ⟨row, hrow, h⟩
    obtain ⟨k, _, _, _, rfl⟩ := (hStm row).mp hrow
    simp [reprRow] at h

theorem mem_unstable {n : Nat} {S : List Nat} {nb : Nat → List Nat} {s : CC.St} {U : List Row}
    (hU : U.Perm ((S.filter (live' n nb s)).map (reprRow s))) (row : Row) :
    row ∈ U ↔ ∃ k, k ∈ S ∧ live' n nb s k = true ∧ row = reprRow s k := by
  rw [hU.mem_iff, List.mem_map]
  constructor
  · rintro ⟨k, hk, rfl⟩
    obtain ⟨h1, h2⟩ := List.mem_filter.mp hk
    exact ⟨k, h1, h2, rfl⟩
  · rintro ⟨k, h1, h2, rfl⟩
    exact ⟨k, List.mem_filter.mpr ⟨h1, h2⟩, rfl⟩

/-- `nbrsNext` ↔ the neighbours of the nodes that stay live. -/
theorem nbrsNext_mem {n : Nat} {S : List Nat} {nb : Nat → List Nat} (s : CC.St)
    (db : Db) (hNb : NbrsSpec S nb s.live (db "nbrsPrev"))
    (hU : (db "unstable").Perm ((S.filter (live' n nb s)).map (reprRow s))) :
    NbrsSpec S nb (live' n nb s) (bodyNbrsNext.eval db) := by
  intro row
  unfold bodyNbrsNext
  rw [eval_whereIn, eval_project, eval_table, eval_table, mem_whereInRows]
  simp only [Bool.false_eq_true, if_false]
  constructor
  · rintro ⟨hrow, hin⟩
    obtain ⟨i, j, hi, _, hj, rfl⟩ := (hNb row).mp hrow
    have hx : (Expr.col 0).eval [iv i, iv j] = iv i := by simp [Expr.eval]
    rw [hx, inVals_pos _ _ (by simp)] at hin
    have hmem := List.contains_iff_mem.mp hin
    rw [mem_subVals] at hmem
    obtain ⟨r, hr, h⟩ := hmem
    obtain ⟨k, _, hlk, rfl⟩ := (mem_unstable hU r).mp hr
    simp only [reprRow] at h
    ev_simp at h
    have : k = i := by omega
    subst this
    exact ⟨k, j, hi, hlk, hj, rfl⟩
  · rintro ⟨i, j, hi, hli, hj, rfl⟩
    refine ⟨(hNb _).mpr ⟨i, j, hi, live'_live hli, hj, rfl⟩, ?_⟩
    have hx : (Expr.col 0).eval [iv i, iv j] = iv i := by simp [Expr.eval]
    rw [hx, inVals_pos _ _ (by simp)]
    apply List.contains_iff_mem.mpr
    rw [mem_subVals]
    exact ⟨reprRow s i, (mem_unstable hU _).mpr ⟨i, hi, hli, rfl⟩, by simp [reprRow]⟩


/-- `r` ↔ the new representatives `rep'` of the nodes that stay live. -/
theorem r_eval {n : Nat} {S : List Nat} {nb : Nat → List Nat} (hok : SubOK n S nb) (s : CC.St)
    (db : Db) (hNb : NbrsSpec S nb (live' n nb s) (db "nbrsNext"))
    (hU : (db "unstable").Perm ((S.filter (live' n nb s)).map (reprRow s))) :
    (bodyR.eval db).Perm ((S.filter (live' n nb s)).map fun i => [iv i, iv (rep' n nb s i)]) := by
  have hJ : ∀ row, row ∈ ((Rel.filter (Expr.col 4) (Rel.join false (Expr.cmp Cmp.eq (Expr.col 1) (Expr.col 2))
      (Rel.table "nbrsNext") (Rel.table "unstable") 3)).eval db) ↔
      ∃ i j, i ∈ S ∧ live' n nb s i = true ∧ j ∈ nb i ∧ live' n nb s j = true ∧ s.upd j = true ∧
        row = [iv i, iv j] ++ reprRow s j := by
    intro row
    rw [mem_filter, eval_join, eval_table, eval_table, mem_joinRows_inner]
    constructor
    · rintro ⟨⟨ra, hra, rb, hrb, hon, rfl⟩, hh⟩
      obtain ⟨i, j, hi, hli, hj, rfl⟩ := (hNb ra).mp hra
      obtain ⟨k, _, hlk, rfl⟩ := (mem_unstable hU rb).mp hrb
      simp only [reprRow] at hon hh
      ev_simp at hon
      ev_simp at hh
      have : j = k := by omega
      subst this
      exact ⟨i, j, hi, hli, hj, hlk, hh, rfl⟩
    · rintro ⟨i, j, hi, hli, hj, hlj, huj, rfl⟩
      refine ⟨⟨[iv i, iv j], (hNb _).mpr ⟨i, j, hi, hli, hj, rfl⟩, reprRow s j,
        (mem_unstable hU _).mpr ⟨j, hok.closed i hi j hj, hlj, rfl⟩, ?_, rfl⟩, ?_⟩
      · simp only [reprRow]; ev_simp
      · simp only [reprRow]; ev_simp; exact huj
  have hcongr : (S.filter (live' n nb s)).map (fun i => [iv i, iv (rep' n nb s i)]) =
      (S.filter (live' n nb s)).map (fun i => [iv i, iv (minOver
        (((nb i).filter fun j => live' n nb s j && s.upd j).map s.rep) (s.rep i))]) := by
    apply List.map_congr_left
    intro i hi
    have hli : live' n nb s i = true := (List.mem_filter.mp hi).2
    unfold rep'
    rw [if_pos hli]
  rw [hcongr]
  unfold bodyR
  rw [eval_groupBy]
  apply groupMin_perm _ 1 _ (hok.nodup.filter _)
    (fun i => ((nb i).filter fun j => live' n nb s j && s.upd j).map s.rep) s.rep
  · intro row hrow
    rcases mem_union.mp hrow with h | h
    · obtain ⟨x, hx, rfl⟩ := mem_project.mp h
      obtain ⟨i, j, hi, hli, _, _, _, rfl⟩ := (hJ x).mp hx
      exact ⟨i, List.mem_filter.mpr ⟨hi, hli⟩, by simp only [reprRow]; ev_simp⟩
    · obtain ⟨x, hx, rfl⟩ := mem_project.mp h
      rw [eval_table] at hx
      obtain ⟨k, hk, hlk, rfl⟩ := (mem_unstable hU x).mp hx
      exact ⟨k, List.mem_filter.mpr ⟨hk, hlk⟩, by simp only [reprRow]; ev_simp⟩
  · intro i hi v
    obtain ⟨hiS, hli⟩ := List.mem_filter.mp hi
    constructor
    · rintro ⟨row, hrow, h0, rfl⟩
      rcases mem_union.mp hrow with h | h
      · obtain ⟨x, hx, rfl⟩ := mem_project.mp h
        obtain ⟨i', j, _, _, hj, hlj, huj, rfl⟩ := (hJ x).mp hx
        simp only [reprRow] at h0 ⊢
        ev_simp at h0
        have : i' = i := by omega
        subst this
        right
        refine ⟨s.rep j, List.mem_map.mpr ⟨j, List.mem_filter.mpr ⟨hj, by simp [hlj, huj]⟩, rfl⟩, ?_⟩
        ev_simp
      · obtain ⟨x, hx, rfl⟩ := mem_project.mp h
        rw [eval_table] at hx
        obtain ⟨k, _, _, rfl⟩ := (mem_unstable hU x).mp hx
        simp only [reprRow] at h0 ⊢
        ev_simp at h0
        have : k = i := by omega
        subst this
        left
        ev_simp
    · rintro (rfl | ⟨x, hx, rfl⟩)
      · refine ⟨[iv i, iv (s.rep i)], mem_union.mpr (Or.inr (mem_project.mpr ⟨reprRow s i, ?_, ?_⟩)),
          by ev_simp, by ev_simp⟩
        · rw [eval_table]; exact (mem_unstable hU _).mpr ⟨i, hiS, hli, rfl⟩
        · simp only [reprRow]; ev_simp
      · obtain ⟨j, hj, rfl⟩ := List.mem_map.mp hx
        obtain ⟨hj1, hj2⟩ := List.mem_filter.mp hj
        simp only [Bool.and_eq_true] at hj2
        refine ⟨[iv i, iv (s.rep j)], mem_union.mpr (Or.inl (mem_project.mpr
          ⟨[iv i, iv j] ++ reprRow s j, (hJ _).mpr ⟨i, j, hiS, hli, hj1, hj2.1, hj2.2, rfl⟩, ?_⟩)),
          by ev_simp, by ev_simp⟩
        simp only [reprRow]; ev_simp

/-- `reprNext` ↔ the representatives table of `CC.step`. -/
theorem reprNext_eval {n : Nat} {S : List Nat} {nb : Nat → List Nat} (hok : SubOK n S nb) (s : CC.St)
    (db : Db)
    (hRr : (db "r").Perm ((S.filter (live' n nb s)).map fun i => [iv i, iv (rep' n nb s i)]))
    (hU : (db "unstable").Perm ((S.filter (live' n nb s)).map (reprRow s))) :
    (bodyReprNext.eval db).Perm (canonRepr S (CC.step n nb s)) := by
  have hUnd : (db "unstable").Nodup :=
    hU.nodup_iff.mpr (nodup_map_rows (hok.nodup.filter _) _ (fun i => by simp [reprRow]))
  unfold bodyReprNext
  rw [eval_project, eval_join, eval_table, eval_table]
  have hJ := joinRows_lookup (S.filter (live' n nb s)) (fun i => [iv i, iv (rep' n nb s i)])
    (reprRow s) true (Expr.cmp Cmp.eq (Expr.col 0) (Expr.col 2))
    _ _ 3 hRr hUnd (by
      intro i hi
      obtain ⟨hiS, hli⟩ := List.mem_filter.mp hi
      refine ⟨(mem_unstable hU _).mpr ⟨i, hiS, hli, rfl⟩, by simp only [reprRow]; ev_simp, ?_⟩
      intro y hy hon
      obtain ⟨k, _, _, rfl⟩ := (mem_unstable hU y).mp hy
      simp only [reprRow] at hon
      ev_simp at hon
      have : i = k := by omega
      subst this
      rfl)
  refine (hJ.map _).trans (List.Perm.of_eq ?_)
  unfold canonRepr
  rw [step_live, List.map_map]
  apply List.map_congr_left
  intro i hi
  have hli : live' n nb s i = true := (List.mem_filter.mp hi).2
  simp only [Function.comp, reprRow, step_rep, step_upd, hli, Bool.true_and]
  ev_simp
  exact eq_cast _ _

/-- `CCSql.countOf` of `__splink__df_root_rows` = number of live nodes of `S` that need updating. -/
theorem rootRows_count {S : List Nat} (s : CC.St) (db : Db)
    (hRN : (db "reprNext").Perm (canonRepr S s)) :
    CCSql.countOf (bodyDfRootRows.eval db) = (S.filter fun i => s.live i && s.upd i).length := by
  unfold bodyDfRootRows
  rw [eval_groupBy, eval_filter, eval_table]
  have hlen : ((db "reprNext").filter (Expr.col 2).holds).length
      = (S.filter fun i => s.live i && s.upd i).length := by
    rw [(hRN.filter _).length_eq, canonRepr_filter S s _ s.upd, List.length_map]
    intro i _ _
    simp only [reprRow, Expr.holds, Expr.eval, List.getD_cons_succ, List.getD_cons_zero]
    cases s.upd i <;> rfl
  simp [groupRows, Agg.eval, CCSql.countOf, hlen]

/-- Counting over `S` instead of `0..n-1` when nodes outside `S` never need updating. -/
theorem updCount_eq {n : Nat} {S : List Nat} (hS : S.Nodup) (hSn : ∀ i ∈ S, i < n) (s : CC.St)
    (hout : ∀ i, i ∉ S → s.upd i = false) :
    (S.filter fun i => s.live i && s.upd i).length = CC.updCount n s := by
  unfold CC.updCount
  apply List.Perm.length_eq
  apply perm_of_nodup_of_mem (hS.filter _) (List.nodup_range.filter _)
  intro a
  simp only [List.mem_filter, List.mem_range, Bool.and_eq_true]
  constructor
  · rintro ⟨h1, h2⟩; exact ⟨hSn a h1, h2⟩
  · rintro ⟨_, h1, h2⟩
    refine ⟨?_, h1, h2⟩
    by_contra hc
    rw [hout a hc] at h2
    cases h2


/-! ## The representation invariant -/

/-- One term of `__splink__clustering_output_final`. -/
def finalRows (T : List Row) : List Row := finalTerm.eval (Db.set CCSql.emptyDb "T" T)

theorem finalRows_eq (T : List Row) :
    finalRows T = T.map fun row => [row.getD 0 .null, row.getD 1 .null] := by
  unfold finalRows finalTerm
  rw [eval_project, eval_table, set_same]
  apply List.map_congr_left
  intro row _
  simp [Expr.eval]

theorem finalRows_reprRow (s : CC.St) (L : List Nat) :
    finalRows (L.map (reprRow s)) = (L.map fun i => (i, s.rep i)).map pairRow := by
  rw [finalRows_eq, List.map_map, List.map_map]
  apply List.map_congr_left
  intro i _
  simp [reprRow, pairRow]

/-- The SQL loop state `t` represents the model state `s` on the node subset `S`. -/
structure Rep (S : List Nat) (nb : Nat → List Nat) (s : CC.St) (t : CCSql.LoopSt) : Prop where
  repr : t.repr.Perm (canonRepr S s)
  nbrs : NbrsSpec S nb s.live t.nbrs
  stables : (t.stables.flatMap finalRows).Perm ((s.out.filter fun r => S.contains r.1).map pairRow)
  outside : ∀ i, i ∉ S → s.upd i = false

theorem minOver_const (l : List Nat) (init : Nat) (h : ∀ x ∈ l, x = init) : minOver l init = init := by
  rcases minOver_mem l init with h' | h'
  · exact h'
  · exact h _ h'

theorem firstIter_upd_outside {n : Nat} {S : List Nat} {nb : Nat → List Nat} (hok : SubOK n S nb)
    (i : Nat) (hi : i ∉ S) : (CC.firstIter n nb).upd i = false := by
  rw [firstIter_upd, firstIter_rep]
  have h : minOver ((nb i).map (CC.initialRep nb)) (CC.initialRep nb i) = CC.initialRep nb i := by
    apply minOver_const
    intro x hx
    obtain ⟨j, hj, rfl⟩ := List.mem_map.mp hx
    rw [hok.outside i hi j hj]
  rw [h]
  simp

theorem step_upd_outside {n : Nat} {S : List Nat} {nb : Nat → List Nat} (hok : SubOK n S nb) (s : CC.St)
    (i : Nat) (hi : i ∉ S) : (CC.step n nb s).upd i = false := by
  rw [step_upd]
  have h : rep' n nb s i = s.rep i := by
    unfold rep'
    split
    · apply minOver_const
      intro x hx
      obtain ⟨j, hj, rfl⟩ := List.mem_map.mp hx
      rw [hok.outside i hi j (List.mem_filter.mp hj).1]
    · rfl
  rw [h]
  simp

/-- Everything before the loop establishes the invariant for `CC.firstIter`. -/
theorem init_rep (n : Nat) (S : List Nat) (edges : List (Nat × Nat × Int)) (thr : Option Int)
    (hS : S.Nodup) (hSn : ∀ i ∈ S, i < n) (hE : ∀ e ∈ edges, e.1 ∈ S ∧ e.2.1 ∈ S)
    (nodes edgeTab : List Row) (hN : nodes.Perm (nodeRowsS S))
    (hT : edgeTab.Perm (CCSql.edgeRows edges)) :
    Rep S (nbOf n thr edges) (CC.firstIter n (nbOf n thr edges))
      (CCSql.init nodes edgeTab (thr.map Val.int)) := by
  have hok := subOK_nbOf n S edges thr hS hSn hE
  let db0 := CCSql.baseDb nodes edgeTab
  let db1 := Db.set db0 "__splink__df_edges_with_self_loops"
    ((match thr.map Val.int with
      | some t => dfEdgesWithSelfLoops t
      | none => dfEdgesWithSelfLoopsNoThr).eval db0)
  let db2 := Db.set db1 "nodes_ids_only" (nodesIdsOnly.eval db1)
  let db3 := Db.set db2 "__splink__df_neighbours" (dfNeighbours.eval db2)
  let db4 := Db.set db3 "representatives" (representatives.eval db3)
  let db5 := Db.set db4 "neighbours_first_iter" (neighboursFirstIter.eval db4)
  let db6 := Db.set db5 "__splink__df_representatives" (dfRepresentatives.eval db5)
  have hinit : CCSql.init nodes edgeTab (thr.map Val.int) =
      { repr := db6 "__splink__df_representatives", nbrs := db6 "__splink__df_neighbours",
        stables := [] } := rfl
  -- statement 1
  have h0N : (db0 "nodes_in").Perm (nodeRowsS S) := by
    have e : db0 "nodes_in" = nodes := by simp only [db0, CCSql.baseDb]; db_get
    rw [e]; exact hN
  have h0E : (db0 "edges_in").Perm (CCSql.edgeRows edges) := by
    have e : db0 "edges_in" = edgeTab := by simp only [db0, CCSql.baseDb]; db_get
    rw [e]; exact hT
  have h1 := edgesStmt_mem S edges thr db0 h0N h0E
  -- statement 2
  have h1N : (db1 "nodes_in").Perm (nodeRowsS S) := by
    have e : db1 "nodes_in" = db0 "nodes_in" := by simp only [db1]; db_get
    rw [e]; exact h0N
  have h2 := nodesIdsOnly_eval S db1 h1N
  -- statement 3
  have h2N : (db2 "nodes_ids_only").Perm (nodeRowsS S) := by
    have e : db2 "nodes_ids_only" = nodesIdsOnly.eval db1 := by simp only [db2]; db_get
    rw [e]; exact h2
  have h2E : ∀ row, row ∈ db2 "__splink__df_edges_with_self_loops" ↔
      ∃ a b, ((a, b) ∈ kept thr edges ∨ (a ∈ S ∧ a = b)) ∧ row = [iv a, iv b] := by
    have e : db2 "__splink__df_edges_with_self_loops" = (match thr.map Val.int with
      | some t => dfEdgesWithSelfLoops t
      | none => dfEdgesWithSelfLoopsNoThr).eval db0 := by simp only [db2, db1]; db_get
    rw [e]; exact h1
  have h3 := dfNeighbours_mem n S edges thr hSn db2 h2N h2E
  -- statement 4
  have h3Nb : ∀ row, row ∈ db3 "__splink__df_neighbours" ↔
      ∃ i j, i ∈ S ∧ j ∈ nbOf n thr edges i ∧ row = [iv i, iv j] := by
    have e : db3 "__splink__df_neighbours" = dfNeighbours.eval db2 := by simp only [db3]; db_get
    rw [e]; exact h3
  have h4 := representatives_eval hok db3 h3Nb
  -- statement 5
  have h4Nb : ∀ row, row ∈ db4 "__splink__df_neighbours" ↔
      ∃ i j, i ∈ S ∧ j ∈ nbOf n thr edges i ∧ row = [iv i, iv j] := by
    have e : db4 "__splink__df_neighbours" = db3 "__splink__df_neighbours" := by
      simp only [db4]; db_get
    rw [e]; exact h3Nb
  have h4R : (db4 "representatives").Perm
      (S.map fun i => [iv i, iv (CC.initialRep (nbOf n thr edges) i)]) := by
    have e : db4 "representatives" = representatives.eval db3 := by simp only [db4]; db_get
    rw [e]; exact h4
  have h5 := neighboursFirstIter_eval hok db4 h4Nb h4R
  -- statement 6
  have h5F : (db5 "neighbours_first_iter").Perm
      (S.map fun i => [iv i, iv (rep1 (nbOf n thr edges) i)]) := by
    have e : db5 "neighbours_first_iter" = neighboursFirstIter.eval db4 := by simp only [db5]; db_get
    rw [e]; exact h5
  have h5R : (db5 "representatives").Perm
      (S.map fun i => [iv i, iv (CC.initialRep (nbOf n thr edges) i)]) := by
    have e : db5 "representatives" = db4 "representatives" := by simp only [db5]; db_get
    rw [e]; exact h4R
  have h6 := dfRepresentatives_eval (n := n) hok db5 h5F h5R
  rw [hinit]
  refine ⟨?_, ?_, ?_, firstIter_upd_outside hok⟩
  · have e : db6 "__splink__df_representatives" = dfRepresentatives.eval db5 := by
      simp only [db6]; db_get
    show (db6 "__splink__df_representatives").Perm _
    rw [e]; exact h6
  · have e : db6 "__splink__df_neighbours" = db3 "__splink__df_neighbours" := by
      simp only [db6, db5, db4]; db_get
    show NbrsSpec S _ _ (db6 "__splink__df_neighbours")
    rw [e]
    intro row
    rw [h3Nb row]
    constructor
    · rintro ⟨i, j, hi, hj, rfl⟩; exact ⟨i, j, hi, firstIter_live _ _ _, hj, rfl⟩
    · rintro ⟨i, j, hi, _, hj, rfl⟩; exact ⟨i, j, hi, hj, rfl⟩
  · show (([] : List (List Row)).flatMap finalRows).Perm _
    rw [firstIter_out]
    exact List.Perm.refl _

/-- One pass of the SQL loop body follows `CC.step`, and its count is the model's. -/
theorem pass_rep {n : Nat} {S : List Nat} {nb : Nat → List Nat} (hok : SubOK n S nb) {s : CC.St}
    {t : CCSql.LoopSt} (h : Rep S nb s t) :
    Rep S nb (CC.step n nb s) (CCSql.pass t).1 ∧ (CCSql.pass t).2 = CC.updCount n (CC.step n nb s) := by
  let db0 := Db.set (Db.set CCSql.emptyDb "reprPrev" t.repr) "nbrsPrev" t.nbrs
  let db1 := Db.set db0 "non_stable_representatives" (bodyNonStableRepresentatives.eval db0)
  let db2 := Db.set db1 "stable" (bodyStable.eval db1)
  let db3 := Db.set db2 "unstable" (bodyUnstable.eval db2)
  let db4 := Db.set db3 "nbrsNext" (bodyNbrsNext.eval db3)
  let db5 := Db.set db4 "r" (bodyR.eval db4)
  let db6 := Db.set db5 "reprNext" (bodyReprNext.eval db5)
  let db7 := Db.set db6 "__splink__df_root_rows" (bodyDfRootRows.eval db6)
  have hpass : CCSql.pass t =
      ({ repr := db7 "reprNext", nbrs := db7 "nbrsNext", stables := t.stables ++ [db7 "stable"] },
        CCSql.countOf (db7 "__splink__df_root_rows")) := rfl
  -- non_stable_representatives
  have h0R : (db0 "reprPrev").Perm (canonRepr S s) := by
    have e : db0 "reprPrev" = t.repr := by simp only [db0]; db_get
    rw [e]; exact h.repr
  have h0Nb : NbrsSpec S nb s.live (db0 "nbrsPrev") := by
    have e : db0 "nbrsPrev" = t.nbrs := by simp only [db0]; db_get
    rw [e]; exact h.nbrs
  have h1 := nonStable_mem hok s db0 h0R h0Nb
  -- stable
  have h1R : (db1 "reprPrev").Perm (canonRepr S s) := by
    have e : db1 "reprPrev" = db0 "reprPrev" := by simp only [db1]; db_get
    rw [e]; exact h0R
  have h1NS : ∀ row, row ∈ db1 "non_stable_representatives" ↔
      ∃ g, CC.nonStable n nb s g = true ∧ row = [iv g] := by
    have e : db1 "non_stable_representatives" = bodyNonStableRepresentatives.eval db0 := by
      simp only [db1]; db_get
    rw [e]; exact h1
  have h2 := stable_eval s db1 h1R h1NS
  -- unstable
  have h2R : (db2 "reprPrev").Perm (canonRepr S s) := by
    have e : db2 "reprPrev" = db1 "reprPrev" := by simp only [db2]; db_get
    rw [e]; exact h1R
  have h2St : (db2 "stable").Perm
      ((S.filter fun i => s.live i && !CC.nonStable n nb s (s.rep i)).map (reprRow s)) := by
    have e : db2 "stable" = bodyStable.eval db1 := by simp only [db2]; db_get
    rw [e]; exact h2
  have h3 := unstable_eval s db2 h2R h2St
  -- nbrsNext
  have h3Nb : NbrsSpec S nb s.live (db3 "nbrsPrev") := by
    have e : db3 "nbrsPrev" = db0 "nbrsPrev" := by simp only [db3, db2, db1]; db_get
    rw [e]; exact h0Nb
  have h3U : (db3 "unstable").Perm ((S.filter (live' n nb s)).map (reprRow s)) := by
    have e : db3 "unstable" = bodyUnstable.eval db2 := by simp only [db3]; db_get
    rw [e]; exact h3
  have h4 := nbrsNext_mem s db3 h3Nb h3U
  -- r
  have h4Nb : NbrsSpec S nb (live' n nb s) (db4 "nbrsNext") := by
    have e : db4 "nbrsNext" = bodyNbrsNext.eval db3 := by simp only [db4]; db_get
    rw [e]; exact h4
  have h4U : (db4 "unstable").Perm ((S.filter (live' n nb s)).map (reprRow s)) := by
    have e : db4 "unstable" = db3 "unstable" := by simp only [db4]; db_get
    rw [e]; exact h3U
  have h5 := r_eval hok s db4 h4Nb h4U
  -- reprNext
  have h5R : (db5 "r").Perm ((S.filter (live' n nb s)).map fun i => [iv i, iv (rep' n nb s i)]) := by
    have e : db5 "r" = bodyR.eval db4 := by simp only [db5]; db_get
    rw [e]; exact h5
  have h5U : (db5 "unstable").Perm ((S.filter (live' n nb s)).map (reprRow s)) := by
    have e : db5 "unstable" = db4 "unstable" := by simp only [db5]; db_get
    rw [e]; exact h4U
  have h6 := reprNext_eval hok s db5 h5R h5U
  -- root rows
  have h6RN : (db6 "reprNext").Perm (canonRepr S (CC.step n nb s)) := by
    have e : db6 "reprNext" = bodyReprNext.eval db5 := by simp only [db6]; db_get
    rw [e]; exact h6
  have h7 := rootRows_count (CC.step n nb s) db6 h6RN
  have hout := step_upd_outside hok s
  rw [hpass]
  refine ⟨⟨?_, ?_, ?_, hout⟩, ?_⟩
  · have e : db7 "reprNext" = db6 "reprNext" := by simp only [db7]; db_get
    show (db7 "reprNext").Perm _
    rw [e]; exact h6RN
  · have e : db7 "nbrsNext" = db4 "nbrsNext" := by simp only [db7, db6, db5]; db_get
    show NbrsSpec S nb _ (db7 "nbrsNext")
    rw [e, step_live]; exact h4Nb
  · have e : db7 "stable" = db2 "stable" := by simp only [db7, db6, db5, db4, db3]; db_get
    show ((t.stables ++ [db7 "stable"]).flatMap finalRows).Perm _
    rw [e, List.flatMap_append, step_out, List.filter_append, List.map_append]
    apply List.Perm.append h.stables
    simp only [List.flatMap_cons, List.flatMap_nil, List.append_nil]
    have hfin : (finalRows (db2 "stable")).Perm (finalRows
        ((S.filter fun i => s.live i && !CC.nonStable n nb s (s.rep i)).map (reprRow s))) := by
      rw [finalRows_eq, finalRows_eq]; exact h2St.map _
    refine hfin.trans ?_
    rw [finalRows_reprRow]
    apply List.Perm.map
    rw [List.filter_map]
    apply List.Perm.map
    rw [List.filter_filter]
    apply perm_of_nodup_of_mem (hok.nodup.filter _) (List.nodup_range.filter _)
    intro a
    simp only [List.mem_filter, List.mem_range, Function.comp, live'_eq, Bool.and_eq_true,
      List.contains_iff_mem, Bool.not_eq_true', Bool.and_eq_false_imp]
    constructor
    · rintro ⟨h1, h2, h3⟩
      exact ⟨hok.lt a h1, h1, h2, fun _ => h3⟩
    · rintro ⟨_, h1, h2, h3⟩
      exact ⟨h1, h2, h3 h2⟩
  · dsimp only
    have e : db7 "__splink__df_root_rows" = bodyDfRootRows.eval db6 := by simp only [db7]; db_get
    rw [e, h7]
    exact updCount_eq hok.nodup hok.lt _ hout


/-! ## The loop, the trace and the output -/

theorem pass_eq {n : Nat} {S : List Nat} {nb : Nat → List Nat} (hok : SubOK n S nb) {s : CC.St}
    {t : CCSql.LoopSt} (h : Rep S nb s t) :
    CCSql.pass t = ((CCSql.pass t).1, CC.updCount n (CC.step n nb s)) :=
  Prod.ext rfl (pass_rep hok h).2

theorem loop_rep {n : Nat} {S : List Nat} {nb : Nat → List Nat} (hok : SubOK n S nb) (fuel : Nat)
    {s : CC.St} {t : CCSql.LoopSt} (h : Rep S nb s t) :
    Rep S nb (CC.loop n nb fuel s) (CCSql.loop fuel (t, CC.updCount n s)) := by
  induction fuel generalizing s t with
  | zero => exact h
  | succ f ih =>
    unfold CCSql.loop CC.loop
    by_cases hc : CC.updCount n s > 0
    · simp only [hc, if_true]
      rw [pass_eq hok h]
      exact ih (pass_rep hok h).1
    · simp only [hc, if_false]
      exact h

theorem loopTrace_eq {n : Nat} {S : List Nat} {nb : Nat → List Nat} (hok : SubOK n S nb) (fuel : Nat)
    {s : CC.St} {t : CCSql.LoopSt} (h : Rep S nb s t) :
    CCSql.loopTrace fuel (t, CC.updCount n s) = CC.loopTrace n nb fuel s := by
  induction fuel generalizing s t with
  | zero => rfl
  | succ f ih =>
    unfold CCSql.loopTrace CC.loopTrace
    by_cases hc : CC.updCount n s > 0
    · simp only [hc, if_true]
      rw [pass_eq hok h]
      rw [ih (pass_rep hok h).1]
    · simp only [hc, if_false]

theorem output_rep {n : Nat} {S : List Nat} {nb : Nat → List Nat} (hok : SubOK n S nb)
    {s : CC.St} {t : CCSql.LoopSt} (h : Rep S nb s t) :
    (CCSql.output t).Perm (((CC.output n s).filter fun r => S.contains r.1).map pairRow) := by
  show ((t.stables ++ [t.repr]).flatMap finalRows).Perm _
  unfold CC.output
  rw [List.flatMap_append, List.filter_append, List.map_append]
  apply List.Perm.append h.stables
  simp only [List.flatMap_cons, List.flatMap_nil, List.append_nil]
  have hfin : (finalRows t.repr).Perm (finalRows (canonRepr S s)) := by
    rw [finalRows_eq, finalRows_eq]; exact h.repr.map _
  refine hfin.trans ?_
  unfold canonRepr
  rw [finalRows_reprRow]
  apply List.Perm.map
  rw [List.filter_map]
  apply List.Perm.map
  rw [List.filter_filter]
  apply perm_of_nodup_of_mem (hok.nodup.filter _) (List.nodup_range.filter _)
  intro a
  simp only [List.mem_filter, List.mem_range, Function.comp, Bool.and_eq_true, List.contains_iff_mem]
  constructor
  · rintro ⟨h1, h2⟩
    exact ⟨hok.lt a h1, h1, h2⟩
  · rintro ⟨_, h1, h2⟩
    exact ⟨h1, h2⟩

/-! ## The whole pipeline -/

theorem run_eq (n : Nat) (es : List CC.Edge) :
    CC.run n es = CC.loop n (CC.neighboursOf (CC.edgesWithSelfLoops n es)) (CC.fuel n)
      (CC.step n (CC.neighboursOf (CC.edgesWithSelfLoops n es))
        (CC.firstIter n (CC.neighboursOf (CC.edgesWithSelfLoops n es)))) := by
  unfold CC.run
  simp only [neighbours_get]

theorem trace_eq (n : Nat) (es : List CC.Edge) :
    CC.trace n es = CC.updCount n (CC.step n (CC.neighboursOf (CC.edgesWithSelfLoops n es))
        (CC.firstIter n (CC.neighboursOf (CC.edgesWithSelfLoops n es)))) ::
      CC.loopTrace n (CC.neighboursOf (CC.edgesWithSelfLoops n es)) (CC.fuel n)
      (CC.step n (CC.neighboursOf (CC.edgesWithSelfLoops n es))
        (CC.firstIter n (CC.neighboursOf (CC.edgesWithSelfLoops n es)))) := by
  unfold CC.trace
  simp only [neighbours_get]

/-- **Core refinement theorem**: on any node subset `S` (in any order), with input tables given up to row order, the
SQL pipeline returns a permutation of the model's rows for the nodes of `S`. -/
theorem cluster_core (n : Nat) (S : List Nat) (edges : List (Nat × Nat × Int)) (thr : Option Int)
    (hS : S.Nodup) (hSn : ∀ i ∈ S, i < n) (hE : ∀ e ∈ edges, e.1 ∈ S ∧ e.2.1 ∈ S)
    (nodes edgeTab : List Row) (hN : nodes.Perm (nodeRowsS S))
    (hT : edgeTab.Perm (CCSql.edgeRows edges)) :
    (CCSql.cluster nodes edgeTab (thr.map Val.int) (CC.fuel n)).Perm
      (((CC.cluster n (kept thr edges)).filter fun r => S.contains r.1).map pairRow) := by
  have hok := subOK_nbOf n S edges thr hS hSn hE
  have h0 := init_rep n S edges thr hS hSn hE nodes edgeTab hN hT
  have h1 := (pass_rep hok h0).1
  have h2 := loop_rep hok (CC.fuel n) h1
  rw [← pass_eq hok h0] at h2
  unfold CCSql.cluster CC.cluster
  rw [run_eq]
  exact output_rep hok h2

/-- The logged per-pass counts of the SQL pipeline on a node subset are the model's on all nodes. -/
theorem trace_core (n : Nat) (S : List Nat) (edges : List (Nat × Nat × Int)) (thr : Option Int)
    (hS : S.Nodup) (hSn : ∀ i ∈ S, i < n) (hE : ∀ e ∈ edges, e.1 ∈ S ∧ e.2.1 ∈ S)
    (nodes edgeTab : List Row) (hN : nodes.Perm (nodeRowsS S))
    (hT : edgeTab.Perm (CCSql.edgeRows edges)) :
    CCSql.trace nodes edgeTab (thr.map Val.int) (CC.fuel n) = CC.trace n (kept thr edges) := by
  have hok := subOK_nbOf n S edges thr hS hSn hE
  have h0 := init_rep n S edges thr hS hSn hE nodes edgeTab hN hT
  have h1 := pass_rep hok h0
  have h2 := loopTrace_eq hok (CC.fuel n) h1.1
  rw [← pass_eq hok h0] at h2
  unfold CCSql.trace
  rw [trace_eq]
  simp only [h1.2, h2]
  rfl

/-- Refinement on a node subset (the multi-threshold code calls the pipeline on `__splink__nodes_in_play`). -/
theorem cluster_perm_model_sub (n : Nat) (S : List Nat) (edges : List (Nat × Nat × Int)) (thr : Option Int)
    (hS : S.Nodup) (hSn : ∀ i ∈ S, i < n) (hE : ∀ e ∈ edges, e.1 ∈ S ∧ e.2.1 ∈ S) :
    (CCSql.cluster (S.map fun (i : Nat) => [Val.int (i : Int)]) (CCSql.edgeRows edges) (thr.map Val.int)
        (CC.fuel n)).Perm
      (((CC.cluster n (kept thr edges)).filter fun r => S.contains r.1).map pairRow) :=
  cluster_core n S edges thr hS hSn hE _ _ (List.Perm.refl _) (List.Perm.refl _)

theorem trace_eq_model_sub (n : Nat) (S : List Nat) (edges : List (Nat × Nat × Int)) (thr : Option Int)
    (hS : S.Nodup) (hSn : ∀ i ∈ S, i < n) (hE : ∀ e ∈ edges, e.1 ∈ S ∧ e.2.1 ∈ S) :
    CCSql.trace (S.map fun (i : Nat) => [Val.int (i : Int)]) (CCSql.edgeRows edges) (thr.map Val.int)
        (CC.fuel n) = CC.trace n (kept thr edges) :=
  trace_core n S edges thr hS hSn hE _ _ (List.Perm.refl _) (List.Perm.refl _)

/-! ## All nodes -/

theorem hE_range {n : Nat} {edges : List (Nat × Nat × Int)} (hE : ∀ e ∈ edges, e.1 < n ∧ e.2.1 < n) :
    ∀ e ∈ edges, e.1 ∈ List.range n ∧ e.2.1 ∈ List.range n :=
  fun e he => ⟨List.mem_range.mpr (hE e he).1, List.mem_range.mpr (hE e he).2⟩

theorem kept_lt {n : Nat} {thr : Option Int} {edges : List (Nat × Nat × Int)}
    (hE : ∀ e ∈ edges, e.1 < n ∧ e.2.1 < n) : ∀ e ∈ kept thr edges, e.1 < n ∧ e.2 < n := by
  intro e he
  have := kept_mem_S (hE_range hE) e he
  exact ⟨List.mem_range.mp this.1, List.mem_range.mp this.2⟩

theorem filter_range_cluster {n : Nat} {thr : Option Int} {edges : List (Nat × Nat × Int)}
    (hE : ∀ e ∈ edges, e.1 < n ∧ e.2.1 < n) :
    ((CC.cluster n (kept thr edges)).filter fun r => (List.range n).contains r.1)
      = CC.cluster n (kept thr edges) := by
  apply List.filter_eq_self.mpr
  rintro ⟨i, c⟩ h
  have := (mem_cluster n _ (kept_lt hE) i c h).1
  exact List.contains_iff_mem.mpr (List.mem_range.mpr this)

theorem cluster_perm_model_any_order (n : Nat) (edges : List (Nat × Nat × Int)) (thr : Option Int)
    (hE : ∀ e ∈ edges, e.1 < n ∧ e.2.1 < n) (nodes edgeTab : List Row)
    (hN : nodes.Perm (CCSql.nodeRows n)) (hT : edgeTab.Perm (CCSql.edgeRows edges)) :
    (CCSql.cluster nodes edgeTab (thr.map Val.int) (CC.fuel n)).Perm
      ((CC.cluster n (kept thr edges)).map pairRow) := by
  have := cluster_core n (List.range n) edges thr List.nodup_range
    (fun _ hi => List.mem_range.mp hi) (hE_range hE) nodes edgeTab hN hT
  rw [filter_range_cluster hE] at this
  exact this

theorem cluster_perm_model (n : Nat) (edges : List (Nat × Nat × Int)) (thr : Option Int)
    (hE : ∀ e ∈ edges, e.1 < n ∧ e.2.1 < n) :
    (CCSql.cluster (CCSql.nodeRows n) (CCSql.edgeRows edges) (thr.map Val.int) (CC.fuel n)).Perm
      ((CC.cluster n (kept thr edges)).map pairRow) :=
  cluster_perm_model_any_order n edges thr hE _ _ (List.Perm.refl _) (List.Perm.refl _)

theorem trace_eq_model (n : Nat) (edges : List (Nat × Nat × Int)) (thr : Option Int)
    (hE : ∀ e ∈ edges, e.1 < n ∧ e.2.1 < n) :
    CCSql.trace (CCSql.nodeRows n) (CCSql.edgeRows edges) (thr.map Val.int) (CC.fuel n)
      = CC.trace n (kept thr edges) :=
  trace_core n (List.range n) edges thr List.nodup_range (fun _ hi => List.mem_range.mp hi)
    (hE_range hE) _ _ (List.Perm.refl _) (List.Perm.refl _)

theorem pairRow_inj {p q : Nat × Nat} (h : pairRow p = pairRow q) : p = q := by
  unfold pairRow at h
  have h1 : iv p.1 = iv q.1 := by injection h
  have h2 : iv p.2 = iv q.2 := by
    injection h with _ h'
    injection h'
  exact Prod.ext (iv_inj.mp h1) (iv_inj.mp h2)

theorem clusters_are_components (n : Nat) (edges : List (Nat × Nat × Int)) (thr : Option Int)
    (hE : ∀ e ∈ edges, e.1 < n ∧ e.2.1 < n) (i c : Nat)
    (h : pairRow (i, c) ∈ CCSql.cluster (CCSql.nodeRows n) (CCSql.edgeRows edges) (thr.map Val.int)
      (CC.fuel n)) :
    Reach (C05.Adj n (kept thr edges)) i c ∧ ∀ j, Reach (C05.Adj n (kept thr edges)) i j → c ≤ j := by
  rw [(cluster_perm_model n edges thr hE).mem_iff, List.mem_map] at h
  obtain ⟨p, hp, hpe⟩ := h
  have := pairRow_inj hpe
  subst this
  exact cluster_is_min_reachable n (kept thr edges) (kept_lt hE) i c hp

theorem each_node_once (n : Nat) (edges : List (Nat × Nat × Int)) (thr : Option Int)
    (hE : ∀ e ∈ edges, e.1 < n ∧ e.2.1 < n) :
    ((CCSql.cluster (CCSql.nodeRows n) (CCSql.edgeRows edges) (thr.map Val.int) (CC.fuel n)).map
      fun r => r.getD 0 Val.null).Perm ((List.range n).map fun (i : Nat) => Val.int (i : Int)) := by
  refine ((cluster_perm_model n edges thr hE).map _).trans ?_
  rw [List.map_map]
  have h1 := (cluster_nodes_perm n (kept thr edges) (kept_lt hE)).map fun (i : Nat) => Val.int (i : Int)
  rw [List.map_map] at h1
  refine (List.Perm.of_eq ?_).trans h1
  apply List.map_congr_left
  intro p _
  simp [pairRow]

end SplinkVerif.Lemmas.CCSql
