import Mathlib.Data.List.Nodup
import Mathlib.Data.List.Perm.Basic
import Mathlib.Data.List.Forall2
import Mathlib.Algebra.Order.Field.Rat
import Mathlib.Algebra.BigOperators.Group.List.Basic
import Mathlib.Data.Rat.Cast.CharZero
import Mathlib.Tactic.Ring
import SplinkVerif.Lemmas.Rel
import SplinkVerif.Lemmas.AccSql
import SplinkVerif.Lemmas.EMSums
import SplinkVerif.Lemmas.EMMBridgeWitness
import SplinkVerif.Model.EMSql
/-!
# The regenerated M-step SQL of `expectation_maximisation.py` computes the functional EM model

Statement by statement, the relational-algebra terms of `Generated/EMSql.lean` (evaluated with `Rel.eval`):

| statement                                        | lemma                  | result                                              |
|--------------------------------------------------|------------------------|-----------------------------------------------------|
| `countsBlockApc name` / `countsBlockRows name`   | `countsBlock_eval`     | one row per distinct gamma value: `mSpecW`, `uSpecW`|
| `lambdaBlockApc` / `lambdaBlockRows`             | `lambdaBlock_eval`     | `lambdaRow` (NULLs iff the total weight is 0)       |
| `mUCounts`                                       | `mUCounts_eval`        | the blocks, then the lambda row                     |
| `proportions`                                    | `proportions_eval`     | `propRow` per kept row, then the lambda rows        |
| `mStep`                                          | `mStep_eval`           | `mSpecW / denomMW` per observed value (names distinct)|

and the link to `Model/EM.lean` at `ℝ`: `mSpecW_cast`, `uSpecW_cast`, `lambda_cast`, `observedValues_eq`, `newM_cast`,
`newU_cast`.
-/
namespace SplinkVerif.Lemmas.EMSql
open SplinkVerif SplinkVerif.Rel SplinkVerif.Lemmas.Rel SplinkVerif.EMSql

/-! ## Specification on the abstract rows -/

/-- `'_probability_two_random_records_match'` -/
def lamName : String := "_probability_two_random_records_match"

/-- The gamma value of comparison `ci` as `predictIn` reads it. -/
def gam (ci : Nat) (r : PRow) : Int := r.gammas.getD ci 0

/-- The weight of a row: `agreement_pattern_count`, or the literal `1` of the row-wise variant. -/
def wt (useApc : Bool) (r : PRow) : Nat := if useApc then r.count else 1

/-- `Σ p·w` over the rows with `gamma_ci = v`. -/
def mSpecW (useApc : Bool) (rows : List PRow) (ci : Nat) (v : Int) : Rat :=
  ((rows.filter fun r => gam ci r == v).map fun r => r.p * (wt useApc r : Rat)).sum

/-- `Σ (1−p)·w` over the rows with `gamma_ci = v`. -/
def uSpecW (useApc : Bool) (rows : List PRow) (ci : Nat) (v : Int) : Rat :=
  ((rows.filter fun r => gam ci r == v).map fun r => (1 - r.p) * (wt useApc r : Rat)).sum

/-- `Σ p·count` over the rows with `gamma_ci = v`. -/
def mSpec (rows : List PRow) (ci : Nat) (v : Int) : Rat :=
  ((rows.filter fun r => gam ci r == v).map fun r => r.p * (r.count : Rat)).sum

/-- `Σ (1−p)·count` over the rows with `gamma_ci = v`. -/
def uSpec (rows : List PRow) (ci : Nat) (v : Int) : Rat :=
  ((rows.filter fun r => gam ci r == v).map fun r => (1 - r.p) * (r.count : Rat)).sum

theorem mSpecW_true (rows : List PRow) (ci : Nat) (v : Int) : mSpecW true rows ci v = mSpec rows ci v := rfl
theorem uSpecW_true (rows : List PRow) (ci : Nat) (v : Int) : uSpecW true rows ci v = uSpec rows ci v := rfl

/-- The distinct gamma values of comparison `ci`, in the order of first occurrence (`GROUP BY gamma`). -/
def gammaValues (rows : List PRow) (ci : Nat) : List Int := (rows.map (gam ci)).eraseDups

/-- SQL division of two exact numbers: NULL when the divisor is 0. -/
def divV (a b : Rat) : Val := if b = 0 then .null else .rat (a / b)

def totalP (useApc : Bool) (rows : List PRow) : Rat := (rows.map fun r => r.p * (wt useApc r : Rat)).sum
def totalQ (useApc : Bool) (rows : List PRow) : Rat := (rows.map fun r => (1 - r.p) * (wt useApc r : Rat)).sum
def totalW (useApc : Bool) (rows : List PRow) : Nat := (rows.map (wt useApc)).sum

/-- The row of the lambda block.  On the empty table, and when all weights are 0, the two numbers are NULL. -/
def lambdaRow (useApc : Bool) (rows : List PRow) : Row :=
  [.int 0, divV (totalP useApc rows) (totalW useApc rows), divV (totalQ useApc rows) (totalW useApc rows),
    .str lamName]

/-- The table a block reads. -/
def predDb (rows : List PRow) (ci : Nat) : Db := Db.set (fun _ => []) "predict_in" (predictIn rows ci)

def encP (ci : Nat) (r : PRow) : Row := [Val.int (gam ci r), Val.rat r.p, Val.int (r.count : Int)]

theorem predDb_predict (rows : List PRow) (ci : Nat) : predDb rows ci "predict_in" = rows.map (encP ci) := by
  unfold predDb
  rw [set_same]
  rfl

/-! ## `sum` over exact numbers -/

theorem sumVals_map_rat' {α : Type} (f : α → Rat) (l : List α) :
    sumVals (l.map fun a => Val.rat (f a)) = if l = [] then Val.null else Val.rat ((l.map f).sum) := by
  induction l with
  | nil => rfl
  | cons a t ih =>
    rw [List.map_cons, sumVals_cons, ih]
    by_cases ht : t = []
    · subst ht; simp [sumStep]
    · simp only [ht, if_false, List.cons_ne_nil, List.map_cons, List.sum_cons]
      simp [sumStep, Arith.eval, Val.toRat?]

theorem sumVals_map_rat {α : Type} (f : α → Rat) (l : List α) (h : l ≠ []) :
    sumVals (l.map fun a => Val.rat (f a)) = Val.rat ((l.map f).sum) := by
  rw [sumVals_map_rat', if_neg h]

theorem sumVals_map_nat {α : Type} (f : α → Nat) (l : List α) :
    sumVals (l.map fun a => Val.int (f a : Int)) = if l = [] then Val.null else Val.int (((l.map f).sum : Nat) : Int) := by
  induction l with
  | nil => rfl
  | cons a t ih =>
    rw [List.map_cons, sumVals_cons, ih]
    by_cases ht : t = []
    · subst ht; simp [sumStep]
    · simp only [ht, if_false, List.cons_ne_nil, List.map_cons, List.sum_cons]
      simp [sumStep, Arith.eval]

/-! ## Part 1: the counts blocks -/

/-- `select gamma, sum(E1), sum(E2), name from predict_in group by gamma` for summands that are exact numbers. -/
theorem counts_eval_gen (rows : List PRow) (ci : Nat) (name : Val) (E1 E2 : Expr) (f1 f2 : PRow → Rat)
    (h1 : ∀ r, E1.eval (encP ci r) = .rat (f1 r)) (h2 : ∀ r, E2.eval (encP ci r) = .rat (f2 r)) :
    (Rel.project [Expr.col 0, Expr.col 1, Expr.col 2, Expr.lit name]
      (Rel.groupBy [Expr.col 0] [Agg.sum E1, Agg.sum E2] (Rel.table "predict_in"))).eval (predDb rows ci) =
    (gammaValues rows ci).map fun v =>
      [.int v, .rat (((rows.filter fun r => gam ci r == v).map f1).sum),
        .rat (((rows.filter fun r => gam ci r == v).map f2).sum), name] := by
  rw [eval_project, eval_groupBy, eval_table, predDb_predict]
  unfold groupRows
  simp only [List.isEmpty_cons, Bool.false_eq_true, if_false]
  have hkeys : (rows.map (encP ci)).map (fun row => [Expr.col 0].map (·.eval row))
      = (rows.map (gam ci)).map (fun k => [Val.int k]) := by
    rw [List.map_map, List.map_map]
    rfl
  rw [hkeys, Lemmas.AccSql.eraseDups_map_inj (fun k => [Val.int k]) (fun a b h => by simpa using h)]
  unfold gammaValues
  simp only [List.map_map]
  apply List.map_congr_left
  intro k hk
  rw [List.mem_eraseDups, List.mem_map] at hk
  obtain ⟨x0, hx0, hk0⟩ := hk
  simp only [Function.comp]
  have hF : ((rows.map (encP ci)).filter fun row => ([Expr.col 0].map (·.eval row)) == [Val.int k])
      = (rows.filter fun r => gam ci r == k).map (encP ci) := by
    rw [List.filter_map]
    congr 1
    apply List.filter_congr
    intro x _
    show ([Val.int (gam ci x)] == [Val.int k]) = _
    exact Lemmas.AccSql.singleton_int_beq _ _
  have hne : (rows.filter fun r => gam ci r == k) ≠ [] := by
    intro hnil
    have : x0 ∈ rows.filter fun r => gam ci r == k :=
      List.mem_filter.mpr ⟨hx0, by simpa using hk0⟩
    rw [hnil] at this
    cases this
  rw [hF]
  generalize (rows.filter fun r => gam ci r == k) = F at hne
  have c1 : (Agg.sum E1).eval (F.map (encP ci)) = Val.rat ((F.map f1).sum) := by
    show sumVals ((F.map (encP ci)).map E1.eval) = _
    rw [List.map_map]
    have : (E1.eval ∘ encP ci) = fun r => Val.rat (f1 r) := funext fun r => h1 r
    rw [this]
    exact sumVals_map_rat f1 F hne
  have c2 : (Agg.sum E2).eval (F.map (encP ci)) = Val.rat ((F.map f2).sum) := by
    show sumVals ((F.map (encP ci)).map E2.eval) = _
    rw [List.map_map]
    have : (E2.eval ∘ encP ci) = fun r => Val.rat (f2 r) := funext fun r => h2 r
    rw [this]
    exact sumVals_map_rat f2 F hne
  simp only [List.map_cons, List.map_nil, c1, c2]
  rfl

/-- The row of value `v` in the block of comparison `ci`. -/
def countsRow (useApc : Bool) (rows : List PRow) (ci : Nat) (name : String) (v : Int) : Row :=
  [.int v, .rat (mSpecW useApc rows ci v), .rat (uSpecW useApc rows ci v), .str name]

/-- The counts block of a comparison (either variant). -/
def countsBlock (useApc : Bool) (name : Val) : Rel :=
  if useApc then Gen.EMSql.countsBlockApc name else Gen.EMSql.countsBlockRows name

/-- The lambda block (either variant). -/
def lambdaBlock (useApc : Bool) : Rel :=
  if useApc then Gen.EMSql.lambdaBlockApc else Gen.EMSql.lambdaBlockRows

theorem countsBlock_eval (useApc : Bool) (rows : List PRow) (ci : Nat) (name : String) :
    (countsBlock useApc (.str name)).eval (predDb rows ci) =
      (gammaValues rows ci).map (countsRow useApc rows ci name) := by
  cases useApc
  · show (Gen.EMSql.countsBlockRows (.str name)).eval _ = _
    unfold Gen.EMSql.countsBlockRows
    rw [counts_eval_gen rows ci (.str name) _ _ (fun r => r.p * (wt false r : Rat))
      (fun r => (1 - r.p) * (wt false r : Rat))]
    · rfl
    · intro r
      simp [Expr.eval, encP, Arith.eval, Val.toRat?, wt]
    · intro r
      simp [Expr.eval, encP, Arith.eval, Val.toRat?, wt]
  · show (Gen.EMSql.countsBlockApc (.str name)).eval _ = _
    unfold Gen.EMSql.countsBlockApc
    rw [counts_eval_gen rows ci (.str name) _ _ (fun r => r.p * (wt true r : Rat))
      (fun r => (1 - r.p) * (wt true r : Rat))]
    · rfl
    · intro r
      simp [Expr.eval, encP, Arith.eval, Val.toRat?, wt]
    · intro r
      simp [Expr.eval, encP, Arith.eval, Val.toRat?, wt]

/-! ## Part 1: the lambda block -/

theorem div_rat_int (a : Rat) (n : Nat) :
    Arith.div.eval (Val.rat a) (Val.int (n : Int)) = divV a (n : Rat) := by
  simp [Arith.eval, Val.toRat?, divV]

/-- `select 0, sum(E0)/sum(E1), sum(E2)/sum(E1), lam from predict_in` for exact summands `E0`, `E2` and natural-number
weights `E1`. -/
theorem lambda_eval_gen (rows : List PRow) (ci : Nat) (E0 E1 E2 : Expr) (f0 f2 : PRow → Rat) (w : PRow → Nat)
    (h0 : ∀ r, E0.eval (encP ci r) = .rat (f0 r)) (h1 : ∀ r, E1.eval (encP ci r) = .int (w r : Int))
    (h2 : ∀ r, E2.eval (encP ci r) = .rat (f2 r)) :
    (Rel.project [Expr.lit (Val.int 0), Expr.arith Arith.div (Expr.col 0) (Expr.col 1),
        Expr.arith Arith.div (Expr.col 2) (Expr.col 1), Expr.lit (Val.str "_probability_two_random_records_match")]
      (Rel.groupBy [] [Agg.sum E0, Agg.sum E1, Agg.sum E2] (Rel.table "predict_in"))).eval (predDb rows ci) =
    [[.int 0, divV ((rows.map f0).sum) (((rows.map w).sum : Nat) : Rat),
      divV ((rows.map f2).sum) (((rows.map w).sum : Nat) : Rat), .str lamName]] := by
  rw [eval_project, eval_groupBy, eval_table, predDb_predict]
  unfold groupRows
  simp only [List.isEmpty_nil, if_true, List.map_cons, List.map_nil]
  have c0 : (Agg.sum E0).eval (rows.map (encP ci)) = if rows = [] then Val.null else Val.rat ((rows.map f0).sum) := by
    show sumVals ((rows.map (encP ci)).map E0.eval) = _
    rw [List.map_map]
    have : (E0.eval ∘ encP ci) = fun r => Val.rat (f0 r) := funext fun r => h0 r
    rw [this]
    exact sumVals_map_rat' f0 rows
  have c2 : (Agg.sum E2).eval (rows.map (encP ci)) = if rows = [] then Val.null else Val.rat ((rows.map f2).sum) := by
    show sumVals ((rows.map (encP ci)).map E2.eval) = _
    rw [List.map_map]
    have : (E2.eval ∘ encP ci) = fun r => Val.rat (f2 r) := funext fun r => h2 r
    rw [this]
    exact sumVals_map_rat' f2 rows
  have c1 : (Agg.sum E1).eval (rows.map (encP ci)) =
      if rows = [] then Val.null else Val.int (((rows.map w).sum : Nat) : Int) := by
    show sumVals ((rows.map (encP ci)).map E1.eval) = _
    rw [List.map_map]
    have : (E1.eval ∘ encP ci) = fun r => Val.int (w r : Int) := funext fun r => h1 r
    rw [this]
    exact sumVals_map_nat w rows
  rw [c0, c1, c2]
  by_cases hr : rows = []
  · subst hr
    simp [Expr.eval, Arith.eval, Val.toRat?, divV, lamName]
  · simp only [hr, if_false]
    simp only [Expr.eval, List.getD_cons_zero, List.getD_cons_succ, div_rat_int]
    rfl

theorem lambdaBlock_eval (useApc : Bool) (rows : List PRow) (ci : Nat) :
    (lambdaBlock useApc).eval (predDb rows ci) = [lambdaRow useApc rows] := by
  cases useApc
  · show Gen.EMSql.lambdaBlockRows.eval _ = _
    unfold Gen.EMSql.lambdaBlockRows
    rw [lambda_eval_gen rows ci _ _ _ (fun r => r.p * (wt false r : Rat))
      (fun r => (1 - r.p) * (wt false r : Rat)) (wt false)]
    · rfl
    · intro r
      simp [Expr.eval, encP, Arith.eval, Val.toRat?, wt]
    · intro r
      simp [Expr.eval, wt]
    · intro r
      simp [Expr.eval, encP, Arith.eval, Val.toRat?, wt]
  · show Gen.EMSql.lambdaBlockApc.eval _ = _
    unfold Gen.EMSql.lambdaBlockApc
    rw [lambda_eval_gen rows ci _ _ _ (fun r => r.p * (wt true r : Rat))
      (fun r => (1 - r.p) * (wt true r : Rat)) (wt true)]
    · rfl
    · intro r
      simp [Expr.eval, encP, Arith.eval, Val.toRat?, wt]
    · intro r
      simp [Expr.eval, encP, wt]
    · intro r
      simp [Expr.eval, encP, Arith.eval, Val.toRat?, wt]

/-- The non-lambda rows of `__splink__m_u_counts`. -/
def countsTable (useApc : Bool) (names : List String) (rows : List PRow) : List Row :=
  (List.range names.length).flatMap fun ci =>
    (gammaValues rows ci).map (countsRow useApc rows ci (names.getD ci ""))

theorem mUCounts_eval (useApc : Bool) (names : List String) (rows : List PRow) :
    mUCounts useApc names rows = countsTable useApc names rows ++ [lambdaRow useApc rows] := by
  have hb : ∀ (nm : String) (ci : Nat),
      (if useApc then Gen.EMSql.countsBlockApc (Val.str nm) else Gen.EMSql.countsBlockRows (Val.str nm)).eval
        (Db.set (fun _ => []) "predict_in" (predictIn rows ci)) =
      (gammaValues rows ci).map (countsRow useApc rows ci nm) := fun nm ci => countsBlock_eval useApc rows ci nm
  have hl : (if useApc then Gen.EMSql.lambdaBlockApc else Gen.EMSql.lambdaBlockRows).eval
      (Db.set (fun _ => []) "predict_in" (predictIn rows 0)) = [lambdaRow useApc rows] :=
    lambdaBlock_eval useApc rows 0
  unfold mUCounts countsTable
  simp only [hb, hl]

/-! ## Part 2: `compute_proportions_for_new_parameters_sql` -/

/-- A row `(comparison_vector_value, m_count, u_count, output_column_name)` of a counts table. -/
structure CRow where
  v : Int
  m : Rat
  u : Rat
  name : String

def encC (c : CRow) : Row := [.int c.v, .rat c.m, .rat c.u, .str c.name]

/-- `where comparison_vector_value != -1 and output_column_name != '_probability_two_random_records_match'` -/
def keep (c : CRow) : Bool := c.v != -1 && c.name != lamName

/-- `sum(m_count) over (partition by output_column_name)` after the `where`. -/
def denM (L : List CRow) (nm : String) : Rat := ((L.filter fun c => c.v != -1 && c.name == nm).map (·.m)).sum
def denU (L : List CRow) (nm : String) : Rat := ((L.filter fun c => c.v != -1 && c.name == nm).map (·.u)).sum

/-- The result row of a kept row. -/
def propRow (L : List CRow) (c : CRow) : Row :=
  [.int c.v, .str c.name, divV c.m (denM L c.name), divV c.u (denU L c.name)]

/-- The second branch's projection `comparison_vector_value, output_column_name, m_count, u_count`. -/
def lamOut (r : Row) : Row := [r.getD 0 .null, r.getD 3 .null, r.getD 1 .null, r.getD 2 .null]

/-- `sum(e) over (partition by part)` on encoded rows with exact summands (never empty: a row is in its partition). -/
theorem window_sum_rat {α : Type} (db : Db) (r : Rel) (part : List Expr) (e : Expr) (L : List α)
    (enc : α → Row) (same : α → α → Bool) (vf : α → Rat) (hr : r.eval db = L.map enc)
    (hk : ∀ x a, (part.map (·.eval (enc x)) == part.map (·.eval (enc a))) = same x a)
    (hrefl : ∀ a, same a a = true) (hv : ∀ a, e.eval (enc a) = .rat (vf a)) :
    (Rel.window part (Agg.sum e) r).eval db = L.map fun a => enc a ++
      [Val.rat (((L.filter fun x => same x a).map vf).sum)] := by
  rw [eval_window, hr, List.map_map]
  apply List.map_congr_left
  intro a ha
  simp only [Function.comp]
  congr 2
  show sumVals (((L.map enc).filter _).map e.eval) = _
  rw [List.filter_map, List.map_map]
  have hfil : L.filter ((fun x => part.map (·.eval x) == part.map (·.eval (enc a))) ∘ enc)
      = L.filter fun x => same x a := by
    apply List.filter_congr
    intro b _
    simp only [Function.comp, hk]
  have hmap : (e.eval ∘ enc) = fun b => Val.rat (vf b) := funext fun b => hv b
  rw [hfil, hmap]
  apply sumVals_map_rat
  intro hnil
  have : a ∈ L.filter fun x => same x a := List.mem_filter.mpr ⟨ha, hrefl a⟩
  rw [hnil] at this
  cases this

theorem str_beq (a b : String) : (Val.str a == Val.str b) = (a == b) := by
  by_cases h : a = b
  · subst h; simp
  · simp [h]

theorem div_rat_rat (a b : Rat) : Arith.div.eval (Val.rat a) (Val.rat b) = divV a b := by
  simp [Arith.eval, Val.toRat?, divV]

theorem bool_beq_true (b : Bool) : (Val.bool b == Val.bool true) = b := by
  cases b <;> rfl

theorem and3_bool (a b : Bool) : and3 (.bool a) (.bool b) = .bool (a && b) := by
  cases a <;> cases b <;> rfl

theorem and3_false_right (x : Val) : and3 x (.bool false) = .bool false := by
  cases x with
  | bool b => cases b <;> rfl
  | _ => rfl

theorem cmp_ne_str (a b : String) : Cmp.ne.eval (.str a) (.str b) = .bool (a != b) := by
  simp [Cmp.eval, bne, str_beq]

/-- The `where` of the first branch on an encoded row. -/
theorem keep_holds (c : CRow) :
    (Expr.and (Expr.cmp Cmp.ne (Expr.col 0) (Expr.arith Arith.sub (Expr.lit (Val.int 0)) (Expr.lit (Val.int 1))))
      (Expr.cmp Cmp.ne (Expr.col 3) (Expr.lit (Val.str "_probability_two_random_records_match")))).holds (encC c)
      = keep c := by
  have h1 : Arith.sub.eval (Val.int 0) (Val.int 1) = Val.int (-1) := rfl
  simp only [Expr.holds, Expr.eval, encC, List.getD_cons_zero, List.getD_cons_succ, h1, cmp_ne_int, cmp_ne_str,
    and3_bool, keep, lamName, bool_beq_true]
  by_cases h : c.v = -1 <;> simp [h]

/-- The `where` of the first branch drops every row named `'_probability_two_random_records_match'`. -/
theorem keep_holds_lam (r : Row) (h : r.getD 3 .null = .str lamName) :
    (Expr.and (Expr.cmp Cmp.ne (Expr.col 0) (Expr.arith Arith.sub (Expr.lit (Val.int 0)) (Expr.lit (Val.int 1))))
      (Expr.cmp Cmp.ne (Expr.col 3) (Expr.lit (Val.str "_probability_two_random_records_match")))).holds r
      = false := by
  have h2 : Cmp.ne.eval (r.getD 3 .null) (Val.str "_probability_two_random_records_match") = .bool false := by
    rw [h, cmp_ne_str]; simp [lamName]
  simp only [Expr.holds, Expr.eval, h2, and3_false_right]
  rfl

/-- The `where` of the second branch. -/
theorem lam_holds (r : Row) :
    (Expr.cmp Cmp.eq (Expr.col 3) (Expr.lit (Val.str "_probability_two_random_records_match"))).holds r
      = (r.getD 3 .null == .str lamName) := by
  simp only [Expr.holds, Expr.eval, lamName, Cmp.eval]
  cases r.getD 3 Val.null <;> simp

def keepE : Expr :=
  Expr.and (Expr.cmp Cmp.ne (Expr.col 0) (Expr.arith Arith.sub (Expr.lit (Val.int 0)) (Expr.lit (Val.int 1))))
    (Expr.cmp Cmp.ne (Expr.col 3) (Expr.lit (Val.str "_probability_two_random_records_match")))

def lamE : Expr := Expr.cmp Cmp.eq (Expr.col 3) (Expr.lit (Val.str "_probability_two_random_records_match"))

def win1 : Rel := Rel.window [Expr.col 3] (Agg.sum (Expr.col 1)) (Rel.filter keepE (Rel.table "mu_in"))
def win2 : Rel := Rel.window [Expr.col 3] (Agg.sum (Expr.col 2)) win1

theorem proportions_def : Gen.EMSql.proportions =
    Rel.union true
      (Rel.project [Expr.col 0, Expr.col 3, Expr.arith Arith.div (Expr.col 1) (Expr.col 4),
        Expr.arith Arith.div (Expr.col 2) (Expr.col 5)] win2)
      (Rel.project [Expr.col 0, Expr.col 3, Expr.col 1, Expr.col 2] (Rel.filter lamE (Rel.table "mu_in"))) := rfl

/-- The partition sums of the kept rows are the sums over the rows of that name with `v ≠ −1`. -/
theorem filter_keep_name (L : List CRow) (nm : String) (hnm : nm ≠ lamName) :
    ((L.filter keep).filter fun x => x.name == nm) = L.filter fun c => c.v != -1 && c.name == nm := by
  rw [List.filter_filter]
  apply List.filter_congr
  intro a _
  unfold keep
  by_cases h : a.name = nm
  · subst h; simp [hnm]
  · have : (a.name == nm) = false := by simpa using h
    simp [this]

/-- **`compute_proportions_for_new_parameters_sql`** on a counts table `L` followed by arbitrary rows `B` named
`'_probability_two_random_records_match'` (possibly with NULL numbers: the lambda block on an empty table). -/
theorem proportions_eval (L : List CRow) (B : List Row) (hB : ∀ r ∈ B, r.getD 3 .null = .str lamName) :
    EMSql.proportions (L.map encC ++ B) =
      (L.filter keep).map (propRow L) ++
        ((L.map encC ++ B).filter fun r => r.getD 3 .null == .str lamName).map lamOut := by
  unfold EMSql.proportions
  rw [proportions_def, eval_union_all]
  generalize hdb : Db.set (fun _ => []) "mu_in" (L.map encC ++ B) = db
  have hmu : db "mu_in" = L.map encC ++ B := by rw [← hdb, set_same]
  congr 1
  · have hT : (Rel.filter keepE (Rel.table "mu_in")).eval db = (L.filter keep).map encC := by
      rw [eval_filter, eval_table, hmu, List.filter_append, List.filter_map]
      have hBn : B.filter keepE.holds = [] :=
        List.filter_eq_nil_iff.mpr fun r hr => by
          rw [show keepE.holds r = false from keep_holds_lam r (hB r hr)]; simp
      rw [hBn, List.append_nil]
      congr 1
      apply List.filter_congr
      intro c _
      exact keep_holds c
    have hW1 : win1.eval db = (L.filter keep).map fun a => encC a ++
        [Val.rat ((((L.filter keep).filter fun x => x.name == a.name).map (·.m)).sum)] :=
      window_sum_rat db _ [Expr.col 3] (Expr.col 1) (L.filter keep) encC (fun x a => x.name == a.name) (·.m) hT
        (fun x a => by
          show ([Val.str x.name] == [Val.str a.name]) = _
          by_cases h : x.name = a.name
          · rw [h]; simp
          · simp [h])
        (fun a => by simp) (fun a => rfl)
    have hW2 : win2.eval db = (L.filter keep).map fun a => (encC a ++
        [Val.rat ((((L.filter keep).filter fun x => x.name == a.name).map (·.m)).sum)]) ++
        [Val.rat ((((L.filter keep).filter fun x => x.name == a.name).map (·.u)).sum)] :=
      window_sum_rat db _ [Expr.col 3] (Expr.col 2) (L.filter keep) _ (fun x a => x.name == a.name) (·.u) hW1
        (fun x a => by
          show ([Val.str x.name] == [Val.str a.name]) = _
          by_cases h : x.name = a.name
          · rw [h]; simp
          · simp [h])
        (fun a => by simp) (fun a => rfl)
    rw [eval_project, hW2, List.map_map]
    apply List.map_congr_left
    intro c hc
    have hnm : c.name ≠ lamName := by
      have := (List.mem_filter.mp hc).2
      unfold keep at this
      simp only [Bool.and_eq_true, bne_iff_ne] at this
      exact this.2
    simp only [Function.comp, filter_keep_name L c.name hnm]
    show [Val.int c.v, Val.str c.name, Arith.div.eval (Val.rat c.m) (Val.rat _),
      Arith.div.eval (Val.rat c.u) (Val.rat _)] = _
    rw [div_rat_rat, div_rat_rat]
    rfl
  · rw [eval_project, eval_filter, eval_table, hmu]
    congr 1
    apply List.filter_congr
    intro r _
    exact lam_holds r

/-- The task's form: a counts table all of whose rows are `[int v, rat m, rat u, str name]`. -/
theorem proportions_eval_enc (L : List CRow) :
    EMSql.proportions (L.map encC) =
      (L.filter keep).map (propRow L) ++
        (L.filter fun c => c.name == lamName).map fun c => [.int c.v, .str c.name, .rat c.m, .rat c.u] := by
  have := proportions_eval L [] (by simp)
  rw [List.append_nil] at this
  rw [this, List.filter_map, List.map_map]
  congr 2
  apply List.filter_congr
  intro c _
  show (Val.str c.name == Val.str lamName) = _
  exact str_beq _ _

/-! ## Part 2: the composition -/

/-- The counts rows of comparison `ci`. -/
def blockC (useApc : Bool) (names : List String) (rows : List PRow) (ci : Nat) : List CRow :=
  (gammaValues rows ci).map fun v => ⟨v, mSpecW useApc rows ci v, uSpecW useApc rows ci v, names.getD ci ""⟩

/-- The non-lambda rows of `__splink__m_u_counts` before encoding. -/
def countsC (useApc : Bool) (names : List String) (rows : List PRow) : List CRow :=
  (List.range names.length).flatMap (blockC useApc names rows)

theorem countsTable_eq (useApc : Bool) (names : List String) (rows : List PRow) :
    countsTable useApc names rows = (countsC useApc names rows).map encC := by
  unfold countsTable countsC blockC
  rw [List.map_flatMap]
  simp only [List.map_map]
  rfl

/-- `sum(m_count) over (partition by output_column_name)` for comparison `ci` when its name is unique:
`Σ mSpecW` over the observed values other than `−1`. -/
def denomMW (useApc : Bool) (rows : List PRow) (ci : Nat) : Rat :=
  (((gammaValues rows ci).filter (· != -1)).map (mSpecW useApc rows ci)).sum

def denomUW (useApc : Bool) (rows : List PRow) (ci : Nat) : Rat :=
  (((gammaValues rows ci).filter (· != -1)).map (uSpecW useApc rows ci)).sum

/-- The new `m` / `u` of value `v` of comparison `ci` as SQL values (NULL when the denominator is 0). -/
def sqlNewM (useApc : Bool) (rows : List PRow) (ci : Nat) (v : Int) : Val :=
  divV (mSpecW useApc rows ci v) (denomMW useApc rows ci)

def sqlNewU (useApc : Bool) (rows : List PRow) (ci : Nat) (v : Int) : Val :=
  divV (uSpecW useApc rows ci v) (denomUW useApc rows ci)

/-- The result row of value `v` of comparison `ci`. -/
def mStepRow (useApc : Bool) (rows : List PRow) (ci : Nat) (name : String) (v : Int) : Row :=
  [.int v, .str name, sqlNewM useApc rows ci v, sqlNewU useApc rows ci v]

/-- The lambda row of the result. -/
def lambdaOut (useApc : Bool) (rows : List PRow) : Row :=
  [.int 0, .str lamName, divV (totalP useApc rows) (totalW useApc rows),
    divV (totalQ useApc rows) (totalW useApc rows)]

theorem flatMap_eq_single {α β : Type} (g : α → List β) (a : α) :
    ∀ (l : List α), l.Nodup → a ∈ l → (∀ b ∈ l, b ≠ a → g b = []) → l.flatMap g = g a
  | [], _, ha, _ => by cases ha
  | x :: xs, hnd, ha, h => by
    rw [List.nodup_cons] at hnd
    rw [List.flatMap_cons]
    by_cases hx : x = a
    · subst hx
      have : xs.flatMap g = [] := by
        rw [List.flatMap_eq_nil_iff]
        intro b hb
        exact h b (List.mem_cons_of_mem _ hb) (fun hba => hnd.1 (hba ▸ hb))
      rw [this, List.append_nil]
    · rw [h x List.mem_cons_self hx, List.nil_append]
      rcases List.mem_cons.mp ha with ha | ha
      · exact absurd ha.symm hx
      · exact flatMap_eq_single g a xs hnd.2 ha fun b hb => h b (List.mem_cons_of_mem _ hb)

theorem getD_lt (l : List String) (i : Nat) (h : i < l.length) : l.getD i "" = l[i] := by
  simp [List.getD_eq_getElem?_getD, h]

/-- With pairwise distinct names the partition of comparison `ci` is its own block. -/
theorem filter_countsC (useApc : Bool) (names : List String) (rows : List PRow) (hnd : names.Nodup)
    (ci : Nat) (hci : ci < names.length) :
    ((countsC useApc names rows).filter fun c => c.v != -1 && c.name == names.getD ci "") =
      ((gammaValues rows ci).filter (· != -1)).map fun v =>
        ⟨v, mSpecW useApc rows ci v, uSpecW useApc rows ci v, names.getD ci ""⟩ := by
  unfold countsC
  rw [List.filter_flatMap]
  rw [flatMap_eq_single _ ci (List.range names.length) List.nodup_range (List.mem_range.mpr hci)]
  · unfold blockC
    rw [List.filter_map]
    congr 1
    apply List.filter_congr
    intro v _
    simp
  · intro cj hcj hne
    rw [List.mem_range] at hcj
    rw [List.filter_eq_nil_iff]
    intro c hc
    unfold blockC at hc
    obtain ⟨v, _, rfl⟩ := List.mem_map.mp hc
    have : names.getD cj "" ≠ names.getD ci "" := by
      rw [getD_lt names cj hcj, getD_lt names ci hci]
      intro h
      exact hne (hnd.getElem_inj_iff.mp h)
    have hb : (names.getD cj "" == names.getD ci "") = false := beq_eq_false_iff_ne.mpr this
    show ¬ ((v != -1 && names.getD cj "" == names.getD ci "") = true)
    rw [hb, Bool.and_false]
    exact Bool.false_ne_true

theorem denM_countsC (useApc : Bool) (names : List String) (rows : List PRow) (hnd : names.Nodup)
    (ci : Nat) (hci : ci < names.length) :
    denM (countsC useApc names rows) (names.getD ci "") = denomMW useApc rows ci := by
  unfold denM denomMW
  rw [filter_countsC useApc names rows hnd ci hci, List.map_map]
  rfl

theorem denU_countsC (useApc : Bool) (names : List String) (rows : List PRow) (hnd : names.Nodup)
    (ci : Nat) (hci : ci < names.length) :
    denU (countsC useApc names rows) (names.getD ci "") = denomUW useApc rows ci := by
  unfold denU denomUW
  rw [filter_countsC useApc names rows hnd ci hci, List.map_map]
  rfl

/-- The M-step SQL in general (no hypothesis on the names): the normalisation is per *name*, and counts rows named like
the lambda row are passed through unnormalised. -/
theorem mStep_eval_gen (useApc : Bool) (names : List String) (rows : List PRow) :
    mStep useApc names rows =
      ((countsC useApc names rows).filter keep).map (propRow (countsC useApc names rows)) ++
        (((countsC useApc names rows).filter fun c => c.name == lamName).map
          fun c => [.int c.v, .str c.name, .rat c.m, .rat c.u]) ++ [lambdaOut useApc rows] := by
  unfold mStep
  rw [mUCounts_eval, countsTable_eq, proportions_eval _ [lambdaRow useApc rows] (by simp [lambdaRow])]
  rw [List.append_assoc]
  congr 1
  rw [List.filter_append, List.map_append, List.filter_map, List.map_map]
  congr 1
  congr 1
  apply List.filter_congr
  intro c _
  show (Val.str c.name == Val.str lamName) = _
  exact str_beq _ _

/-- **The M-step SQL** when the comparison names are pairwise distinct and differ from the lambda name. -/
theorem mStep_eval (useApc : Bool) (names : List String) (rows : List PRow) (hnd : names.Nodup)
    (hlam : lamName ∉ names) :
    mStep useApc names rows =
      ((List.range names.length).flatMap fun ci =>
        ((gammaValues rows ci).filter (· != -1)).map (mStepRow useApc rows ci (names.getD ci ""))) ++
        [lambdaOut useApc rows] := by
  rw [mStep_eval_gen]
  have hname : ∀ ci, ci < names.length → names.getD ci "" ≠ lamName := by
    intro ci hci h
    apply hlam
    rw [← h, getD_lt names ci hci]
    exact List.getElem_mem hci
  have h2 : ((countsC useApc names rows).filter fun c => c.name == lamName) = [] := by
    rw [List.filter_eq_nil_iff]
    intro c hc
    unfold countsC at hc
    obtain ⟨ci, hci, hc⟩ := List.mem_flatMap.mp hc
    unfold blockC at hc
    obtain ⟨v, _, rfl⟩ := List.mem_map.mp hc
    simpa using hname ci (List.mem_range.mp hci)
  rw [h2, List.map_nil, List.append_nil]
  congr 1
  have hmain : ∀ L : List CRow,
      (∀ ci, ci < names.length → denM L (names.getD ci "") = denomMW useApc rows ci ∧
        denU L (names.getD ci "") = denomUW useApc rows ci) →
      ((countsC useApc names rows).filter keep).map (propRow L) =
        (List.range names.length).flatMap fun ci =>
          ((gammaValues rows ci).filter (· != -1)).map (mStepRow useApc rows ci (names.getD ci "")) := by
    intro L hden
    unfold countsC
    rw [List.filter_flatMap, List.map_flatMap]
    apply List.flatMap_congr
    intro ci hci
    rw [List.mem_range] at hci
    unfold blockC
    rw [List.filter_map, List.map_map]
    have hf : (gammaValues rows ci).filter (keep ∘ fun v =>
        (⟨v, mSpecW useApc rows ci v, uSpecW useApc rows ci v, names.getD ci ""⟩ : CRow)) =
        (gammaValues rows ci).filter (· != -1) := by
      apply List.filter_congr
      intro v _
      show (v != -1 && names.getD ci "" != lamName) = (v != -1)
      have : (names.getD ci "" != lamName) = true := bne_iff_ne.mpr (hname ci hci)
      rw [this, Bool.and_true]
    rw [hf]
    apply List.map_congr_left
    intro v _
    simp only [Function.comp, propRow, mStepRow, sqlNewM, sqlNewU, (hden ci hci).1, (hden ci hci).2]
  exact hmain _ fun ci hci =>
    ⟨denM_countsC useApc names rows hnd ci hci, denU_countsC useApc names rows hnd ci hci⟩

/-! ## The denominators as sums over the rows -/

theorem rat_sum_filter_or {β : Type} (xs : List β) (p q : β → Bool) (f : β → Rat)
    (hd : ∀ x ∈ xs, p x = true → q x = true → False) :
    ((xs.filter fun x => p x || q x).map f).sum =
      ((xs.filter p).map f).sum + ((xs.filter q).map f).sum := by
  induction xs with
  | nil => simp
  | cons a xs ih =>
    have ih' := ih fun x hx => hd x (List.mem_cons_of_mem _ hx)
    have ha := hd a List.mem_cons_self
    cases hp : p a <;> cases hq : q a
    · simp only [List.filter_cons, hp, hq, Bool.or_self, Bool.false_eq_true, if_false, ih']
    · simp only [List.filter_cons, hp, hq, Bool.or_true, Bool.false_eq_true, if_false, if_true,
        List.map_cons, List.sum_cons, ih']
      ring
    · simp only [List.filter_cons, hp, hq, Bool.or_false, Bool.false_eq_true, if_false, if_true,
        List.map_cons, List.sum_cons, ih']
      ring
    · exact absurd (ha hp hq) id

/-- The sum over a duplicate-free list of key values of the group sums is the sum over the rows whose key is in the
list. -/
theorem rat_sum_groups {β : Type} (xs : List β) (key : β → Int) (f : β → Rat) (ks : List Int) (hn : ks.Nodup) :
    (ks.map fun k => ((xs.filter fun x => key x == k).map f).sum).sum =
      ((xs.filter fun x => ks.contains (key x)).map f).sum := by
  induction ks with
  | nil => simp
  | cons k ks ih =>
    rw [List.nodup_cons] at hn
    simp only [List.map_cons, List.sum_cons, ih hn.2]
    rw [← rat_sum_filter_or]
    · congr 2
    · intro x _ h1 h2
      have e1 : key x = k := by simpa using h1
      have e2 : key x ∈ ks := by simpa using h2
      exact hn.1 (e1 ▸ e2)

theorem mem_gammaValues (rows : List PRow) (ci : Nat) (v : Int) :
    v ∈ gammaValues rows ci ↔ ∃ r ∈ rows, gam ci r = v := by
  unfold gammaValues
  rw [List.mem_eraseDups, List.mem_map]

theorem nodup_gammaValues (rows : List PRow) (ci : Nat) : (gammaValues rows ci).Nodup :=
  nodup_eraseDups _

theorem filter_observed (rows : List PRow) (ci : Nat) :
    (rows.filter fun r => ((gammaValues rows ci).filter (· != -1)).contains (gam ci r)) =
      rows.filter fun r => gam ci r != -1 := by
  apply List.filter_congr
  intro r hr
  rw [Bool.eq_iff_iff, List.contains_iff_mem, List.mem_filter, mem_gammaValues]
  constructor
  · exact fun h => h.2
  · exact fun h => ⟨⟨r, hr, rfl⟩, h⟩

/-- `denomMW` is the sum of `p·w` over the rows whose gamma is not `−1`. -/
theorem denomMW_rows (useApc : Bool) (rows : List PRow) (ci : Nat) :
    denomMW useApc rows ci =
      ((rows.filter fun r => gam ci r != -1).map fun r => r.p * (wt useApc r : Rat)).sum := by
  unfold denomMW mSpecW
  rw [rat_sum_groups rows (gam ci) _ _ ((nodup_gammaValues rows ci).filter _), filter_observed]

theorem denomUW_rows (useApc : Bool) (rows : List PRow) (ci : Nat) :
    denomUW useApc rows ci =
      ((rows.filter fun r => gam ci r != -1).map fun r => (1 - r.p) * (wt useApc r : Rat)).sum := by
  unfold denomUW uSpecW
  rw [rat_sum_groups rows (gam ci) _ _ ((nodup_gammaValues rows ci).filter _), filter_observed]

/-- `Σ (1−p)·w = Σ w − Σ p·w`. -/
theorem totalQ_eq (useApc : Bool) (rows : List PRow) :
    totalQ useApc rows = (totalW useApc rows : Rat) - totalP useApc rows := by
  unfold totalQ totalW totalP
  induction rows with
  | nil => simp
  | cons a t ih =>
    simp only [List.map_cons, List.sum_cons, ih, Nat.cast_add]
    ring

/-! ## Part 3: link to the functional model `Model/EM.lean` at `ℝ` -/

open SplinkVerif.Lemmas.Score in
/-- The SQL row `row` is the image of the model row `r` under the parameters `θ`: `match_probability` is the E-step
probability, the counts agree (and are 1 in the row-wise variant, which ignores them), and comparison `ci` assigns the
level whose value is the row's gamma. -/
def Linked (useApc : Bool) (θ : EM.Params ℝ) (ci : Nat) (row : PRow) (r : EM.Row ℝ) : Prop :=
  ((row.p : ℚ) : ℝ) = EM.eProb θ r ∧ row.count = r.count ∧ (useApc = false → row.count = 1) ∧
    EM.gammaAt θ r ci = some (gam ci row)

theorem Linked.wt_eq {useApc : Bool} {θ : EM.Params ℝ} {ci : Nat} {row : PRow} {r : EM.Row ℝ}
    (h : Linked useApc θ ci row r) : wt useApc row = r.count := by
  obtain ⟨_, h2, h3, _⟩ := h
  cases useApc
  · simp [wt, ← h2, h3 rfl]
  · simp [wt, h2]

/-- The index form of the relation. -/
theorem linked_of_index (useApc : Bool) (θ : EM.Params ℝ) (ci : Nat) (rows : List PRow) (rs : List (EM.Row ℝ))
    (hlen : rows.length = rs.length)
    (h : ∀ (i : Nat) (h₁ : i < rows.length) (h₂ : i < rs.length), Linked useApc θ ci rows[i] rs[i]) :
    List.Forall₂ (Linked useApc θ ci) rows rs :=
  List.forall₂_iff_get.mpr ⟨hlen, fun i h₁ h₂ => by simpa using h i h₁ h₂⟩

theorem cast_sum_filter {R : PRow → EM.Row ℝ → Prop} {rows : List PRow} {rs : List (EM.Row ℝ)}
    (h : List.Forall₂ R rows rs) (p : PRow → Bool) (q : EM.Row ℝ → Bool) (f : PRow → ℚ) (g : EM.Row ℝ → ℝ)
    (hpq : ∀ a b, R a b → p a = q b) (hfg : ∀ a b, R a b → ((f a : ℚ) : ℝ) = g b) :
    ((((rows.filter p).map f).sum : ℚ) : ℝ) = ((rs.filter q).map g).sum := by
  induction h with
  | nil => simp
  | @cons a b l₁ l₂ hab _ ih =>
    cases hq : q b
    · rw [List.filter_cons_of_neg (by rw [hpq a b hab, hq]; simp),
        List.filter_cons_of_neg (by rw [hq]; simp), ih]
    · rw [List.filter_cons_of_pos (by rw [hpq a b hab, hq]), List.filter_cons_of_pos hq]
      simp only [List.map_cons, List.sum_cons, Rat.cast_add, ih, hfg a b hab]

theorem linked_pred {useApc : Bool} {θ : EM.Params ℝ} {ci : Nat} (v : Int) (a : PRow) (b : EM.Row ℝ)
    (h : Linked useApc θ ci a b) : (gam ci a == v) = (EM.gammaAt θ b ci == some v) := by
  rw [h.2.2.2]
  simp

theorem linked_m {useApc : Bool} {θ : EM.Params ℝ} {ci : Nat} (a : PRow) (b : EM.Row ℝ)
    (h : Linked useApc θ ci a b) :
    ((a.p * (wt useApc a : ℚ) : ℚ) : ℝ) = EM.eProb θ b * (b.count : ℝ) := by
  rw [Rat.cast_mul, h.1, Rat.cast_natCast, h.wt_eq]

theorem linked_u {useApc : Bool} {θ : EM.Params ℝ} {ci : Nat} (a : PRow) (b : EM.Row ℝ)
    (h : Linked useApc θ ci a b) :
    (((1 - a.p) * (wt useApc a : ℚ) : ℚ) : ℝ) = (1 - EM.eProb θ b) * (b.count : ℝ) := by
  rw [Rat.cast_mul, Rat.cast_sub, Rat.cast_one, h.1, Rat.cast_natCast, h.wt_eq]

/-- The SQL's `m_count` is the model's `mCount`. -/
theorem mSpecW_cast {useApc : Bool} {θ : EM.Params ℝ} {ci : Nat} {rows : List PRow} {rs : List (EM.Row ℝ)}
    (h : List.Forall₂ (Linked useApc θ ci) rows rs) (v : Int) :
    ((mSpecW useApc rows ci v : ℚ) : ℝ) = EM.mCount θ rs ci v := by
  rw [Lemmas.EM.mCount_eq]
  exact cast_sum_filter h _ _ _ _ (linked_pred v) linked_m

theorem uSpecW_cast {useApc : Bool} {θ : EM.Params ℝ} {ci : Nat} {rows : List PRow} {rs : List (EM.Row ℝ)}
    (h : List.Forall₂ (Linked useApc θ ci) rows rs) (v : Int) :
    ((uSpecW useApc rows ci v : ℚ) : ℝ) = EM.uCount θ rs ci v := by
  rw [Lemmas.EM.uCount_eq]
  exact cast_sum_filter h _ _ _ _ (linked_pred v) linked_u

theorem totalP_cast {useApc : Bool} {θ : EM.Params ℝ} {ci : Nat} {rows : List PRow} {rs : List (EM.Row ℝ)}
    (h : List.Forall₂ (Linked useApc θ ci) rows rs) :
    ((totalP useApc rows : ℚ) : ℝ) = (rs.map fun r => EM.eProb θ r * (r.count : ℝ)).sum := by
  have := cast_sum_filter h (fun _ => true) (fun _ => true) _ _ (fun _ _ _ => rfl) linked_m
  simpa [totalP] using this

theorem totalW_cast {useApc : Bool} {θ : EM.Params ℝ} {ci : Nat} {rows : List PRow} {rs : List (EM.Row ℝ)}
    (h : List.Forall₂ (Linked useApc θ ci) rows rs) :
    (((totalW useApc rows : ℕ) : ℚ) : ℝ) = (rs.map fun r => (r.count : ℝ)).sum := by
  unfold totalW
  induction h with
  | nil => simp
  | cons hab _ ih =>
    simp only [List.map_cons, List.sum_cons, Nat.cast_add, Rat.cast_add, Rat.cast_natCast] at ih ⊢
    rw [ih, hab.wt_eq]

/-- The SQL's new lambda is the model's `lambdaNew` (as numbers; the SQL value is NULL when the total weight is 0,
where the model's division returns `x / 0 = 0`). -/
theorem lambda_cast {useApc : Bool} {θ : EM.Params ℝ} {ci : Nat} {rows : List PRow} {rs : List (EM.Row ℝ)}
    (h : List.Forall₂ (Linked useApc θ ci) rows rs) :
    ((totalP useApc rows / (totalW useApc rows : ℚ) : ℚ) : ℝ) = EM.lambdaNew θ rs := by
  rw [Lemmas.EM.lambdaNew_eq, Rat.cast_div, totalP_cast h, totalW_cast h]

/-! ### The observed values -/

theorem eraseDups_filter_aux {α : Type} [BEq α] [LawfulBEq α] (p : α → Bool) :
    ∀ (k : Nat) (l : List α), l.length ≤ k → (l.filter p).eraseDups = l.eraseDups.filter p
  | _, [], _ => by simp
  | 0, _ :: _, h => by simp at h
  | k + 1, a :: as, h => by
    rw [List.eraseDups_cons]
    have hlen : (as.filter fun b => !b == a).length ≤ k := by
      have := List.length_filter_le (fun b => !b == a) as
      simp only [List.length_cons] at h
      omega
    have ih := eraseDups_filter_aux p k _ hlen
    by_cases hp : p a = true
    · rw [List.filter_cons_of_pos hp, List.eraseDups_cons, List.filter_cons_of_pos hp, ← ih,
        List.filter_filter, List.filter_filter]
      congr 2
      apply List.filter_congr
      intro x _
      exact Bool.and_comm _ _
    · rw [List.filter_cons_of_neg hp, List.filter_cons_of_neg hp, ← ih, List.filter_filter]
      congr 1
      apply List.filter_congr
      intro x _
      by_cases hx : x = a
      · subst hx; simp [hp]
      · simp [hx]

/-- `eraseDups` (first occurrences) commutes with `filter`. -/
theorem eraseDups_filter {α : Type} [BEq α] [LawfulBEq α] (p : α → Bool) (l : List α) :
    (l.filter p).eraseDups = l.eraseDups.filter p :=
  eraseDups_filter_aux p l.length l (Nat.le_refl _)

theorem filterMap_gamma {useApc : Bool} {θ : EM.Params ℝ} {ci : Nat} {rows : List PRow} {rs : List (EM.Row ℝ)}
    (h : List.Forall₂ (Linked useApc θ ci) rows rs) :
    (rs.filterMap fun r => EM.gammaAt θ r ci) = rows.map (gam ci) := by
  induction h with
  | nil => rfl
  | cons hab _ ih =>
    rw [List.filterMap_cons, hab.2.2.2, List.map_cons, ih]

/-- The groups that survive `where comparison_vector_value != -1` are the model's `observedValues`, in the same order. -/
theorem observedValues_eq {useApc : Bool} {θ : EM.Params ℝ} {ci : Nat} {rows : List PRow} {rs : List (EM.Row ℝ)}
    (h : List.Forall₂ (Linked useApc θ ci) rows rs) :
    EM.observedValues θ rs ci = (gammaValues rows ci).filter (· != -1) := by
  unfold EM.observedValues gammaValues
  rw [filterMap_gamma h, eraseDups_filter]

theorem denomMW_cast {useApc : Bool} {θ : EM.Params ℝ} {ci : Nat} {rows : List PRow} {rs : List (EM.Row ℝ)}
    (h : List.Forall₂ (Linked useApc θ ci) rows rs) :
    ((denomMW useApc rows ci : ℚ) : ℝ) = EM.denomM θ rs ci := by
  rw [Lemmas.EM.denomM_eq, observedValues_eq h]
  unfold denomMW
  rw [Rat.cast_list_sum, List.map_map]
  congr 1
  apply List.map_congr_left
  intro v _
  exact mSpecW_cast h v

theorem denomUW_cast {useApc : Bool} {θ : EM.Params ℝ} {ci : Nat} {rows : List PRow} {rs : List (EM.Row ℝ)}
    (h : List.Forall₂ (Linked useApc θ ci) rows rs) :
    ((denomUW useApc rows ci : ℚ) : ℝ) = EM.denomU θ rs ci := by
  rw [Lemmas.EM.denomU_eq, observedValues_eq h]
  unfold denomUW
  rw [Rat.cast_list_sum, List.map_map]
  congr 1
  apply List.map_congr_left
  intro v _
  exact uSpecW_cast h v

/-- The SQL's new `m` is the model's `newM` (as numbers). -/
theorem newM_cast {useApc : Bool} {θ : EM.Params ℝ} {ci : Nat} {rows : List PRow} {rs : List (EM.Row ℝ)}
    (h : List.Forall₂ (Linked useApc θ ci) rows rs) (v : Int) (hv : v ∈ EM.observedValues θ rs ci) :
    EM.newM θ rs ci v = some ((mSpecW useApc rows ci v / denomMW useApc rows ci : ℚ) : ℝ) := by
  rw [Lemmas.EM.newM_of_mem θ rs ci v hv, Rat.cast_div, mSpecW_cast h, denomMW_cast h]

theorem newU_cast {useApc : Bool} {θ : EM.Params ℝ} {ci : Nat} {rows : List PRow} {rs : List (EM.Row ℝ)}
    (h : List.Forall₂ (Linked useApc θ ci) rows rs) (v : Int) (hv : v ∈ EM.observedValues θ rs ci) :
    EM.newU θ rs ci v = some ((uSpecW useApc rows ci v / denomUW useApc rows ci : ℚ) : ℝ) := by
  rw [Lemmas.EM.newU_of_mem θ rs ci v hv, Rat.cast_div, uSpecW_cast h, denomUW_cast h]

theorem divV_eq_rat {a b q : Rat} (h : divV a b = .rat q) : b ≠ 0 ∧ q = a / b := by
  unfold divV at h
  split at h
  · cases h
  · rename_i hb
    injection h with h
    exact ⟨hb, h.symm⟩

theorem divV_eq_null {a b : Rat} : divV a b = .null ↔ b = 0 := by
  unfold divV
  split <;> simp [*]

/-- The SQL's new `m` as a value: when it is a number it is the model's `newM`. -/
theorem sqlNewM_model {useApc : Bool} {θ : EM.Params ℝ} {ci : Nat} {rows : List PRow} {rs : List (EM.Row ℝ)}
    (h : List.Forall₂ (Linked useApc θ ci) rows rs) (v : Int) (hv : v ∈ EM.observedValues θ rs ci) (q : Rat)
    (hq : sqlNewM useApc rows ci v = .rat q) : EM.newM θ rs ci v = some (q : ℝ) := by
  rw [newM_cast h v hv, (divV_eq_rat hq).2]

theorem sqlNewU_model {useApc : Bool} {θ : EM.Params ℝ} {ci : Nat} {rows : List PRow} {rs : List (EM.Row ℝ)}
    (h : List.Forall₂ (Linked useApc θ ci) rows rs) (v : Int) (hv : v ∈ EM.observedValues θ rs ci) (q : Rat)
    (hq : sqlNewU useApc rows ci v = .rat q) : EM.newU θ rs ci v = some (q : ℝ) := by
  rw [newU_cast h v hv, (divV_eq_rat hq).2]

/-- The M-step SQL indexed by the model's observed values. -/
theorem mStep_eval_model (useApc : Bool) (names : List String) (rows : List PRow) (hnd : names.Nodup)
    (hlam : lamName ∉ names) (θ : EM.Params ℝ) (rs : List (EM.Row ℝ))
    (h : ∀ ci, ci < names.length → List.Forall₂ (Linked useApc θ ci) rows rs) :
    mStep useApc names rows =
      ((List.range names.length).flatMap fun ci =>
        (EM.observedValues θ rs ci).map (mStepRow useApc rows ci (names.getD ci ""))) ++
        [lambdaOut useApc rows] := by
  rw [mStep_eval useApc names rows hnd hlam]
  congr 1
  apply List.flatMap_congr
  intro ci hci
  rw [observedValues_eq (h ci (List.mem_range.mp hci))]

/-! ## Corollaries used in `Properties/C03Sql.lean` -/

theorem mSpecW_false (rows : List PRow) (ci : Nat) (v : Int) :
    mSpecW false rows ci v = ((rows.filter fun r => gam ci r == v).map fun r => r.p).sum := by
  unfold mSpecW
  congr 2
  funext r
  simp [wt]

theorem uSpecW_false (rows : List PRow) (ci : Nat) (v : Int) :
    uSpecW false rows ci v = ((rows.filter fun r => gam ci r == v).map fun r => 1 - r.p).sum := by
  unfold uSpecW
  congr 2
  funext r
  simp [wt]

theorem specW_of_counts_one (rows : List PRow) (h : ∀ r ∈ rows, r.count = 1) (ci : Nat) (v : Int) :
    mSpecW false rows ci v = mSpecW true rows ci v ∧ uSpecW false rows ci v = uSpecW true rows ci v := by
  unfold mSpecW uSpecW
  constructor <;>
  · congr 1
    apply List.map_congr_left
    intro r hr
    simp [wt, h r (List.mem_filter.mp hr).1]

theorem countsBlock_variants (rows : List PRow) (h : ∀ r ∈ rows, r.count = 1) (ci : Nat) (name : String) :
    (Gen.EMSql.countsBlockRows (Val.str name)).eval (Db.set (fun _ => []) "predict_in" (predictIn rows ci)) =
      (Gen.EMSql.countsBlockApc (Val.str name)).eval (Db.set (fun _ => []) "predict_in" (predictIn rows ci)) := by
  have h1 := countsBlock_eval false rows ci name
  have h2 := countsBlock_eval true rows ci name
  simp only [countsBlock, Bool.false_eq_true, if_false, if_true, predDb] at h1 h2
  rw [h1, h2]
  apply List.map_congr_left
  intro v _
  unfold countsRow
  rw [(specW_of_counts_one rows h ci v).1, (specW_of_counts_one rows h ci v).2]

theorem totalW_true (rows : List PRow) : totalW true rows = (rows.map (·.count)).sum := rfl

theorem totalW_false (rows : List PRow) : totalW false rows = rows.length := by
  unfold totalW
  induction rows with
  | nil => rfl
  | cons a t ih => simp only [List.map_cons, List.sum_cons, ih, wt, List.length_cons]; simp; omega

theorem lambdaBlock_apc_pos (rows : List PRow) (ci : Nat) (hpos : 0 < (rows.map (·.count)).sum) :
    Gen.EMSql.lambdaBlockApc.eval (Db.set (fun _ => []) "predict_in" (predictIn rows ci)) =
      [[Val.int 0,
        Val.rat ((rows.map fun r => r.p * (r.count : Rat)).sum / ((rows.map (·.count)).sum : Nat)),
        Val.rat ((rows.map fun r => (1 - r.p) * (r.count : Rat)).sum / ((rows.map (·.count)).sum : Nat)),
        Val.str "_probability_two_random_records_match"]] := by
  have h := lambdaBlock_eval true rows ci
  simp only [lambdaBlock, if_true, predDb] at h
  rw [h]
  have hne : ((totalW true rows : Nat) : Rat) ≠ 0 := by
    rw [totalW_true]
    exact_mod_cast (Nat.pos_iff_ne_zero.mp hpos)
  simp only [lambdaRow, divV, hne, if_false]
  rfl

theorem lambdaBlock_apc_zero (rows : List PRow) (ci : Nat) (hz : (rows.map (·.count)).sum = 0) :
    Gen.EMSql.lambdaBlockApc.eval (Db.set (fun _ => []) "predict_in" (predictIn rows ci)) =
      [[Val.int 0, Val.null, Val.null, Val.str "_probability_two_random_records_match"]] := by
  have h := lambdaBlock_eval true rows ci
  simp only [lambdaBlock, if_true, predDb] at h
  rw [h]
  have he : ((totalW true rows : Nat) : Rat) = 0 := by
    rw [totalW_true, hz]; rfl
  simp only [lambdaRow, divV, he, if_true]
  rfl

theorem lambdaBlock_rows (rows : List PRow) (ci : Nat) :
    Gen.EMSql.lambdaBlockRows.eval (Db.set (fun _ => []) "predict_in" (predictIn rows ci)) =
      [[Val.int 0, divV ((rows.map (·.p)).sum) (rows.length : Rat),
        divV ((rows.map fun r => 1 - r.p).sum) (rows.length : Rat),
        Val.str "_probability_two_random_records_match"]] := by
  have h := lambdaBlock_eval false rows ci
  simp only [lambdaBlock, Bool.false_eq_true, if_false, predDb] at h
  rw [h]
  unfold lambdaRow
  rw [totalW_false]
  have h1 : totalP false rows = (rows.map (·.p)).sum := by
    unfold totalP; congr 1; apply List.map_congr_left; intro r _; simp [wt]
  have h2 : totalQ false rows = (rows.map fun r => 1 - r.p).sum := by
    unfold totalQ; congr 1; apply List.map_congr_left; intro r _; simp [wt]
  rw [h1, h2]
  rfl

theorem mStep_nil (useApc : Bool) (names : List String) :
    mStep useApc names [] = [[Val.int 0, Val.str "_probability_two_random_records_match", Val.null, Val.null]] := by
  rw [mStep_eval_gen]
  have hc : countsC useApc names [] = [] := by
    unfold countsC
    rw [List.flatMap_eq_nil_iff]
    intro ci _
    rfl
  rw [hc]
  cases useApc <;> rfl

theorem lambdaOut_model {useApc : Bool} {θ : EM.Params ℝ} {ci : Nat} {rows : List PRow} {rs : List (EM.Row ℝ)}
    (h : List.Forall₂ (Linked useApc θ ci) rows rs) (hw : totalW useApc rows ≠ 0) :
    ∃ q q' : ℚ, lambdaOut useApc rows =
        [Val.int 0, Val.str "_probability_two_random_records_match", Val.rat q, Val.rat q'] ∧
      (q : ℝ) = EM.lambdaNew θ rs ∧ (q' : ℝ) = 1 - EM.lambdaNew θ rs := by
  have hne : ((totalW useApc rows : Nat) : ℚ) ≠ 0 := by exact_mod_cast hw
  refine ⟨totalP useApc rows / (totalW useApc rows : ℚ), totalQ useApc rows / (totalW useApc rows : ℚ), ?_,
    lambda_cast h, ?_⟩
  · simp only [lambdaOut, divV, hne, if_false]
    rfl
  · rw [← lambda_cast h, totalQ_eq, sub_div, div_self hne]
    push_cast
    rfl

theorem lambdaOut_step_prior {useApc : Bool} {θ : EM.Params ℝ} {ci : Nat} {rows : List PRow}
    {rs : List (EM.Row ℝ)} (h : List.Forall₂ (Linked useApc θ ci) rows rs) (hw : totalW useApc rows ≠ 0)
    (sess : EM.Session) (hfix : sess.fixLambda = false) :
    ∃ q q' : ℚ, lambdaOut useApc rows =
        [Val.int 0, Val.str "_probability_two_random_records_match", Val.rat q, Val.rat q'] ∧
      (q : ℝ) = (EM.step sess θ rs).prior := by
  obtain ⟨q, q', h1, h2, _⟩ := lambdaOut_model h hw
  refine ⟨q, q', h1, ?_⟩
  rw [h2]
  simp [EM.step, hfix]

theorem unobserved_model {useApc : Bool} {θ : EM.Params ℝ} {ci : Nat} {rows : List PRow} {rs : List (EM.Row ℝ)}
    (h : List.Forall₂ (Linked useApc θ ci) rows rs) (v : Int) (hv : v ∉ (gammaValues rows ci).filter (· != -1)) :
    EM.newM θ rs ci v = none ∧ EM.newU θ rs ci v = none := by
  rw [← observedValues_eq h] at hv
  exact ⟨Lemmas.EM.newM_of_not_mem θ rs ci v hv, Lemmas.EM.newU_of_not_mem θ rs ci v hv⟩

/-- `populate_m_u_from_lookup` for one trainable non-null level whose value is observed reads the numbers of the SQL. -/
theorem updateLevel_sql {useApc : Bool} {θ : EM.Params ℝ} {ci : Nat} {rows : List PRow} {rs : List (EM.Row ℝ)}
    (h : List.Forall₂ (Linked useApc θ ci) rows rs) (sess : EM.Session) (l : Score.Level ℝ) (st : EM.LevelState)
    (hn : l.isNull = false) (hfm : (st.fixM || sess.fixM) = false) (hfu : (st.fixU || sess.fixU) = false)
    (hv : l.cvv ∈ EM.observedValues θ rs ci) (qm qu : ℚ)
    (hm : sqlNewM useApc rows ci l.cvv = .rat qm) (hu : sqlNewU useApc rows ci l.cvv = .rat qu) :
    (EM.updateLevel sess θ rs ci l st).1.m = (qm : ℝ) ∧ (EM.updateLevel sess θ rs ci l st).1.u = (qu : ℝ) := by
  unfold EM.updateLevel
  simp only [hn, Bool.false_eq_true, if_false, hfm, hfu, sqlNewM_model h _ hv qm hm, sqlNewU_model h _ hv qu hu]
  exact ⟨trivial, trivial⟩

/-- … and for a value without a row in the SQL result it stores the `LEVEL_NOT_OBSERVED` placeholder. -/
theorem updateLevel_sql_unobserved {useApc : Bool} {θ : EM.Params ℝ} {ci : Nat} {rows : List PRow}
    {rs : List (EM.Row ℝ)} (h : List.Forall₂ (Linked useApc θ ci) rows rs) (sess : EM.Session) (l : Score.Level ℝ)
    (st : EM.LevelState) (hn : l.isNull = false) (hfm : (st.fixM || sess.fixM) = false)
    (hfu : (st.fixU || sess.fixU) = false) (hv : l.cvv ∉ (gammaValues rows ci).filter (· != -1)) :
    (EM.updateLevel sess θ rs ci l st).1.m = EM.notObservedValue ∧
      (EM.updateLevel sess θ rs ci l st).1.u = EM.notObservedValue := by
  unfold EM.updateLevel
  simp only [hn, Bool.false_eq_true, if_false, hfm, hfu, (unobserved_model h _ hv).1, (unobserved_model h _ hv).2]
  exact ⟨trivial, trivial⟩

/-! ## Non-vacuity of the link -/

/-- The SQL image of the witness `EMMBridge.Fix` (one comparison with levels 1 and 0, prior 1/2, two rows of
probability 1/2). -/
def witRows : List PRow := [⟨[1], 1/2, 1⟩, ⟨[0], 1/2, 1⟩]

theorem witness_linked (useApc : Bool) :
    List.Forall₂ (Linked useApc EMMBridge.Fix.θ 0) witRows EMMBridge.Fix.rows := by
  refine List.Forall₂.cons ⟨?_, rfl, fun _ => rfl, ?_⟩ (List.Forall₂.cons ⟨?_, rfl, fun _ => rfl, ?_⟩ List.Forall₂.nil)
  · rw [EMMBridge.Fix.epA]; norm_num
  · rw [EMMBridge.Fix.gA]; rfl
  · rw [EMMBridge.Fix.epB]; norm_num
  · rw [EMMBridge.Fix.gB]; rfl

end SplinkVerif.Lemmas.EMSql
