import SplinkVerif.Lemmas.EMSums
/-!
# Helper lemmas for C03 (EM): `updateLevel`, `step`, the pattern-count path, the starting prior
-/
namespace SplinkVerif.Lemmas.EM
open SplinkVerif SplinkVerif.Score SplinkVerif.EM SplinkVerif.Lemmas.Score

/-! ## `updateLevel` -/

/-- `updateLevel` with the pattern-matching `let`s replaced by projections. -/
theorem updateLevel_eq (sess : Session) (θ : Params ℝ) (rows : List (Row ℝ)) (ci : Nat)
    (l : Level ℝ) (st : LevelState) :
    updateLevel sess θ rows ci l st =
      if l.isNull then (l, st) else
        let pm : ℝ × Bool :=
          if st.fixM || sess.fixM then (l.m, st.mObserved)
          else match newM θ rows ci l.cvv with
            | some x => (x, true)
            | none => (notObservedValue, false)
        let pu : ℝ × Bool :=
          if st.fixU || sess.fixU then (l.u, st.uObserved)
          else match newU θ rows ci l.cvv with
            | some x => (x, true)
            | none => (notObservedValue, false)
        ({ l with m := pm.1, u := pu.1 }, { st with mObserved := pm.2, uObserved := pu.2 }) := by
  unfold updateLevel
  by_cases h1 : l.isNull = true
  · simp only [h1, if_true]
  · simp only [h1]
    by_cases h2 : (st.fixM || sess.fixM) = true <;> by_cases h3 : (st.fixU || sess.fixU) = true
    all_goals simp only [h2, h3, if_true]
    all_goals (cases newM θ rows ci l.cvv <;> cases newU θ rows ci l.cvv <;> rfl)

theorem notObservedValue_eq : (notObservedValue : ℝ) = 1 / 1000000 := by
  unfold notObservedValue
  simp

theorem updateLevel_unobserved (sess : Session) (θ : Params ℝ) (rows : List (Row ℝ)) (ci : Nat)
    (l : Level ℝ) (st : LevelState) (hn : l.isNull = false)
    (hfm : st.fixM = false) (hsm : sess.fixM = false)
    (h : ∀ r ∈ rows, gammaAt θ r ci ≠ some l.cvv) :
    (updateLevel sess θ rows ci l st).1.m = 1 / 1000000 ∧
      (updateLevel sess θ rows ci l st).2.mObserved = false := by
  have hnone := (new_none_of_unobserved θ rows ci l.cvv h).1
  rw [updateLevel_eq]
  simp only [hn, hfm, hsm, hnone, Bool.or_self, Bool.false_eq_true, if_false]
  exact ⟨notObservedValue_eq, trivial⟩

theorem updateLevel_fixed (sess : Session) (θ : Params ℝ) (rows : List (Row ℝ)) (ci : Nat)
    (l : Level ℝ) (st : LevelState) :
    ((st.fixM = true ∨ sess.fixM = true ∨ l.isNull = true) →
      (updateLevel sess θ rows ci l st).1.m = l.m) ∧
    ((st.fixU = true ∨ sess.fixU = true ∨ l.isNull = true) →
      (updateLevel sess θ rows ci l st).1.u = l.u) ∧
    (updateLevel sess θ rows ci l st).1.cvv = l.cvv ∧
    (updateLevel sess θ rows ci l st).1.tf = l.tf := by
  rw [updateLevel_eq]
  cases hn : l.isNull
  · simp only [Bool.false_eq_true, if_false, or_false]
    refine ⟨?_, ?_, trivial, trivial⟩
    · intro h
      have : (st.fixM || sess.fixM) = true := by
        rcases h with h | h <;> simp [h]
      simp only [this, if_true]
    · intro h
      have : (st.fixU || sess.fixU) = true := by
        rcases h with h | h <;> simp [h]
      simp only [this, if_true]
  · simp

/-! ## `step` -/

theorem step_prior_fixed (sess : Session) (θ : Params ℝ) (rows : List (Row ℝ))
    (h : sess.fixLambda = true) : (EM.step sess θ rows).prior = θ.prior := by
  simp [EM.step, h]

theorem zipWith3Idx_length {β γ δ : Type} (f : Nat → β → γ → δ) (xs : List β) (ys : List γ) :
    (zipWith3Idx f xs ys).length = min xs.length ys.length := by
  unfold zipWith3Idx
  simp only [List.length_map, List.length_zip, List.length_range]
  omega

theorem zipWith3Idx_getElem? {β γ δ : Type} (f : Nat → β → γ → δ) (xs : List β) (ys : List γ)
    (i : Nat) (d : δ) (h : (zipWith3Idx f xs ys)[i]? = some d) :
    ∃ x y, xs[i]? = some x ∧ ys[i]? = some y ∧ d = f i x y := by
  unfold zipWith3Idx at h
  rw [List.getElem?_map, Option.map_eq_some_iff] at h
  obtain ⟨⟨j, x, y⟩, hz, rfl⟩ := h
  rw [List.getElem?_zip_eq_some, List.getElem?_zip_eq_some] at hz
  obtain ⟨hj, hx, hy⟩ := hz
  simp only at hj hx hy
  have hji : j = i := by
    have := List.getElem?_range (n := xs.length) (i := i)
    rcases Nat.lt_or_ge i xs.length with hlt | hge
    · rw [List.getElem?_range hlt] at hj
      exact (Option.some.inj hj).symm
    · rw [List.getElem?_eq_none (by simpa using hge)] at hj
      exact absurd hj (by simp)
  subst hji
  exact ⟨x, y, hx, hy, rfl⟩

theorem step_shape (sess : Session) (θ : Params ℝ) (rows : List (Row ℝ))
    (hlen : θ.comps.length = θ.states.length)
    (hl : ∀ (i : Nat) (c : Comparison ℝ) (s : List LevelState), θ.comps[i]? = some c → θ.states[i]? = some s → c.length = s.length) :
    (EM.step sess θ rows).comps.length = θ.comps.length ∧
    ∀ (i : Nat) (c c' : Comparison ℝ), θ.comps[i]? = some c → (EM.step sess θ rows).comps[i]? = some c' →
      c'.length = c.length := by
  constructor
  · simp only [EM.step, List.length_map, zipWith3Idx_length]
    omega
  · intro i c c' hc hc'
    simp only [EM.step] at hc'
    rw [List.getElem?_map, Option.map_eq_some_iff] at hc'
    obtain ⟨d, hd, rfl⟩ := hc'
    obtain ⟨x, y, hx, hy, rfl⟩ := zipWith3Idx_getElem? _ _ _ i d hd
    rw [hc] at hx
    cases Option.some.inj hx
    have := hl i c y hc hy
    simp only [List.length_map, List.length_zip]
    omega

/-! ## Agreement-pattern counts against row-wise evaluation -/

theorem sum_expand (rows : List (Row ℝ)) (p : Row ℝ → Bool) (w : Row ℝ → ℝ)
    (hp : ∀ r : Row ℝ, p { r with count := 1 } = p r)
    (hw : ∀ r : Row ℝ, (r.count : ℝ) * w { r with count := 1 } = w r) :
    (((rows.flatMap fun r => List.replicate r.count { r with count := 1 }).filter p).map w).sum =
      ((rows.filter p).map w).sum := by
  induction rows with
  | nil => simp
  | cons a rows ih =>
    rw [List.flatMap_cons, List.filter_append, List.map_append, List.sum_append, ih,
      List.filter_replicate, hp a]
    cases h : p a
    · simp [h]
    · simp only [if_true, List.map_replicate, List.sum_replicate, nsmul_eq_mul, hw a,
        List.filter_cons, h, List.map_cons, List.sum_cons]

theorem sum_expand_all (rows : List (Row ℝ)) (w : Row ℝ → ℝ)
    (hw : ∀ r : Row ℝ, (r.count : ℝ) * w { r with count := 1 } = w r) :
    ((rows.flatMap fun r => List.replicate r.count { r with count := 1 }).map w).sum =
      (rows.map w).sum := by
  have := sum_expand rows (fun _ => true) w (fun _ => rfl) hw
  simpa using this

theorem expand_counts (θ : Params ℝ) (rows : List (Row ℝ)) (ci : Nat) (v : Int) :
    mCount θ (rows.flatMap fun r => List.replicate r.count { r with count := 1 }) ci v =
      mCount θ rows ci v ∧
    uCount θ (rows.flatMap fun r => List.replicate r.count { r with count := 1 }) ci v =
      uCount θ rows ci v ∧
    lambdaNew θ (rows.flatMap fun r => List.replicate r.count { r with count := 1 }) =
      lambdaNew θ rows := by
  have he : ∀ r : Row ℝ, eProb θ { r with count := 1 } = eProb θ r := fun _ => rfl
  refine ⟨?_, ?_, ?_⟩
  · rw [mCount_eq, mCount_eq]
    apply sum_expand
    · intro r; rfl
    · intro r
      simp only [he, Nat.cast_one, mul_one]
      ring
  · rw [uCount_eq, uCount_eq]
    apply sum_expand
    · intro r; rfl
    · intro r
      simp only [he, Nat.cast_one, mul_one]
      ring
  · rw [lambdaNew_eq, lambdaNew_eq, sum_expand_all, sum_expand_all]
    · intro r
      simp
    · intro r
      simp only [he, Nat.cast_one, mul_one]
      ring

/-! ## The starting prior -/

theorem foldl_mul_eq (bfs : List ℝ) (a : ℝ) :
    bfs.foldl (fun acc b => Num.mul b acc) a = a * bfs.prod := by
  induction bfs generalizing a with
  | nil => simp
  | cons b bfs ih =>
    rw [List.foldl_cons, ih, List.prod_cons, num_mul]
    ring

theorem startPrior_eq (prior : ℝ) (bfs : List ℝ) :
    startPrior prior bfs =
      (prior / (1 - prior) * bfs.prod) / (1 + prior / (1 - prior) * bfs.prod) := by
  unfold startPrior
  simp only [foldl_mul_eq, priorOdds_eq, num_div, num_add, num_one]

end SplinkVerif.Lemmas.EM
