import SplinkVerif.Model.Levels
import Mathlib.Algebra.Order.Field.Rat
import Mathlib.Tactic.Ring
import Mathlib.Tactic.Linarith
import Mathlib.Tactic.Positivity
import Std.Tactic.Do
/-!
# Laws of the reference string metrics of `Model/Levels.lean` (C16)

* `lev` (Wagner–Fischer rows, the one the driver runs) equals `levSpec` (textbook recursion) on all
  strings; `levSpec` is a metric (identity of indiscernibles, symmetry, triangle inequality), bounded by
  the longer length, bounded below by the length difference, 1-Lipschitz under extension.
* `commonPrefix`, `jaccardSim`, `jaroWinklerSim`: symmetry / range / reflexivity laws.
-/
namespace SplinkVerif.Metrics
open SplinkVerif SplinkVerif.Levels

/-! ## `levSpec` equations -/

theorem levSpec_nil_left (b : List Char) : levSpec [] b = b.length := by
  simp [levSpec]

theorem levSpec_nil_right (a : List Char) : levSpec a [] = a.length := by
  cases a <;> simp [levSpec]

theorem levSpec_cons_cons (x y : Char) (a b : List Char) :
    levSpec (x :: a) (y :: b) =
      min (levSpec a (y :: b) + 1)
        (min (levSpec (x :: a) b + 1) (levSpec a b + (if x = y then 0 else 1))) := by
  simp [levSpec]

/-! ## Wagner–Fischer = textbook recursion -/

/-- The row of `levSpec a` against every suffix of `b`, longest first. -/
def sufRow (a : List Char) : List Char → List Nat
  | [] => [levSpec a []]
  | y :: b => levSpec a (y :: b) :: sufRow a b

theorem sufRow_headD (a b : List Char) : (sufRow a b).headD 0 = levSpec a b := by
  cases b <;> simp [sufRow]

theorem sufRow_tail_cons (a : List Char) (y : Char) (b : List Char) :
    (sufRow a (y :: b)).tail = sufRow a b := by
  simp [sufRow]

theorem sufRow_nil_left (b : List Char) : sufRow [] b = downFrom b.length := by
  induction b with
  | nil => simp [sufRow, downFrom, levSpec_nil_left]
  | cons y b ih => simp [sufRow, downFrom, levSpec_nil_left, ih]

theorem levStep_sufRow (x : Char) (a b : List Char) :
    levStep x b (sufRow a b) = sufRow (x :: a) b := by
  induction b with
  | nil => simp [levStep, sufRow, levSpec_nil_right]
  | cons y b ih =>
    simp only [levStep, sufRow_tail_cons, ih, sufRow_headD]
    simp [sufRow, levSpec_cons_cons]

theorem levRow_eq_sufRow (a b : List Char) : levRow a b = sufRow a b := by
  induction a with
  | nil => simp [levRow, sufRow_nil_left]
  | cons x a ih => simp [levRow, ih, levStep_sufRow]

theorem sufRow_eq_range (a b : List Char) :
    sufRow a b = (List.range (b.length + 1)).map (fun k => levSpec a (b.drop k)) := by
  induction b with
  | nil => simp [sufRow]
  | cons y b ih =>
    rw [List.length_cons, List.range_succ_eq_map, List.map_cons, List.map_map, sufRow, ih]
    simp [Function.comp_def]

/-- Row invariant of Wagner–Fischer: entry `k` of the row is the distance to the `k`-th suffix. -/
theorem levRow_eq_range (a b : List Char) :
    levRow a b = (List.range (b.length + 1)).map (fun k => levSpec a (b.drop k)) := by
  rw [levRow_eq_sufRow, sufRow_eq_range]

theorem lev_eq_levSpec (a b : List Char) : lev a b = levSpec a b := by
  unfold lev; rw [levRow_eq_sufRow, sufRow_headD]

/-! ## Metric laws of `levSpec` -/

theorem levSpec_self (a : List Char) : levSpec a a = 0 := by
  induction a with
  | nil => simp [levSpec_nil_left]
  | cons x a ih => rw [levSpec_cons_cons, ih]; simp

theorem levSpec_symm (a b : List Char) : levSpec a b = levSpec b a := by
  induction a generalizing b with
  | nil => simp [levSpec_nil_left, levSpec_nil_right]
  | cons x a iha =>
    induction b with
    | nil => simp [levSpec_nil_left, levSpec_nil_right]
    | cons y b ihb =>
      rw [levSpec_cons_cons, levSpec_cons_cons, iha (y :: b), ihb, iha b]
      have : (if x = y then 0 else 1 : Nat) = (if y = x then 0 else 1) := by
        by_cases h : x = y
        · subst h; simp
        · have h' : ¬ y = x := fun e => h e.symm
          simp [h, h']
      rw [this]; omega

theorem levSpec_cons_left_le (x : Char) (a b : List Char) :
    levSpec (x :: a) b ≤ levSpec a b + 1 := by
  cases b with
  | nil => simp [levSpec_nil_right]
  | cons y b => rw [levSpec_cons_cons]; omega

theorem levSpec_cons_right_le (y : Char) (a b : List Char) :
    levSpec a (y :: b) ≤ levSpec a b + 1 := by
  rw [levSpec_symm a (y :: b), levSpec_symm a b]; exact levSpec_cons_left_le y b a

theorem levSpec_cons_cons_le (x y : Char) (a b : List Char) :
    levSpec (x :: a) (y :: b) ≤ levSpec a b + (if x = y then 0 else 1) := by
  rw [levSpec_cons_cons]; omega

theorem levSpec_le_max_len (a b : List Char) : levSpec a b ≤ max a.length b.length := by
  induction a generalizing b with
  | nil => simp [levSpec_nil_left]
  | cons x a iha =>
    cases b with
    | nil => simp [levSpec_nil_right]
    | cons y b =>
      have h1 := levSpec_cons_cons_le x y a b
      have h2 := iha b
      have h3 : (if x = y then 0 else 1 : Nat) ≤ 1 := by split <;> omega
      simp only [List.length_cons]; omega

theorem levSpec_ge_len_sub (a b : List Char) : a.length - b.length ≤ levSpec a b := by
  induction a generalizing b with
  | nil => simp
  | cons x a iha =>
    induction b with
    | nil => simp [levSpec_nil_right]
    | cons y b ihb =>
      rw [levSpec_cons_cons]
      have h1 := iha (y :: b)
      have h2 := iha b
      simp only [List.length_cons] at *
      omega

theorem levSpec_ge_len_diff (a b : List Char) :
    a.length - b.length ≤ levSpec a b ∧ b.length - a.length ≤ levSpec a b :=
  ⟨levSpec_ge_len_sub a b, by rw [levSpec_symm]; exact levSpec_ge_len_sub b a⟩

theorem levSpec_eq_zero_iff (a b : List Char) : levSpec a b = 0 ↔ a = b := by
  constructor
  · intro h
    induction a generalizing b with
    | nil =>
      rw [levSpec_nil_left] at h
      exact (List.eq_nil_of_length_eq_zero h).symm
    | cons x a iha =>
      cases b with
      | nil => rw [levSpec_nil_right] at h; simp at h
      | cons y b =>
        rw [levSpec_cons_cons] at h
        by_cases hxy : x = y
        · subst hxy
          simp only [if_true] at h
          have : levSpec a b = 0 := by omega
          rw [iha b this]
        · simp only [hxy, if_false] at h; omega
  · rintro rfl; exact levSpec_self a

theorem ite_ne_triangle (x y z : Char) :
    (if x = z then 0 else 1 : Nat) ≤ (if x = y then 0 else 1) + (if y = z then 0 else 1) := by
  by_cases h1 : x = y
  · subst h1; simp
  · by_cases h2 : y = z
    · subst h2; simp
    · simp only [h1, h2, if_false]; split <;> omega

/-- Triangle inequality of the Levenshtein distance. -/
theorem levSpec_triangle (a b c : List Char) : levSpec a c ≤ levSpec a b + levSpec b c := by
  induction a generalizing b c with
  | nil =>
    have := (levSpec_ge_len_diff b c).2
    simp only [levSpec_nil_left]; omega
  | cons x a iha =>
    induction b generalizing c with
    | nil =>
      have := levSpec_le_max_len (x :: a) c
      simp only [levSpec_nil_left, levSpec_nil_right] at *; omega
    | cons y b ihb =>
      induction c with
      | nil =>
        have := (levSpec_ge_len_diff (x :: a) (y :: b)).1
        simp only [levSpec_nil_right] at *; omega
      | cons z c ihc =>
        have e1 := levSpec_cons_cons x y a b
        have e2 := levSpec_cons_cons y z b c
        have k := ite_ne_triangle x y z
        -- the six smaller instances
        have i1 := iha (y :: b) (z :: c)
        have i3 := ihb (z :: c)
        have i4 := ihb c
        have i5 := iha b (z :: c)
        have i6 := iha b c
        have u1 := levSpec_cons_left_le x a (z :: c)
        have u2 := levSpec_cons_right_le z (x :: a) c
        have u3 := levSpec_cons_cons_le x z a c
        generalize (if x = y then 0 else 1 : Nat) = dxy at *
        generalize (if y = z then 0 else 1 : Nat) = dyz at *
        generalize (if x = z then 0 else 1 : Nat) = dxz at *
        omega

/-! ## Extension laws -/

theorem levSpec_le_cons_right (y : Char) (a b : List Char) :
    levSpec a b ≤ levSpec a (y :: b) + 1 := by
  have h := levSpec_triangle a (y :: b) b
  have h2 := levSpec_cons_left_le y b b
  rw [levSpec_self] at h2
  omega

theorem levSpec_le_cons_left (x : Char) (a b : List Char) :
    levSpec a b ≤ levSpec (x :: a) b + 1 := by
  rw [levSpec_symm a b, levSpec_symm (x :: a) b]; exact levSpec_le_cons_right x b a

/-- Equal heads cost nothing. -/
theorem levSpec_cons_cons_same (x : Char) (a b : List Char) :
    levSpec (x :: a) (x :: b) = levSpec a b := by
  have h1 := levSpec_le_cons_right x a b
  have h2 := levSpec_le_cons_left x a b
  rw [levSpec_cons_cons]; simp only [if_true]; omega

theorem levSpec_append_self_right (b c : List Char) : levSpec b (b ++ c) ≤ c.length := by
  induction b with
  | nil => simp [levSpec_nil_left]
  | cons x b ih => rw [List.cons_append, levSpec_cons_cons_same]; exact ih

theorem levSpec_append_right_le (a b c : List Char) :
    levSpec a (b ++ c) ≤ levSpec a b + c.length := by
  have h1 := levSpec_triangle a b (b ++ c)
  have h2 := levSpec_append_self_right b c
  omega

/-! ## `lev` versions -/

theorem lev_self (a : List Char) : lev a a = 0 := by
  rw [lev_eq_levSpec]; exact levSpec_self a

theorem lev_eq_zero_iff (a b : List Char) : lev a b = 0 ↔ a = b := by
  rw [lev_eq_levSpec]; exact levSpec_eq_zero_iff a b

theorem lev_symm (a b : List Char) : lev a b = lev b a := by
  rw [lev_eq_levSpec, lev_eq_levSpec]; exact levSpec_symm a b

theorem lev_le_max_len (a b : List Char) : lev a b ≤ max a.length b.length := by
  rw [lev_eq_levSpec]; exact levSpec_le_max_len a b

theorem lev_ge_len_diff (a b : List Char) :
    a.length - b.length ≤ lev a b ∧ b.length - a.length ≤ lev a b := by
  rw [lev_eq_levSpec]; exact levSpec_ge_len_diff a b

theorem lev_triangle (a b c : List Char) : lev a c ≤ lev a b + lev b c := by
  rw [lev_eq_levSpec, lev_eq_levSpec, lev_eq_levSpec]; exact levSpec_triangle a b c

theorem lev_cons_cons_le (x : Char) (a b : List Char) : lev (x :: a) (x :: b) = lev a b := by
  rw [lev_eq_levSpec, lev_eq_levSpec]; exact levSpec_cons_cons_same x a b

theorem lev_append_right_le (a b c : List Char) : lev a (b ++ c) ≤ lev a b + c.length := by
  rw [lev_eq_levSpec, lev_eq_levSpec]; exact levSpec_append_right_le a b c

/-- One more character on either side moves the distance by at most one. -/
theorem lev_cons_right_lipschitz (y : Char) (a b : List Char) :
    lev a (y :: b) ≤ lev a b + 1 ∧ lev a b ≤ lev a (y :: b) + 1 := by
  rw [lev_eq_levSpec, lev_eq_levSpec]
  exact ⟨levSpec_cons_right_le y a b, levSpec_le_cons_right y a b⟩

/-! ## `commonPrefix` -/

theorem commonPrefix_comm (a b : List Char) : commonPrefix a b = commonPrefix b a := by
  induction a generalizing b with
  | nil => cases b <;> simp [commonPrefix]
  | cons x a ih =>
    cases b with
    | nil => simp [commonPrefix]
    | cons y b =>
      by_cases h : x = y
      · subst h; simp [commonPrefix, ih b]
      · have h' : ¬ y = x := fun e => h e.symm
        simp [commonPrefix, h, h']

theorem commonPrefix_le_left (a b : List Char) : commonPrefix a b ≤ a.length := by
  induction a generalizing b with
  | nil => cases b <;> simp [commonPrefix]
  | cons x a ih =>
    cases b with
    | nil => simp [commonPrefix]
    | cons y b =>
      have := ih b
      simp only [commonPrefix, List.length_cons]; split <;> omega

theorem commonPrefix_le_min_len (a b : List Char) : commonPrefix a b ≤ min a.length b.length := by
  have h1 := commonPrefix_le_left a b
  have h2 := commonPrefix_le_left b a
  rw [commonPrefix_comm b a] at h2
  omega

theorem commonPrefix_self (a : List Char) : commonPrefix a a = a.length := by
  induction a with
  | nil => simp [commonPrefix]
  | cons x a ih => simp [commonPrefix, ih]

/-- `commonPrefix` really is the length of a common prefix, and it is the longest one. -/
theorem commonPrefix_take (a b : List Char) :
    a.take (commonPrefix a b) = b.take (commonPrefix a b) := by
  induction a generalizing b with
  | nil => cases b <;> simp [commonPrefix]
  | cons x a ih =>
    cases b with
    | nil => simp [commonPrefix]
    | cons y b =>
      by_cases h : x = y
      · subst h; simp [commonPrefix, ih b]
      · simp [commonPrefix, h]

theorem commonPrefix_maximal (a b : List Char) (k : Nat) (hk : k ≤ min a.length b.length)
    (h : a.take k = b.take k) : k ≤ commonPrefix a b := by
  induction a generalizing b k with
  | nil => simp at hk; omega
  | cons x a ih =>
    cases b with
    | nil => simp at hk; omega
    | cons y b =>
      cases k with
      | zero => omega
      | succ k =>
        simp only [List.take_succ_cons, List.cons.injEq] at h
        obtain ⟨rfl, h⟩ := h
        simp only [List.length_cons] at hk
        have := ih b k (by omega) h
        simp only [commonPrefix, if_true]; omega

/-! ## `eraseDups` is duplicate-free with the same members -/

theorem mem_eraseDups_aux (n : Nat) : ∀ (l : List Char), l.length ≤ n → ∀ c, c ∈ l.eraseDups ↔ c ∈ l := by
  induction n with
  | zero =>
    intro l hl c
    have : l = [] := List.eq_nil_of_length_eq_zero (by omega)
    subst this; simp
  | succ n ih =>
    intro l hl c
    cases l with
    | nil => simp
    | cons a as =>
      rw [List.eraseDups_cons, List.mem_cons, List.mem_cons]
      have hlen : (as.filter fun b => !b == a).length ≤ n := by
        have := List.length_filter_le (fun b => !b == a) as
        simp only [List.length_cons] at hl; omega
      rw [ih _ hlen c, List.mem_filter]
      by_cases hca : c = a
      · simp [hca]
      · simp [hca]

theorem mem_eraseDups (l : List Char) (c : Char) : c ∈ l.eraseDups ↔ c ∈ l :=
  mem_eraseDups_aux l.length l (Nat.le_refl _) c

theorem nodup_eraseDups_aux (n : Nat) : ∀ (l : List Char), l.length ≤ n → l.eraseDups.Nodup := by
  induction n with
  | zero =>
    intro l hl
    have : l = [] := List.eq_nil_of_length_eq_zero (by omega)
    subst this; simp
  | succ n ih =>
    intro l hl
    cases l with
    | nil => simp
    | cons a as =>
      rw [List.eraseDups_cons, List.nodup_cons]
      have hlen : (as.filter fun b => !b == a).length ≤ n := by
        have := List.length_filter_le (fun b => !b == a) as
        simp only [List.length_cons] at hl; omega
      refine ⟨?_, ih _ hlen⟩
      rw [mem_eraseDups, List.mem_filter]
      simp

theorem nodup_eraseDups (l : List Char) : l.eraseDups.Nodup :=
  nodup_eraseDups_aux l.length l (Nat.le_refl _)

theorem eraseDups_eq_nil_iff (l : List Char) : l.eraseDups = [] ↔ l = [] := by
  cases l with
  | nil => simp
  | cons a as => simp [List.eraseDups_cons]

/-! ## `jaccardSim` -/

/-- Size of the intersection as `jaccardSim` counts it. -/
def interLen (sa sb : List Char) : Nat := (sa.filter (fun c => sb.contains c)).length

theorem interLen_comm (sa sb : List Char) (ha : sa.Nodup) (hb : sb.Nodup) :
    interLen sa sb = interLen sb sa := by
  unfold interLen
  apply List.Perm.length_eq
  rw [List.perm_ext_iff_of_nodup (ha.filter _) (hb.filter _)]
  intro c
  simp only [List.mem_filter, List.contains_iff_mem]
  exact And.comm

theorem interLen_le_left (sa sb : List Char) : interLen sa sb ≤ sa.length :=
  List.length_filter_le _ _

theorem interLen_le_right (sa sb : List Char) (ha : sa.Nodup) (hb : sb.Nodup) :
    interLen sa sb ≤ sb.length := by
  rw [interLen_comm sa sb ha hb]; exact interLen_le_left sb sa

theorem interLen_self (sa : List Char) : interLen sa sa = sa.length := by
  unfold interLen
  rw [List.filter_eq_self.2]
  intro c hc; simpa using hc

theorem jaccardSim_eq (a b : List Char) :
    jaccardSim a b =
      if a.eraseDups.isEmpty || b.eraseDups.isEmpty then none
      else some (((interLen a.eraseDups b.eraseDups : Nat) : Rat) /
        ((a.eraseDups.length + b.eraseDups.length - interLen a.eraseDups b.eraseDups : Nat) : Rat)) := rfl

theorem jaccardSim_symm (a b : List Char) : jaccardSim a b = jaccardSim b a := by
  rw [jaccardSim_eq, jaccardSim_eq,
    interLen_comm a.eraseDups b.eraseDups (nodup_eraseDups a) (nodup_eraseDups b),
    Bool.or_comm, Nat.add_comm a.eraseDups.length]

theorem jaccardSim_range (a b : List Char) (q : Rat) (h : jaccardSim a b = some q) :
    0 ≤ q ∧ q ≤ 1 := by
  rw [jaccardSim_eq] at h
  split at h
  · cases h
  · injection h with h
    subst h
    have h1 := interLen_le_left a.eraseDups b.eraseDups
    have h2 := interLen_le_right a.eraseDups b.eraseDups (nodup_eraseDups a) (nodup_eraseDups b)
    generalize interLen a.eraseDups b.eraseDups = i at *
    generalize a.eraseDups.length = na at *
    generalize b.eraseDups.length = nb at *
    have hle : i ≤ na + nb - i := by omega
    constructor
    · exact div_nonneg (Nat.cast_nonneg _) (Nat.cast_nonneg _)
    · apply div_le_one_of_le₀
      · exact_mod_cast hle
      · exact Nat.cast_nonneg _

theorem jaccardSim_self (a : List Char) (h : a ≠ []) : jaccardSim a a = some 1 := by
  have hne : a.eraseDups ≠ [] := fun e => h ((eraseDups_eq_nil_iff a).1 e)
  have hlen : a.eraseDups.length ≠ 0 := fun e => hne (List.eq_nil_of_length_eq_zero e)
  rw [jaccardSim_eq, interLen_self]
  have : a.eraseDups.isEmpty = false := by
    cases hh : a.eraseDups with
    | nil => exact absurd hh hne
    | cons _ _ => rfl
  simp only [this, Bool.or_self, Bool.false_eq_true, if_false, Nat.add_sub_cancel]
  congr 1
  apply div_self
  exact_mod_cast hlen

/-- `jaccardSim` is undefined exactly when one of the strings is empty. -/
theorem jaccardSim_eq_none_iff (a b : List Char) : jaccardSim a b = none ↔ a = [] ∨ b = [] := by
  rw [jaccardSim_eq]
  constructor
  · intro h
    split at h
    · rename_i hc
      simp only [Bool.or_eq_true, List.isEmpty_iff] at hc
      rcases hc with hc | hc
      · exact Or.inl ((eraseDups_eq_nil_iff a).1 hc)
      · exact Or.inr ((eraseDups_eq_nil_iff b).1 hc)
    · cases h
  · rintro (rfl | rfl) <;> simp


/-! ## `jaroSim` takes values in `[0, 1]`

`jaroSim` is an imperative `Id.run do` program; the verification conditions are generated by `mvcgen`
from two loop invariants: the `tm` flags keep the size of `b`, the number of `true` flags is the
number of matches, and every outer iteration adds at most one match. -/

theorem list_eq_map_range (l : List Bool) : l = (List.range l.length).map (fun j => l[j]!) := by
  apply List.ext_getElem
  · simp
  · intro i h1 h2; simp [h1]

theorem filter_range_length (l : List Bool) :
    ((List.range l.length).filter (fun j => l[j]!)).length = l.count true := by
  have h := congrArg (List.count true) (list_eq_map_range l)
  rw [h, List.count_eq_countP, List.countP_map, List.countP_eq_length_filter]
  congr 1
  apply List.filter_congr
  intro j _; simp

theorem array_filter_range_length (tm : Array Bool) :
    ((List.range tm.size).filter (fun j => tm[j]!)).length = tm.count true := by
  have := filter_range_length tm.toList
  simp only [Array.length_toList, Array.count_toList] at this
  rw [← this]
  congr 1
  apply List.filter_congr
  intro j hj
  simp at hj
  simp [hj]

theorem count_set_true (tm : Array Bool) (j : Nat) (hj : j < tm.size) (hf : tm[j]! = false) :
    (tm.set! j true).count true = tm.count true + 1 := by
  rw [getElem!_pos tm j hj] at hf
  simp [Array.setIfInBounds, hj, Array.count_set, hf]

theorem range_split_lt {lo hi cur : Nat} {pref suff : List Nat}
    (h : ([lo:hi] : Std.Legacy.Range).toList = pref ++ cur :: suff) : cur < hi := by
  have hm : cur ∈ ([lo:hi] : Std.Legacy.Range).toList := by rw [h]; simp
  simp [Std.Legacy.Range.toList, List.mem_range'_1] at hm
  omega

/-- Half the number of out-of-order matches is at most the number of matched positions of `b`. -/
theorem halfTrans_le (s t : Array Char) (sm tm : Array Bool) (n m : Nat) (hm : tm.size = m) :
    ((List.filter (fun p => p.1 != p.2)
        ((List.map (fun i => s[i]!) (List.filter (fun i => sm[i]!) (List.range n))).zip
          (List.map (fun j => t[j]!) (List.filter (fun j => tm[j]!) (List.range m))))).length / 2)
      ≤ tm.count true := by
  subst hm
  refine Nat.le_trans (Nat.div_le_self _ _) ?_
  refine Nat.le_trans (List.length_filter_le _ _) ?_
  rw [List.length_zip, List.length_map, List.length_map, array_filter_range_length]
  exact Nat.min_le_right _ _

theorem jaro_final (k n m h : Nat) (hk : k ≠ 0) (hn : k ≤ n) (hm : k ≤ m) (hh : h ≤ k) :
    0 ≤ ((k : Rat) / (n : Rat) + (k : Rat) / (m : Rat) + ((k : Rat) - (h : Rat)) / (k : Rat)) / 3 ∧
    ((k : Rat) / (n : Rat) + (k : Rat) / (m : Rat) + ((k : Rat) - (h : Rat)) / (k : Rat)) / 3 ≤ 1 := by
  have hkq : (0 : Rat) < (k : Rat) := by exact_mod_cast Nat.pos_of_ne_zero hk
  have hnq : (k : Rat) ≤ (n : Rat) := by exact_mod_cast hn
  have hmq : (k : Rat) ≤ (m : Rat) := by exact_mod_cast hm
  have hhq : (h : Rat) ≤ (k : Rat) := by exact_mod_cast hh
  have hh0 : (0 : Rat) ≤ (h : Rat) := Nat.cast_nonneg _
  have a0 : 0 ≤ (k : Rat) / (n : Rat) := div_nonneg hkq.le (by linarith)
  have a1 : (k : Rat) / (n : Rat) ≤ 1 := div_le_one_of_le₀ hnq (by linarith)
  have b0 : 0 ≤ (k : Rat) / (m : Rat) := div_nonneg hkq.le (by linarith)
  have b1 : (k : Rat) / (m : Rat) ≤ 1 := div_le_one_of_le₀ hmq (by linarith)
  have c0 : 0 ≤ ((k : Rat) - (h : Rat)) / (k : Rat) := div_nonneg (by linarith) hkq.le
  have c1 : ((k : Rat) - (h : Rat)) / (k : Rat) ≤ 1 := div_le_one_of_le₀ (by linarith) hkq.le
  constructor <;> linarith

set_option mvcgen.warning false in
open Std.Do in
theorem jaroSim_range (a b : List Char) : 0 ≤ jaroSim a b ∧ jaroSim a b ≤ 1 := by
  generalize h : jaroSim a b = r
  apply Id.of_wp_run_eq h
  mvcgen
  case inv1 =>
    exact ⇓⟨xs, (tm, sm, k)⟩ => ⌜tm.size = b.length ∧ tm.count true = k ∧ k ≤ xs.prefix.length⌝
  case inv2 =>
    rename_i pref cur suff hsplit st _s sm0 nM0 lo hi hinv
    exact ⇓⟨xs, (tm, sm, k, found)⟩ =>
      ⌜tm.size = b.length ∧ tm.count true = k ∧ k ≤ pref.length + (if found then 1 else 0)⌝
  case vc3 =>
    rename_i pref cur suff hsplit st tm _s1 sm _s2 nM found hcond hinv
    have hlt := range_split_lt hsplit
    simp +zetaDelta at *
    obtain ⟨h1, h2, h3⟩ := hinv
    obtain ⟨⟨hf, htm⟩, _⟩ := hcond
    rw [hf] at h3
    refine ⟨h1, ?_, by simpa using h3⟩
    have := count_set_true st.fst cur (by omega) htm
    simpa [h2] using this
  case vc4 =>
    simp +zetaDelta at *
    assumption
  case vc5 =>
    simp +zetaDelta at *
    assumption
  case vc6 =>
    rename_i hinv
    simp +zetaDelta at *
    obtain ⟨h1, h2, h3⟩ := hinv
    refine ⟨h1, h2, ?_⟩
    refine Nat.le_trans h3 (Nat.add_le_add_left ?_ _)
    split <;> omega
  case vc7 =>
    simp +zetaDelta [Array.count_replicate] at *
  case vc9 =>
    rename_i st _s sm nM hnz mm hinv
    have hinv' : st.1.size = b.length ∧ st.1.count true = st.2.2 ∧ st.2.2 ≤ a.length := by
      simpa +zetaDelta using hinv
    obtain ⟨h1, h2, h3⟩ := hinv'
    have hm : st.1.size = b.toArray.size := by simpa using h1
    have hh := halfTrans_le a.toArray b.toArray st.2.1 st.1 a.toArray.size b.toArray.size hm
    have hk : st.2.2 ≠ 0 := by simpa +zetaDelta using hnz
    have hkm : st.2.2 ≤ b.toArray.size := by rw [← h2, ← hm]; exact Array.count_le_size
    rw [h2] at hh
    exact jaro_final st.2.2 a.toArray.size b.toArray.size _ hk (by simpa using h3) hkm hh

/-! ## `jaroSim a a = 1`

Invariants: after `i` outer iterations exactly the first `i` flags of `tm` and of `sm` are set and
`nMatch = i`; inside iteration `i` the scan has found the match (at `j = i`) iff it is past position `i`. -/

/-- The first `i` flags (and only those) are set. -/
def Flags (arr : Array Bool) (n i : Nat) : Prop := arr.size = n ∧ ∀ j, j < n → arr[j]! = decide (j < i)

theorem flags_init (n : Nat) : Flags (Array.replicate n false) n 0 := by
  refine ⟨by simp, ?_⟩
  intro j hj
  rw [getElem!_pos _ j (by simpa using hj)]
  simp

theorem flags_set {arr : Array Bool} {n i : Nat} (h : Flags arr n i) (hi : i < n) :
    Flags (arr.set! i true) n (i + 1) := by
  obtain ⟨hs, hf⟩ := h
  refine ⟨by simpa using hs, ?_⟩
  intro j hj
  by_cases hij : i = j
  · subst hij
    rw [Array.getElem!_set!_self _ _ _ (by omega)]
    simp
  · rw [Array.getElem!_set!_ne _ _ _ _ hij, hf j hj]
    have : (j < i) ↔ (j < i + 1) := by omega
    simp [this]

theorem toList_split {lo hi cur : Nat} {pref suff : List Nat}
    (h : ([lo:hi] : Std.Legacy.Range).toList = pref ++ cur :: suff) : cur = lo + pref.length ∧ cur < hi := by
  have h1 : (([lo:hi] : Std.Legacy.Range).toList)[pref.length]? = some cur := by rw [h]; simp
  simp only [Std.Legacy.Range.toList] at h1
  rw [List.getElem?_eq_some_iff] at h1
  obtain ⟨hl, he⟩ := h1
  simp at hl he
  omega

theorem zip_self_filter_ne (l : List Char) : (l.zip l).filter (fun p => p.1 != p.2) = [] := by
  induction l with
  | nil => rfl
  | cons x l ih => simp [ih]

theorem filter_flags_full {arr : Array Bool} {n : Nat} (h : Flags arr n n) :
    (List.range n).filter (fun i => arr[i]!) = List.range n := by
  rw [List.filter_eq_self]
  intro j hj
  have hj' : j < n := by simpa using hj
  rw [h.2 j hj']; simpa using hj'

theorem jaro_final_self (s : Array Char) (sm tm : Array Bool) (n : Nat) (hn : n ≠ 0)
    (hs : Flags sm n n) (ht : Flags tm n n) :
    (((n : Nat) : Rat) / (n : Rat) + (n : Rat) / (n : Rat) +
      ((n : Rat) - (((List.filter (fun p => p.1 != p.2)
        ((List.map (fun i => s[i]!) (List.filter (fun i => sm[i]!) (List.range n))).zip
          (List.map (fun j => s[j]!) (List.filter (fun j => tm[j]!) (List.range n))))).length / 2 : Nat) : Rat))
        / (n : Rat)) / 3 = 1 := by
  rw [filter_flags_full hs, filter_flags_full ht, zip_self_filter_ne]
  have hq : (n : Rat) ≠ 0 := by exact_mod_cast hn
  simp [div_self hq]
  norm_num

set_option mvcgen.warning false in
open Std.Do in
theorem jaroSim_self (a : List Char) : jaroSim a a = 1 := by
  generalize h : jaroSim a a = r
  apply Id.of_wp_run_eq h
  mvcgen
  case inv1 =>
    exact ⇓⟨xs, (tm, sm, k)⟩ =>
      ⌜k = xs.prefix.length ∧ Flags tm a.length xs.prefix.length ∧ Flags sm a.length xs.prefix.length⌝
  case inv2 =>
    rename_i pref cur suff hsplit st _s sm0 nM0 lo hi hinv
    exact ⇓⟨xs, (tm, sm, k, found)⟩ =>
      ⌜found = decide (cur < lo + xs.prefix.length) ∧ k = cur + found.toNat ∧
        Flags tm a.length (cur + found.toNat) ∧ Flags sm a.length (cur + found.toNat)⌝
  case vc1 =>
    rename_i h1 h2
    simp +zetaDelta at h1 h2
    exact absurd h2 h1
  case vc2 =>
    rename_i pref cur suff hsplit st _s0 sm0 nM0 lo hi hinv1 pref2 cur2 suff2 hsplit2 st2 tm _s1 sm _s2 nM found hcond hinv
    have hlo : lo ≤ cur := Nat.sub_le _ _
    have hhi : hi ≤ a.length := Nat.le_trans (Nat.min_le_right _ _) (by simp +zetaDelta)
    obtain ⟨hc1, hc1'⟩ := toList_split hsplit
    obtain ⟨hc2, hc2'⟩ := toList_split hsplit2
    clear_value lo hi
    simp +zetaDelta at hinv hcond hc1 hc1' ⊢
    obtain ⟨hfound, hk, hft, hfs⟩ := hinv
    obtain ⟨⟨hf, htm⟩, _⟩ := hcond
    rw [hf] at hk hft hfs
    simp only [Bool.toNat_false, Nat.add_zero] at hk hft hfs
    have hle : cur2 ≤ cur := by
      rw [hf] at hfound
      have := of_decide_eq_false hfound.symm
      omega
    have hcur2 : cur2 = cur := by
      have h1 := hft.2 cur2 (by omega)
      rw [htm] at h1
      have := of_decide_eq_false h1.symm
      omega
    subst hcur2
    refine ⟨by omega, by omega, flags_set hft (by omega), flags_set hfs (by omega)⟩
  case vc3 =>
    rename_i pref cur suff hsplit st _s0 sm0 nM0 lo hi hinv1 pref2 cur2 suff2 hsplit2 st2 tm _s1 sm _s2 nM found hcond hinv
    have hlo : lo ≤ cur := Nat.sub_le _ _
    have hhi : hi ≤ a.length := Nat.le_trans (Nat.min_le_right _ _) (by simp +zetaDelta)
    obtain ⟨hc1, hc1'⟩ := toList_split hsplit
    obtain ⟨hc2, hc2'⟩ := toList_split hsplit2
    clear_value lo hi
    simp +zetaDelta at hinv hcond hc1 hc1' ⊢
    obtain ⟨hfound, hk, hft, hfs⟩ := hinv
    refine ⟨?_, hk, hft, hfs⟩
    rcases Bool.eq_false_or_eq_true st2.2.2.2 with hfd | hfd
    · rw [hfd] at hfound ⊢
      have := of_decide_eq_true hfound.symm
      exact (decide_eq_true (by omega)).symm
    · rw [hfd] at hfound hft ⊢
      have hle := of_decide_eq_false hfound.symm
      have hne : cur2 ≠ cur := by
        intro e
        subst e
        have h1 := hft.2 cur2 (by omega)
        simp at h1
        exact hcond hfd h1 rfl
      exact (decide_eq_false (by omega)).symm
  case vc4 =>
    rename_i pref cur suff hsplit st _s0 sm0 nM0 lo hi hinv1
    have hlo : lo ≤ cur := Nat.sub_le _ _
    obtain ⟨hc1, hc1'⟩ := toList_split hsplit
    clear_value lo hi
    simp +zetaDelta at hinv1 hc1 ⊢
    obtain ⟨hk, hft, hfs⟩ := hinv1
    subst hc1
    exact ⟨by omega, hk, hft, hfs⟩
  case vc5 =>
    rename_i pref cur suff hsplit st _s0 sm0 nM0 lo hi hinv1 st2 _s1 sm _s2 nM hinv
    have hlo : lo ≤ cur := Nat.sub_le _ _
    obtain ⟨hc1, hc1'⟩ := toList_split hsplit
    have hhi2 : cur < hi := Nat.lt_min.2 ⟨by omega, by simpa +zetaDelta using hc1'⟩
    clear_value lo hi
    simp +zetaDelta at hinv hc1 ⊢
    obtain ⟨hfound, hk, hft, hfs⟩ := hinv
    have hfd : st2.2.2.2 = true := by rw [hfound]; exact decide_eq_true (by omega)
    rw [hfd] at hk hft hfs
    subst hc1
    exact ⟨hk, hft, hfs⟩
  case vc6 =>
    simp +zetaDelta
    exact flags_init _
  case vc7 =>
    rename_i hne win tm0 sm0 st _s sm nM hz hinv
    simp +zetaDelta at hne hz hinv
    obtain ⟨hk, _, _⟩ := hinv
    rw [hz] at hk
    exact absurd (List.eq_nil_of_length_eq_zero hk.symm) hne
  case vc8 =>
    rename_i hne win tm0 sm0 st _s sm nM hnz mm hinv
    simp +zetaDelta at hinv hne
    obtain ⟨hk, hft, hfs⟩ := hinv
    have hn : a.length ≠ 0 := fun e => hne (List.eq_nil_of_length_eq_zero e)
    have := jaro_final_self a.toArray st.2.1 st.1 a.length hn hfs hft
    simp +zetaDelta only [List.size_toArray, hk]
    exact this

/-! ## `jaroWinklerSim` -/

theorem jaroWinklerSim_ge_jaro (a b : List Char) (h1 : jaroSim a b ≤ 1) :
    jaroSim a b ≤ jaroWinklerSim a b := by
  unfold jaroWinklerSim
  simp only
  split
  · have hp : (0 : Rat) ≤ ((min (commonPrefix a b) 4 : Nat) : Rat) := Nat.cast_nonneg _
    have : 0 ≤ ((min (commonPrefix a b) 4 : Nat) : Rat) * (1 / 10) * (1 - jaroSim a b) :=
      mul_nonneg (mul_nonneg hp (by norm_num)) (by linarith)
    linarith
  · exact le_refl _

theorem jaroWinklerSim_le_one (a b : List Char) (h1 : jaroSim a b ≤ 1) :
    jaroWinklerSim a b ≤ 1 := by
  unfold jaroWinklerSim
  simp only
  split
  · have hp : ((min (commonPrefix a b) 4 : Nat) : Rat) ≤ 4 := by
      have : min (commonPrefix a b) 4 ≤ 4 := Nat.min_le_right _ _
      exact_mod_cast this
    have h2 : ((min (commonPrefix a b) 4 : Nat) : Rat) * (1 / 10) * (1 - jaroSim a b)
        ≤ 1 * (1 - jaroSim a b) :=
      mul_le_mul_of_nonneg_right (by linarith) (by linarith)
    linarith
  · exact h1

/-- Below the boost threshold Jaro–Winkler is Jaro. -/
theorem jaroWinklerSim_eq_jaro_of_le (a b : List Char) (h : jaroSim a b ≤ 7 / 10) :
    jaroWinklerSim a b = jaroSim a b := by
  unfold jaroWinklerSim
  simp only
  rw [if_neg (not_lt.2 h)]

theorem jaroWinklerSim_range (a b : List Char) : 0 ≤ jaroWinklerSim a b ∧ jaroWinklerSim a b ≤ 1 := by
  have h := jaroSim_range a b
  exact ⟨le_trans h.1 (jaroWinklerSim_ge_jaro a b h.2), jaroWinklerSim_le_one a b h.2⟩

theorem jaroWinklerSim_self (a : List Char) : jaroWinklerSim a a = 1 := by
  unfold jaroWinklerSim
  simp only [jaroSim_self]
  norm_num

end SplinkVerif.Metrics
