import SplinkVerif.Model.OneToOne
import SplinkVerif.Lemmas.CC
/-!
# Helper lemmas for C12 (single-best-links / one-to-one clustering)

Facts about `Model/OneToOne.lean`: what one pass does to a representative, uniqueness of
rank 1 per partition for every tie-break oracle, preservation of the duplicate-free
constraint, termination, the tie-free fixpoint has no candidate row, and connectivity from
the parent-forest invariant.
-/
namespace SplinkVerif.Lemmas.O2O
open SplinkVerif SplinkVerif.OneToOne SplinkVerif.Lemmas

/-! ## Tables as lists -/

theorem repOf_map_range (n : Nat) (f : Nat → Nat) (v : Nat) (hv : v < n) :
    repOf ((List.range n).map f) v = f v := by
  unfold repOf
  simp [List.getD_eq_getElem?_getD, hv]

theorem repOf_initial (I : Inst) (v : Nat) (hv : v < I.n) : repOf (initialReps I) v = v := by
  unfold repOf initialReps
  simp [List.getD_eq_getElem?_getD, hv]

theorem eq_map_of_length {rep : Reps} {n : Nat} (h : rep.length = n) :
    rep = (List.range n).map (repOf rep) := by
  apply List.ext_getElem
  · simp [h]
  · intro i h1 h2
    simp [repOf, List.getD_eq_getElem?_getD, h1]

theorem step_length (I : Inst) (oL oR : Oracle) (k : Nat) (rep : Reps) :
    (step I oL oR k rep).length = I.n := by simp [step]

theorem initial_length (I : Inst) : (initialReps I).length = I.n := by simp [initialReps]

theorem repOf_step (I : Inst) (oL oR : Oracle) (k : Nat) (rep : Reps) (v : Nat) (hv : v < I.n) :
    repOf (step I oL oR k rep) v = newRep rep (accepted I oL oR k rep) v :=
  repOf_map_range _ _ _ hv

/-! ## One pass, one node -/

theorem newRep_le (rep : Reps) (acc : List IRow) (v : Nat) : newRep rep acc v ≤ repOf rep v :=
  minOver_le_init _ _

theorem newRep_le_of_mem (rep : Reps) (acc : List IRow) (x : IRow) (hx : x ∈ acc) :
    newRep rep acc (node x) ≤ repOf rep (nbr x) := by
  unfold newRep
  apply minOver_le_mem
  refine List.mem_map.mpr ⟨x, List.mem_filter.mpr ⟨hx, ?_⟩, rfl⟩
  simp

theorem newRep_cases (rep : Reps) (acc : List IRow) (v : Nat) :
    newRep rep acc v = repOf rep v ∨
      ∃ x ∈ acc, node x = v ∧ newRep rep acc v = repOf rep (nbr x) := by
  unfold newRep
  rcases minOver_mem ((acc.filter fun x => node x == v).map fun x => repOf rep (nbr x))
      (repOf rep v) with h | h
  · exact Or.inl h
  · right
    obtain ⟨x, hx, hxe⟩ := List.mem_map.mp h
    obtain ⟨hxa, hxn⟩ := List.mem_filter.mp hx
    exact ⟨x, hxa, by simpa using hxn, hxe.symm⟩

/-! ## Flags, conflicts, candidates -/

theorem containsFlag_iff (I : Inst) (rep : Reps) (d g : Nat) :
    containsFlag I rep d g = true ↔ ∃ v, v < I.n ∧ repOf rep v = g ∧ I.ds v = d := by
  simp [containsFlag, List.any_eq_true, List.mem_range]

theorem conflict_iff (I : Inst) (rep : Reps) (g h : Nat) :
    conflict I rep g h = true ↔
      ∃ d ∈ I.dupFree, containsFlag I rep d g = true ∧ containsFlag I rep d h = true := by
  simp [conflict, List.any_eq_true]

theorem conflict_symm (I : Inst) (rep : Reps) (g h : Nat) :
    conflict I rep g h = conflict I rep h g := by
  rw [Bool.eq_iff_iff, conflict_iff, conflict_iff]
  constructor <;> (rintro ⟨d, hd, h1, h2⟩; exact ⟨d, hd, h2, h1⟩)

theorem isCand_iff (I : Inst) (rep : Reps) (x : IRow) :
    isCand I rep x = true ↔
      node x < I.n ∧ nbr x < I.n ∧ repOf rep (node x) ≠ repOf rep (nbr x) ∧
        conflict I rep (repOf rep (node x)) (repOf rep (nbr x)) = false := by
  simp [isCand, and_assoc]

theorem mem_cands (I : Inst) (rep : Reps) (x : IRow) :
    x ∈ cands I rep ↔ x ∈ rows I ∧ isCand I rep x = true := List.mem_filter

theorem mem_accepted (I : Inst) (oL oR : Oracle) (k : Nat) (rep : Reps) (x : IRow) :
    x ∈ accepted I oL oR k rep ↔
      x ∈ cands I rep ∧ rank1 rep node (oL k) (cands I rep) x = true ∧
        rank1 rep nbr (oR k) (cands I rep) x = true := by
  unfold accepted
  rw [List.mem_filter, Bool.and_eq_true]

/-! ## Rank 1 is unique per partition, whatever the oracle -/

theorem gt_asymm (prio : Nat → Nat) (x y : IRow) (h1 : gt prio x y = true)
    (h2 : gt prio y x = true) : False := by
  simp only [gt, Bool.or_eq_true, Bool.and_eq_true, decide_eq_true_eq, beq_iff_eq] at h1 h2
  omega

theorem rank1_unique (rep : Reps) (side : IRow → Nat) (prio : Nat → Nat) (cs : List IRow)
    (x y : IRow) (hx : x ∈ cs) (hy : y ∈ cs)
    (hp : repOf rep (side x) = repOf rep (side y))
    (h1 : rank1 rep side prio cs x = true) (h2 : rank1 rep side prio cs y = true) : x = y := by
  unfold rank1 at h1 h2
  rw [List.all_eq_true] at h1 h2
  have a := h1 y hy
  have b := h2 x hx
  simp only [Bool.or_eq_true, bne_iff_ne, ne_eq, beq_iff_eq] at a b
  rcases a with (a | a) | a
  · exact absurd hp.symm a
  · exact a.symm
  · rcases b with (b | b) | b
    · exact absurd hp b
    · exact b
    · exact (gt_asymm prio x y a b).elim

/-! ## The duplicate-free constraint is an invariant of every pass -/

theorem dupFree_initial (I : Inst) : DupFreeOK I (initialReps I) := by
  intro u v hu hv huv hrep _ _
  rw [repOf_initial I u hu, repOf_initial I v hv] at hrep
  exact huv hrep

theorem dupFree_step (I : Inst) (oL oR : Oracle) (k : Nat) (rep : Reps)
    (h : DupFreeOK I rep) : DupFreeOK I (step I oL oR k rep) := by
  intro u v hu hv huv hrep hds hmem
  rw [repOf_step I oL oR k rep u hu, repOf_step I oL oR k rep v hv] at hrep
  -- a node that took the label of an accepted row's neighbour: its old group holds `ds node`
  have key : ∀ (a b : Nat), a < I.n → b < I.n → I.ds a = I.ds b → I.ds a ∈ I.dupFree →
      ∀ x ∈ accepted I oL oR k rep, node x = a → repOf rep (nbr x) = repOf rep b → False := by
    intro a b ha hb hab hma x hx hxn hxe
    obtain ⟨hc, _, _⟩ := (mem_accepted I oL oR k rep x).mp hx
    obtain ⟨_, hcand⟩ := (mem_cands I rep x).mp hc
    obtain ⟨_, _, _, hconf⟩ := (isCand_iff I rep x).mp hcand
    have : conflict I rep (repOf rep (node x)) (repOf rep (nbr x)) = true := by
      rw [conflict_iff]
      refine ⟨I.ds a, hma, ?_, ?_⟩
      · rw [containsFlag_iff]; exact ⟨a, ha, by rw [hxn], rfl⟩
      · rw [containsFlag_iff]; exact ⟨b, hb, hxe.symm, hab.symm⟩
    rw [this] at hconf
    cases hconf
  rcases newRep_cases rep (accepted I oL oR k rep) u with hu0 | ⟨x, hx, hxn, hxe⟩
  · rcases newRep_cases rep (accepted I oL oR k rep) v with hv0 | ⟨y, hy, hyn, hye⟩
    · rw [hu0, hv0] at hrep
      exact h u v hu hv huv hrep hds hmem
    · rw [hu0, hye] at hrep
      exact key v u hv hu hds.symm (hds ▸ hmem) y hy hyn hrep.symm
  · rcases newRep_cases rep (accepted I oL oR k rep) v with hv0 | ⟨y, hy, hyn, hye⟩
    · rw [hxe, hv0] at hrep
      exact key u v hu hv hds hmem x hx hxn hrep
    · rw [hxe, hye] at hrep
      obtain ⟨hcx, _, hrx⟩ := (mem_accepted I oL oR k rep x).mp hx
      obtain ⟨hcy, _, hry⟩ := (mem_accepted I oL oR k rep y).mp hy
      have := rank1_unique rep nbr (oR k) (cands I rep) x y hcx hcy hrep hrx hry
      subst this
      exact huv (hxn.symm.trans hyn)

/-! ## The loop -/

theorem loop_inv (I : Inst) (oL oR : Oracle) (P : Reps → Prop)
    (hP : ∀ k rep, P rep → P (step I oL oR k rep)) :
    ∀ (fuel k : Nat) (rep : Reps), P rep → P (loop I oL oR fuel k rep).rep := by
  intro fuel
  induction fuel with
  | zero => intro k rep h; exact h
  | succ f ih =>
    intro k rep h
    unfold loop
    simp only
    split
    · exact hP k rep h
    · exact ih (k + 1) _ (hP k rep h)

theorem updCount_zero {I : Inst} {rep rep' : Reps} (h : updCount I rep rep' = 0) (v : Nat)
    (hv : v < I.n) : repOf rep' v = repOf rep v := by
  unfold updCount at h
  have h1 := List.length_eq_zero_iff.mp h
  rw [List.filter_eq_nil_iff] at h1
  have := h1 v (List.mem_range.mpr hv)
  simpa using this

theorem exists_of_updCount_ne {I : Inst} {rep rep' : Reps} (h : updCount I rep rep' ≠ 0) :
    ∃ v, v < I.n ∧ repOf rep' v ≠ repOf rep v := by
  unfold updCount at h
  obtain ⟨v, hv⟩ := List.exists_mem_of_length_pos (Nat.pos_of_ne_zero h)
  obtain ⟨hm, hp⟩ := List.mem_filter.mp hv
  exact ⟨v, List.mem_range.mp hm, by simpa using hp⟩

theorem eq_of_updCount_zero {I : Inst} {rep rep' : Reps} (h1 : rep.length = I.n)
    (h2 : rep'.length = I.n) (h : updCount I rep rep' = 0) : rep' = rep := by
  rw [eq_map_of_length h1, eq_map_of_length h2]
  apply List.map_congr_left
  intro v hv
  exact updCount_zero h v (List.mem_range.mp hv)

/-- When the loop leaves through its exit test, the returned table is a fixpoint of the last pass. -/
theorem loop_fix (I : Inst) (oL oR : Oracle) :
    ∀ (fuel k : Nat) (rep : Reps), rep.length = I.n →
      (loop I oL oR fuel k rep).done = true →
      step I oL oR (loop I oL oR fuel k rep).last (loop I oL oR fuel k rep).rep
        = (loop I oL oR fuel k rep).rep := by
  intro fuel
  induction fuel with
  | zero => intro k rep _ h; simp [loop] at h
  | succ f ih =>
    intro k rep hl
    unfold loop
    simp only
    split
    · rename_i hz
      intro _
      have := eq_of_updCount_zero hl (step_length I oL oR k rep) hz
      simp only
      rw [this, this]
    · intro hd
      exact ih (k + 1) _ (step_length I oL oR k rep) hd

def sumRep (I : Inst) (rep : Reps) : Nat := ((List.range I.n).map (repOf rep)).sum

theorem sumRep_step_lt (I : Inst) (oL oR : Oracle) (k : Nat) (rep : Reps)
    (h : updCount I rep (step I oL oR k rep) ≠ 0) :
    sumRep I (step I oL oR k rep) < sumRep I rep := by
  obtain ⟨v, hv, hne⟩ := exists_of_updCount_ne h
  have hle : ∀ x ∈ List.range I.n, repOf (step I oL oR k rep) x ≤ repOf rep x := by
    intro x hx
    rw [repOf_step I oL oR k rep x (List.mem_range.mp hx)]
    exact newRep_le _ _ _
  have := hle v (List.mem_range.mpr hv)
  exact sum_map_lt _ _ _ hle v (List.mem_range.mpr hv) (by omega)

theorem loop_done (I : Inst) (oL oR : Oracle) :
    ∀ (fuel k : Nat) (rep : Reps), sumRep I rep < fuel →
      (loop I oL oR fuel k rep).done = true := by
  intro fuel
  induction fuel with
  | zero => intro k rep h; omega
  | succ f ih =>
    intro k rep h
    unfold loop
    simp only
    split
    · rfl
    · rename_i hz
      have := sumRep_step_lt I oL oR k rep hz
      exact ih (k + 1) _ (by omega)

theorem sumRep_initial (I : Inst) : sumRep I (initialReps I) = (initialReps I).sum := by
  unfold sumRep
  have : (List.range I.n).map (repOf (initialReps I)) = initialReps I :=
    (eq_map_of_length (initial_length I)).symm
  rw [this]

theorem run_done (I : Inst) (oL oR : Oracle) : (run I oL oR).done = true := by
  unfold run
  apply loop_done
  rw [sumRep_initial]
  unfold fuel
  omega

theorem run_fix (I : Inst) (oL oR : Oracle) :
    step I oL oR (run I oL oR).last (run I oL oR).rep = (run I oL oR).rep :=
  loop_fix I oL oR _ _ _ (initial_length I) (run_done I oL oR)

theorem run_length (I : Inst) (oL oR : Oracle) : (run I oL oR).rep.length = I.n :=
  loop_inv I oL oR (fun r => r.length = I.n) (fun k rep _ => step_length I oL oR k rep) _ _ _
    (initial_length I)

theorem run_dupFree (I : Inst) (oL oR : Oracle) : DupFreeOK I (run I oL oR).rep :=
  loop_inv I oL oR (DupFreeOK I) (fun k rep h => dupFree_step I oL oR k rep h) _ _ _
    (dupFree_initial I)

theorem output_nodes (I : Inst) (rep : Reps) : (output I rep).map (·.1) = List.range I.n := by
  unfold output
  rw [List.map_map]
  conv => rhs; rw [← List.map_id (List.range I.n)]
  rfl

/-! ## Row identities -/

theorem mem_indexFrom_fst : ∀ (l : List Row) (s : Nat) (x : IRow), x ∈ indexFrom s l → x.1 ∈ l := by
  intro l
  induction l with
  | nil => intro s x h; simp [indexFrom] at h
  | cons r l ih =>
    intro s x h
    simp only [indexFrom, List.mem_cons] at h
    rcases h with rfl | h
    · exact List.mem_cons_self
    · exact List.mem_cons_of_mem _ (ih _ _ h)

theorem exists_mem_indexFrom : ∀ (l : List Row) (s : Nat) (r : Row), r ∈ l →
    ∃ j, (r, j) ∈ indexFrom s l := by
  intro l
  induction l with
  | nil => intro s r h; cases h
  | cons a l ih =>
    intro s r h
    rcases List.mem_cons.mp h with rfl | h
    · exact ⟨s, by simp [indexFrom]⟩
    · obtain ⟨j, hj⟩ := ih (s + 1) r h
      exact ⟨j, by simp [indexFrom, hj]⟩

theorem neighbours_swap (I : Inst) (r : Row) (h : r ∈ neighbours I) :
    (r.2.1, r.1, r.2.2) ∈ neighbours I := by
  unfold neighbours at *
  rcases List.mem_append.mp h with h | h
  · exact List.mem_append_right _ (List.mem_map.mpr ⟨r, h, rfl⟩)
  · obtain ⟨e, he, rfl⟩ := List.mem_map.mp h
    exact List.mem_append_left _ he

theorem rows_twin (I : Inst) (x : IRow) (h : x ∈ rows I) :
    ∃ j, ((nbr x, node x, prob x), j) ∈ rows I :=
  exists_mem_indexFrom _ _ _ (neighbours_swap I x.1 (mem_indexFrom_fst _ _ _ h))

theorem rows_of_kept (I : Inst) (e : Row) (h : e ∈ kept I) : ∃ j, (e, j) ∈ rows I :=
  exists_mem_indexFrom _ _ _ (List.mem_append_left _ h)

/-! ## Tie-free fixpoints have no candidate row -/

theorem exists_max : ∀ (cs : List IRow), cs ≠ [] → ∃ x ∈ cs, ∀ y ∈ cs, prob y ≤ prob x := by
  intro cs
  induction cs with
  | nil => intro h; exact absurd rfl h
  | cons a l ih =>
    intro _
    by_cases hl : l = []
    · subst hl
      exact ⟨a, List.mem_cons_self, fun y hy => by simp at hy; subst hy; exact Nat.le_refl _⟩
    · obtain ⟨m, hm, hmax⟩ := ih hl
      by_cases hc : prob m ≤ prob a
      · refine ⟨a, List.mem_cons_self, fun y hy => ?_⟩
        rcases List.mem_cons.mp hy with rfl | hy
        · exact Nat.le_refl _
        · exact Nat.le_trans (hmax y hy) hc
      · refine ⟨m, List.mem_cons_of_mem _ hm, fun y hy => ?_⟩
        rcases List.mem_cons.mp hy with rfl | hy
        · omega
        · exact hmax y hy

/-- A candidate row of globally maximal probability is rank 1 in both windows when
probabilities are pairwise distinct (its only equal is its own reverse, which lies in other
partitions) — for every pair of oracles. -/
theorem top_accepted (I : Inst) (oL oR : Oracle) (k : Nat) (rep : Reps) (htf : TieFree I)
    (x : IRow) (hx : x ∈ cands I rep) (hmax : ∀ y ∈ cands I rep, prob y ≤ prob x) :
    x ∈ accepted I oL oR k rep := by
  obtain ⟨hxr, hxc⟩ := (mem_cands I rep x).mp hx
  obtain ⟨_, _, hne, _⟩ := (isCand_iff I rep x).mp hxc
  have main : ∀ (side : IRow → Nat) (prio : Nat → Nat),
      (∀ y, node x = nbr y ∧ nbr x = node y → repOf rep (side y) ≠ repOf rep (side x)) →
      rank1 rep side prio (cands I rep) x = true := by
    intro side prio hside
    unfold rank1
    rw [List.all_eq_true]
    intro y hy
    simp only [Bool.or_eq_true, bne_iff_ne, ne_eq, beq_iff_eq]
    have hle := hmax y hy
    by_cases hlt : prob y < prob x
    · right
      simp [gt, hlt]
    · have heq : prob x = prob y := by omega
      obtain ⟨hyr, _⟩ := (mem_cands I rep y).mp hy
      rcases htf x hxr y hyr heq with h | h
      · left; right; exact h.symm
      · left; left; exact hside y h
  refine (mem_accepted I oL oR k rep x).mpr ⟨hx, main node (oL k) ?_, main nbr (oR k) ?_⟩
  · intro y ⟨h1, h2⟩
    show repOf rep (node y) ≠ repOf rep (node x)
    exact fun h => hne (by rw [h2]; exact h.symm)
  · intro y ⟨h1, h2⟩
    show repOf rep (nbr y) ≠ repOf rep (nbr x)
    exact fun h => hne (by rw [h1]; exact h)

theorem no_cands_of_fix (I : Inst) (oL oR : Oracle) (k : Nat) (rep : Reps) (htf : TieFree I)
    (hfix : step I oL oR k rep = rep) : cands I rep = [] := by
  apply Classical.byContradiction
  intro hne
  obtain ⟨x, hx, hmax⟩ := exists_max (cands I rep) hne
  obtain ⟨hxr, hxc⟩ := (mem_cands I rep x).mp hx
  obtain ⟨hn1, hn2, hrne, hconf⟩ := (isCand_iff I rep x).mp hxc
  obtain ⟨j, hj⟩ := rows_twin I x hxr
  -- the reversed row is a candidate too, with the same probability
  have hx' : ((nbr x, node x, prob x), j) ∈ cands I rep := by
    refine (mem_cands I rep _).mpr ⟨hj, (isCand_iff I rep _).mpr ⟨hn2, hn1, fun h => hrne h.symm, ?_⟩⟩
    show conflict I rep (repOf rep (nbr x)) (repOf rep (node x)) = false
    rw [conflict_symm]; exact hconf
  have a1 := newRep_le_of_mem rep _ x (top_accepted I oL oR k rep htf x hx hmax)
  have a2 := newRep_le_of_mem rep _ _ (top_accepted I oL oR k rep htf _ hx' hmax)
  have e1 := repOf_step I oL oR k rep (node x) hn1
  have e2 := repOf_step I oL oR k rep (nbr x) hn2
  rw [hfix] at e1 e2
  rw [← e1] at a1
  change newRep rep (accepted I oL oR k rep) (nbr x) ≤ repOf rep (node x) at a2
  rw [← e2] at a2
  exact hrne (Nat.le_antisymm a1 a2)

theorem maximal (I : Inst) (oL oR : Oracle) (htf : TieFree I) (e : Row) (he : e ∈ kept I)
    (h1 : e.1 < I.n) (h2 : e.2.1 < I.n)
    (hne : repOf (run I oL oR).rep e.1 ≠ repOf (run I oL oR).rep e.2.1) :
    ∃ d ∈ I.dupFree,
      (∃ u, u < I.n ∧ repOf (run I oL oR).rep u = repOf (run I oL oR).rep e.1 ∧ I.ds u = d) ∧
      (∃ v, v < I.n ∧ repOf (run I oL oR).rep v = repOf (run I oL oR).rep e.2.1 ∧ I.ds v = d) := by
  have hnc := no_cands_of_fix I oL oR _ _ htf (run_fix I oL oR)
  obtain ⟨j, hj⟩ := rows_of_kept I e he
  have hnot : isCand I (run I oL oR).rep (e, j) = false := by
    cases hc : isCand I (run I oL oR).rep (e, j) with
    | false => rfl
    | true =>
      have : (e, j) ∈ cands I (run I oL oR).rep := (mem_cands I _ _).mpr ⟨hj, hc⟩
      rw [hnc] at this
      cases this
  have hconf : conflict I (run I oL oR).rep (repOf (run I oL oR).rep e.1)
      (repOf (run I oL oR).rep e.2.1) = true := by
    cases hc : conflict I (run I oL oR).rep (repOf (run I oL oR).rep e.1)
        (repOf (run I oL oR).rep e.2.1) with
    | true => rfl
    | false =>
      have : isCand I (run I oL oR).rep (e, j) = true :=
        (isCand_iff I _ _).mpr ⟨h1, h2, hne, hc⟩
      rw [this] at hnot
      cases hnot
  obtain ⟨d, hd, c1, c2⟩ := (conflict_iff I _ _ _).mp hconf
  exact ⟨d, hd, (containsFlag_iff I _ _ _).mp c1, (containsFlag_iff I _ _ _).mp c2⟩

/-! ## Connectivity from the parent forest -/

theorem adjB_of_row (I : Inst) (rep : Reps) (x : IRow) (hx : x ∈ rows I) (h1 : node x < I.n)
    (h2 : nbr x < I.n) (he : repOf rep (node x) = repOf rep (nbr x)) :
    adjB I rep (node x) (nbr x) = true ∧ adjB I rep (nbr x) (node x) = true := by
  have hnb := mem_indexFrom_fst _ _ _ hx
  have hk : ∃ e ∈ kept I, (e.1 = node x ∧ e.2.1 = nbr x) ∨ (e.1 = nbr x ∧ e.2.1 = node x) := by
    unfold neighbours at hnb
    rcases List.mem_append.mp hnb with h | h
    · exact ⟨x.1, h, Or.inl ⟨rfl, rfl⟩⟩
    · obtain ⟨e, hek, hee⟩ := List.mem_map.mp h
      exact ⟨e, hek, Or.inr ⟨by show e.1 = x.1.2.1; rw [← hee], by show e.2.1 = x.1.1; rw [← hee]⟩⟩
  obtain ⟨e, hek, hor⟩ := hk
  constructor
  · simp only [adjB, Bool.and_eq_true, decide_eq_true_eq, beq_iff_eq, List.any_eq_true,
      Bool.or_eq_true]
    exact ⟨⟨⟨h1, h2⟩, he⟩, e, hek, hor⟩
  · simp only [adjB, Bool.and_eq_true, decide_eq_true_eq, beq_iff_eq, List.any_eq_true,
      Bool.or_eq_true]
    exact ⟨⟨⟨h2, h1⟩, he.symm⟩, e, hek, hor.symm⟩

/-- If a parent forest (`par`, with time stamps `τ` decreasing towards the root) satisfies
I-P at a table with no candidate row, every cluster is connected through kept edges. -/
theorem connected_of_forest (I : Inst) (rep : Reps) (par τ : Nat → Nat)
    (hroot : ∀ v, v < I.n → par v = v → repOf rep v = v)
    (hedge : ∀ v, v < I.n → par v ≠ v →
      par v < I.n ∧ τ (par v) < τ v ∧ ∃ x ∈ rows I, node x = v ∧ nbr x = par v)
    (hIP : ∀ v, v < I.n → par v ≠ v → repOf rep (par v) ≠ repOf rep v →
      conflict I rep (repOf rep v) (repOf rep (par v)) = false)
    (hnc : cands I rep = []) : Connected I rep := by
  -- parents carry the same label (otherwise the parent edge would be a candidate row)
  have same : ∀ v, v < I.n → par v ≠ v → repOf rep (par v) = repOf rep v := by
    intro v hv hp
    apply Classical.byContradiction
    intro hne
    obtain ⟨hpn, _, x, hx, hxn, hxb⟩ := hedge v hv hp
    have : x ∈ cands I rep := by
      refine (mem_cands I rep x).mpr ⟨hx, (isCand_iff I rep x).mpr ?_⟩
      rw [hxn, hxb]
      exact ⟨hv, hpn, fun h => hne h.symm, hIP v hv hp hne⟩
    rw [hnc] at this
    cases this
  have up : ∀ t v, v < I.n → τ v < t →
      Reach (fun a b => adjB I rep a b = true) v (repOf rep v) ∧
      Reach (fun a b => adjB I rep a b = true) (repOf rep v) v := by
    intro t
    induction t with
    | zero => intro v _ h; omega
    | succ t ih =>
      intro v hv ht
      by_cases hp : par v = v
      · rw [hroot v hv hp]
        exact ⟨Reach.refl _, Reach.refl _⟩
      · obtain ⟨hpn, hτ, x, hx, hxn, hxb⟩ := hedge v hv hp
        have hs := same v hv hp
        obtain ⟨r1, r2⟩ := ih (par v) hpn (by omega)
        rw [hs] at r1 r2
        have hadj := adjB_of_row I rep x hx (by rw [hxn]; exact hv) (by rw [hxb]; exact hpn)
          (by rw [hxn, hxb]; exact hs.symm)
        rw [hxn, hxb] at hadj
        exact ⟨reach_trans (reach_single hadj.1) r1, Reach.tail r2 hadj.2⟩
  intro u v hu hv huv
  have a := (up (τ u + 1) u hu (by omega)).1
  have b := (up (τ v + 1) v hv (by omega)).2
  rw [huv] at a
  exact reach_trans a b

/-! ## Stepping the loop on concrete inputs -/

theorem loop_next (I : Inst) (oL oR : Oracle) (f k : Nat) (rep rep' : Reps)
    (hs : step I oL oR k rep = rep') (h : updCount I rep rep' ≠ 0) :
    loop I oL oR (f + 1) k rep = loop I oL oR f (k + 1) rep' := by
  subst hs
  conv => lhs; unfold loop
  simp [h]

theorem loop_exit (I : Inst) (oL oR : Oracle) (f k : Nat) (rep rep' : Reps)
    (hs : step I oL oR k rep = rep') (h : updCount I rep rep' = 0) :
    loop I oL oR (f + 1) k rep = ⟨rep', k, true⟩ := by
  subst hs
  conv => lhs; unfold loop
  simp [h]

theorem reach_stuck {adj : Nat → Nat → Prop} {a b : Nat} (h : ∀ y, ¬ adj a y)
    (hr : Reach adj a b) : b = a := by
  induction hr with
  | refl => rfl
  | tail _ hjk ih => subst ih; exact (h _ hjk).elim

end SplinkVerif.Lemmas.O2O
